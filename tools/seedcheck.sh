#!/bin/sh
# usage: tools/seedcheck.sh <property> <patch.diff> [tier]
# Applies a seeded change to /repo, runs the property's check, prints its verdict lines and undoes the change.
set -u
P=${1:?property}; D=${2:?patch}; T=${3:-quick}
cd /verif || exit 2
if [ -n "$(git -C /repo status --porcelain)" ]; then echo "refusing: /repo is not clean"; exit 2; fi
cp evidence/$P.json /tmp/seedcheck.$$.evidence 2>/dev/null
git -C /repo apply "$D" || { echo "patch does not apply"; exit 2; }
./bin/check "$P" --tier "$T" > /tmp/seedcheck.$$.out 2>&1
rc=$?
git -C /repo checkout -- . 
# the evidence file committed under /verif is the one of the unchanged tree
[ -f /tmp/seedcheck.$$.evidence ] && mv /tmp/seedcheck.$$.evidence evidence/$P.json
grep -E "^(VIOLATION|KNOWN-FINDING)" /tmp/seedcheck.$$.out | grep -v KNOWN-FINDING | head -5
echo "exit=$rc"
for d in $(grep -oE "replay=[^ ]+" /tmp/seedcheck.$$.out | head -2 | cut -d= -f2); do echo "--- $d"; head -c 700 "$d/why.txt"; echo; done
rm -f /tmp/seedcheck.$$.out
