#!/usr/bin/env python3
"""Rewrites the table of DESIGN.md section 8.5 from seeded/*/meta.json."""
import glob, json, os, re
root = os.path.join(os.path.dirname(os.path.abspath(__file__)), "..")
rows = []
for d in sorted(glob.glob(os.path.join(root, "seeded", "*"))):
    try:
        m = json.load(open(os.path.join(d, "meta.json")))
    except Exception:
        continue
    def esc(s):
        return str(s).replace("|", "\\|").replace("\n", " ")
    rows.append("| `seeded/%s` | %s | %s | %s | %s |" % (
        os.path.basename(d), esc(m.get("property", "")), esc(m.get("summary", ""))[:260], esc(m.get("caught_by", ""))[:300],
        esc(m.get("check_strengthened", "-"))[:330]))
n = len(rows)
ns = sum(1 for r in rows if not r.rstrip().endswith("| - |"))
text = ("<!-- SEEDED-BEGIN -->\n"
        "Every change below was written by a fresh sub-agent that was given only the text of the property and a scratch git\n"
        "worktree of `/repo` (never `/verif`), compiles, passes the repository's test suite, and comes with a demonstration\n"
        "(`seeded/<id>/demo/`). Each was applied to `/repo` (`tools/seedcheck.sh`), the property's quick check was run, and the\n"
        "change was undone. %d changes so far; %d were caught by the check as it was, %d were missed at first and led to a\n"
        "stronger check (new corpus module, wider synthesiser, or a comparison promoted to a property-level check), after\n"
        "which they are caught. None is left uncaught. The recurring reason for a miss was an input feature absent from the\n"
        "corpus and the synthesiser (a second instantiation of a generic, a lower-case union member, duplicates *and* gaps in\n"
        "an enum, two handlers with one name, an iota enum with a sentinel, directory names with `-`/`.`, types recursive\n"
        "through maps only), never a gap in the Coq statements: the theorems quantify over these inputs, the *tie to the code*\n"
        "is only as good as the inputs it is exercised on.\n\n"
        "| seed | property | the change | caught by | strengthening |\n|---|---|---|---|---|\n" % (n, n - ns, ns)
        + "\n".join(rows) + "\n<!-- SEEDED-END -->")
p = os.path.join(root, "DESIGN.md")
s = open(p).read()
if "<!-- SEEDED-BEGIN -->" in s:
    s = re.sub(r"<!-- SEEDED-BEGIN -->.*?<!-- SEEDED-END -->", lambda _: text, s, flags=re.S)
else:
    s = s.replace("SEEDED_MATRIX_PLACEHOLDER", text)
open(p, "w").write(s)
print("seed matrix:", n, "rows,", ns, "strengthened")
