#!/usr/bin/env python3
"""Regenerates MANIFEST.json from the table below (kept in one place so it is always valid)."""
import json, os
V = os.path.dirname(os.path.dirname(os.path.abspath(__file__)))
props = [json.loads(l) for l in open(os.path.join(V, "properties.jsonl"))]

# per property: (text, level_note, technique, design_ref)
CLAIMS = {}
def claim(pid, text, note, technique, ref):
    CLAIMS[pid] = dict(text=text, note=note, technique=technique, ref=ref)

claim("C19",
      "Coq theorems over all declaration lists and all results of the unstable ID sort (exactly-once, grouping, order, permutation invariance), "
      "tied to generator.WriteDeclarations by evaluating the model (vm_compute) on every enumerated/random list the real function was run on; "
      "the premise of the invariance theorem (equal IDs carry equal content) is evaluated in Coq on the lists the real generators hand to WriteDeclarations for corpus modules and the repository's fixtures.",
      "Trusted: Coq kernel + vm_compute; sort.Slice/SliceStable are a correct (un)stable sort; the correspondence is exhaustive only up to the stated length.",
      "Coq proof (Permutation/StronglySorted) + model/implementation correspondence", "DESIGN.md §5 C19")

claim("C17",
      "Coq theorems: the modelled commonPrefix returns, for every non-empty list of absolute cleaned directories, the rendering of the deepest element-wise common ancestor "
      "(ancestor of each, deepest, depends only on the set); the match-back loop returns one listing package per file in order; neither can crash. "
      "Tied to /repo by the VerifCommonPrefix hook on thousands of path sets and by analysis.LoadSources on real module layouts (incl. error cases).",
      "Trusted: strings.Split/Join as modelled; packages.Load, os.Stat and the file system are environment (observed by the oracle, not proved); 'existing directory' follows from 'ancestor of an existing directory'.",
      "Coq proof (split/join round trip, list lcp) + hook/LoadSources correspondence + file-system oracle", "DESIGN.md §5 C17")

claim("C20",
      "Coq theorems over every schedule, every number of concurrent requests and every tool environment for the instruction-level interleaving semantics of the "
      "lazy-probe protocol: no data race on a cache field (lockset invariant), every access under the mutex, each tool probed at most once, formatter run exactly once per request iff the tool is present, "
      "absent tool = nil and no run, failing run = error, no nil dereference, progress and an 8-steps-per-request bound. The program is re-translated from generator/formatters.go and cmd/gomacro.go "
      "on every run and must be accepted by the Coq shape checker (compile/well_locked, vm_compute); the real FormatFile is driven under -race with recording stand-in tools and its probe/run/error counts must equal the model's; "
      "the command itself (cmd/gomacro.go:saveOutputs, one goroutine per output on the shared cache) is built with -race and run with stand-in tools: a failing run must reach the user, the race detector must stay silent.",
      "Trusted: the go/ast translator; sync.Mutex semantics; the Go memory model, scheduler and os/exec are not modelled - the race detector run is the link (partial in that respect). Thread-local statements (switch, defer registration, log) are folded into the adjacent shared step.",
      "Coq proof (Owicki-Gries style invariants over an interleaving semantics) + translator/reflection + -race correspondence", "DESIGN.md §5 C20")

claim("C10",
      "Coq theorems over all constant tables: a defined type is an enum iff some non-opted-out typed constant of its package exists; members = exactly those constants (values, comments, export status); "
      "the iota flag is sound (integer-backed, exported values 0..n-1 in the reported order - pigeonhole + sorted-permutation argument) and complete for every enum whose exported values are a permutation of 0..n-1; the walk never crashes. "
      "Tied to /repo by comparing, for every corpus and synthesised module, the model's enum table computed from go/types facts with the table of analysis.fetchEnumsAndUnions (hook), "
      "and by evaluating the property itself in Coq on the observed table.",
      "Trusted: the facts extractor (go/types constants, go/ast candidate nodes); scope.Names() order; sort.Sort modelled as a stable sort (enums have < 12 members in the cases).",
      "Coq proof (pigeonhole/permutation) + facts-to-table correspondence + property evaluated on observed tables", "DESIGN.md §5 C10")

claim("C11",
      "Coq theorems: an interface is a union of its package iff a non-interface defined type of the package has a method set containing the interface's (members = exactly those, each once, in name order), "
      "and a struct's Implements list is exactly the analysed unions listing it, sorted, each once, independent of the iteration order over the union map. "
      "Tied to /repo by comparing the model's union table (from go/types method-set facts) with fetchEnumsAndUnions (hook) and every struct node reachable in the real analysis graph (walked by pointer, registered in Types or not) with the model's back-links; "
      "the property is also evaluated in Coq on the observed graph alone, and membership is re-derived with types.Implements as a third opinion.",
      "Trusted: method sets and signatures as printed by go/types (implements = inclusion of (id, signature) pairs, exact for method-only interfaces; constraint interfaces are not generated); the graph walker.",
      "Coq proof (filter/sort/permutation lemmas) + table and graph correspondence + types.Implements oracle", "DESIGN.md §5 C11")

claim("C12",
      "Coq theorems about the one-level classifier (model of createType) and the closure it generates: every result entry is the classification of its position, the result is closed under links and contains every source declaration, "
      "each node is faithful to the go/types type at its position (kind, array length, key/element, basic kind) and its Type() reconstruction is that type with time.Time reported as predefined. "
      "Tied to /repo by walking the real analysis graph from Source and from every Types entry with the go/types type of each position in hand and comparing node by node with the model closure; "
      "faithfulness / closure / source order are also evaluated in Coq on the observed graph alone. Termination: C12_terminates proves that the worklist of the model never reports unbounded recursion once the fuel exceeds closure_bound (computed from the program: every position belongs to a finite universe and is expanded once), for every program, recursive declarations included; "
      "the correspondence runs the model with exactly that fuel and the real memoised DFS is observed per case (child process, timeout).",
      "Trusted: the facts extractor and graph walker; the closure model abstracts the memo table (structural positions instead of type-object identity): termination is proved for the model and observed for the implementation.",
      "Coq proof (closure soundness/closedness by induction on fuel, termination by a decreasing potential over a finite universe) + node-by-node graph correspondence", "DESIGN.md §5 C12, §8.1")

claim("C09",
      "Coq theorems over all field lists and tags (reflect.StructTag.Get modelled byte by byte for tags without escapes): a field is selected iff encoding/json serialises it and it is not gomacro-ignored; "
      "the emitted key list equals encoding/json's key list of the struct without its ignored fields whenever tag names are valid; adding/removing an ignored field anywhere leaves the key list unchanged. "
      "Tied to /repo per struct node: Exported()/JSONName() of every field against the model; the key lists read back from the real TypeScript, Dart and SQL-validator texts against the model and against the keys written by the real encoding/json "
      "(struct rebuilt with reflect.StructOf); metamorphic pairs (module, module + ignored field) must give identical TypeScript/Dart texts and unchanged validators.",
      "Trusted: regex readers of the three outputs (key lists only); reflect.StructOf reconstruction; class restrictions: no backslash escapes in tags, no key conflict between flattened embedded structs (guard evaluated per case).",
      "Coq proof (tag scanner, list lemmas) + field-table/key-list correspondence + real encoding/json oracle + metamorphic oracle", "DESIGN.md §5 C09")

claim("C18",
      "Decisive dynamic oracle: analysis + the seven generators run stage by stage (child process, recovered panic value: runtime.Error / fatal = crash) on corpus and synthesised modules mixing every legal spelling with every unsupported form. "
      "Coq theorems for the modelled crash mechanisms, for all inputs: the one-level classifier only refuses with diagnostics, the closure can only fail by divergence, enum detection is total for every constant declaration shape, "
      "the fixed-width name slicing functions (gounions, randdata, sql, dart) are total for names of every length; pinned-tree crashes kept as refutation witnesses. "
      "Tie: the analysis outcome class per module equals the model's, and the names produced by the slicing functions are read back from the generated texts and compared with the model's.",
      "Partial: crashes inside template code not modelled (fmt calls, the rest of the generators, go/types) are only observed, not proved absent; the proof covers the mechanisms named in the property's anchors.",
      "Coq proof (totality of modelled mechanisms) + outcome-class / name correspondence + stage-wise panic oracle", "DESIGN.md §5 C18")

claim("C07",
      "Coq theorems: each kind of map-range loop found in gomacro (merge of distinct keys, independent per-binding update, collect-then-sort, first hit of a unique match, Implements back-links) gives the same result for every permutation of the bindings, "
      "and (C19) the assembled text is independent of declaration order. Tie: the set of map-range sites, rand/time.Now/%p uses is re-inventoried from /repo with go/types on every run and must equal the model's site table (each site classified into a proved kind); "
      "dynamically every target is generated repeatedly in-process (Go re-randomises each range) and in 3 fresh processes, and all texts and Dart file sets must coincide.",
      "Trusted: the classification of each site into its kind (read from the code, table in Model/MapOrder.v); go/packages returning the same packages in every process; the inventory tool.",
      "Coq proof (permutation invariance per site kind) + static site inventory reflected in Coq + repeated-run hash oracle", "DESIGN.md §5 C07")

claim("C01",
      "Decided on every run by the real type checker: each output of gounions / randdata / sqlcrud (generate-sets on and off) that the tool accepts goes through x/tools/imports.Process and is type-checked with go/types next to its source package, "
      "for corpus and synthesised modules. Coq carries the template obligations of the identifier-deciding parts (enum choice list = exactly the exported members and a well-formed expression list; Scan/Value receivers local and non-interface; no redeclaration), "
      "proved for the model and evaluated in Coq on the identifiers parsed back (go/parser) from the real files. "
      "gounions is modelled in full as a traversal (Model/GoUnionsGen.v: which declarations are emitted, in which order, with the types, constants, methods and wrapper types each one declares or mentions, and the refusals): "
      "theorems for every program - the output is closed under the wrapper types it mentions without a package, methods have local receivers, only <Union>Wrapper types are declared and distinct unions get distinct wrappers - and the model's list is compared "
      "with the list of the real generator, declaration by declaration, on every module. randdata likewise (Model/RandGen.v, Proofs/C01r.v): every function rand<X>() a generated function calls is declared by the output, recursive types included, with no premise; the model's function list, order and calls are compared with the real ones.",
      "Partial by nature: Go's type system is not formalised in Coq; the obligations proved do not imply compilation - the go/types oracle does, on the cases run. github.com/lib/pq is replaced by an API-compatible stand-in (not available offline).",
      "go/types + goimports oracle on real outputs; Coq proof of template obligations + identifier correspondence", "DESIGN.md §5 C01")

claim("C08",
      "Coq model of the whole schema computation (snake-case names, column selection incl. guards, Go-to-SQL type mapping with sql.Null* look-alikes / composites / bytea / typed arrays / jsonb, nullability, inline CHECKs, primary key, foreign keys by ID type and by tag, validator CHECKs, composite declarations) "
      "with theorems reading each clause of the statement off the model (NOT NULL iff not nullable wrapper nor variable array; enum CHECK = exactly the constants as SQL literals; id = serial primary key; foreign key iff ID type of another table or tag, one constraint each). "
      "Tied to /repo by parsing the real script (tables, columns, foreign keys, CHECK constraints, CREATE TYPE) for corpus and synthesised model files and comparing it with the model computed from go/types facts and the observed analysis.",
      "Trusted: the regex reader of the script; the meaning of the DDL itself (no PostgreSQL server is available to execute it).",
      "Coq proof (characterisation of the schema model) + parsed-DDL correspondence", "DESIGN.md §5 C08")

claim("C16",
      "Coq model of the directive pipeline with the regular expressions written as scanners (special comments, _SELECT KEY exclusion, REFERENCES rewrite, whole-word table-name replacement, #[Type.Const] substitution by SQL literals, guard constraints, QUERY placeholder numbering and rewriting) "
      "and theorems: the tokenisation is a partition of the text and only whole words naming a table struct change; ADD constraints are attached to the table they are computed for; placeholder names are numbered injectively, equal names sharing a number, one Go argument per distinct name, each a column. "
      "Tied to /repo by comparing the constraint section of the real SQL script and the custom-query functions parsed from the real CRUD file with the model, for corpus and synthesised model files; "
      "ownership of directives (single / grouped declarations, neighbours) is checked against the syntax tree read independently; argument types against the compared field's declared type.",
      "Trusted: regex readers of the two outputs; the scanners are validated only through these end-to-end comparisons (no per-regex hook). Reading fixed: a placeholder is numbered at its first occurrence in a comparison 'field = $name$'.",
      "Coq proof (tokenisation / numbering lemmas) + constraint-section and custom-query correspondence + syntax-tree ownership oracle", "DESIGN.md §5 C16")

claim("C13",
      "Coq theorems on the extraction model (one endpoint per kept registration in source order with its verb and URL; the prefix filter keeps exactly the URLs with the prefix; the contract is named after the handler and lists query parameters in statement order), "
      "tied to /repo by running httpapi.ParseEcho on synthesised route files whose abstract content (registrations, constant-folded URLs, handler kinds, contract statements) is known by construction, under three prefix filters, and comparing every field of every endpoint.",
      "Partial: the syntax scan, constant folding through go/types and handler resolution are exercised by the comparison with the synthesiser's route table, not modelled in Coq (the model starts from the abstract route file). Trusted: the route synthesiser.",
      "Coq proof (filter/fold lemmas on the extraction model) + ParseEcho correspondence against the synthesiser's route table", "DESIGN.md §5 C13")
claim("C14",
      "Coq theorem: for every endpoint carrying data only with POST/PUT and every query-parameter kind, the request issued by the modelled method under axios' calling conventions is exactly the specified one (verb, URL, JSON body | exactly the declared form entries | null | none, "
      "exactly the declared query keys with their conversions, headers, response type, returned value); one method per endpoint named after its handler. Tied to /repo by parsing every method of the real client text into the same IR and comparing it with the model; "
      "the parsed methods are also interpreted in Coq and compared with the specified request, and the type names mentioned by signatures must be declared exactly once.",
      "Relative to AxiosSem (axios calling conventions written in Coq); the client is not executed nor type-checked (no TypeScript toolchain offline): syntactic validity is what the harness reader accepts. Trusted: that reader.",
      "Coq proof (request = specification) + parsed-client correspondence + semantic check of parsed methods", "DESIGN.md §5 C14")

claim("C06",
      "Coq theorems: constructor arguments / JSON keys of a class are one per field encoding/json serialises, in order (via C09); the value table of a non-positional enum round-trips every listed wire value; for positional enums the index of an exported member is its value (via the soundness of the iota flag, C10). "
      "Tied to /repo by parsing the real Dart files (imports, definitions, uses, classes with implements lists and constructor arguments, union dispatch tables, enum member/value tables) and comparing the tables with the model computed from go/types facts and the observed analysis; "
      "the keys read by fromJson and written by toJson of every class are read from the text and compared with the model (and with the constructor, on the text alone); the file each class, union and enum is found in must be the one the model of analysis.NewLinker assigns to its package (dart_out_file, both GOPATH and non-GOPATH roots); "
      "the link conditions (each used class / typedef / helper defined exactly once in the file or its imports, imports exist, no self import) are evaluated in Coq on the parsed files; "
      "the generator as a traversal (Model/DartGen.v: cache, declarations per file in append order, import edges) is compared with the declaration lists and import blocks the real generator hands to WriteDeclarations, file by file, and the link condition is evaluated on its output (theorems C06_import_block*, C06_links_closed_means_every_reference_resolves, C06_traversal_imports_lead_to_emitted_files (no dangling import edge) and C06_traversal_output_is_linked: for every analysis graph the output of the traversal resolves every reference through a used type in the same file or an imported one; the unions a class implements are outside the theorem and are evaluated on every run, see DESIGN 8.1).",
      "Relative to DartSem (enum conversions only); generated Dart is never executed or analysed (no SDK offline). Trusted: the regex reader of the Dart files.",
      "Coq proof (enum conversion lemmas, key lemma via C09) + parsed-table correspondence + link resolution evaluated in Coq", "DESIGN.md §5 C06")

claim("C02",
      "Decided dynamically on every run: a test binary is built from the source package + the real generated wrappers (after goimports); for every analysed type, random values (nil/empty/non-empty containers, zero values, unicode and HTML-sensitive strings, every union member) "
      "are marshalled and unmarshalled with the real encoding/json and compared (deep equality modulo nil/empty), and the bytes are compared with a reflection-driven reference encoder that knows the unions from a registry only. "
      "In Coq the wire format is the shape of the documents of each type (Sem/GoJson.v, computed from the analysis); lemmas state what conformance means at union positions ({Kind: member, Data: member document}, exactly two keys) and struct positions (exact key set); "
      "every document written by the real encoder is checked by vm_compute to conform to the shape of its type. "
      "The round trip is a Coq theorem about a codec model (Sem/GoVal.v: encode/decode = Marshal/Unmarshal with the wrappers, directed by the wire shape): C02_round_trip (decode (encode v) = Some v' with v' equal to v modulo nil/empty, all environments, shapes, values, depths), "
      "C02_encoded_documents_conform, C02_union_value_on_the_wire. Tie: the test binary dumps every value before and after the real round trip; Check_C02 requires the model's encode to write the very document the real encoder wrote and its decode to build the very value the real decoder built.",
      "Trusted: the reflection driver (harness/testbin/driver.go.txt) incl. its reference encoder and its value dump (the abstraction: pointer = pointee, struct = serialised fields, []byte = base64 text); encoding/json is modelled (validated on every value of every run), not verified. "
      "Not a value of the model: a non-nil pointer to a nil pointer/slice/map (encoding/json itself does not round-trip it).",
      "Coq round-trip theorem on a codec model validated against the real encoder/decoder on every value + real round trips in a compiled test binary + reference encoder", "DESIGN.md §5 C02, §8.1")

claim("C15",
      "Coq theorems on the call structure of the generated functions (a function calls the functions of its components unconditionally): a well-founded structure gives termination for every random stream; a type that reaches itself never returns (the open finding, as a theorem). "
      "Tied to /repo by compiling the real generated functions with the source package and calling them under several seeds, one process per type with a time limit: the model's termination prediction per type must equal what happened. "
      "Values: Sem/RandSem.v models rand<T>() as a function of the random numbers drawn (gen) and states well-formedness (wf: enum components among the exported constants, union components holding a member, populated arrays / slices / maps, skipped fields zero); "
      "C15_generated_values_are_well_formed proves wf of whatever gen returns, for every sequence of draws. Tie: a shim package records every call the real generated code makes to math/rand (function, argument, result); gen replayed on that record must rebuild the very value the real function returned, and wf is evaluated in Coq on each real value. "
      "Variation and the JSON round trip are checked by reflection in the test binary.",
      "Partial: variation is observed, not proved; float64 values are not computed by the model (the product of two draws: any number is accepted there). Trusted: the reflection driver and its value dump, the recording shim (harness/testbin/zzrand.go.txt, same results as math/rand), the constants of the templates copied into the model (validated by the replay on every call).",
      "Coq proof (termination iff acyclic call structure; well-formedness of every value of the generator model) + per-call replay of the model on recorded random draws + reflection oracle on real values", "DESIGN.md §5 C15, §8.1")

claim("C03",
      "Coq: the Go wire shapes (Sem/GoJson.v, validated against the real encoder) and the TypeScript environment with structural inhabitation (Sem/TsSem.v: exact keys, null only where allowed, tuple lengths, enum literal sets, Kind/Data unions); "
      "theorems = the induction steps 'conformance to the Go shape implies inhabitation of the TypeScript form', one per type former. The induction is closed by evaluation on every run: the real TypeScript file is parsed into an environment, compared declaration by declaration with the model, "
      "checked closed and duplicate-free, and every document written by the real Go encoder for random values of every analysed type is checked in Coq to inhabit its declaration. "
      "The generator itself is modelled as a traversal (Model/TsGen.v: declarations emitted, order, identifiers, names declared and mentioned) with the theorem that every type name a declaration mentions is built in or declared by the list, recursive types included (Proofs/C03t.v); the model's list is compared with the list of the real generator declaration by declaration.",
      "Global theorem C03_documents_inhabit: under a decidable agreement table between the parsed TypeScript environment and the wire shapes (Sem/TsSim.v, computed on every run for every documented type), every conforming document of any size and depth inhabits its type. Relative to TsSem; no TypeScript compiler offline (syntactic validity = the reader understands the whole file). Trusted: the TypeScript reader, the test binary driver.",
      "Coq proof (global inhabitation theorem under a computed agreement premise + per-former lemmas) + parsed-declaration correspondence + inhabitation of every real document evaluated in Coq", "DESIGN.md §5 C03")

claim("C04",
      "Coq: the six PL/pgSQL validator templates as an AST with their evaluation over jsonb under three-valued logic (Sem/PgSem.v), the Go wire shapes (Sem/GoJson.v), the single-point corruptions of a document at every position from the five classes (Sem/Corrupt.v), "
      "and a decidable agreement between a script and a shape environment (Sem/PgSim.v: a closed table of (validator, shape) pairs). Theorems, for any script, shapes and table satisfying it: every document of the shape, of any size and depth, passes the CHECK; "
      "every single-point corruption evaluates to false; every called validator is defined. On every run the real script is parsed into the AST, compared function by function and CHECK by CHECK with the model (Model/SqlJson.v: typeID/functionName/codeFor*), "
      "the premise is computed for every jsonb column, and every document the real Go encoder writes for the column plus all its corruptions are evaluated in Coq (search for the failing input).",
      "PgSem is a reading of the PostgreSQL manual (no server offline); jsonb numbers limited to the literals Go writes; RAISE WARNING ignored. Trusted: the script reader (any text outside the six templates is reported), the test binary driver.",
      "Coq proof (acceptance and refusal theorems under a computed agreement premise) + parsed-script correspondence + evaluation of real documents and their corruptions in Coq", "DESIGN.md §5 C04")

claim("C05",
      "Coq: the statements of the generated CRUD functions as a small SQL AST (Model/Crud.v: the parallel lists of newColumnsCode and the templates of primary_table.go, link_table.go, sql.go) with a meaning over one table (Sem/SqlStore.v: folded column names, serial id, NULL comparisons). "
      "Theorems, for every table (any columns, id at any position, guards) with distinct folded names and every history: Insert returns the item with its id and stores it, Update replaces the item of that id only (WHERE id = $n), Select/Delete by id, ids, foreign key, unique columns or select key return (and remove) exactly the matching items, "
      "histories of generated calls refine the list-of-items model, an inserted row comes back equal from the select by id, link tables append/remove links, every model statement carries placeholders $1..$n for n arguments. "
      "On every run the real generated Go file is parsed (SQL text, argument expressions, scan destinations), compared function by function with the model, and every statement is checked in Coq against the schema parsed from the real SQL script (tables/columns exist up to case, written columns receive item.<their field>, unwritten columns have a default, result columns line up with scan destinations).",
      "Run-time oracle: the generated CRUD file (after goimports), the source package and a functional stand-in for lib/pq are compiled into a test binary; histories of the generated functions (Insert, Select*, Update, Delete*, InsertMany, by foreign key / unique columns / select key), called by reflection with random items, run over database/sql against an in-memory driver that enforces the schema parsed from the generated script (column kinds, NOT NULL, serial ids, defaults, enum and array-length CHECKs, UNIQUE groups, transactions), and are compared with a map model: this executes the Scan/Value converters of every column kind. "
      "No PostgreSQL offline: the driver and Sem/SqlStore.v are readings of PostgreSQL for the emitted subset (foreign keys and the jsonb validators are not enforced there: C04). Trusted: the Go-file and SQL readers, the in-memory driver, the lib/pq stand-in.",
      "Coq proof (refinement of the list-of-items model by the generated statements, unbounded histories) + parsed-statement correspondence + schema well-formedness evaluated in Coq + run-time histories against a schema-enforcing in-memory database/sql driver", "DESIGN.md §5 C05")

NOT_YET = "check not built yet in this round (planned, see DESIGN.md §6)"

checks, na = [], []
for p in props:
    pid = p["id"]
    if pid in CLAIMS:
        c = CLAIMS[pid]
        checks.append({
            "property_id": pid,
            "quick_cmd": "./bin/check %s --tier quick" % pid,
            "thorough_cmd": "./bin/check %s --tier thorough" % pid,
            "evidence_file": "evidence/%s.json" % pid,
            "replay_cmd_template": "./bin/check %s --replay {path}" % pid,
            "engine": "coq-model+correspondence",
            "level_claimed": {"category": "proof", "text": c["text"], "design_ref": c["ref"]},
            "level_note": c["note"],
            "technique": c["technique"],
        })
    else:
        na.append({"property_id": pid, "reason": NOT_YET})

m = {
    "version": 1,
    "setup_cmd": "./bin/setup",
    "hooks": {"guard": "verif", "enable": "go build -tags verif (the harness is built with this tag against /repo's working tree)",
              "baseline_off_cmd": "./bin/baseline", "source_commits": [], "add_only": True},
    "engines": [{"name": "coq-model+correspondence", "path": "coq/ + harness/ + bin/check",
                 "serves_properties": sorted(CLAIMS), "kind_free_text": "hand-written Gallina models with Coq 8.16 theorems; Go harness runs /repo and emits cases evaluated in Coq by vm_compute"}],
    "checks": checks,
    "not_applicable": na,
    "notes": "All checks: ./bin/check <id> [--tier quick|thorough]; seeds from VERIF_SEED; known findings in known_findings.json.",
}
hooks_file = os.path.join(V, "MANIFEST.hooks")
if os.path.exists(hooks_file):
    m["hooks"]["source_commits"] = [l.split()[0] for l in open(hooks_file) if l.strip() and not l.startswith("#")]
json.dump(m, open(os.path.join(V, "MANIFEST.json"), "w"), indent=1)
print("MANIFEST.json: %d checks, %d not_applicable" % (len(checks), len(na)))
