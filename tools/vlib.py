"""Common machinery of the /verif checks: Coq build, harness build, case evaluation,
known findings, evidence, VIOLATION lines."""
import fcntl
import hashlib
import json
import os
import re
import shutil
import subprocess
import sys
import time
from concurrent.futures import ThreadPoolExecutor

VERIF = os.path.dirname(os.path.dirname(os.path.abspath(__file__)))
COQ = os.path.join(VERIF, "coq")
GEN = os.path.join(COQ, "Gen")
HARNESS = os.path.join(VERIF, "harness")
REPO = os.environ.get("VERIF_REPO", "/repo")
EVID = os.path.join(VERIF, "evidence")
REPLAY = os.path.join(EVID, "replay")

GOENV = dict(os.environ, GOFLAGS="-mod=mod", GOPROXY="off", GOSUMDB="off", GOTOOLCHAIN="local",
             CGO_ENABLED=os.environ.get("CGO_ENABLED", "1"))

FORBIDDEN = re.compile(r"\b(Admitted|admit|Axiom|Parameter|Conjecture|Unset Guard|bypass_check|Admit Obligations|native_compute)\b")

TRUSTED_BASE = [
    "Coq 8.16.1 kernel and vm_compute (no native_compute, no extraction)",
    "axioms: none (Print Assumptions under every property theorem prints 'Closed under the global context')",
    "hand-written Gallina model of the anchored Go functions; tie = correspondence check run on every invocation against /repo's working tree",
    "Go harness (facts extractor, IR readers, case emitters) and Python driver",
    "go/packages, go/types, the Go compiler and runtime",
]


def log(*a):
    print(*a, file=sys.stderr, flush=True)


def _big_stack():
    # coqc recurses on long string literals (generated files hold whole generated texts): lift the stack limit
    try:
        import resource
        _, hard = resource.getrlimit(resource.RLIMIT_STACK)
        resource.setrlimit(resource.RLIMIT_STACK, (hard, hard))
    except Exception:
        pass


def run(cmd, cwd=None, env=None, timeout=None, input=None):
    p = subprocess.run(cmd, cwd=cwd, env=env, timeout=timeout, input=input, preexec_fn=_big_stack,
                       stdout=subprocess.PIPE, stderr=subprocess.STDOUT, text=True, errors="replace")
    return p.returncode, p.stdout


class Lock:
    def __init__(self, name):
        os.makedirs(os.path.join(VERIF, ".cache"), exist_ok=True)
        self.path = os.path.join(VERIF, ".cache", name + ".lock")

    def __enter__(self):
        self.f = open(self.path, "w")
        fcntl.flock(self.f, fcntl.LOCK_EX)
        return self

    def __exit__(self, *a):
        fcntl.flock(self.f, fcntl.LOCK_UN)
        self.f.close()


def coq_sources():
    out = []
    for d in ("Base", "Facts", "Model", "Sem", "Proofs", "Properties", "Corr"):
        p = os.path.join(COQ, d)
        if os.path.isdir(p):
            for f in sorted(os.listdir(p)):
                if f.endswith(".v"):
                    out.append(os.path.join(d, f))
    return out


def forbidden_vernacular():
    """grep the development for anything that would make a theorem unsound."""
    hits = []
    for rel in coq_sources():
        with open(os.path.join(COQ, rel)) as f:
            txt = f.read()
        # strip comments (non nested is enough to avoid false hits in prose; nested handled by loop)
        prev = None
        while prev != txt:
            prev = txt
            txt = re.sub(r"\(\*[^*(]*(?:\*(?!\))[^*(]*|\((?!\*)[^*(]*)*\*\)", " ", txt)
        for m in FORBIDDEN.finditer(txt):
            hits.append("%s: %s" % (rel, m.group(1)))
    return hits


def build_coq(clean=False):
    """Full .vo build of the hand-written development (a no-op when up to date)."""
    with Lock("coq"):
        srcs = coq_sources()
        proj = "-Q . GM\n" + "\n".join(srcs) + "\n"
        pj = os.path.join(COQ, "_CoqProject")
        old = open(pj).read() if os.path.exists(pj) else ""
        if old != proj or not os.path.exists(os.path.join(COQ, "Makefile")) or clean:
            with open(pj, "w") as f:
                f.write(proj)
            rc, out = run(["coq_makefile", "-f", "_CoqProject", "-o", "Makefile"], cwd=COQ)
            if rc != 0:
                return False, out
        if clean:
            run(["make", "clean"], cwd=COQ)
        rc, out = run(["timeout", "3000", "make", "-j16"], cwd=COQ)
        return rc == 0, out


def property_obligations(prop):
    """Compile Properties/<prop>.v on its own and read back the theorems and their assumptions."""
    rel = os.path.join("Properties", prop + ".v")
    src = open(os.path.join(COQ, rel)).read()
    theorems = re.findall(r"^\s*Theorem\s+(\w+)", src, flags=re.M)
    with Lock("coq"):
        rc, out = run(["timeout", "600", "coqc", "-Q", ".", "GM", rel], cwd=COQ)
    res = []
    ok = rc == 0
    # Print Assumptions outputs come in order of the Print Assumptions commands
    printed = re.findall(r"^\s*Print Assumptions\s+(\w+)", src, flags=re.M)
    blocks = []
    if ok:
        cur = None
        for line in out.splitlines():
            if line.startswith("Closed under the global context"):
                blocks.append("closed")
                cur = None
            elif line.startswith("Axioms:"):
                cur = [line]
                blocks.append(cur)
            elif cur is not None:
                cur.append(line)
    assum = {}
    for name, b in zip(printed, blocks):
        assum[name] = "Closed under the global context" if b == "closed" else "\n".join(b)
    for t in theorems:
        a = assum.get(t)
        res.append({"name": t, "file": "coq/" + rel, "assumptions": a if a is not None else "NOT PRINTED",
                    "discharged": ok and a == "Closed under the global context"})
    return ok, out, res


def build_harness():
    with Lock("harness"):
        # go.sum of the harness follows /repo's
        try:
            shutil.copyfile(os.path.join(REPO, "go.sum"), os.path.join(HARNESS, "go.sum"))
        except OSError:
            pass
        os.makedirs(os.path.join(HARNESS, "bin"), exist_ok=True)
        rc, out = run(["go", "build", "-tags", "verif", "-o", "bin/harness", "."], cwd=HARNESS, env=GOENV, timeout=900)
        return rc == 0, out


def run_harness(prop, tier, seed, extra_args=(), timeout=3000):
    out_dir = os.path.join(GEN, prop)
    shutil.rmtree(out_dir, ignore_errors=True)
    os.makedirs(out_dir, exist_ok=True)
    cmd = [os.path.join(HARNESS, "bin", "harness"), "-tier", tier, "-seed", str(seed), "-out", out_dir]
    cmd += list(extra_args) + [prop]
    rc, out = run(cmd, cwd=HARNESS, env=GOENV, timeout=timeout)
    meta = None
    mp = os.path.join(out_dir, "meta.json")
    if os.path.exists(mp):
        meta = json.load(open(mp))
    return rc, out, meta, out_dir


BAD_RE = re.compile(r"\bbad\s*=\s*(.*?)\s*:\s*list", re.S)
BADP_RE = re.compile(r"\bbad_prop\s*=\s*(.*?)\s*:\s*list", re.S)


def eval_case_file(path, timeout=1500):
    """coqc one generated case file; returns (ok, bad_indices | None, output)."""
    rc, out = run(["timeout", str(timeout), "coqc", "-Q", COQ, "GM", path], cwd=os.path.dirname(path))
    if rc != 0:
        return False, None, out
    m = BAD_RE.search(out)
    if not m:
        return False, None, out
    body = m.group(1)
    idx = [int(x) for x in re.findall(r"\d+", body)]
    mp = BADP_RE.search(out)
    if mp:
        # property-level failures are tagged with a negative sign convention: returned as a second list
        pidx = [int(x) for x in re.findall(r"\d+", mp.group(1))]
        return True, (idx, pidx), out
    return True, (idx, None), out


def eval_cases(out_dir, names, jobs=16):
    results = {}
    with ThreadPoolExecutor(max_workers=jobs) as ex:
        futs = {n: ex.submit(eval_case_file, os.path.join(out_dir, n + ".v")) for n in names}
        for n, f in futs.items():
            results[n] = f.result()
    return results


def load_known():
    p = os.path.join(VERIF, "known_findings.json")
    if not os.path.exists(p):
        return []
    return json.load(open(p))


def known_open(prop, cls):
    for k in load_known():
        if k.get("property") == prop and k.get("class") == cls and k.get("status") == "open":
            return k
    return None


def write_replay(prop, n, payload, why):
    d = os.path.join(REPLAY, "%s-%d" % (prop, n))
    shutil.rmtree(d, ignore_errors=True)
    os.makedirs(d, exist_ok=True)
    with open(os.path.join(d, "input.json"), "w") as f:
        json.dump(payload, f, indent=1, default=str)
    with open(os.path.join(d, "why.txt"), "w") as f:
        f.write(why + "\n")
    with open(os.path.join(d, "replay.sh"), "w") as f:
        f.write("#!/bin/sh\n# re-run the check that produced this replay; the failing input is in input.json\n"
                "cd %s && ./bin/check %s --replay %s\n" % (VERIF, prop, d))
    os.chmod(os.path.join(d, "replay.sh"), 0o755)
    return d


def write_evidence(prop, ev):
    os.makedirs(EVID, exist_ok=True)
    with open(os.path.join(EVID, prop + ".json"), "w") as f:
        json.dump(ev, f, indent=1, default=str)


def repo_fingerprint():
    h = hashlib.sha256()
    for root, dirs, files in os.walk(REPO):
        dirs[:] = sorted(d for d in dirs if d != ".git")
        for fn in sorted(files):
            if fn.endswith(".go") or fn in ("go.mod", "go.sum"):
                p = os.path.join(root, fn)
                h.update(p.encode())
                try:
                    h.update(open(p, "rb").read())
                except OSError:
                    pass
    return h.hexdigest()[:16]
