#!/usr/bin/env python3
"""tools/seedimport.py <property> <src dir> <name> <caught_by text> [strengthened text]
Copies a confirmed seeded change (patch.diff, demo/, meta.json) into /verif/seeded/<name>/ and records which check
caught it."""
import json, os, shutil, sys
prop, src, name, caught = sys.argv[1:5]
strengthened = sys.argv[5] if len(sys.argv) > 5 else ""
dst = os.path.join(os.path.dirname(os.path.abspath(__file__)), "..", "seeded", name)
shutil.rmtree(dst, ignore_errors=True)
os.makedirs(dst)
shutil.copy(os.path.join(src, "patch.diff"), dst)
if os.path.isdir(os.path.join(src, "demo")):
    def ign(d, names):
        return [n for n in names if os.path.isfile(os.path.join(d, n)) and os.path.getsize(os.path.join(d, n)) > 300000]
    shutil.copytree(os.path.join(src, "demo"), os.path.join(dst, "demo"), ignore=ign)
meta = {}
try:
    meta = json.load(open(os.path.join(src, "meta.json")))
except Exception as e:
    meta = {"note": "meta.json of the sub-agent unreadable: %s" % e}
meta["property"] = prop
meta["origin"] = "fresh sub-agent given only the property text and a scratch worktree of /repo"
meta["caught_by"] = caught
if strengthened:
    meta["check_strengthened"] = strengthened
json.dump(meta, open(os.path.join(dst, "meta.json"), "w"), indent=1)
print("stored", dst)
