(** Proofs about the directive-expansion model (Model/Comments.v). *)
From Coq Require Import List String Ascii Bool Arith Lia.
From GM Require Import Base.Result Facts.GoFacts Facts.Ana Model.Enums Model.SqlTypes Model.Comments.
Import ListNotations.
Local Open Scope string_scope.
Local Open Scope list_scope.

(** ** tokenisation *)
Lemma append_assoc (a b c : string) : ((a ++ b) ++ c)%string = (a ++ (b ++ c))%string.
Proof. induction a as [|x a IH]; simpl; [reflexivity|]. rewrite IH. reflexivity. Qed.

Lemma append_nil_r (a : string) : (a ++ "")%string = a.
Proof. induction a as [|x a IH]; simpl; [reflexivity|]. rewrite IH. reflexivity. Qed.

Lemma tokens_aux_concat s : forall cur w, String.concat "" (tokens_aux s cur w) = (cur ++ s)%string.
Proof.
  induction s as [|c r IH]; intros cur w; simpl.
  - destruct cur; simpl; [reflexivity|]. rewrite append_nil_r. reflexivity.
  - destruct cur as [|c0 cur0].
    + rewrite IH. reflexivity.
    + destruct (Bool.eqb (is_word c) w).
      * rewrite IH. rewrite append_assoc. reflexivity.
      * change (String.concat "" (String c0 cur0 :: tokens_aux r (String c "") (is_word c)))
          with (match tokens_aux r (String c "") (is_word c) with
                | [] => String c0 cur0
                | _ => (String c0 cur0 ++ "" ++ String.concat "" (tokens_aux r (String c "") (is_word c)))%string end).
        specialize (IH (String c "") (is_word c)).
        destruct (tokens_aux r (String c "") (is_word c)) eqn:E.
        -- simpl in IH. discriminate.
        -- rewrite IH. reflexivity.
Qed.

(** the tokens are a partition of the text *)
Lemma tokens_concat s : String.concat "" (tokens s) = s.
Proof. unfold tokens. apply tokens_aux_concat. Qed.

(** a token outside the table, and every non-word token, is left as it is *)
Lemma subst_word_other tbl t : token_is_word t = false -> subst_word tbl t = t.
Proof. unfold subst_word. intros ->. reflexivity. Qed.

Lemma subst_word_unknown tbl t : lookup_str t tbl = None -> subst_word tbl t = t.
Proof. unfold subst_word. intros ->. destruct (token_is_word t); reflexivity. Qed.

Lemma subst_word_known tbl t v : token_is_word t = true -> lookup_str t tbl = Some v -> subst_word tbl t = v.
Proof. unfold subst_word. intros -> ->. reflexivity. Qed.

(** with no table name in the text, nothing changes *)
Lemma replace_words_identity tbl s :
  Forall (fun t => lookup_str t tbl = None) (tokens s) -> replace_words tbl s = s.
Proof.
  intro H. unfold replace_words. rewrite <- (tokens_concat s) at 2. f_equal.
  induction H as [|t r Ht Hr IH]; simpl; [reflexivity|]. rewrite (subst_word_unknown _ _ Ht), IH. reflexivity.
Qed.

(** ** numbering of the placeholders of a custom query *)
Lemma number_names_spec ms : forall seen,
  NoDup (map snd seen) ->
  NoDup (map snd (number_names ms seen)) /\
  (forall nm, In nm (map snd (number_names ms seen)) <-> In nm (map snd seen) \/ In nm (map snd ms)) /\
  (exists tail, number_names ms seen = rev seen ++ tail).
Proof.
  induction ms as [|[fld nm] r IH]; intros seen Hn; simpl.
  - repeat split.
    + rewrite map_rev. apply NoDup_rev. assumption.
    + rewrite map_rev. intro H. left. apply in_rev. assumption.
    + intros [H|[]]. rewrite map_rev. apply -> in_rev. assumption.
    + exists []. rewrite app_nil_r. reflexivity.
  - destruct (existsb (fun p => String.eqb (snd p) nm) seen) eqn:E.
    + destruct (IH seen Hn) as [A [B C]]. repeat split; auto.
      * intro H. apply B in H. tauto.
      * intros [H|[<-|H]]; apply B; auto. left.
        apply existsb_exists in E. destruct E as [p [Hp Ep]]. apply String.eqb_eq in Ep. subst. apply in_map. assumption.
    + assert (NoDup (map snd ((fld, nm) :: seen))) as Hn'.
      { simpl. constructor; [|assumption]. intro Hin. apply in_map_iff in Hin. destruct Hin as [p [Ep Hp]].
        assert (existsb (fun p => String.eqb (snd p) nm) seen = true); [|congruence].
        apply existsb_exists. exists p. split; [assumption|]. apply String.eqb_eq. assumption. }
      destruct (IH _ Hn') as [A [B [tail C]]]. repeat split; auto.
      * intro H. apply B in H. simpl in H. tauto.
      * intro H. apply B. simpl. tauto.
      * exists ((fld, nm) :: tail). rewrite C. simpl. rewrite <- app_assoc. reflexivity.
Qed.

(** distinct names get distinct numbers, equal names share one, every compared name gets one *)
Lemma numbering ms :
  NoDup (map snd (number_names ms [])) /\
  (forall nm, In nm (map snd (number_names ms [])) <-> In nm (map snd ms)).
Proof.
  destruct (number_names_spec ms [] (NoDup_nil _)) as [A [B _]]. split; [assumption|].
  intro nm. rewrite B. simpl. tauto.
Qed.

Lemma index_of_name_spec nm inputs : forall k i,
  index_of_name nm inputs k = Some i -> k <= i /\ exists f, nth_error inputs (i - k) = Some (f, nm).
Proof.
  induction inputs as [|[f n] r IH]; intros k i H; simpl in H; [discriminate|].
  destruct (String.eqb_spec n nm).
  - inversion H; subst. split; [lia|]. exists f. rewrite Nat.sub_diag. reflexivity.
  - destruct (IH (S k) i H) as [L [f' N]]. split; [lia|]. exists f'.
    replace (i - k) with (S (i - S k)) by lia. assumption.
Qed.

(** the Go function takes one argument per distinct name *)
Lemma custom_query_arguments cols comment q :
  new_custom_query cols comment = Ok q ->
  NoDup (map snd (cq_inputs q)) /\ Forall (fun p => In (fst p) cols) (cq_inputs q).
Proof.
  unfold new_custom_query. destruct (cut_space comment) as [name query].
  set (inputs := number_names (find_field_eqs (S (String.length comment)) comment) []).
  destruct (find (fun p => negb (existsb (String.eqb (fst p)) cols)) inputs) eqn:F; [discriminate|].
  intro H. inversion H; subst q. simpl. split.
  - apply (numbering (find_field_eqs (S (String.length comment)) comment)).
  - rewrite Forall_forall. intros p Hp. pose proof (find_none _ _ F p Hp) as X.
    apply negb_false_iff in X. apply existsb_exists in X. destruct X as [c [Hc E]]. apply String.eqb_eq in E. subst. assumption.
Qed.

(** ownership: a constraint starting with ADD is attached to the table given to [custom_constraint] *)
Lemma custom_constraint_owner pr enums rep tsql content out :
  custom_constraint pr enums rep tsql content = Ok out ->
  exists body, replace_enums_all pr enums (replace_words rep (rewrite_references (S (String.length content)) content)) = Ok body /\
    out = if String.prefix "ADD" body then ("ALTER TABLE " ++ tsql ++ " " ++ body ++ ";")%string else (body ++ ";")%string.
Proof.
  unfold custom_constraint. destruct (replace_enums_all pr enums _) as [b| |]; simpl; try discriminate.
  intro H. exists b. split; [reflexivity|]. destruct (String.prefix "ADD" b); inversion H; reflexivity.
Qed.
