(** C04: the validators admit every document of the wire shape and refuse every single-point
    corruption of it, for any script and any shape environment related by a closed table of agreeing
    pairs ([sim_ok], checked by computation on every run against the real script). *)
From Coq Require Import List String Ascii ZArith Bool Arith Lia.
From GM Require Import Sem.GoJson Sem.PgSem Sem.Corrupt Sem.PgSim.
Import ListNotations.
Local Open Scope string_scope.

(** * boolean equalities are sound *)
Lemma json_eqb_eq : forall a b, json_eqb a b = true -> a = b.
Proof.
  fix IH 1. intros a b. destruct a as [| x | x | x | l | l], b as [| y | y | y | l' | l']; simpl; try discriminate; intros H.
  - reflexivity.
  - apply Bool.eqb_prop in H. subst. reflexivity.
  - apply String.eqb_eq in H. subst. reflexivity.
  - apply String.eqb_eq in H. subst. reflexivity.
  - f_equal. revert l' H. induction l as [|p l IHl]; intros [|q l']; try discriminate; intros H.
    + reflexivity.
    + apply andb_true_iff in H. destruct H as [H1 H2]. f_equal; [apply IH; exact H1 | apply IHl; exact H2].
  - f_equal. revert l' H. induction l as [|[k p] l IHl]; intros [|[k' q] l']; try discriminate; intros H.
    + reflexivity.
    + apply andb_true_iff in H. destruct H as [H1 H2]. apply andb_true_iff in H1. destruct H1 as [H0 H1].
      apply String.eqb_eq in H0. subst. f_equal; [f_equal; apply IH; exact H1 | apply IHl; exact H2].
Qed.

Lemma list_eqb_eq {A} (f : A -> A -> bool) : (forall a b, f a b = true -> a = b) -> forall l l', list_eqb f l l' = true -> l = l'.
Proof.
  intros Hf l. induction l as [|x l IH]; intros [|y l']; simpl; try discriminate; intros H; [reflexivity|].
  apply andb_true_iff in H. destruct H as [H1 H2]. f_equal; [apply Hf; exact H1 | apply IH; exact H2].
Qed.

Lemma jshape_eqb_eq : forall a b, jshape_eqb a b = true -> a = b.
Proof.
  induction a; intros b; destruct b; simpl; try discriminate; intros H; try reflexivity.
  - f_equal. apply IHa. exact H.
  - f_equal. apply IHa. exact H.
  - apply andb_true_iff in H. destruct H as [H1 H2]. apply Nat.eqb_eq in H1. subst. f_equal. apply IHa. exact H2.
  - f_equal. apply IHa. exact H.
  - f_equal. apply (list_eqb_eq json_eqb json_eqb_eq). exact H.
  - apply String.eqb_eq in H. subst. reflexivity.
Qed.

(** * three-valued logic *)
Definition passes (t : tri) : Prop := t = TTrue \/ t = TNull.

Lemma passes_check t : passes t <-> check_passes t = true.
Proof. unfold passes. destruct t; simpl; split; intros H; try (destruct H; discriminate); try discriminate; auto. Qed.

Lemma passes_not_err t : passes t -> t <> TErr.
Proof. intros [H | H]; subst; discriminate. Qed.

Lemma tri_and_pass a b : passes a -> passes b -> passes (tri_and a b).
Proof. intros [Ha | Ha] [Hb | Hb]; subst; simpl; unfold passes; auto. Qed.

Lemma tri_and_false_r a : a <> TErr -> tri_and a TFalse = TFalse.
Proof. destruct a; simpl; congruence. Qed.

Lemma bool_and_cons x l : l <> [] ->
  bool_and (x :: l) = match x, bool_and l with
                      | TErr, _ | _, TErr => TErr
                      | TFalse, _ | _, TFalse => TFalse
                      | TNull, y => y
                      | x', TNull => x'
                      | TTrue, TTrue => TTrue
                      end.
Proof. destruct l; [congruence | reflexivity]. Qed.

Lemma bool_and_pass l : (forall x, In x l -> passes x) -> passes (bool_and l).
Proof.
  induction l as [|x l IH]; intros H; [right; reflexivity|].
  destruct l as [|y l].
  - simpl. apply H. left. reflexivity.
  - rewrite bool_and_cons by discriminate.
    assert (Hx : passes x) by (apply H; left; reflexivity).
    assert (Hr : passes (bool_and (y :: l))) by (apply IH; intros z Hz; apply H; right; exact Hz).
    destruct Hx as [Hx | Hx], Hr as [Hr | Hr]; rewrite Hx, Hr; unfold passes; auto.
Qed.

Lemma bool_and_no_err l : (forall x, In x l -> x <> TErr) -> bool_and l <> TErr.
Proof.
  induction l as [|a l IH]; intros H0; [simpl; discriminate|].
  destruct l as [|b l]; [simpl; apply H0; left; reflexivity|].
  rewrite bool_and_cons by discriminate.
  assert (Ha : a <> TErr) by (apply H0; left; reflexivity).
  assert (Hb : bool_and (b :: l) <> TErr) by (apply IH; intros z Hz; apply H0; right; exact Hz).
  destruct a, (bool_and (b :: l)); congruence.
Qed.

(** no element raises and one is false: false *)
Lemma bool_and_false l : (forall x, In x l -> x <> TErr) -> In TFalse l -> bool_and l = TFalse.
Proof.
  induction l as [|x l IH]; intros Hne Hin; [destruct Hin|].
  destruct l as [|y l].
  - simpl. destruct Hin as [Hin | []]. exact Hin.
  - rewrite bool_and_cons by discriminate.
    assert (Hx : x <> TErr) by (apply Hne; left; reflexivity).
    destruct Hin as [Hin | Hin].
    + subst x.
      assert (Hr : bool_and (y :: l) <> TErr).
      { clear IH Hx. revert Hne. generalize (y :: l). intros l0 Hne.
        assert (H0 : forall z, In z l0 -> z <> TErr) by (intros z Hz; apply Hne; right; exact Hz). clear Hne.
        induction l0 as [|a l0 IH0]; [simpl; discriminate|].
        destruct l0 as [|b l0]; [simpl; apply H0; left; reflexivity|].
        rewrite bool_and_cons by discriminate.
        assert (Ha : a <> TErr) by (apply H0; left; reflexivity).
        assert (Hb : bool_and (b :: l0) <> TErr) by (apply IH0; intros z Hz; apply H0; right; exact Hz).
        destruct a, (bool_and (b :: l0)); congruence. }
      destruct (bool_and (y :: l)); congruence.
    + rewrite IH; [| intros z Hz; apply Hne; right; exact Hz | exact Hin].
      destruct x; congruence.
Qed.

Section Fold.
  Context {A : Type} (g : A -> tri).
  Definition foldc (cs : list A) (init : tri) : tri := fold_left (fun acc c => tri_and acc (g c)) cs init.

  Lemma foldc_false cs : foldc cs TFalse = TFalse.
  Proof. induction cs as [|c cs IH]; simpl; [reflexivity | exact IH]. Qed.

  Lemma foldc_pass cs init : passes init -> (forall c, In c cs -> passes (g c)) -> passes (foldc cs init).
  Proof.
    revert init. induction cs as [|c cs IH]; intros init Hi H; simpl; [exact Hi|].
    apply IH; [apply tri_and_pass; [exact Hi | apply H; left; reflexivity] | intros c' Hc'; apply H; right; exact Hc'].
  Qed.

  (** the key condition holds or is null, no check raises, one check is false: false *)
  Lemma foldc_one_false cs init : passes init -> (forall c, In c cs -> g c <> TErr) -> (exists c, In c cs /\ g c = TFalse) -> foldc cs init = TFalse.
  Proof.
    revert init. induction cs as [|c cs IH]; intros init Hi Hne [c0 [Hin H0]]; [destruct Hin|].
    simpl. destruct Hin as [Hin | Hin].
    - subst c0. rewrite H0. rewrite tri_and_false_r by (apply passes_not_err; exact Hi). apply foldc_false.
    - assert (Hc : g c <> TErr) by (apply Hne; left; reflexivity).
      destruct (g c) eqn:Hg; try congruence.
      + apply IH; [apply tri_and_pass; [exact Hi | left; reflexivity] | intros c' Hc'; apply Hne; right; exact Hc' | exists c0; auto].
      + rewrite tri_and_false_r by (apply passes_not_err; exact Hi). apply foldc_false.
      + apply IH; [apply tri_and_pass; [exact Hi | right; reflexivity] | intros c' Hc'; apply Hne; right; exact Hc' | exists c0; auto].
  Qed.
End Fold.

(** * lists *)
Lemma forallb2_combine {A B} (f : A -> B -> bool) a b : forallb2 f a b = true ->
  List.length a = List.length b /\ forall x y, In (x, y) (combine a b) -> f x y = true.
Proof.
  revert b. induction a as [|x a IH]; intros [|y b]; simpl; try discriminate; intros H.
  - split; [reflexivity | intros ? ? []].
  - apply andb_true_iff in H. destruct H as [H1 H2]. destruct (IH b H2) as [Hl Hc]. split; [lia|].
    intros x' y' [Heq | Hin]; [inversion Heq; subst; exact H1 | apply Hc; exact Hin].
Qed.

Lemma combine_in_l {A B} (a : list A) (b : list B) x : List.length a = List.length b -> In x a -> exists y, In (x, y) (combine a b).
Proof.
  revert b. induction a as [|x' a IH]; intros [|y b] Hl Hin; simpl in *; try discriminate; [destruct Hin|].
  destruct Hin as [Heq | Hin]; [subst; exists y; left; reflexivity|].
  destruct (IH b ltac:(lia) Hin) as [y' Hy]. exists y'. right. exact Hy.
Qed.

Lemma combine_in_r {A B} (a : list A) (b : list B) y : List.length a = List.length b -> In y b -> exists x, In (x, y) (combine a b).
Proof.
  revert b. induction a as [|x' a IH]; intros [|y' b] Hl Hin; simpl in *; try discriminate; try (destruct Hin; fail).
  destruct Hin as [Heq | Hin]; [subst; exists x'; left; reflexivity|].
  destruct (IH b ltac:(lia) Hin) as [x Hx]. exists x. right. exact Hx.
Qed.

Lemma in_firstn {A} n (l : list A) x : In x (firstn n l) -> In x l.
Proof.
  revert l. induction n as [|n IH]; intros [|y l]; simpl; try tauto.
  intros [H | H]; [left; exact H | right; apply IH; exact H].
Qed.

Lemma indexed_split_gen {A} (l : list A) a i x : In (i, x) (combine (seq a (List.length l)) l) ->
  exists l1 l2, l = (l1 ++ x :: l2)%list /\ forall c, replace_nth (i - a) c l = (l1 ++ c :: l2)%list.
Proof.
  revert a. induction l as [|y l IH]; intros a Hin; simpl in Hin; [destruct Hin|].
  destruct Hin as [Heq | Hin].
  - inversion Heq; subst. exists [], l. split; [reflexivity|]. intros c. rewrite Nat.sub_diag. reflexivity.
  - assert (Hlt : S a <= i).
    { apply in_combine_l in Hin. apply in_seq in Hin. lia. }
    destruct (IH (S a) Hin) as [l1 [l2 [Hl Hr]]]. exists (y :: l1), l2. split; [simpl; f_equal; exact Hl|].
    intros c. replace (i - a) with (S (i - S a)) by lia. simpl. f_equal. apply Hr.
Qed.

Lemma indexed_split {A} (l : list A) i x : In (i, x) (indexed l) ->
  exists l1 l2, l = (l1 ++ x :: l2)%list /\ forall c, replace_nth i c l = (l1 ++ c :: l2)%list.
Proof.
  intros H. destruct (indexed_split_gen l 0 i x H) as [l1 [l2 [Hl Hr]]]. exists l1, l2. split; [exact Hl|].
  intros c. rewrite <- (Hr c). f_equal. lia.
Qed.

Lemma in_removelast {A} (l : list A) x : In x (removelast l) -> In x l.
Proof.
  induction l as [|y l IH]; simpl; [tauto|]. destruct l as [|z l]; [intros []|].
  intros [H | H]; [left; exact H | right; apply IH; exact H].
Qed.

Lemma removelast_length {A} (l : list A) : l <> [] -> S (List.length (removelast l)) = List.length l.
Proof.
  induction l as [|y l IH]; [congruence|]. intros _. destruct l as [|z l]; [reflexivity|].
  change (removelast (y :: z :: l)) with (y :: removelast (z :: l)). simpl List.length. f_equal. apply IH. discriminate.
Qed.

(** keys *)
Lemma assoc_in k l v : assoc_json k l = Some v -> In (k, v) l.
Proof.
  induction l as [|[k' v'] l IH]; simpl; [discriminate|].
  destruct (String.eqb k k') eqn:E; [apply String.eqb_eq in E; intros H; inversion H; subst; left; reflexivity | intros H; right; apply IH; exact H].
Qed.

Lemma set_key_keys k c l : map fst (set_key k c l) = map fst l.
Proof.
  induction l as [|[k' v'] l IH]; simpl; [reflexivity|].
  destruct (String.eqb k k'); simpl; [reflexivity | f_equal; exact IH].
Qed.

Lemma set_key_split k c l : In k (map fst l) -> exists l1 v l2, l = (l1 ++ (k, v) :: l2)%list /\ set_key k c l = (l1 ++ (k, c) :: l2)%list.
Proof.
  induction l as [|[k' v'] l IH]; simpl; [intros []|]. intros Hin.
  destruct (String.eqb k k') eqn:E.
  - apply String.eqb_eq in E. subst k'. exists [], v', l. split; reflexivity.
  - destruct Hin as [Heq | Hin]; [subst; rewrite String.eqb_refl in E; discriminate|].
    destruct (IH Hin) as [l1 [v [l2 [H1 H2]]]]. exists ((k', v') :: l1), v, l2. split; simpl; f_equal; assumption.
Qed.

Lemma assoc_set_key_same k c l : In k (map fst l) -> assoc_json k (set_key k c l) = Some c.
Proof.
  induction l as [|[k' v'] l IH]; simpl; [intros []|]. intros Hin.
  destruct (String.eqb k k') eqn:E; simpl; rewrite E; [reflexivity|].
  destruct Hin as [Heq | Hin]; [subst; rewrite String.eqb_refl in E; discriminate | apply IH; exact Hin].
Qed.

Lemma assoc_set_key_other k k' c l : k' <> k -> assoc_json k' (set_key k c l) = assoc_json k' l.
Proof.
  intros Hne. induction l as [|[k0 v0] l IH]; simpl; [reflexivity|].
  destruct (String.eqb k k0) eqn:E; simpl.
  - apply String.eqb_eq in E. subst k0. destruct (String.eqb k' k) eqn:E'; [apply String.eqb_eq in E'; congruence | reflexivity].
  - destruct (String.eqb k' k0); [reflexivity | exact IH].
Qed.

Lemma assoc_app k l l' : assoc_json k (l ++ l')%list = match assoc_json k l with Some v => Some v | None => assoc_json k l' end.
Proof.
  induction l as [|[k0 v0] l IH]; simpl; [reflexivity|]. destruct (String.eqb k k0); [reflexivity | exact IH].
Qed.

Lemma nodupb_NoDup l : nodupb l = true -> NoDup l.
Proof.
  induction l as [|x l IH]; simpl; intros H; [constructor|].
  apply andb_true_iff in H. destruct H as [H1 H2]. constructor; [| apply IH; exact H2].
  intros Hin. apply negb_true_iff in H1. assert (existsb (String.eqb x) l = true) by (apply existsb_exists; exists x; split; [exact Hin | apply String.eqb_refl]). congruence.
Qed.

Lemma nodup_map_inj {A} (f : A -> string) l x y : NoDup (map f l) -> In x l -> In y l -> f x = f y -> x = y.
Proof.
  induction l as [|a l IH]; simpl; intros Hnd Hx Hy Heq; [destruct Hx|].
  inversion Hnd as [|? ? Hnotin Hnd']; subst.
  destruct Hx as [Hx | Hx], Hy as [Hy | Hy]; subst.
  - reflexivity.
  - exfalso. apply Hnotin. rewrite Heq. apply in_map. exact Hy.
  - exfalso. apply Hnotin. rewrite <- Heq. apply in_map. exact Hx.
  - apply IH; assumption.
Qed.

(** parallel lists with the same keys: [find] by key returns paired elements *)
Lemma find_paired {B} (P : string * string -> string * B -> bool) cases (members : list (string * B)) k m :
  forallb2 (fun c m => String.eqb (fst c) (fst m) && P c m) cases members = true ->
  find (fun m => String.eqb (fst m) k) members = Some m ->
  exists c, find (fun c : string * string => String.eqb (fst c) k) cases = Some c /\ P c m = true.
Proof.
  revert members. induction cases as [|c cases IH]; intros [|m' members]; simpl; try discriminate.
  intros H Hf. apply andb_true_iff in H. destruct H as [H1 H2]. apply andb_true_iff in H1. destruct H1 as [H0 H1].
  apply String.eqb_eq in H0. rewrite H0. destruct (String.eqb (fst m') k) eqn:E.
  - inversion Hf; subst. exists c. split; [reflexivity | exact H1].
  - apply (IH members H2 Hf).
Qed.

Lemma find_none_paired {B} (P : string * string -> string * B -> bool) cases (members : list (string * B)) k :
  forallb2 (fun c m => String.eqb (fst c) (fst m) && P c m) cases members = true ->
  existsb (fun m => String.eqb (fst m) k) members = false ->
  find (fun c : string * string => String.eqb (fst c) k) cases = None.
Proof.
  revert members. induction cases as [|c cases IH]; intros [|m' members]; simpl; try discriminate; [reflexivity|].
  intros H Hf. apply andb_true_iff in H. destruct H as [H1 H2]. apply andb_true_iff in H1. destruct H1 as [H0 H1].
  apply String.eqb_eq in H0. rewrite H0. apply orb_false_iff in Hf. destruct Hf as [Hf1 Hf2]. rewrite Hf1. apply (IH members H2 Hf2).
Qed.

(** * one step of evaluation, per template *)
Section Steps.
  Variable env : venv.

  Lemma eval_basic f fn k j : lookup_fun fn env = Some (VBasic k) ->
    eval env (S f) fn (Some j) = tri_of_bool (String.eqb (typeof j) k).
  Proof. intros H. simpl. rewrite H. reflexivity. Qed.

  Lemma eval_enum f fn k ai vs j : lookup_fun fn env = Some (VEnum k ai vs) ->
    eval env (S f) fn (Some j) =
      if ai then (if String.eqb (typeof j) k then match j with JNum lit => if int4_literal lit then tri_of_bool (existsb (json_eqb j) vs) else TErr | _ => TErr end else TFalse)
      else if forallb is_jstr vs then (if String.eqb (typeof j) k then match j with JStr _ => tri_of_bool (existsb (json_eqb j) vs) | _ => TFalse end else TFalse)
      else TErr.
  Proof. intros H. simpl. rewrite H. reflexivity. Qed.

  Definition elems (f : nat) (el : string) (l : list json) : tri := bool_and (map (fun x => eval env f el (Some x)) l).

  Lemma eval_array f fn g z crit el l : lookup_fun fn env = Some (VArray g z crit el) ->
    eval env (S f) fn (Some (JArr l)) =
      if z && match l with [] => true | _ => false end then TTrue
      else match crit with None => elems f el l | Some n => tri_and (elems f el l) (tri_of_bool (Nat.eqb (List.length l) n)) end.
  Proof. intros H. simpl. rewrite H. reflexivity. Qed.

  Lemma eval_array_null f fn g z crit el : lookup_fun fn env = Some (VArray g z crit el) ->
    eval env (S f) fn (Some JNull) = if g then TTrue else TFalse.
  Proof. intros H. simpl. rewrite H. reflexivity. Qed.

  Lemma eval_array_other f fn g z crit el j : lookup_fun fn env = Some (VArray g z crit el) ->
    match j with JNull | JArr _ => False | _ => True end -> eval env (S f) fn (Some j) = TFalse.
  Proof. intros H Hj. simpl. rewrite H. destruct j; try reflexivity; destruct Hj. Qed.

  Lemma eval_map f fn el l : lookup_fun fn env = Some (VMap el) ->
    eval env (S f) fn (Some (JObj l)) = bool_and (map (fun kv => eval env f el (Some (snd kv))) l).
  Proof. intros H. simpl. rewrite H. reflexivity. Qed.

  Lemma eval_map_other f fn el j : lookup_fun fn env = Some (VMap el) ->
    match j with JNull | JObj _ => False | _ => True end -> eval env (S f) fn (Some j) = TFalse.
  Proof. intros H Hj. simpl. rewrite H. destruct j; try reflexivity; destruct Hj. Qed.

  Definition key_cond (ks : option (list string)) (l : list (string * json)) : tri :=
    bool_and (map (fun kv => match ks with None => TTrue | Some ks => tri_of_bool (existsb (String.eqb (fst kv)) ks) end) l).

  Lemma eval_struct f fn ks checks l : lookup_fun fn env = Some (VStruct ks checks) ->
    eval env (S f) fn (Some (JObj l)) = foldc (fun fd => eval env f (snd fd) (assoc_json (fst fd) l)) checks (key_cond ks l).
  Proof. intros H. simpl. rewrite H. reflexivity. Qed.

  Lemma eval_struct_other f fn ks checks j : lookup_fun fn env = Some (VStruct ks checks) ->
    match j with JObj _ => False | _ => True end -> eval env (S f) fn (Some j) = TFalse.
  Proof. intros H Hj. simpl. rewrite H. destruct j; try reflexivity; destruct Hj. Qed.

  Definition union_keys_ok (l : list (string * json)) : bool :=
    forallb (fun kv => String.eqb (fst kv) "Kind" || String.eqb (fst kv) "Data") l.

  Lemma eval_union f fn strict cases l k : lookup_fun fn env = Some (VUnion strict cases) -> assoc_json "Kind" l = Some (JStr k) ->
    eval env (S f) fn (Some (JObj l)) =
      if strict && negb (union_keys_ok l) then TFalse
      else match find (fun c => String.eqb (fst c) k) cases with Some c => eval env f (snd c) (assoc_json "Data" l) | None => TFalse end.
  Proof. intros H Hk. simpl. rewrite H, Hk. reflexivity. Qed.

  Lemma eval_union_other f fn strict cases j : lookup_fun fn env = Some (VUnion strict cases) ->
    match j with JObj _ => False | _ => True end -> eval env (S f) fn (Some j) = TFalse.
  Proof. intros H Hj. simpl. rewrite H. destruct j; try reflexivity; destruct Hj. Qed.

  (** a missing key: NULL for every template but the union's *)
  Lemma eval_missing f fn v : lookup_fun fn env = Some v -> match v with VUnion _ _ => False | _ => True end -> eval env (S f) fn None = TNull.
  Proof. intros H Hv. simpl. rewrite H. destruct v; try reflexivity; destruct Hv. Qed.
End Steps.


Section Main.
  Variable venv0 : venv.
  Variable jenv0 : jenv.
  Variable t : table.
  Hypothesis Hsim : sim_ok venv0 jenv0 t = true.

  Lemma memb_entry fn sh : memb t fn sh = true -> entry_ok venv0 jenv0 t (fn, sh) = true.
  Proof.
    unfold memb. intros H. apply existsb_exists in H. destruct H as [[fn' sh'] [Hin He]]. simpl in He.
    apply andb_true_iff in He. destruct He as [H1 H2]. apply String.eqb_eq in H1. apply jshape_eqb_eq in H2. subst.
    unfold sim_ok in Hsim. rewrite forallb_forall in Hsim. apply Hsim. exact Hin.
  Qed.

  Lemma memb_defined fn sh : memb t fn sh = true -> exists v, lookup_fun fn venv0 = Some v.
  Proof.
    intros H. apply memb_entry in H. unfold entry_ok in H. cbn [fst] in H.
    destruct (lookup_fun fn venv0) as [v|]; [exists v; reflexivity | discriminate].
  Qed.

  (** a document with the two keys of an union wrapper has no other key *)
  Lemma two_keys l a b : List.length l = 2 -> assoc_json "Kind" l = Some a -> assoc_json "Data" l = Some b -> union_keys_ok l = true.
  Proof.
    destruct l as [|[k1 v1] [|[k2 v2] [|? ?]]]; cbn [List.length]; try discriminate. intros _.
    unfold union_keys_ok. cbn [assoc_json forallb fst snd].
    destruct (String.eqb "Kind" k1) eqn:E1.
    - apply String.eqb_eq in E1. subst k1. intros _. change (String.eqb "Data" "Kind") with false. cbv iota.
      destruct (String.eqb "Data" k2) eqn:E2; [|discriminate]. apply String.eqb_eq in E2. subst k2. intros _. reflexivity.
    - destruct (String.eqb "Kind" k2) eqn:E2; [|discriminate]. apply String.eqb_eq in E2. subst k2. intros _.
      destruct (String.eqb "Data" k1) eqn:E3.
      + apply String.eqb_eq in E3. subst k1. intros _. reflexivity.
      + change (String.eqb "Data" "Kind") with false. cbv iota. discriminate.
  Qed.

  Definition accept_at (n : nat) : Prop :=
    forall fn sh j m, memb t fn sh = true -> conformsb jenv0 n sh j = true -> n < m -> passes (eval venv0 m fn (Some j)).

  Lemma elems_pass n m el s l : (forall k, k < S n -> accept_at k) -> memb t el s = true ->
    forallb (conformsb jenv0 n s) l = true -> n < m -> passes (elems venv0 m el l).
  Proof.
    intros IH Hm Hf Hlt. unfold elems. apply bool_and_pass. intros x Hx. apply in_map_iff in Hx. destruct Hx as [y [Hy Hin]]. subst x.
    rewrite forallb_forall in Hf. apply (IH n ltac:(lia) el s y m Hm (Hf y Hin) Hlt).
  Qed.

  Lemma accept_all : forall n, accept_at n.
  Proof.
    induction n as [n IHn] using lt_wf_ind. intros fn sh j m Hm Hc Hlt.
    pose proof (memb_entry _ _ Hm) as He. unfold entry_ok in He. cbn [fst snd] in He.
    destruct (lookup_fun fn venv0) as [v|] eqn:Hl; [|discriminate].
    destruct n as [|n1]; [simpl in Hc; discriminate|].
    destruct m as [|m1]; [lia|].
    assert (IH : forall k, k < S n1 -> accept_at k) by exact IHn.
    destruct sh as [| | | s0 | s | len s | s | vs | id |].
    - (* bool *) destruct v; try discriminate. apply String.eqb_eq in He. subst.
      simpl in Hc. destruct j; try discriminate. rewrite (eval_basic _ _ _ _ _ Hl). left. reflexivity.
    - destruct v; try discriminate. apply String.eqb_eq in He. subst.
      simpl in Hc. destruct j; try discriminate. rewrite (eval_basic _ _ _ _ _ Hl). left. reflexivity.
    - destruct v; try discriminate. apply String.eqb_eq in He. subst.
      simpl in Hc. destruct j; try discriminate. rewrite (eval_basic _ _ _ _ _ Hl). left. reflexivity.
    - (* nullable *)
      destruct s0 as [| | | | s | | s | | |]; try discriminate.
      + (* nullable array *)
        destruct v as [| | g z crit el | | |]; try discriminate. destruct g; [|discriminate]. destruct crit; [discriminate|].
        simpl in Hc. destruct j; try (destruct n1; simpl in Hc; discriminate).
        * rewrite (eval_array_null _ _ _ _ _ _ _ Hl). left. reflexivity.
        * destruct n1 as [|n2]; simpl in Hc; [discriminate|]. rewrite (eval_array _ _ _ _ _ _ _ _ Hl).
          destruct (z && match l with [] => true | _ => false end); [left; reflexivity|].
          apply (elems_pass n2 m1 el s l); [intros k Hk; apply IH; lia | exact He | exact Hc | lia].
      + (* nullable map *)
        destruct v as [| | | el | |]; try discriminate.
        simpl in Hc. destruct j; try (destruct n1; simpl in Hc; discriminate).
        * simpl. rewrite Hl. left. reflexivity.
        * destruct n1 as [|n2]; simpl in Hc; [discriminate|]. rewrite (eval_map _ _ _ _ _ Hl).
          apply andb_true_iff in Hc. destruct Hc as [_ Hc]. apply bool_and_pass. intros x Hx. apply in_map_iff in Hx. destruct Hx as [kv [Hkv Hin]]. subst x.
          rewrite forallb_forall in Hc. apply (IH n2 ltac:(lia) el s (snd kv) m1 He (Hc kv Hin)). lia.
    - (* array *)
      destruct v as [| | g z crit el | | |]; try discriminate. destruct crit; [discriminate|].
      simpl in Hc. destruct j; try discriminate. rewrite (eval_array _ _ _ _ _ _ _ _ Hl).
      destruct (z && match l with [] => true | _ => false end); [left; reflexivity|].
      apply (elems_pass n1 m1 el s l); [intros k Hk; apply IH; lia | exact He | exact Hc | lia].
    - (* tuple *)
      destruct v as [| | g z crit el | | |]; try discriminate. destruct z; [discriminate|]. destruct crit as [c|]; [|discriminate].
      apply andb_true_iff in He. destruct He as [He1 He2]. apply Nat.eqb_eq in He1. subst c.
      simpl in Hc. destruct j; try discriminate. apply andb_true_iff in Hc. destruct Hc as [Hc1 Hc2].
      rewrite (eval_array _ _ _ _ _ _ _ _ Hl). cbn [andb]. rewrite Hc1. apply tri_and_pass; [|left; reflexivity].
      apply (elems_pass n1 m1 el s l); [intros k Hk; apply IH; lia | exact He2 | exact Hc2 | lia].
    - (* map *)
      destruct v as [| | | el | |]; try discriminate.
      simpl in Hc. destruct j; try discriminate. rewrite (eval_map _ _ _ _ _ Hl).
      apply andb_true_iff in Hc. destruct Hc as [_ Hc]. apply bool_and_pass. intros x Hx. apply in_map_iff in Hx. destruct Hx as [kv [Hkv Hin]]. subst x.
      rewrite forallb_forall in Hc. apply (IH n1 ltac:(lia) el s (snd kv) m1 He (Hc kv Hin)). lia.
    - (* enum *)
      destruct v as [| k ai vs' | | | |]; try discriminate.
      apply andb_true_iff in He. destruct He as [He1 He2]. apply (list_eqb_eq json_eqb json_eqb_eq) in He1. subst vs'.
      unfold enum_ok in He2. apply andb_true_iff in He2. destruct He2 as [He2 He3]. apply andb_true_iff in He2. destruct He2 as [_ He2].
      simpl in Hc. pose proof Hc as Hex. apply existsb_exists in Hex. destruct Hex as [x [Hin Hx]]. apply json_eqb_eq in Hx. subst x.
      rewrite forallb_forall in He2. pose proof (He2 j Hin) as Hk. rewrite (eval_enum _ _ _ _ _ _ _ Hl).
      destruct ai.
      * rewrite Hk. rewrite forallb_forall in He3. pose proof (He3 j Hin) as Hi. destruct j; try discriminate. simpl in Hi. rewrite Hi, Hc. left. reflexivity.
      * rewrite He3, Hk. rewrite forallb_forall in He3. pose proof (He3 j Hin) as Hi. destruct j; try discriminate. rewrite Hc. left. reflexivity.
    - (* struct or union *)
      simpl in Hc. destruct v as [| | | | ks checks | strict cases]; try discriminate.
      + destruct ks as [ks|]; [|discriminate].
        destruct (lookup_def id jenv0) as [[fields | members]|] eqn:Hd; try discriminate.
        destruct j; try discriminate.
        apply andb_true_iff in He. destruct He as [He He3]. apply andb_true_iff in He. destruct He as [He1 He2].
        apply (list_eqb_eq String.eqb (fun a b => proj1 (String.eqb_eq a b))) in He1. subst ks.
        apply andb_true_iff in Hc. destruct Hc as [Hc Hc3]. apply andb_true_iff in Hc. destruct Hc as [_ Hc2].
        rewrite (eval_struct _ _ _ _ _ _ Hl). apply foldc_pass.
        * unfold key_cond. apply bool_and_pass. intros x Hx. apply in_map_iff in Hx. destruct Hx as [kv [Hkv Hin]]. subst x.
          rewrite forallb_forall in Hc2. pose proof (Hc2 kv Hin) as Hk. apply existsb_exists in Hk. destruct Hk as [fd [Hfd Hk]].
          apply String.eqb_eq in Hk. left.
          assert (Hex : existsb (String.eqb (fst kv)) (map key_of fields) = true).
          { apply existsb_exists. exists (key_of fd). split; [apply in_map; exact Hfd | unfold key_of; rewrite Hk; apply String.eqb_refl]. }
          rewrite Hex. reflexivity.
        * intros c Hcin. destruct (forallb2_combine _ _ _ He3) as [Hlen Hpair].
          destruct (combine_in_l checks fields c Hlen Hcin) as [fd Hcf]. pose proof (Hpair c fd Hcf) as Hp.
          apply andb_true_iff in Hp. destruct Hp as [Hp Hp3]. apply andb_true_iff in Hp. destruct Hp as [Hp1 Hp2]. apply String.eqb_eq in Hp1.
          rewrite forallb_forall in Hc3. pose proof (Hc3 fd (in_combine_r _ _ _ _ Hcf)) as Hfdc.
          destruct fd as [[k sh] opt]. unfold key_of, shape_of_field in *. cbn [fst snd] in *. rewrite Hp1.
          destruct (assoc_json k l) as [v|] eqn:Ha.
          -- apply (IH n1 ltac:(lia) (snd c) sh v m1 Hp2 Hfdc). lia.
          -- subst opt. simpl in Hp3. destruct (memb_defined _ _ Hp2) as [vc Hvc].
             destruct m1 as [|m2]; [lia|]. right. apply (eval_missing _ _ _ vc Hvc).
             unfold is_union_fn in Hp3. rewrite Hvc in Hp3. destruct vc; try exact I. discriminate.
      + destruct strict; [|discriminate].
        destruct (lookup_def id jenv0) as [[fields | members]|] eqn:Hd; try discriminate.
        destruct j; try discriminate.
        apply andb_true_iff in Hc. destruct Hc as [Hlen2 Hc].
        destruct (assoc_json "Kind" l) as [[| | | k | |]|] eqn:Hk; try discriminate.
        destruct (assoc_json "Data" l) as [d|] eqn:Hdt; try discriminate.
        destruct (find (fun m0 => String.eqb (fst m0) k) members) as [mb|] eqn:Hf; [|discriminate].
        rewrite (eval_union _ _ _ _ _ _ _ Hl Hk). apply Nat.eqb_eq in Hlen2.
        rewrite (two_keys _ _ _ Hlen2 Hk Hdt). simpl.
        destruct (find_paired (fun c m => memb t (snd c) (snd m)) cases members k mb He Hf) as [c [Hfc Hpc]].
        rewrite Hfc, Hdt. apply (IH n1 ltac:(lia) (snd c) (snd mb) d m1 Hpc Hc). lia.
    - discriminate.
  Qed.

  (** * refusal of the corruptions *)
  Definition reject_at (n : nat) : Prop :=
    forall fn sh j m k cl c, memb t fn sh = true -> conformsb jenv0 n sh j = true ->
      In (cl, c) (corruptions jenv0 k sh j) -> n < m -> eval venv0 m fn (Some c) = TFalse.

  Lemma null_no_err el s m : memb t el s = true -> 0 < m -> eval venv0 m el (Some JNull) <> TErr.
  Proof.
    intros Hm Hlt. pose proof (memb_entry _ _ Hm) as He. unfold entry_ok in He. cbn [fst snd] in He.
    destruct (lookup_fun el venv0) as [v|] eqn:Hl; [|discriminate]. destruct m as [|m1]; [lia|].
    destruct v as [k | k ai vs | g z crit e | e | ks checks | strict cases].
    - rewrite (eval_basic _ _ _ _ _ Hl). destruct (String.eqb (typeof JNull) k); discriminate.
    - destruct s; try discriminate He; try (destruct s; discriminate He).
      apply andb_true_iff in He. destruct He as [_ He]. unfold enum_ok in He.
      apply andb_true_iff in He. destruct He as [He He3]. apply andb_true_iff in He. destruct He as [He1 _].
      rewrite (eval_enum _ _ _ _ _ _ _ Hl).
      assert (Hk : String.eqb (typeof JNull) k = false).
      { apply orb_true_iff in He1. destruct He1 as [He1 | He1]; [apply orb_true_iff in He1; destruct He1 as [He1 | He1]|];
        apply String.eqb_eq in He1; subst k; reflexivity. }
      rewrite Hk. destruct ai; [discriminate|]. rewrite He3. discriminate.
    - rewrite (eval_array_null _ _ _ _ _ _ _ Hl). destruct g; discriminate.
    - simpl. rewrite Hl. discriminate.
    - rewrite (eval_struct_other _ _ _ _ _ JNull Hl I). discriminate.
    - rewrite (eval_union_other _ _ _ _ _ JNull Hl I). discriminate.
  Qed.

  Lemma elems_no_err n m el s l : memb t el s = true -> forallb (conformsb jenv0 n s) l = true -> n < m -> elems venv0 m el l <> TErr.
  Proof. intros Hm Hf Hlt. apply passes_not_err. apply (elems_pass n m el s l); [intros k _; apply accept_all | exact Hm | exact Hf | exact Hlt]. Qed.

  (** one element of an array replaced by a refused document *)
  Lemma array_nested n m fn g z crit el s l i x c0 :
    lookup_fun fn venv0 = Some (VArray g z crit el) -> memb t el s = true ->
    forallb (conformsb jenv0 n s) l = true -> In (i, x) (indexed l) ->
    eval venv0 m el (Some c0) = TFalse -> n < m ->
    eval venv0 (S m) fn (Some (JArr (replace_nth i c0 l))) = TFalse.
  Proof.
    intros Hl Hm Hf Hin Hc0 Hlt. destruct (indexed_split l i x Hin) as [l1 [l2 [Hl12 Hr]]]. rewrite Hr.
    rewrite (eval_array _ _ _ _ _ _ _ _ Hl).
    assert (Hz : (z && match (l1 ++ c0 :: l2)%list with [] => true | _ => false end) = false) by (destruct l1; simpl; apply andb_false_r).
    rewrite Hz.
    assert (He : elems venv0 m el (l1 ++ c0 :: l2) = TFalse).
    { unfold elems. rewrite forallb_forall in Hf. apply bool_and_false.
      - intros y Hy. apply in_map_iff in Hy. destruct Hy as [d [Hd Hdin]]. subst y.
        apply in_app_or in Hdin. destruct Hdin as [Hdin | [Hdin | Hdin]].
        + apply passes_not_err. apply (accept_all n el s d m Hm); [apply Hf; subst l; apply in_or_app; left; exact Hdin | exact Hlt].
        + subst d. rewrite Hc0. discriminate.
        + apply passes_not_err. apply (accept_all n el s d m Hm); [apply Hf; subst l; apply in_or_app; right; right; exact Hdin | exact Hlt].
      - apply in_map_iff. exists c0. split; [exact Hc0 | apply in_or_app; right; left; reflexivity]. }
    rewrite He. destruct crit; reflexivity.
  Qed.

  Lemma map_nested n m fn el s l kv c0 :
    lookup_fun fn venv0 = Some (VMap el) -> memb t el s = true ->
    forallb (fun kv => conformsb jenv0 n s (snd kv)) l = true -> In kv l ->
    eval venv0 m el (Some c0) = TFalse -> n < m ->
    eval venv0 (S m) fn (Some (JObj (set_key (fst kv) c0 l))) = TFalse.
  Proof.
    intros Hl Hm Hf Hin Hc0 Hlt.
    destruct (set_key_split (fst kv) c0 l (in_map fst _ _ Hin)) as [l1 [v [l2 [Hl12 Hr]]]]. rewrite Hr.
    rewrite (eval_map _ _ _ _ _ Hl). rewrite forallb_forall in Hf. apply bool_and_false.
    - intros y Hy. apply in_map_iff in Hy. destruct Hy as [d [Hd Hdin]]. subst y.
      apply in_app_or in Hdin. destruct Hdin as [Hdin | [Hdin | Hdin]].
      + apply passes_not_err. apply (accept_all n el s (snd d) m Hm); [apply Hf; subst l; apply in_or_app; left; exact Hdin | exact Hlt].
      + subst d. cbn [snd]. rewrite Hc0. discriminate.
      + apply passes_not_err. apply (accept_all n el s (snd d) m Hm); [apply Hf; subst l; apply in_or_app; right; right; exact Hdin | exact Hlt].
    - apply in_map_iff. exists (fst kv, c0). split; [exact Hc0 | apply in_or_app; right; left; reflexivity].
  Qed.

  Lemma key_cond_keys ks l : key_cond ks l = bool_and (map (fun k => match ks with None => TTrue | Some ks => tri_of_bool (existsb (String.eqb k) ks) end) (map fst l)).
  Proof. unfold key_cond. rewrite map_map. reflexivity. Qed.

  Lemma union_keys_set k c l : union_keys_ok (set_key k c l) = union_keys_ok l.
  Proof.
    unfold union_keys_ok. induction l as [|[k' v'] l IH]; [reflexivity|]. cbn [set_key].
    destruct (String.eqb k k'); cbn [forallb fst]; [reflexivity | rewrite IH; reflexivity].
  Qed.

  (** a field check on a conforming document holds or is null *)
  Lemma field_pass n m (c : string * string) k sh opt l :
    memb t (snd c) sh = true -> (negb opt || negb (is_union_fn venv0 (snd c))) = true ->
    match assoc_json k l with Some v => conformsb jenv0 n sh v | None => opt end = true -> n < m ->
    passes (eval venv0 m (snd c) (assoc_json k l)).
  Proof.
    intros Hm Hu Hc Hlt. destruct (assoc_json k l) as [v|].
    - apply (accept_all n (snd c) sh v m Hm Hc Hlt).
    - subst opt. simpl in Hu. destruct (memb_defined _ _ Hm) as [vc Hvc]. destruct m as [|m1]; [lia|].
      right. apply (eval_missing _ _ _ vc Hvc). unfold is_union_fn in Hu. rewrite Hvc in Hu. destruct vc; try exact I. discriminate.
  Qed.

  Lemma existsb_key_sym (fields : list (string * jshape * bool)) k :
    existsb (String.eqb k) (map key_of fields) = existsb (fun fd => String.eqb (fst (fst fd)) k) fields.
  Proof.
    induction fields as [|fd fields IH]; [reflexivity|]. cbn [map existsb]. rewrite IH. unfold key_of. rewrite (String.eqb_sym k). reflexivity.
  Qed.

  Lemma kind_not_array k : (String.eqb k "number" || String.eqb k "string" || String.eqb k "boolean") = true -> String.eqb "array" k = false.
  Proof.
    intros H. apply orb_true_iff in H. destruct H as [H | H]; [apply orb_true_iff in H; destruct H as [H | H]|];
      apply String.eqb_eq in H; subst k; reflexivity.
  Qed.

  Lemma reject_all : forall n, reject_at n.
  Proof.
    induction n as [n IHn] using lt_wf_ind. intros fn sh j m kf cl c Hm Hc Hin Hlt.
    pose proof (memb_entry _ _ Hm) as He. unfold entry_ok in He. cbn [fst snd] in He.
    destruct (lookup_fun fn venv0) as [v|] eqn:Hl; [|discriminate].
    destruct n as [|n1]; [simpl in Hc; discriminate|].
    destruct m as [|m1]; [lia|].
    destruct kf as [|k1]; [destruct Hin|].
    assert (IH : forall k, k < S n1 -> reject_at k) by exact IHn.
    destruct sh as [| | | s0 | s | len s | s | vs | id |].
    - (* bool *) destruct v; try discriminate. apply String.eqb_eq in He. subst.
      simpl in Hc. destruct j; try discriminate. destruct Hin as [Heq | []]. inversion Heq; subst.
      rewrite (eval_basic _ _ _ _ _ Hl). reflexivity.
    - destruct v; try discriminate. apply String.eqb_eq in He. subst.
      simpl in Hc. destruct j; try discriminate. destruct Hin as [Heq | []]. inversion Heq; subst.
      rewrite (eval_basic _ _ _ _ _ Hl). reflexivity.
    - destruct v; try discriminate. apply String.eqb_eq in He. subst.
      simpl in Hc. destruct j; try discriminate. destruct Hin as [Heq | []]. inversion Heq; subst.
      rewrite (eval_basic _ _ _ _ _ Hl). reflexivity.
    - (* nullable *)
      destruct s0 as [| | | | s | | s | | |]; try discriminate.
      + destruct v as [| | g z crit el | | |]; try discriminate. destruct g; [|discriminate]. destruct crit; [discriminate|].
        simpl in Hc. destruct j; try (destruct n1; simpl in Hc; discriminate); [destruct Hin|].
        destruct n1 as [|n2]; simpl in Hc; [discriminate|].
        cbn [corruptions] in Hin. destruct k1 as [|k2]; [destruct Hin|]. cbn [corruptions] in Hin.
        destruct Hin as [Heq | Hin].
        * inversion Heq; subst. apply (eval_array_other _ _ _ _ _ _ _ _ Hl). exact I.
        * apply in_flat_map in Hin. destruct Hin as [[i x] [Hix Hin]]. apply in_map_iff in Hin. destruct Hin as [[cl0 c0] [Heq Hc0]].
          cbn [fst snd] in *. inversion Heq; subst. apply in_firstn in Hix.
          assert (Hx : In x l) by (apply in_combine_r in Hix; exact Hix). rewrite forallb_forall in Hc. pose proof (Hc x Hx) as Hxc.
          apply (array_nested n2 m1 fn true z None el s l i x c0 Hl He); [apply forallb_forall; exact Hc | exact Hix | | lia].
          apply (IH n2 ltac:(lia) el s x m1 k2 cl c0 He Hxc Hc0). lia.
      + destruct v as [| | | el | |]; try discriminate.
        simpl in Hc. destruct j; try (destruct n1; simpl in Hc; discriminate); [destruct Hin|].
        destruct n1 as [|n2]; simpl in Hc; [discriminate|].
        cbn [corruptions] in Hin. destruct k1 as [|k2]; [destruct Hin|]. cbn [corruptions] in Hin.
        apply andb_true_iff in Hc. destruct Hc as [_ Hc].
        destruct Hin as [Heq | Hin].
        * inversion Heq; subst. apply (eval_map_other _ _ _ _ _ Hl). exact I.
        * apply in_flat_map in Hin. destruct Hin as [kv [Hkv Hin]]. apply in_map_iff in Hin. destruct Hin as [[cl0 c0] [Heq Hc0]].
          cbn [fst snd] in *. inversion Heq; subst. apply in_firstn in Hkv.
          pose proof Hc as Hc'. rewrite forallb_forall in Hc'. pose proof (Hc' kv Hkv) as Hxc.
          apply (map_nested n2 m1 fn el s l kv c0 Hl He Hc Hkv); [| lia].
          apply (IH n2 ltac:(lia) el s (snd kv) m1 k2 cl c0 He Hxc Hc0). lia.
    - (* array *)
      destruct v as [| | g z crit el | | |]; try discriminate. destruct crit; [discriminate|].
      simpl in Hc. destruct j; try discriminate. cbn [corruptions] in Hin.
      destruct Hin as [Heq | Hin].
      + inversion Heq; subst. apply (eval_array_other _ _ _ _ _ _ _ _ Hl). exact I.
      + apply in_flat_map in Hin. destruct Hin as [[i x] [Hix Hin]]. apply in_map_iff in Hin. destruct Hin as [[cl0 c0] [Heq Hc0]].
        cbn [fst snd] in *. inversion Heq; subst. apply in_firstn in Hix.
        assert (Hx : In x l) by (apply in_combine_r in Hix; exact Hix). pose proof Hc as Hc'. rewrite forallb_forall in Hc'. pose proof (Hc' x Hx) as Hxc.
        apply (array_nested n1 m1 fn g z None el s l i x c0 Hl He Hc Hix); [| lia].
        apply (IH n1 ltac:(lia) el s x m1 k1 cl c0 He Hxc Hc0). lia.
    - (* tuple *)
      destruct v as [| | g z crit el | | |]; try discriminate. destruct z; [discriminate|]. destruct crit as [cr|]; [|discriminate].
      apply andb_true_iff in He. destruct He as [He1 He2]. apply Nat.eqb_eq in He1. subst cr.
      simpl in Hc. destruct j; try discriminate. apply andb_true_iff in Hc. destruct Hc as [Hc1 Hc2]. apply Nat.eqb_eq in Hc1.
      cbn [corruptions] in Hin.
      destruct Hin as [Heq | [Heq | Hin]].
      + inversion Heq; subst. apply (eval_array_other _ _ _ _ _ _ _ _ Hl). exact I.
      + (* one more element *)
        inversion Heq; subst. rewrite (eval_array _ _ _ _ _ _ _ _ Hl). cbn [andb].
        rewrite app_length. cbn [List.length]. replace (Nat.eqb (List.length l + 1) (List.length l)) with false by (symmetry; apply Nat.eqb_neq; lia).
        apply tri_and_false_r. unfold elems. apply bool_and_no_err. intros y Hy. apply in_map_iff in Hy. destruct Hy as [d [Hd Hdin]]. subst y.
        rewrite forallb_forall in Hc2. apply in_app_or in Hdin. destruct Hdin as [Hdin | [Hdin | []]].
        * apply passes_not_err. apply (accept_all n1 el s d m1 He2 (Hc2 d Hdin)). lia.
        * subst d. destruct l as [|x0 l0].
          -- apply (null_no_err el s m1 He2). lia.
          -- apply passes_not_err. apply (accept_all n1 el s x0 m1 He2 (Hc2 x0 (or_introl eq_refl))). lia.
      + apply in_app_or in Hin. destruct Hin as [Hin | Hin].
        * (* one element less *)
          remember (removelast l) as rl eqn:Hrl0.
          assert (Hne : l <> []) by (intros E; subst l; destruct Hin).
          assert (Hc' : c = JArr rl) by (destruct l; [congruence|]; destruct Hin as [Heq | []]; congruence).
          subst c. rewrite (eval_array _ _ _ _ _ _ _ _ Hl). cbn [andb].
          pose proof (removelast_length l Hne) as Hrl. rewrite <- Hrl0 in Hrl.
          replace (Nat.eqb (List.length rl) len) with false by (symmetry; apply Nat.eqb_neq; lia).
          apply tri_and_false_r. unfold elems. apply bool_and_no_err. intros y Hy. apply in_map_iff in Hy. destruct Hy as [d [Hd Hdin]]. subst y.
          rewrite forallb_forall in Hc2. apply passes_not_err. subst rl. apply (accept_all n1 el s d m1 He2 (Hc2 d (in_removelast _ _ Hdin))). lia.
        * apply in_flat_map in Hin. destruct Hin as [[i x] [Hix Hin]]. apply in_map_iff in Hin. destruct Hin as [[cl0 c0] [Heq Hc0]].
          cbn [fst snd] in *. inversion Heq; subst. apply in_firstn in Hix.
          assert (Hx : In x l) by (apply in_combine_r in Hix; exact Hix). pose proof Hc2 as Hc'. rewrite forallb_forall in Hc'. pose proof (Hc' x Hx) as Hxc.
          apply (array_nested n1 m1 fn g false _ el s l i x c0 Hl He2 Hc2 Hix); [| lia].
          apply (IH n1 ltac:(lia) el s x m1 k1 cl c0 He2 Hxc Hc0). lia.
    - (* map *)
      destruct v as [| | | el | |]; try discriminate.
      simpl in Hc. destruct j; try discriminate. cbn [corruptions] in Hin.
      apply andb_true_iff in Hc. destruct Hc as [_ Hc].
      destruct Hin as [Heq | Hin].
      + inversion Heq; subst. apply (eval_map_other _ _ _ _ _ Hl). exact I.
      + apply in_flat_map in Hin. destruct Hin as [kv [Hkv Hin]]. apply in_map_iff in Hin. destruct Hin as [[cl0 c0] [Heq Hc0]].
        cbn [fst snd] in *. inversion Heq; subst. apply in_firstn in Hkv.
        pose proof Hc as Hc'. rewrite forallb_forall in Hc'. pose proof (Hc' kv Hkv) as Hxc.
        apply (map_nested n1 m1 fn el s l kv c0 Hl He Hc Hkv); [| lia].
        apply (IH n1 ltac:(lia) el s (snd kv) m1 k1 cl c0 He Hxc Hc0). lia.
    - (* enum *)
      destruct v as [| k ai vs' | | | |]; try discriminate.
      apply andb_true_iff in He. destruct He as [He1 He2]. apply (list_eqb_eq json_eqb json_eqb_eq) in He1. subst vs'.
      unfold enum_ok in He2. apply andb_true_iff in He2. destruct He2 as [He2 He3]. apply andb_true_iff in He2. destruct He2 as [Hkind He2].
      cbn [corruptions] in Hin. rewrite (eval_enum _ _ _ _ _ _ _ Hl).
      destruct Hin as [Heq | Hin].
      + inversion Heq; subst. cbn [typeof]. rewrite (kind_not_array k Hkind). destruct ai; [reflexivity|]. rewrite He3. reflexivity.
      + unfold non_member in Hin. destruct vs as [|v0 vs1]; [destruct Hin|]. rewrite forallb_forall in He2. pose proof (He2 v0 (or_introl eq_refl)) as Hk0.
        destruct v0; try (destruct Hin; fail).
        * destruct (existsb (json_eqb (JNum "987654")) (JNum lit :: vs1)) eqn:Hex; [destruct Hin|]. destruct Hin as [Heq | []]. inversion Heq; subst.
          cbn [typeof] in *. rewrite Hk0. destruct ai; [rewrite Hex; reflexivity|]. simpl in He3. discriminate.
        * destruct (existsb (json_eqb (JStr "__not_a_member__")) (JStr s :: vs1)) eqn:Hex; [destruct Hin|]. destruct Hin as [Heq | []]. inversion Heq; subst.
          cbn [typeof] in *. rewrite Hk0. destruct ai; [simpl in He3; discriminate|]. rewrite He3, Hex. reflexivity.
    - (* struct or union *)
      simpl in Hc. cbn [corruptions] in Hin. destruct v as [| | | | ks checks | strict cases]; try discriminate.
      + destruct ks as [ks|]; [|discriminate].
        destruct (lookup_def id jenv0) as [[fields | members]|] eqn:Hd; try discriminate.
        destruct j; try discriminate.
        apply andb_true_iff in He. destruct He as [He He3]. apply andb_true_iff in He. destruct He as [He1 He2].
        apply (list_eqb_eq String.eqb (fun a b => proj1 (String.eqb_eq a b))) in He1. subst ks.
        apply andb_true_iff in Hc. destruct Hc as [Hc Hc3]. apply andb_true_iff in Hc. destruct Hc as [_ Hc2].
        destruct (forallb2_combine _ _ _ He3) as [Hlen Hpair]. rewrite forallb_forall in Hc3.
        assert (Hkeys : passes (key_cond (Some (map key_of fields)) l)).
        { unfold key_cond. apply bool_and_pass. intros x Hx. apply in_map_iff in Hx. destruct Hx as [kv [Hkv Hkin]]. subst x.
          rewrite forallb_forall in Hc2. pose proof (Hc2 kv Hkin) as Hk. rewrite existsb_key_sym. rewrite Hk. left. reflexivity. }
        destruct Hin as [Heq | Hin].
        * inversion Heq; subst. apply (eval_struct_other _ _ _ _ _ _ Hl). exact I.
        * apply in_app_or in Hin. destruct Hin as [Hin | Hin].
          -- (* unknown key *)
             destruct (existsb (fun fd => String.eqb (fst (fst fd)) unknown_key) fields) eqn:Hex; [destruct Hin|].
             destruct Hin as [Heq | []]. inversion Heq; subst. rewrite (eval_struct _ _ _ _ _ _ Hl).
             assert (Hk : key_cond (Some (map key_of fields)) (l ++ [(unknown_key, JNum "1")]) = TFalse).
             { unfold key_cond. apply bool_and_false.
               - intros y Hy. apply in_map_iff in Hy. destruct Hy as [d0 [Hd0 _]]. subst y. cbn beta iota. destruct (existsb (String.eqb (fst d0)) (map key_of fields)); simpl; discriminate.
               - apply in_map_iff. exists (unknown_key, JNum "1"). split; [cbn [fst]; rewrite existsb_key_sym, Hex; reflexivity | apply in_or_app; right; left; reflexivity]. }
             rewrite Hk. apply foldc_false.
          -- (* a field *)
             apply in_flat_map in Hin. destruct Hin as [[[kf shf] optf] [Hfd Hin]]. cbn [fst snd] in Hin.
             destruct (assoc_json kf l) as [vf|] eqn:Hav; [|destruct Hin].
             apply in_map_iff in Hin. destruct Hin as [[cl0 c0] [Heq Hc0]]. cbn [fst snd] in *. inversion Heq; subst.
             pose proof (Hc3 _ Hfd) as Hfdc. cbn beta iota in Hfdc. rewrite Hav in Hfdc.
             assert (Hkin : In kf (map fst l)) by (pose proof (assoc_in _ _ _ Hav) as Hav'; apply (in_map fst) in Hav'; exact Hav').
             rewrite (eval_struct _ _ _ _ _ _ Hl). apply foldc_one_false.
             ++ rewrite key_cond_keys, set_key_keys. rewrite <- (key_cond_keys (Some (map key_of fields)) l). exact Hkeys.
             ++ intros cc Hcc. destruct (combine_in_l checks fields cc Hlen Hcc) as [[[k' sh'] opt'] Hcf]. pose proof (Hpair _ _ Hcf) as Hp.
                unfold key_of, shape_of_field in Hp. cbn [fst snd] in Hp.
                apply andb_true_iff in Hp. destruct Hp as [Hp Hp3]. apply andb_true_iff in Hp. destruct Hp as [Hp1 Hp2]. apply String.eqb_eq in Hp1.
                pose proof (in_combine_r _ _ _ _ Hcf) as Hfd'. rewrite Hp1.
                destruct (String.eqb k' kf) eqn:Ekk.
                ** apply String.eqb_eq in Ekk.
                   assert (Hsame : (k', sh', opt') = (kf, shf, optf)) by (apply (nodup_map_inj key_of fields _ _ (nodupb_NoDup _ He2) Hfd' Hfd); exact Ekk).
                   inversion Hsame; subst k' sh' opt'. rewrite (assoc_set_key_same _ _ _ Hkin).
                   rewrite (IH n1 ltac:(lia) (snd cc) shf vf m1 k1 cl c0 Hp2 Hfdc Hc0 ltac:(lia)). discriminate.
                ** apply String.eqb_neq in Ekk. rewrite (assoc_set_key_other _ _ _ _ Ekk). apply passes_not_err.
                   apply (field_pass n1 m1 cc k' sh' opt' l Hp2 Hp3); [| lia]. apply (Hc3 _ Hfd').
             ++ destruct (combine_in_r checks fields _ Hlen Hfd) as [cc Hcf]. exists cc. split; [apply in_combine_l in Hcf; exact Hcf|].
                pose proof (Hpair _ _ Hcf) as Hp. unfold key_of, shape_of_field in Hp. cbn [fst snd] in Hp.
                apply andb_true_iff in Hp. destruct Hp as [Hp Hp3]. apply andb_true_iff in Hp. destruct Hp as [Hp1 Hp2]. apply String.eqb_eq in Hp1.
                rewrite Hp1, (assoc_set_key_same _ _ _ Hkin).
                apply (IH n1 ltac:(lia) (snd cc) shf vf m1 k1 cl c0 Hp2 Hfdc Hc0). lia.
      + destruct strict; [|discriminate].
        destruct (lookup_def id jenv0) as [[fields | members]|] eqn:Hd; try discriminate.
        destruct j; try discriminate.
        apply andb_true_iff in Hc. destruct Hc as [Hlen2 Hc]. apply Nat.eqb_eq in Hlen2.
        destruct (assoc_json "Kind" l) as [[| | | k | |]|] eqn:Hk; try discriminate.
        destruct (assoc_json "Data" l) as [d|] eqn:Hdt; try discriminate.
        destruct (find (fun m0 => String.eqb (fst m0) k) members) as [mb|] eqn:Hf; [|discriminate].
        destruct Hin as [Heq | [Heq | Hin]].
        * inversion Heq; subst. apply (eval_union_other _ _ _ _ _ _ Hl). exact I.
        * (* unknown key *)
          inversion Heq; subst.
          assert (Hk' : assoc_json "Kind" (l ++ [(unknown_key, JNum "1")]) = Some (JStr k)) by (rewrite assoc_app, Hk; reflexivity).
          rewrite (eval_union _ _ _ _ _ _ _ Hl Hk').
          assert (Hbad : union_keys_ok (l ++ [(unknown_key, JNum "1")]) = false).
          { unfold union_keys_ok. rewrite forallb_app. apply andb_false_iff. right. reflexivity. }
          rewrite Hbad. reflexivity.
        * apply in_app_or in Hin. destruct Hin as [Hin | Hin].
          -- (* unknown Kind *)
             destruct (existsb (fun m0 => String.eqb (fst m0) unknown_kind) members) eqn:Hex; [destruct Hin|].
             destruct Hin as [Heq | []]. inversion Heq; subst.
             assert (Hkin : In "Kind" (map fst l)) by (apply assoc_in in Hk; apply (in_map fst) in Hk; exact Hk).
             rewrite (eval_union _ _ _ _ _ _ _ Hl (assoc_set_key_same _ _ _ Hkin)).
             rewrite (find_none_paired (fun c m => memb t (snd c) (snd m)) cases members unknown_kind He Hex).
             destruct (true && negb (union_keys_ok (set_key "Kind" (JStr unknown_kind) l))); reflexivity.
          -- (* the Data *)
             apply in_map_iff in Hin. destruct Hin as [[cl0 c0] [Heq Hc0]]. cbn [fst snd] in *. inversion Heq; subst.
             assert (Hdin : In "Data" (map fst l)) by (apply assoc_in in Hdt; apply (in_map fst) in Hdt; exact Hdt).
             assert (Hk' : assoc_json "Kind" (set_key "Data" c0 l) = Some (JStr k)) by (rewrite assoc_set_key_other; [exact Hk | discriminate]).
             rewrite (eval_union _ _ _ _ _ _ _ Hl Hk'). rewrite union_keys_set, (two_keys _ _ _ Hlen2 Hk Hdt). cbn [andb negb].
             destruct (find_paired (fun c m => memb t (snd c) (snd m)) cases members k mb He Hf) as [cc [Hfc Hpc]].
             rewrite Hfc, (assoc_set_key_same _ _ _ Hdin).
             apply (IH n1 ltac:(lia) (snd cc) (snd mb) d m1 k1 cl c0 Hpc Hc Hc0). lia.
    - discriminate.
  Qed.
End Main.

(** * every validator called by a body of the table is defined *)
Lemma callees_defined venv0 jenv0 t fn sh v g :
  sim_ok venv0 jenv0 t = true -> memb t fn sh = true -> lookup_fun fn venv0 = Some v -> In g (callees v) ->
  exists v', lookup_fun g venv0 = Some v'.
Proof.
  intros Hsim Hm Hl Hg. pose proof (memb_entry venv0 jenv0 t Hsim _ _ Hm) as He. unfold entry_ok in He. cbn [fst snd] in He. rewrite Hl in He.
  destruct v as [k | k ai vs | gn z crit el | el | ks checks | strict cases]; cbn [callees] in Hg.
  - destruct Hg.
  - destruct Hg.
  - destruct Hg as [Hg | []]. subst g.
    destruct sh as [| | | s0 | s | len s | s | vs | id |]; try discriminate.
    + destruct s0; try discriminate. destruct gn; [|discriminate]. destruct crit; [discriminate|]. apply (memb_defined venv0 jenv0 t Hsim _ _ He).
    + destruct crit; [discriminate|]. apply (memb_defined venv0 jenv0 t Hsim _ _ He).
    + destruct z; [discriminate|]. destruct crit; [|discriminate]. apply andb_true_iff in He. destruct He as [_ He]. apply (memb_defined venv0 jenv0 t Hsim _ _ He).
  - destruct Hg as [Hg | []]. subst g.
    destruct sh as [| | | s0 | s | len s | s | vs | id |]; try discriminate.
    + destruct s0; try discriminate. apply (memb_defined venv0 jenv0 t Hsim _ _ He).
    + apply (memb_defined venv0 jenv0 t Hsim _ _ He).
  - destruct sh as [| | | s0 | s | len s | s | vs | id |]; try discriminate; try (destruct s0; discriminate).
    destruct ks as [ks|]; [|discriminate]. destruct (lookup_def id jenv0) as [[fields | members]|]; try discriminate.
    apply andb_true_iff in He. destruct He as [_ He3]. destruct (forallb2_combine _ _ _ He3) as [Hlen Hpair].
    apply in_map_iff in Hg. destruct Hg as [c [Hc Hcin]]. subst g. destruct (combine_in_l checks fields c Hlen Hcin) as [fd Hcf].
    pose proof (Hpair _ _ Hcf) as Hp. apply andb_true_iff in Hp. destruct Hp as [Hp _]. apply andb_true_iff in Hp. destruct Hp as [_ Hp].
    apply (memb_defined venv0 jenv0 t Hsim _ _ Hp).
  - destruct sh as [| | | s0 | s | len s | s | vs | id |]; try discriminate; try (destruct s0; discriminate).
    destruct strict; [|discriminate]. destruct (lookup_def id jenv0) as [[fields | members]|]; try discriminate.
    destruct (forallb2_combine _ _ _ He) as [Hlen Hpair].
    apply in_map_iff in Hg. destruct Hg as [c [Hc Hcin]]. subst g. destruct (combine_in_l cases members c Hlen Hcin) as [mb Hcf].
    pose proof (Hpair _ _ Hcf) as Hp. apply andb_true_iff in Hp. destruct Hp as [_ Hp].
    apply (memb_defined venv0 jenv0 t Hsim _ _ Hp).
Qed.

(** * the statements *)
Theorem validators_admit venv0 jenv0 t fn sh j n m :
  sim_ok venv0 jenv0 t = true -> memb t fn sh = true -> conformsb jenv0 n sh j = true -> n < m ->
  check_passes (eval venv0 m fn (Some j)) = true.
Proof. intros Hsim Hm Hc Hlt. apply passes_check. apply (accept_all venv0 jenv0 t Hsim n fn sh j m Hm Hc Hlt). Qed.

Theorem validators_refuse venv0 jenv0 t fn sh j n m k cl c :
  sim_ok venv0 jenv0 t = true -> memb t fn sh = true -> conformsb jenv0 n sh j = true ->
  In (cl, c) (corruptions jenv0 k sh j) -> n < m ->
  eval venv0 m fn (Some c) = TFalse.
Proof. intros Hsim Hm Hc Hin Hlt. apply (reject_all venv0 jenv0 t Hsim n fn sh j m k cl c Hm Hc Hin Hlt). Qed.

(** * the premises are satisfiable: a table struct column holding a string, an integer enum, a fixed
      array, a nil-able slice of unions and an optional map *)
Definition ex_venv : venv := [
  ("f_string", VBasic "string"); ("f_number", VBasic "number");
  ("f_color", VEnum "number" true [JNum "0"; JNum "1"]);
  ("f_pair", VArray false false (Some 2) "f_number");
  ("f_leaf", VStruct (Some []) []);
  ("f_shape", VUnion true [("Leaf", "f_leaf"); ("Num", "f_number")]);
  ("f_shapes", VArray true true None "f_shape");
  ("f_dict", VMap "f_string");
  ("f_root", VStruct (Some ["name"; "C"; "P"; "S"; "D"]) [("name", "f_string"); ("C", "f_color"); ("P", "f_pair"); ("S", "f_shapes"); ("D", "f_dict")])
].
Definition ex_jenv : jenv := [
  ("Leaf", DObject []);
  ("Shape", DUnion [("Leaf", ShRef "Leaf"); ("Num", ShNumber)]);
  ("Root", DObject [("name", ShString, false); ("C", ShEnum [JNum "0"; JNum "1"], false); ("P", ShTuple 2 ShNumber, false);
                    ("S", ShNullable (ShArrayOf (ShRef "Shape")), false); ("D", ShNullable (ShMapOf ShString), true)])
].
Definition ex_table : table := build_table ex_venv ex_jenv 8 "f_root" (ShRef "Root").
Definition ex_doc : json :=
  JObj [("name", JStr "a"); ("C", JNum "1"); ("P", JArr [JNum "1"; JNum "2"]);
        ("S", JArr [JObj [("Kind", JStr "Leaf"); ("Data", JObj [])]; JObj [("Kind", JStr "Num"); ("Data", JNum "3")]])].

Example premises_hold :
  sim_ok ex_venv ex_jenv ex_table = true /\ memb ex_table "f_root" (ShRef "Root") = true
  /\ conformsb ex_jenv 8 (ShRef "Root") ex_doc = true
  /\ List.length (corruptions ex_jenv 8 (ShRef "Root") ex_doc) = 20
  /\ map fst (corruptions ex_jenv 8 (ShRef "Root") ex_doc)
     = [CWrongKind; CUnknownKey; CWrongKind; CWrongKind; CNonMember; CWrongKind; CWrongLength; CWrongLength; CWrongKind; CWrongKind;
        CWrongKind; CWrongKind; CUnknownKey; CUnknownUnionKind; CWrongKind; CUnknownKey; CWrongKind; CUnknownKey; CUnknownUnionKind; CWrongKind]
  /\ eval ex_venv 9 "f_root" (Some ex_doc) = TNull.
Proof. vm_compute. repeat split; reflexivity. Qed.
