(** C06, Dart: no dangling import. Every import edge the traversal records leads to a file in which the traversal
    emits a declaration (Model/DartGen.v), for every program, graph, root and fuel. Same invariant as Proofs/C06c.v. *)
From Coq Require Import List String Ascii ZArith Bool Arith Lia.
From GM Require Import Base.Result Base.StrOrd Facts.GoFacts Facts.Ana Model.Dart Model.TsGen Model.DartGen Proofs.C06c.
Import ListNotations.
Local Open Scope string_scope.

Section Edges.
  Variable root : string.
  Variable pr : prog.
  Variable nodes : list nrec.
  Variable F : nat.

  Notation kid := (key_id pr).
  Notation kfile := (key_file root pr).
  Notation Inv := (Inv root pr).

  Definition has_decl (pending : list string) (ds : list ddecl) (f : string) : Prop :=
    (exists d, In d ds /\ dd_file d = f) \/ exists k, In k pending /\ kfile k = f.
  Definition edges_ok (imps : list (string * string)) (ds : list ddecl) (pending : list string) : Prop :=
    forall a b, In (a, b) imps -> has_decl pending ds b.

  Definition Spec2 (g : dstate -> gty -> result (dstate * string)) : Prop :=
    forall st t st' f pending, g st t = Ok (st', f) -> Inv (ds_cache st) pending (ds_decls st) ->
      edges_ok (ds_imps st) (ds_decls st) pending ->
      (exists new, ds_decls st' = (ds_decls st ++ new)%list)
      /\ Inv (ds_cache st') pending (ds_decls st')
      /\ edges_ok (ds_imps st') (ds_decls st') pending
      /\ has_decl pending (ds_decls st') f.

  Lemma has_decl_mono p ds more f : has_decl p ds f -> has_decl p (ds ++ more) f.
  Proof. intros [[d [Hd E]]|H]; [left; exists d; split; [apply in_or_app; left; exact Hd|exact E]|right; exact H]. Qed.

  Lemma edges_mono imps ds more p : edges_ok imps ds p -> edges_ok imps (ds ++ more) p.
  Proof. intros H a b Hab. apply has_decl_mono. eapply H. exact Hab. Qed.

  Lemma gen_list_spec2 g : Spec2 g -> forall ts st st' fs pending,
    dgen_list g ts st = Ok (st', fs) -> Inv (ds_cache st) pending (ds_decls st) ->
    edges_ok (ds_imps st) (ds_decls st) pending ->
    (exists new, ds_decls st' = (ds_decls st ++ new)%list)
    /\ Inv (ds_cache st') pending (ds_decls st')
    /\ edges_ok (ds_imps st') (ds_decls st') pending
    /\ (forall fc, In fc fs -> has_decl pending (ds_decls st') fc).
  Proof.
    intro Hg. induction ts as [|t r IH]; intros st st' fs pending H HI HE; cbn [dgen_list] in H.
    - inversion H; subst. split; [exists []; rewrite app_nil_r; reflexivity|]. split; [exact HI|]. split; [exact HE|]. intros fc [].
    - destruct (g st t) as [[s1 f1]| |] eqn:G; cbn [bind fst snd] in H; try discriminate.
      destruct (dgen_list g r s1) as [[s2 f2]| |] eqn:GL; cbn [bind fst snd] in H; try discriminate.
      inversion H; subst. clear H.
      destruct (Hg _ _ _ _ pending G HI HE) as [[n1 D1] [V1 [E1 P1]]].
      destruct (IH _ _ _ pending GL V1 E1) as [[n2 D2] [V2 [E2 P2]]].
      split; [exists (n1 ++ n2)%list; rewrite D2, D1, app_assoc; reflexivity|]. split; [exact V2|]. split; [exact E2|].
      intros fc [E|Hin]; [subst fc; rewrite D2; apply has_decl_mono; exact P1|apply P2; exact Hin].
  Qed.

  Lemma dtail_spec2 g outfile n t st st1 ko pending st' f :
    Spec2 g -> node_key n = ko ->
    (forall k, ko = Some k -> kfile k = outfile) ->
    (forall k id, ko = Some k -> decl_id pr nodes F t = Ok id -> kid k = id) ->
    ds_decls st1 = ds_decls st -> ds_imps st1 = ds_imps st ->
    ds_cache st1 = match ko with Some k => k :: ds_cache st | None => ds_cache st end ->
    dtail pr nodes F g outfile n t st1 = Ok (st', f) -> Inv (ds_cache st) pending (ds_decls st) ->
    edges_ok (ds_imps st) (ds_decls st) pending ->
    (exists new, ds_decls st' = (ds_decls st ++ new)%list)
    /\ Inv (ds_cache st') pending (ds_decls st')
    /\ edges_ok (ds_imps st') (ds_decls st') pending
    /\ has_decl pending (ds_decls st') f.
  Proof.
    intros Hg NK KF KI ED EI EC H HI HE. unfold dtail in H.
    destruct (dkids n) as [ks| |] eqn:DK; cbn [bind] in H; try discriminate.
    destruct (dgen_list g ks st1) as [[s2 fs]| |] eqn:GL; cbn [bind fst snd] in H; try discriminate.
    destruct (decl_id pr nodes F t) as [id| |] eqn:DI; cbn [bind] in H; try discriminate.
    destruct (mapM (decl_id pr nodes F) ks) as [ms| |] eqn:MM; cbn [bind] in H; try discriminate.
    inversion H; subst st' f. clear H.
    set (pending' := match ko with Some k => k :: pending | None => pending end).
    assert (HI1 : Inv (ds_cache st1) pending' (ds_decls st1)).
    { rewrite EC, ED. unfold pending'. destruct ko as [k|]; [|exact HI].
      intros k' [E|Hk']; [left; left; exact E|]. destruct (HI k' Hk') as [A|A]; [left; right; exact A|right; exact A]. }
    assert (HE1 : edges_ok (ds_imps st1) (ds_decls st1) pending').
    { rewrite EI, ED. intros a b Hab. destruct (HE a b Hab) as [A|[k [Hk E]]]; [left; exact A|].
      right. exists k. split; [|exact E]. unfold pending'. destruct ko; [right; exact Hk|exact Hk]. }
    destruct (gen_list_spec2 g Hg ks st1 s2 fs pending' GL HI1 HE1) as [[n2 D2] [V2 [E2 P2]]].
    rewrite ED in D2.
    set (d := {| dd_file := outfile; dd_id := id; dd_mentions := ms; dd_impl := implements_mentions pr n |}).
    set (all' := (ds_decls s2 ++ [d])%list).
    assert (Dd : exists d0, In d0 all' /\ dd_file d0 = outfile).
    { exists d. split; [apply in_or_app; right; left; reflexivity|reflexivity]. }
    assert (CV : forall b, has_decl pending' (ds_decls s2) b -> has_decl pending all' b).
    { intros b [A|[k' [Hk' E1]]]; [apply has_decl_mono; left; exact A|].
      unfold pending' in Hk'. destruct ko as [k|].
      - destruct Hk' as [E|Hk'].
        + subst k'. left. rewrite <- E1, (KF k eq_refl). exact Dd.
        + right. exists k'. split; assumption.
      - right. exists k'. split; assumption. }
    cbn [ds_decls ds_imps ds_cache fst snd]. fold d. fold all'.
    split; [exists (n2 ++ [d])%list; unfold all'; rewrite D2, app_assoc; reflexivity|]. split.
    - intros k' Hk'. destruct (V2 k' Hk') as [A|A].
      + unfold pending' in A. destruct ko as [k|]; [|left; exact A].
        destruct A as [E|A]; [|left; exact A]. subst k'. right.
        exists d. split; [apply in_or_app; right; left; reflexivity|]. split; [symmetry; apply KF; reflexivity|].
        symmetry. apply (KI k id eq_refl eq_refl).
      + right. destruct A as [d0 [Hd0 E0]]. exists d0. split; [apply in_or_app; left; exact Hd0|exact E0].
    - split.
      + intros a b Hab. apply in_app_or in Hab. destruct Hab as [Hab|Hab].
        * apply CV. eapply E2. exact Hab.
        * apply in_map_iff in Hab. destruct Hab as [fc [E Hfc]]. inversion E; subst a b. apply CV. apply P2. exact Hfc.
      + left. exact Dd.
  Qed.

  Lemma generate_spec2 : forall fuel parent, Spec2 (dgenerate root pr nodes F fuel parent).
  Proof.
    induction fuel as [|fuel IH]; intros parent st t st' f pending H HI HE; cbn [dgenerate] in H; [discriminate|].
    destruct (find_node t nodes) as [n|] eqn:Fn; [|discriminate]. cbv zeta in H.
    destruct (node_key n) as [k|] eqn:NK.
    - assert (OF : out_file root pr n parent = kfile k) by (unfold out_file; rewrite NK; reflexivity).
      destruct (existsb (String.eqb k) (ds_cache st)) eqn:Hit.
      + inversion H; subst st' f. clear H. split; [exists []; rewrite app_nil_r; reflexivity|]. split; [exact HI|]. split; [exact HE|].
        rewrite OF. apply existsb_exists in Hit. destruct Hit as [k' [Hk' E]]. apply String.eqb_eq in E. subst k'.
        destruct (HI k Hk') as [A|[d0 [Hd0 [E0 _]]]]; [right; exists k; split; [exact A|reflexivity]|left; exists d0; split; assumption].
      + eapply (dtail_spec2 _ _ n t st _ (Some k)); try eassumption; try reflexivity.
        * apply IH.
        * intros k0 E. inversion E; subst k0. symmetry. exact OF.
        * intros k0 id E DI. inversion E; subst k0. unfold decl_id in DI. rewrite Fn, NK in DI. inversion DI. reflexivity.
    - eapply (dtail_spec2 _ _ n t st st None); try eassumption; try reflexivity.
      + apply IH.
      + intros k0 E. discriminate.
      + intros k0 id E. discriminate.
  Qed.

  Lemma sources_edges : forall ts st st', dart_sources root pr nodes F ts st = Ok st' ->
    Inv (ds_cache st) [] (ds_decls st) -> edges_ok (ds_imps st) (ds_decls st) [] ->
    edges_ok (ds_imps st') (ds_decls st') [].
  Proof.
    induction ts as [|t r IH]; intros st st' H HI HE; cbn [dart_sources] in H; [inversion H; subst; exact HE|].
    destruct (dgenerate root pr nodes F (dart_fuel nodes) (source_file root pr t) st t) as [[s1 f1]| |] eqn:E; cbn [bind fst] in H; try discriminate.
    destruct (generate_spec2 _ _ _ _ _ _ [] E HI HE) as [_ [V [E1 _]]].
    apply (IH s1 st' H V E1).
  Qed.

  Theorem dart_run_no_dangling_import source st : dart_run root pr nodes F source = Ok st ->
    forall f f', In (f, f') (ds_imps st) -> exists d, In d (ds_decls st) /\ dd_file d = f'.
  Proof.
    intros H f f' Hin. unfold dart_run in H.
    assert (E : edges_ok (ds_imps st) (ds_decls st) []).
    { eapply sources_edges; [exact H|intros k []|intros a b []]. }
    destruct (E f f' Hin) as [A|[k [[] _]]]. exact A.
  Qed.
End Edges.
