(** Proofs about the enum-detection model (Model/Enums.v). *)
From Coq Require Import List String ZArith Bool Arith Lia Sorting.Permutation Sorting.Sorted.
From GM Require Import Base.Result Facts.GoFacts Model.Enums.
Import ListNotations.
Local Open Scope string_scope.
Local Open Scope list_scope.

(** ** collection of members *)

(** the (type id, member) pairs contributed by the constants, in scope order *)
Definition entry_of (c : cdecl) : list (string * emember) :=
  match c_type c with
  | None => []
  | Some id =>
      match fetch_const_comment c with
      | Ok comment => if contains ignore_decl_comment comment then [] else [(id, member_of c comment)]
      | _ => []
      end
  end.

Definition entries (cs : list cdecl) : list (string * emember) := flat_map entry_of cs.

Definition add_all (es : list (string * emember)) (tbl : list (string * list emember)) :=
  fold_left (fun t e => add_member (fst e) (snd e) t) es tbl.

Lemma fetch_const_comment_ok c : exists s, fetch_const_comment c = Ok s.
Proof. unfold fetch_const_comment. destruct (enclosing_value_spec (c_cands c)); eexists; reflexivity. Qed.

Lemma collect_entries cs : forall tbl, collect cs tbl = Ok (add_all (entries cs) tbl).
Proof.
  induction cs as [|c r IH]; intro tbl; [reflexivity|].
  assert (add_all (entries (c :: r)) tbl = add_all (entries r) (add_all (entry_of c) tbl)) as ->.
  { unfold entries, add_all. simpl. rewrite fold_left_app. reflexivity. }
  rewrite <- IH. simpl. unfold entry_of. destruct (c_type c) as [id|]; [|reflexivity].
  destruct (fetch_const_comment_ok c) as [s Hs]. rewrite Hs. simpl.
  destruct (contains ignore_decl_comment s); reflexivity.
Qed.

Lemma collect_never_crashes cs tbl : is_ok (collect cs tbl) = true.
Proof. rewrite collect_entries. reflexivity. Qed.

(** members recorded for [id] *)
Fixpoint assoc (id : string) (tbl : list (string * list emember)) : list emember :=
  match tbl with [] => [] | (k, ms) :: r => if String.eqb k id then ms else assoc id r end.

Definition keys_unique (tbl : list (string * list emember)) : Prop := NoDup (map fst tbl).
Definition no_empty (tbl : list (string * list emember)) : Prop := forall k ms, In (k, ms) tbl -> ms <> [].

Lemma add_member_keys id m tbl k : In k (map fst (add_member id m tbl)) <-> k = id \/ In k (map fst tbl).
Proof.
  induction tbl as [|[k' ms] r IH]; simpl; [intuition|].
  destruct (String.eqb_spec k' id); simpl.
  - subst. intuition.
  - rewrite IH. intuition.
Qed.

Lemma add_member_unique id m tbl : keys_unique tbl -> keys_unique (add_member id m tbl).
Proof.
  unfold keys_unique. induction tbl as [|[k' ms] r IH]; simpl; intro H.
  - constructor; [intros []|constructor].
  - inversion H as [|? ? Hn Hr]; subst. destruct (String.eqb_spec k' id); simpl.
    + constructor; assumption.
    + constructor; [|apply IH; assumption]. rewrite add_member_keys. intros [E|Hin]; [congruence|contradiction].
Qed.

Lemma add_member_assoc id m tbl k :
  assoc k (add_member id m tbl) = if String.eqb id k then assoc k tbl ++ [m] else assoc k tbl.
Proof.
  induction tbl as [|[k' ms] r IH]; simpl.
  - rewrite String.eqb_sym. destruct (String.eqb k id); reflexivity.
  - destruct (String.eqb_spec k' id) as [->|Hne]; simpl.
    + destruct (String.eqb_spec id k); reflexivity.
    + destruct (String.eqb_spec k' k) as [->|Hne'].
      * destruct (String.eqb_spec id k); [congruence|reflexivity].
      * apply IH.
Qed.

Lemma add_member_no_empty id m tbl : no_empty tbl -> no_empty (add_member id m tbl).
Proof.
  unfold no_empty. induction tbl as [|[k' ms'] r IH]; simpl; intros H k ms Hin.
  - destruct Hin as [E|[]]. inversion E. discriminate.
  - destruct (String.eqb k' id); simpl in Hin.
    + destruct Hin as [E|Hin]; [inversion E; subst; destruct ms'; discriminate|eapply H; right; eauto].
    + destruct Hin as [E|Hin]; [eapply H; left; eauto|].
      eapply IH; [|exact Hin]. intros k0 ms0 H0. eapply H. right. eauto.
Qed.

Lemma add_all_assoc es : forall tbl k,
  assoc k (add_all es tbl) = assoc k tbl ++ map snd (filter (fun e => String.eqb (fst e) k) es).
Proof.
  induction es as [|[id m] r IH]; intros tbl k; simpl; [rewrite app_nil_r; reflexivity|].
  unfold add_all in *. simpl. rewrite IH, add_member_assoc. simpl.
  destruct (String.eqb id k); simpl; [rewrite <- app_assoc; reflexivity|reflexivity].
Qed.

Lemma add_all_keys es : forall tbl k,
  In k (map fst (add_all es tbl)) <-> In k (map fst es) \/ In k (map fst tbl).
Proof.
  induction es as [|[id m] r IH]; intros tbl k; simpl; [tauto|].
  unfold add_all in *. simpl. rewrite IH, add_member_keys. intuition.
Qed.

Lemma add_all_unique es : forall tbl, keys_unique tbl -> keys_unique (add_all es tbl).
Proof.
  induction es as [|[id m] r IH]; intros tbl H; simpl; [assumption|].
  unfold add_all in *. simpl. apply IH. apply add_member_unique. assumption.
Qed.

Lemma assoc_in k ms tbl : keys_unique tbl -> In (k, ms) tbl -> assoc k tbl = ms.
Proof.
  unfold keys_unique. induction tbl as [|[k' ms'] r IH]; simpl; intros H Hin; [contradiction|].
  inversion H as [|? ? Hn Hr]; subst. destruct Hin as [E|Hin].
  - inversion E; subst. rewrite String.eqb_refl. reflexivity.
  - destruct (String.eqb_spec k' k) as [->|Hne]; [|apply IH; assumption].
    exfalso. apply Hn. apply in_map_iff. exists (k, ms). auto.
Qed.

(** ** setIsIota *)

Definition sorted_by_val (l : list (emember * Z)) : Prop := StronglySorted (fun a b => (snd a <= snd b)%Z) l.

Lemma insert_by_val_perm x l : Permutation (insert_by_val x l) (x :: l).
Proof.
  induction l as [|y r IH]; simpl; [reflexivity|].
  destruct (Z.ltb (snd x) (snd y)); [reflexivity|]. rewrite IH. apply perm_swap.
Qed.

Lemma insert_by_val_sorted x l : sorted_by_val l -> sorted_by_val (insert_by_val x l).
Proof.
  unfold sorted_by_val. induction 1 as [|y r Hs IH Hall]; simpl.
  - constructor; constructor.
  - destruct (Z.ltb_spec (snd x) (snd y)).
    + constructor; [constructor; assumption|]. constructor; [lia|].
      rewrite Forall_forall in *. intros z Hz. specialize (Hall z Hz). lia.
    + constructor; [assumption|]. rewrite Forall_forall in *. intros z Hz.
      apply (Permutation_in _ (insert_by_val_perm x r)) in Hz. destruct Hz as [<-|Hz]; [lia|auto].
Qed.

Lemma sort_by_val_perm l : Permutation (sort_by_val l) l.
Proof.
  unfold sort_by_val. rewrite (Permutation_rev l) at 2. induction (rev l) as [|x r IH]; simpl; [reflexivity|].
  rewrite insert_by_val_perm. constructor. assumption.
Qed.

Lemma sort_by_val_sorted l : sorted_by_val (sort_by_val l).
Proof.
  unfold sort_by_val. induction (rev l) as [|x r IH]; simpl; [constructor|]. apply insert_by_val_sorted. assumption.
Qed.

(** a sorted list of integers that is a permutation of 0..n-1 is 0..n-1 *)
Lemma zseq_In s n x : In x (zseq s n) <-> (s <= x < s + Z.of_nat n)%Z.
Proof.
  revert s. induction n as [|n IH]; intro s; simpl; [lia|].
  rewrite IH. lia.
Qed.

Lemma zseq_length s n : List.length (zseq s n) = n.
Proof. revert s; induction n; intro s; simpl; auto. Qed.

Lemma zseq_NoDup s n : NoDup (zseq s n).
Proof.
  revert s. induction n as [|n IH]; intro s; simpl; constructor; [|apply IH].
  rewrite zseq_In. lia.
Qed.

Definition zsorted (l : list Z) : Prop := StronglySorted Z.le l.

Lemma sorted_perm_zseq l : forall s n, zsorted l -> Permutation l (zseq s n) -> l = zseq s n.
Proof.
  induction l as [|x r IH]; intros s n Hs Hp.
  - apply Permutation_length in Hp. rewrite zseq_length in Hp. destruct n; [reflexivity|discriminate].
  - destruct n as [|n]; [apply Permutation_length in Hp; discriminate|].
    inversion Hs as [|? ? Hsr Hall]; subst. rewrite Forall_forall in Hall.
    assert (x = s) as ->.
    { assert (In x (zseq s (S n))) as Hx by (eapply Permutation_in; [exact Hp|left; reflexivity]).
      assert (In s (x :: r)) as Hsin by (eapply Permutation_in; [apply Permutation_sym; exact Hp|left; reflexivity]).
      apply zseq_In in Hx. destruct Hsin as [E|Hsin]; [auto|]. specialize (Hall _ Hsin). lia. }
    simpl. f_equal. apply IH; [assumption|]. simpl in Hp. eapply Permutation_cons_inv. exact Hp.
Qed.

Lemma filter_sorted (f : emember * Z -> bool) l : sorted_by_val l -> sorted_by_val (filter f l).
Proof.
  unfold sorted_by_val. induction 1 as [|y r Hs IH Hall]; simpl; [constructor|].
  destruct (f y); [|assumption]. constructor; [assumption|].
  rewrite Forall_forall in *. intros z Hz. apply filter_In in Hz. apply Hall. tauto.
Qed.

Lemma map_snd_sorted l : sorted_by_val l -> zsorted (map snd l).
Proof.
  unfold sorted_by_val, zsorted. induction 1 as [|y r Hs IH Hall]; simpl; constructor; [assumption|].
  rewrite Forall_forall in *. intros z Hz. apply in_map_iff in Hz. destruct Hz as [w [<- Hw]]. apply Hall. assumption.
Qed.

(** dedupZ and pigeonhole *)
Lemma dedupZ_In l x : In x (dedupZ l) <-> In x l.
Proof.
  induction l as [|y r IH]; simpl; [tauto|].
  destruct (existsb (Z.eqb y) r) eqn:E.
  - rewrite IH. split; [tauto|]. intros [<-|H]; [|assumption].
    apply existsb_exists in E. destruct E as [z [Hz Ez]]. apply Z.eqb_eq in Ez. subst. assumption.
  - simpl. rewrite IH. tauto.
Qed.

Lemma dedupZ_NoDup l : NoDup (dedupZ l).
Proof.
  induction l as [|y r IH]; simpl; [constructor|].
  destruct (existsb (Z.eqb y) r) eqn:E; [assumption|]. constructor; [|assumption].
  rewrite dedupZ_In. intro Hin. assert (existsb (Z.eqb y) r = true); [|congruence].
  apply existsb_exists. exists y. split; [assumption|apply Z.eqb_refl].
Qed.

Lemma dedupZ_length_le l : List.length (dedupZ l) <= List.length l.
Proof. induction l as [|y r IH]; simpl; [lia|]. destruct (existsb (Z.eqb y) r); simpl; lia. Qed.

Lemma dedupZ_same_length_NoDup l : List.length (dedupZ l) = List.length l -> NoDup l.
Proof.
  induction l as [|y r IH]; simpl; intro H; [constructor|].
  destruct (existsb (Z.eqb y) r) eqn:E.
  - pose proof (dedupZ_length_le r). lia.
  - simpl in H. constructor; [|apply IH; lia].
    intro Hin. assert (existsb (Z.eqb y) r = true); [|congruence].
    apply existsb_exists. exists y. split; [assumption|apply Z.eqb_refl].
Qed.

Lemma NoDup_dedupZ_id l : NoDup l -> dedupZ l = l.
Proof.
  induction 1 as [|y r Hn Hr IH]; simpl; [reflexivity|].
  destruct (existsb (Z.eqb y) r) eqn:E; [|rewrite IH; reflexivity].
  exfalso. apply existsb_exists in E. destruct E as [z [Hz Ez]]. apply Z.eqb_eq in Ez. subst. contradiction.
Qed.

Lemma zmax_acc l : forall acc, (acc <= fold_left Z.max l acc)%Z.
Proof. induction l as [|y r IH]; intro acc; simpl; [lia|]. specialize (IH (Z.max acc y)). lia. Qed.

Lemma zmax_ge l : forall acc x, In x l -> (x <= fold_left Z.max l acc)%Z.
Proof.
  induction l as [|y r IH]; intros acc x Hin; simpl in *; [contradiction|].
  destruct Hin as [<-|Hin]; [|apply IH; assumption].
  pose proof (zmax_acc r (Z.max acc y)). lia.
Qed.

Lemma zmax_in l : forall acc, fold_left Z.max l acc = acc \/ In (fold_left Z.max l acc) l.
Proof.
  induction l as [|y r IH]; intro acc; simpl; [auto|].
  destruct (IH (Z.max acc y)) as [E|Hin]; [|auto].
  rewrite E. destruct (Z.max_spec acc y) as [[_ ->]|[_ ->]]; auto.
Qed.

(** non-negative distinct values, as many as max+1: they are exactly 0..max *)
Lemma pigeonhole ex :
  Forall (fun v => (0 <= v)%Z) ex -> NoDup ex ->
  Z.of_nat (List.length ex) = (zmax ex + 1)%Z ->
  Permutation ex (zseq 0 (List.length ex)).
Proof.
  intros Hpos Hnd Hlen. apply NoDup_Permutation_bis; [assumption| |].
  - rewrite zseq_length. lia.
  - intros x Hx. apply zseq_In. rewrite Forall_forall in Hpos. specialize (Hpos x Hx).
    pose proof (zmax_ge ex (-1)%Z x Hx). unfold zmax in Hlen. lia.
Qed.

Lemma all_values_spec ms vs : all_values ms = Some vs ->
  List.length vs = List.length ms /\ Forall (fun v => (0 <= v)%Z) vs /\
  Forall (fun mv => int64_of (em_val (fst mv)) = Some (snd mv)) (combine ms vs).
Proof.
  revert vs. induction ms as [|m r IH]; intros vs H; simpl in H.
  - inversion H; subst. repeat split; constructor.
  - destruct (int64_of (em_val m)) as [v|] eqn:E; [|discriminate].
    destruct (all_values r) as [vs'|]; [|discriminate].
    destruct (Z.ltb_spec v 0); [discriminate|]. inversion H; subst.
    destruct (IH vs' eq_refl) as [L [P C]]. simpl. repeat split; [congruence|constructor; assumption|constructor; assumption].
Qed.

Definition exported_vals (ms : list emember) (vs : list Z) : list Z :=
  map snd (filter (fun mv => em_exported (fst mv)) (combine ms vs)).

Lemma combine_map_fst {A B} (a : list A) (b : list B) : List.length a = List.length b -> map fst (combine a b) = a.
Proof. revert b; induction a as [|x r IH]; intros [|y b] H; simpl in *; try discriminate; auto. f_equal. apply IH. lia. Qed.

(** the exported values, read off the member list through [int64_of] *)
Definition exported_int64 (ms : list emember) : list (option Z) :=
  map (fun m => int64_of (em_val m)) (filter em_exported ms).

Lemma exported_of_pairs l :
  Forall (fun mv : emember * Z => int64_of (em_val (fst mv)) = Some (snd mv)) l ->
  exported_int64 (map fst l) = map Some (map snd (filter (fun mv => em_exported (fst mv)) l)).
Proof.
  unfold exported_int64. induction 1 as [|[m v] r Hmv Hr IH]; simpl; [reflexivity|].
  destruct (em_exported m); simpl; [|assumption]. simpl in Hmv. rewrite Hmv. f_equal. assumption.
Qed.

Lemma Forall_perm {A} (P : A -> Prop) l l' : Permutation l l' -> Forall P l -> Forall P l'.
Proof. intros Hp H. rewrite Forall_forall in *. intros x Hx. apply H. eapply Permutation_in; [apply Permutation_sym|]; eauto. Qed.

Lemma filter_perm {A} (f : A -> bool) l l' : Permutation l l' -> Permutation (filter f l) (filter f l').
Proof.
  induction 1; simpl; auto.
  - destruct (f x); auto.
  - destruct (f x), (f y); auto. apply perm_swap.
  - etransitivity; eauto.
Qed.

(** soundness: when the flag is set the type is integer-backed and the exported members,
    in the reported order, carry 0,1,2,...; the members are only permuted *)
Lemma set_is_iota_sound is_int ms ms' :
  set_is_iota is_int ms = (ms', true) ->
  is_int = true /\ Permutation ms' ms /\
  exported_int64 ms' = map Some (zseq 0 (List.length (filter em_exported ms'))).
Proof.
  unfold set_is_iota. destruct is_int; simpl; [|intro H; inversion H].
  destruct (all_values ms) as [vs|] eqn:Hv; [|intro H; inversion H].
  destruct (all_values_spec ms vs Hv) as [Hlen [Hpos Hpairs]].
  set (ex := map snd (filter (fun mv => em_exported (fst mv)) (combine ms vs))).
  destruct (Z.eqb_spec (Z.of_nat (List.length (dedupZ ex))) (zmax ex + 1)) as [Hmax|]; simpl; [|intro H; inversion H].
  destruct (Nat.eqb_spec (List.length ex) (List.length (dedupZ ex))) as [Hnd|]; [|intro H; inversion H].
  intro H. inversion H; subst ms'. clear H. split; [reflexivity|].
  set (sorted := sort_by_val (combine ms vs)).
  assert (Hperm : Permutation sorted (combine ms vs)) by apply sort_by_val_perm.
  split.
  - pose proof (combine_map_fst ms vs (eq_sym Hlen)) as Hfst.
    transitivity (map fst (combine ms vs)); [apply Permutation_map; assumption|rewrite Hfst; reflexivity].
  - assert (Hpairs' : Forall (fun mv => int64_of (em_val (fst mv)) = Some (snd mv)) sorted)
      by (eapply Forall_perm; [apply Permutation_sym; exact Hperm|assumption]).
    rewrite (exported_of_pairs sorted Hpairs'). f_equal.
    set (ex' := map snd (filter (fun mv => em_exported (fst mv)) sorted)).
    assert (Hpex : Permutation ex' ex).
    { unfold ex', ex. apply Permutation_map. apply filter_perm. assumption. }
    assert (NoDup ex) as Hnodup by (apply dedupZ_same_length_NoDup; lia).
    assert (Forall (fun v => (0 <= v)%Z) ex) as Hexpos.
    { unfold ex. rewrite Forall_forall. intros v Hin. apply in_map_iff in Hin. destruct Hin as [[m v'] [<- Hin]].
      apply filter_In in Hin. destruct Hin as [Hin _]. apply in_combine_r in Hin. rewrite Forall_forall in Hpos. apply Hpos. assumption. }
    assert (Hlenex : Z.of_nat (List.length ex) = (zmax ex + 1)%Z) by (rewrite Hnd; assumption).
    pose proof (pigeonhole ex Hexpos Hnodup Hlenex) as Hpig.
    assert (List.length (filter em_exported (map fst sorted)) = List.length ex') as Hl.
    { unfold ex'. rewrite map_length. clear. induction sorted as [|[m v] r IH]; simpl; [reflexivity|].
      destruct (em_exported m); simpl; rewrite IH; reflexivity. }
    rewrite Hl. rewrite (Permutation_length Hpex).
    apply sorted_perm_zseq.
    + unfold ex'. apply map_snd_sorted. apply filter_sorted. apply sort_by_val_sorted.
    + etransitivity; eassumption.
Qed.

(** when the flag is not set, the members are left as collected *)
Lemma set_is_iota_false is_int ms ms' : set_is_iota is_int ms = (ms', false) -> ms' = ms.
Proof.
  unfold set_is_iota. destruct (negb is_int); [intro H; inversion H; reflexivity|].
  destruct (all_values ms); [|intro H; inversion H; reflexivity].
  destruct (_ && _); intro H; inversion H; reflexivity.
Qed.

(** completeness: integer-backed, every value a non-negative int64, and the exported values are
    exactly 0..n-1 each once (in any order) -> flagged. A plain iota block is such an enum. *)
Lemma zmax_perm_zseq ex n : Permutation ex (zseq 0 n) -> zmax ex = (Z.of_nat n - 1)%Z.
Proof.
  intro Hp. unfold zmax.
  assert (forall x, In x ex <-> (0 <= x < Z.of_nat n)%Z) as Hin.
  { intro x. rewrite <- (zseq_In 0 n x). split; apply Permutation_in; [assumption|apply Permutation_sym; assumption]. }
  destruct (zmax_in ex (-1)%Z) as [E|Hm].
  - rewrite E. destruct n as [|n]; [simpl; lia|].
    assert (In 0%Z ex) as H0 by (apply Hin; lia). pose proof (zmax_ge ex (-1)%Z 0%Z H0). lia.
  - apply Hin in Hm. destruct n as [|n]; [lia|].
    assert (In (Z.of_nat (S n) - 1)%Z ex) as Hn by (apply Hin; lia).
    pose proof (zmax_ge ex (-1)%Z _ Hn). lia.
Qed.

Lemma set_is_iota_complete ms vs :
  all_values ms = Some vs ->
  Permutation (exported_vals ms vs) (zseq 0 (List.length (exported_vals ms vs))) ->
  snd (set_is_iota true ms) = true.
Proof.
  intros Hv Hp. unfold set_is_iota. simpl. rewrite Hv. fold (exported_vals ms vs).
  set (ex := exported_vals ms vs) in *.
  assert (NoDup ex) as Hnd by (eapply Permutation_NoDup; [apply Permutation_sym; exact Hp|apply zseq_NoDup]).
  rewrite (NoDup_dedupZ_id ex Hnd). rewrite (zmax_perm_zseq ex _ Hp).
  rewrite Nat.eqb_refl.
  destruct (Z.eqb_spec (Z.of_nat (List.length ex)) (Z.of_nat (List.length ex) - 1 + 1)); [reflexivity|lia].
Qed.

(** the pinned version accepted duplicated exported values *)
Lemma set_is_iota_pinned_refuted :
  let ms := [ {| em_name := "Red"; em_val := CInt 0; em_exact := "0"; em_exported := true; em_comment := "" |};
              {| em_name := "Green"; em_val := CInt 1; em_exact := "1"; em_exported := true; em_comment := "" |};
              {| em_name := "Blue"; em_val := CInt 1; em_exact := "1"; em_exported := true; em_comment := "" |} ] in
  snd (set_is_iota_pinned true ms) = true /\
  exported_int64 (fst (set_is_iota_pinned true ms)) <> map Some (zseq 0 3).
Proof. split; [reflexivity|]. vm_compute. discriminate. Qed.

(** ** nodeAt *)
Lemma pinned_comment_crashes_on_second_name :
  exists c, (exists v, In v (c_cands c) /\ cd_kind v = NValueSpec) /\ is_crash (fetch_const_comment_pinned c) = true.
Proof.
  exists {| c_name := "B"; c_type := Some "p.T"; c_val := CInt 1; c_exact := "1"; c_exported := true; c_comment := ""; c_pos := 30;
            c_cands := [ {| cd_kind := NFile; cd_pos := 1; cd_end := 100 |}; {| cd_kind := NGenDecl; cd_pos := 20; cd_end := 40 |};
                         {| cd_kind := NValueSpec; cd_pos := 26; cd_end := 40 |}; {| cd_kind := NIdent; cd_pos := 30; cd_end := 31 |} ] |}.
  split; [eexists; split; [right; right; left; reflexivity|reflexivity]|reflexivity].
Qed.

(** ** fetch_pkg_enums_raw *)
Definition const_wf (c : cdecl) : Prop := exists v, In v (c_cands c) /\ nkind_eqb (cd_kind v) NValueSpec = true.

Lemma enclosing_some c : const_wf c -> fetch_const_comment c = Ok (c_comment c).
Proof.
  intros [v [Hin Hk]]. unfold fetch_const_comment, enclosing_value_spec.
  destruct (find (fun c0 => nkind_eqb (cd_kind c0) NValueSpec) (rev (c_cands c))) eqn:F; [reflexivity|].
  exfalso. assert (In v (rev (c_cands c))) as Hr by (apply -> in_rev; assumption).
  pose proof (find_none _ _ F v Hr) as X. simpl in X. congruence.
Qed.

Definition opted_out (c : cdecl) : bool := contains ignore_decl_comment (c_comment c).

(** the constants the statement calls the members of type [id] *)
Definition spec_members (cs : list cdecl) (id : string) : list cdecl :=
  filter (fun c => match c_type c with Some t => String.eqb t id && negb (opted_out c) | None => false end) cs.

Lemma entries_filter cs id : Forall const_wf cs ->
  map snd (filter (fun e => String.eqb (fst e) id) (entries cs)) =
  map (fun c => member_of c (c_comment c)) (spec_members cs id).
Proof.
  induction 1 as [|c r Hc Hr IH]; simpl; [reflexivity|].
  unfold entries in *. simpl. rewrite filter_app, map_app, IH. clear IH.
  unfold entry_of, opted_out. destruct (c_type c) as [t|]; simpl; [|reflexivity].
  rewrite (enclosing_some c Hc).
  destruct (contains ignore_decl_comment (c_comment c)); simpl; [rewrite andb_false_r; reflexivity|].
  rewrite andb_true_r. destruct (String.eqb t id); reflexivity.
Qed.

Lemma entries_keys cs id : Forall const_wf cs ->
  In id (map fst (entries cs)) <-> spec_members cs id <> [].
Proof.
  induction 1 as [|c r Hc Hr IH]; simpl; [tauto|].
  unfold entries in *. simpl. rewrite map_app, in_app_iff, IH. clear IH.
  unfold entry_of, opted_out. destruct (c_type c) as [t|]; simpl; [|tauto].
  rewrite (enclosing_some c Hc).
  destruct (contains ignore_decl_comment (c_comment c)); simpl; [rewrite andb_false_r; tauto|].
  rewrite andb_true_r. destruct (String.eqb_spec t id); simpl.
  - subst. split; [discriminate|auto].
  - split; [intros [[E|[]]|H]; [congruence|assumption]|auto].
Qed.

(** the raw table: one entry per type that has a member, holding its members in scope order *)
Lemma collect_table cs tbl : Forall const_wf cs -> collect cs [] = Ok tbl ->
  keys_unique tbl /\
  (forall id, In id (map fst tbl) <-> spec_members cs id <> []) /\
  (forall id, assoc id tbl = map (fun c => member_of c (c_comment c)) (spec_members cs id)).
Proof.
  intros Hwf H. rewrite collect_entries in H. inversion H; subst tbl. clear H. repeat split.
  - apply add_all_unique. constructor.
  - rewrite add_all_keys. simpl. rewrite <- (entries_keys cs id Hwf). tauto.
  - intro H. apply add_all_keys. left. apply (entries_keys cs id Hwf). assumption.
  - intro id. rewrite add_all_assoc. simpl. apply entries_filter. assumption.
Qed.

Lemma fetch_pkg_enums_ok types p : exists es, fetch_pkg_enums_raw types p = Ok es.
Proof. unfold fetch_pkg_enums_raw. rewrite collect_entries. simpl. eexists. reflexivity. Qed.

Lemma fetch_pkg_enums_spec types p es :
  Forall const_wf (p_consts p) -> fetch_pkg_enums_raw types p = Ok es ->
  NoDup (map en_id es) /\
  (forall id, In id (map en_id es) <-> spec_members (p_consts p) id <> []) /\
  (forall e, In e es ->
     let raw := map (fun c => member_of c (c_comment c)) (spec_members (p_consts p) (en_id e)) in
     Permutation (en_members e) raw /\
     (en_is_iota e = false -> en_members e = raw) /\
     (en_is_iota e = true ->
        type_is_integer types (en_id e) = true /\
        exported_int64 (en_members e) = map Some (zseq 0 (List.length (filter em_exported (en_members e)))))).
Proof.
  intros Hwf H. unfold fetch_pkg_enums_raw in H.
  destruct (collect (p_consts p) []) as [tbl| |] eqn:Hc; simpl in H; try discriminate.
  inversion H; subst es. clear H.
  destruct (collect_table _ _ Hwf Hc) as [Hu [Hk Ha]].
  assert (Hids : map en_id (map (fun kv => let '(ms, iota) := set_is_iota (type_is_integer types (fst kv)) (snd kv) in
                     {| en_id := fst kv; en_members := ms; en_is_iota := iota |}) tbl) = map fst tbl).
  { rewrite map_map. apply map_ext. intros [k ms]. simpl. destruct (set_is_iota _ ms). reflexivity. }
  split; [rewrite Hids; exact Hu|]. split; [intro id; rewrite Hids; apply Hk|].
  intros e He. apply in_map_iff in He. destruct He as [[k ms] [He Hin]]. simpl in He.
  destruct (set_is_iota (type_is_integer types k) ms) as [ms' iota] eqn:Hs. subst e. simpl.
  rewrite <- (Ha k). rewrite (assoc_in k ms tbl Hu Hin).
  destruct iota.
  - destruct (set_is_iota_sound _ _ _ Hs) as [Hi [Hp Hx]]. split; [assumption|]. split; [discriminate|]. intros _. auto.
  - apply set_is_iota_false in Hs. subst ms'. split; [reflexivity|]. split; [reflexivity|discriminate].
Qed.

Lemma fetch_pkg_enums_flag types p es e :
  Forall const_wf (p_consts p) -> fetch_pkg_enums_raw types p = Ok es -> In e es ->
  en_is_iota e = snd (set_is_iota (type_is_integer types (en_id e))
                        (map (fun c => member_of c (c_comment c)) (spec_members (p_consts p) (en_id e)))).
Proof.
  intros Hwf H He. unfold fetch_pkg_enums_raw in H.
  destruct (collect (p_consts p) []) as [tbl| |] eqn:Hc; simpl in H; try discriminate.
  inversion H; subst es. clear H.
  destruct (collect_table _ _ Hwf Hc) as [Hu [Hk Ha]].
  apply in_map_iff in He. destruct He as [[k ms] [He Hin]]. simpl in He.
  destruct (set_is_iota (type_is_integer types k) ms) as [ms' iota] eqn:Hs. subst e. simpl.
  rewrite <- (Ha k). rewrite (assoc_in k ms tbl Hu Hin). rewrite Hs. reflexivity.
Qed.

Lemma concat_results_ok {A} (l : list (result (list A))) :
  Forall (fun r => exists x, r = Ok x) l -> exists x, concat_results l = Ok x.
Proof.
  induction 1 as [|r rest [x ->] Hr [y IH]]; simpl; [eexists; reflexivity|].
  rewrite IH. simpl. eexists. reflexivity.
Qed.

Lemma merge_all_ok (l : list (result (list enum))) :
  Forall (fun r => exists x, r = Ok x) l -> forall acc, exists x, merge_all l acc = Ok x.
Proof.
  induction 1 as [|r rest [x ->] Hr IH]; intros acc; simpl; [eexists; reflexivity|]. apply IH.
Qed.

Lemma merge_all_in (l : list (result (list enum))) : forall acc x e,
  merge_all l acc = Ok x -> In e x -> In e acc \/ exists y, In (Ok y) l /\ In e y.
Proof.
  induction l as [|r rest IH]; intros acc x e H Hin; simpl in H.
  - inversion H; subst. left. exact Hin.
  - destruct r as [a| |]; simpl in H; try discriminate.
    destruct (IH _ _ _ H Hin) as [Hm | [y [Hy He]]].
    + unfold merge_enums in Hm. apply in_app_iff in Hm. destruct Hm as [Hm | Hm].
      * apply filter_In in Hm. left. exact (proj1 Hm).
      * right. exists a. split; [left; reflexivity | exact Hm].
    + right. exists y. split; [right; exact Hy | exact He].
Qed.

Lemma fetch_enums_ok pr : exists es, fetch_enums pr = Ok es.
Proof.
  unfold fetch_enums. apply merge_all_ok. rewrite Forall_forall. intros r Hr.
  apply in_map_iff in Hr. destruct Hr as [path [<- _]].
  destruct (find_pkg path (pr_pkgs pr)); [unfold fetch_pkg_enums; apply fetch_pkg_enums_ok|eexists; reflexivity].
Qed.

Lemma concat_results_in {A} (l : list (result (list A))) x e :
  concat_results l = Ok x -> In e x -> exists y, In (Ok y) l /\ In e y.
Proof.
  revert x. induction l as [|r rest IH]; intros x H Hin; simpl in H.
  - inversion H; subst. contradiction.
  - destruct r as [a| |]; simpl in H; try discriminate.
    destruct (concat_results rest) as [b| |] eqn:E; simpl in H; try discriminate.
    inversion H; subst. apply in_app_iff in Hin. destruct Hin as [Hin|Hin].
    + exists a. split; [left; reflexivity|assumption].
    + destruct (IH b eq_refl Hin) as [y [Hy He]]. exists y. split; [right; assumption|assumption].
Qed.

(** every enum of the walk comes from the constants of one selected package *)
Lemma fetch_enums_origin pr es e : fetch_enums pr = Ok es -> In e es ->
  exists path p pes, In path (selected_pkgs pr) /\ find_pkg path (pr_pkgs pr) = Some p /\
    fetch_pkg_enums_raw (pr_types pr) (own_pkg (pr_types pr) p) = Ok pes /\ In e pes.
Proof.
  intros H He. unfold fetch_enums, fetch_pkg_enums in H. destruct (merge_all_in _ _ _ _ H He) as [[] | [y [Hy Hin]]].
  apply in_map_iff in Hy. destruct Hy as [path [Hr Hp]].
  destruct (find_pkg path (pr_pkgs pr)) as [p|] eqn:F.
  - exists path, p, y. auto.
  - inversion Hr; subst. contradiction.
Qed.
