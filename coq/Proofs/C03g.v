(** C03, global statement: under the agreement table [tsim_ok], every document conforming to the Go
    wire shape inhabits the TypeScript type, whatever its size and depth. *)
From Coq Require Import List String Ascii ZArith Bool Arith Lia.
From GM Require Import Sem.GoJson Sem.TsSem Sem.PgSem Sem.PgSim Sem.TsSim Proofs.C04.
Import ListNotations.
Local Open Scope string_scope.

Lemma texpr_eqb_eq : forall a b, texpr_eqb a b = true -> a = b.
Proof.
  induction a; intros b; destruct b; simpl; try discriminate; intros H; try reflexivity.
  - apply String.eqb_eq in H. subst. reflexivity.
  - f_equal. apply IHa. exact H.
  - f_equal. apply IHa. exact H.
  - apply andb_true_iff in H. destruct H as [H1 H2]. f_equal; [apply IHa1 | apply IHa2]; assumption.
Qed.

Section Mono.
  Variable env : tenv.

  (** one level of [inhabitsb], the recursive calls abstracted *)
  Definition inh_step (rec : texpr -> json -> bool) (t : texpr) (j : json) : bool :=
    match t with
    | TUnknown => true
    | TString => match j with JStr _ => true | _ => false end
    | TNumber => match j with JNum _ => true | _ => false end
    | TBoolean => match j with JBool _ => true | _ => false end
    | TNullable t' => match j with JNull => true | _ => rec t' j end
    | TArr t' => match j with JArr l => forallb (rec t') l | _ => false end
    | TRecord _ v => match j with JObj l => forallb (fun kv => rec v (snd kv)) l | _ => false end
    | TRef n =>
        match lookup_decl n env with
        | None => false
        | Some (TDAlias t') => rec t' j
        | Some (TDBrand b) => rec b j
        | Some (TDTuple n t') => match j with JArr l => Nat.eqb (List.length l) n && forallb (rec t') l | _ => false end
        | Some (TDEnum vs) => existsb (json_eqb j) vs
        | Some TDEmptyRecord => match j with JObj [] => true | _ => false end
        | Some (TDInterface fields) =>
            match j with
            | JObj l =>
                nodup_keys l
                && forallb (fun kv => existsb (fun fd => String.eqb (fst fd) (fst kv)) fields) l
                && forallb (fun fd => match assoc_json (fst fd) l with Some v => rec (snd fd) v | None => false end) fields
            | _ => false end
        | Some (TDUnion alts) =>
            match j with
            | JObj l =>
                Nat.eqb (List.length l) 2 &&
                match assoc_json "Kind" l, assoc_json "Data" l with
                | Some (JStr k), Some d =>
                    match find (fun a => String.eqb (fst a) k) alts with
                    | Some a => rec (snd a) d
                    | None => false end
                | _, _ => false end
            | _ => false end
        end
    end.

  Lemma inh_unfold f t j : inhabitsb env (S f) t j = inh_step (inhabitsb env f) t j.
  Proof. reflexivity. Qed.

  Lemma inh_step_mono (r r' : texpr -> json -> bool) : (forall t j, r t j = true -> r' t j = true) ->
    forall t j, inh_step r t j = true -> inh_step r' t j = true.
  Proof.
    intros Hr t j H.
    assert (Hall : forall t' l, forallb (r t') l = true -> forallb (r' t') l = true).
    { intros t' l Hl. rewrite forallb_forall in *. intros x Hx. apply Hr. apply Hl. exact Hx. }
    assert (Hallkv : forall t' (l : list (string * json)), forallb (fun kv => r t' (snd kv)) l = true -> forallb (fun kv => r' t' (snd kv)) l = true).
    { intros t' l Hl. rewrite forallb_forall in *. intros x Hx. apply Hr. apply Hl. exact Hx. }
    unfold inh_step in *.
    destruct t as [| | | | n | t' | t' | k v]; try exact H.
    - destruct (lookup_decl n env) as [[t' | b | k t' | vs | fields | | alts]|]; try exact H.
      + apply Hr. exact H.
      + apply Hr. exact H.
      + destruct j; try exact H. apply andb_true_iff in H. destruct H as [H1 H2]. rewrite H1. simpl. apply Hall. exact H2.
      + destruct j; try exact H. apply andb_true_iff in H. destruct H as [H H3]. rewrite H. simpl.
        rewrite forallb_forall in *. intros fd Hfd. pose proof (H3 fd Hfd) as Hv. destruct (assoc_json (fst fd) l); [apply Hr; exact Hv | exact Hv].
      + destruct j; try exact H. apply andb_true_iff in H. destruct H as [H1 H2]. rewrite H1. simpl.
        destruct (assoc_json "Kind" l) as [[| | | k | |]|]; try exact H2. destruct (assoc_json "Data" l); try exact H2.
        destruct (find (fun a => String.eqb (fst a) k) alts); [apply Hr; exact H2 | exact H2].
    - destruct j; try exact H; apply Hr; exact H.
    - destruct j; try exact H. apply Hall. exact H.
    - destruct j; try exact H. apply Hallkv. exact H.
  Qed.

  Lemma inh_mono : forall f t j, inhabitsb env f t j = true -> inhabitsb env (S f) t j = true.
  Proof.
    induction f as [|f IH]; intros t j H; [simpl in H; discriminate|].
    rewrite inh_unfold in H. rewrite inh_unfold. apply (inh_step_mono (inhabitsb env f) (inhabitsb env (S f)) IH). exact H.
  Qed.

  Lemma inh_mono_le f f' t j : f <= f' -> inhabitsb env f t j = true -> inhabitsb env f' t j = true.
  Proof. intros Hle H. induction Hle; [exact H | apply inh_mono; exact IHHle]. Qed.

  (** a common fuel for the elements of a list *)
  Lemma common_fuel {A} (P : nat -> A -> bool) (l : list A) :
    (forall f x, P f x = true -> P (S f) x = true) ->
    (forall x, In x l -> exists f, P f x = true) -> exists F, forall x, In x l -> P F x = true.
  Proof.
    intros Hm. assert (Hle : forall f f' x, f <= f' -> P f x = true -> P f' x = true).
    { intros f f' x Hl H. induction Hl; [exact H | apply Hm; exact IHHl]. }
    induction l as [|a l IH]; intros H; [exists 0; intros x []|].
    destruct (H a (or_introl eq_refl)) as [fa Ha]. destruct (IH (fun x Hx => H x (or_intror Hx))) as [F HF].
    exists (Nat.max fa F). intros x [Hx | Hx]; [subst; apply (Hle fa); [lia | exact Ha] | apply (Hle F); [lia | apply HF; exact Hx]].
  Qed.
End Mono.

Section Global.
  Variable tenv0 : tenv.
  Variable jenv0 : jenv.
  Variable tb : ttable.
  Hypothesis Hsim : tsim_ok tenv0 jenv0 tb = true.

  Lemma tmemb_entry te sh : tmemb tb te sh = true -> tentry_ok tenv0 jenv0 tb (te, sh) = true.
  Proof.
    unfold tmemb. intros H. apply existsb_exists in H. destruct H as [[te' sh'] [Hin He]]. simpl in He.
    apply andb_true_iff in He. destruct He as [H1 H2]. apply texpr_eqb_eq in H1. apply jshape_eqb_eq in H2. subst.
    unfold tsim_ok in Hsim. rewrite forallb_forall in Hsim. apply Hsim. exact Hin.
  Qed.

  Definition inh_at (n : nat) : Prop :=
    forall te sh j, tmemb tb te sh = true -> conformsb jenv0 n sh j = true -> exists m, inhabitsb tenv0 m te j = true.

  Lemma elems_inh n t' s l : inh_at n -> tmemb tb t' s = true -> forallb (conformsb jenv0 n s) l = true ->
    exists M, forallb (inhabitsb tenv0 M t') l = true.
  Proof.
    intros IH Hm Hf. rewrite forallb_forall in Hf.
    destruct (common_fuel (fun f x => inhabitsb tenv0 f t' x) l (fun f x => inh_mono tenv0 f t' x)
                (fun x Hx => IH t' s x Hm (Hf x Hx))) as [M HM].
    exists M. apply forallb_forall. exact HM.
  Qed.

  Lemma inh_all : forall n, inh_at n.
  Proof.
    induction n as [n IHn] using lt_wf_ind. intros te. remember (hops tenv0 hop_fuel te) as h eqn:Eh. revert te Eh.
    induction h as [h IHh] using lt_wf_ind. intros te Eh sh j Hm Hc.
    pose proof (tmemb_entry _ _ Hm) as He. unfold tentry_ok in He. cbn [fst snd] in He.
    destruct n as [|n1]; [simpl in Hc; discriminate|].
    destruct te as [| | | | nm | t0 | t0 | k v]; try discriminate.
    - (* string *) destruct sh; try discriminate. simpl in Hc. destruct j; try discriminate. exists 1. reflexivity.
    - destruct sh; try discriminate. simpl in Hc. destruct j; try discriminate. exists 1. reflexivity.
    - destruct sh; try discriminate. simpl in Hc. destruct j; try discriminate. exists 1. reflexivity.
    - exists 1. reflexivity.
    - (* reference *)
      destruct (lookup_decl nm tenv0) as [[t' | t' | k t' | vs | fields | | alts]|] eqn:Hl; try discriminate.
      + (* alias *)
        apply andb_true_iff in He. destruct He as [He1 He2]. apply Nat.eqb_eq in He2.
        destruct (IHh (hops tenv0 hop_fuel t') ltac:(lia) t' eq_refl sh j He1 Hc) as [m Hm'].
        exists (S m). rewrite inh_unfold. unfold inh_step. rewrite Hl. exact Hm'.
      + apply andb_true_iff in He. destruct He as [He1 He2]. apply Nat.eqb_eq in He2.
        destruct (IHh (hops tenv0 hop_fuel t') ltac:(lia) t' eq_refl sh j He1 Hc) as [m Hm'].
        exists (S m). rewrite inh_unfold. unfold inh_step. rewrite Hl. exact Hm'.
      + (* tuple *)
        destruct sh as [| | | | | k' s | | | |]; try discriminate. apply andb_true_iff in He. destruct He as [He1 He2]. apply Nat.eqb_eq in He1. subst k'.
        simpl in Hc. destruct j; try discriminate. apply andb_true_iff in Hc. destruct Hc as [Hc1 Hc2].
        destruct (elems_inh n1 t' s l (IHn n1 ltac:(lia)) He2 Hc2) as [M HM].
        exists (S M). rewrite inh_unfold. unfold inh_step. rewrite Hl, Hc1, HM. reflexivity.
      + (* enum *)
        destruct sh as [| | | | | | | vs' | |]; try discriminate. apply (list_eqb_eq json_eqb json_eqb_eq) in He. subst vs'.
        simpl in Hc. exists 1. rewrite inh_unfold. unfold inh_step. rewrite Hl. exact Hc.
      + (* interface *)
        destruct sh as [| | | | | | | | id |]; try discriminate.
        destruct (lookup_def id jenv0) as [[gf | members]|] eqn:Hd; try discriminate.
        simpl in Hc. rewrite Hd in Hc. destruct j; try discriminate.
        apply andb_true_iff in Hc. destruct Hc as [Hc Hc3]. apply andb_true_iff in Hc. destruct Hc as [Hc1 Hc2].
        destruct (forallb2_combine _ _ _ He) as [Hlen Hpair]. rewrite forallb_forall in Hc3.
        assert (Hfields : forall tf, In tf fields -> exists f, (fun f tf => match assoc_json (fst tf) l with Some v => inhabitsb tenv0 f (snd tf) v | None => false end) f tf = true).
        { intros tf Htf. destruct (combine_in_l fields gf tf Hlen Htf) as [g Hg]. pose proof (Hpair _ _ Hg) as Hp.
          apply andb_true_iff in Hp. destruct Hp as [Hp Hp3]. apply andb_true_iff in Hp. destruct Hp as [Hp1 Hp2]. apply String.eqb_eq in Hp1.
          pose proof (Hc3 g (in_combine_r _ _ _ _ Hg)) as Hgc. destruct g as [[gk gs] gopt]. unfold key_of, shape_of_field in *. cbn [fst snd] in *.
          rewrite Hp1. destruct (assoc_json gk l) as [v|]; [|destruct gopt; discriminate].
          apply (IHn n1 ltac:(lia) (snd tf) gs v Hp2 Hgc). }
        set (Pf := fun (f : nat) (tf : string * texpr) => match assoc_json (fst tf) l with Some v => inhabitsb tenv0 f (snd tf) v | None => false end) in *.
        assert (Pmono : forall f tf, Pf f tf = true -> Pf (S f) tf = true).
        { intros f tf H. unfold Pf in *. destruct (assoc_json (fst tf) l); [apply inh_mono; exact H | exact H]. }
        destruct (common_fuel Pf fields Pmono Hfields) as [M HM].
        exists (S M). rewrite inh_unfold. unfold inh_step. rewrite Hl, Hc1. cbn [andb].
        apply andb_true_iff. split; [| apply forallb_forall; exact HM].
        rewrite forallb_forall in *. intros kv Hkv. pose proof (Hc2 kv Hkv) as Hk. apply existsb_exists in Hk. destruct Hk as [g [Hg Hk]].
        destruct (combine_in_r fields gf g Hlen Hg) as [tf Htf]. apply existsb_exists. exists tf. split; [apply in_combine_l in Htf; exact Htf|].
        pose proof (Hpair _ _ Htf) as Hp. apply andb_true_iff in Hp. destruct Hp as [Hp _]. apply andb_true_iff in Hp. destruct Hp as [Hp1 _].
        apply String.eqb_eq in Hp1. rewrite Hp1. exact Hk.
      + (* empty record *)
        destruct sh as [| | | | | | | | id |]; try discriminate.
        destruct (lookup_def id jenv0) as [[[|g gf] | members]|] eqn:Hd; try discriminate.
        simpl in Hc. rewrite Hd in Hc. destruct j; try discriminate.
        apply andb_true_iff in Hc. destruct Hc as [Hc _]. apply andb_true_iff in Hc. destruct Hc as [_ Hc2].
        destruct l as [|kv l]; [exists 1; rewrite inh_unfold; unfold inh_step; rewrite Hl; reflexivity|]. simpl in Hc2. discriminate.
      + (* union *)
        destruct sh as [| | | | | | | | id |]; try discriminate.
        destruct (lookup_def id jenv0) as [[gf | members]|] eqn:Hd; try discriminate.
        simpl in Hc. rewrite Hd in Hc. destruct j; try discriminate.
        apply andb_true_iff in Hc. destruct Hc as [Hlen2 Hc].
        destruct (assoc_json "Kind" l) as [[| | | k | |]|] eqn:Hk; try discriminate.
        destruct (assoc_json "Data" l) as [d|] eqn:Hdt; try discriminate.
        destruct (find (fun m0 => String.eqb (fst m0) k) members) as [mb|] eqn:Hf; [|discriminate].
        assert (Hfp : exists a, find (fun a : string * texpr => String.eqb (fst a) k) alts = Some a /\ tmemb tb (snd a) (snd mb) = true).
        { clear - He Hf. revert members He Hf. induction alts as [|a alts IH]; intros [|m' members]; simpl; try discriminate.
          intros H Hf. apply andb_true_iff in H. destruct H as [H1 H2]. apply andb_true_iff in H1. destruct H1 as [H0 H1].
          apply String.eqb_eq in H0. rewrite H0. destruct (String.eqb (fst m') k) eqn:E.
          - inversion Hf; subst. exists a. split; [reflexivity | exact H1].
          - apply (IH members H2 Hf). }
        destruct Hfp as [a [Hfa Hma]].
        destruct (IHn n1 ltac:(lia) (snd a) (snd mb) d Hma Hc) as [m Hm'].
        exists (S m). rewrite inh_unfold. unfold inh_step. rewrite Hl, Hlen2, Hk, Hdt, Hfa. exact Hm'.
    - (* nullable *)
      destruct t0 as [| | | | | | t' | k v]; try discriminate.
      + (* array *)
        destruct sh as [| | | s0 | s | | | | |]; try discriminate.
        * destruct s0 as [| | | | s | | | | |]; try discriminate.
          simpl in Hc. destruct j; try (destruct n1; simpl in Hc; discriminate).
          -- exists 1. reflexivity.
          -- destruct n1 as [|n2]; simpl in Hc; [discriminate|].
             destruct (elems_inh n2 t' s l (IHn n2 ltac:(lia)) He Hc) as [M HM]. exists (S (S M)).
             rewrite inh_unfold. unfold inh_step. rewrite inh_unfold. unfold inh_step. exact HM.
        * simpl in Hc. destruct j; try discriminate.
          destruct (elems_inh n1 t' s l (IHn n1 ltac:(lia)) He Hc) as [M HM]. exists (S (S M)).
          rewrite inh_unfold. unfold inh_step. rewrite inh_unfold. unfold inh_step. exact HM.
      + (* record *)
        assert (Hkv : forall n s (l : list (string * json)), inh_at n -> tmemb tb v s = true ->
                  forallb (fun kv => conformsb jenv0 n s (snd kv)) l = true -> exists M, forallb (fun kv => inhabitsb tenv0 M v (snd kv)) l = true).
        { intros n0 s l IH Hm0 Hf. rewrite forallb_forall in Hf.
          destruct (common_fuel (fun f (kv : string * json) => inhabitsb tenv0 f v (snd kv)) l (fun f x => inh_mono tenv0 f v (snd x))
                      (fun x Hx => IH v s (snd x) Hm0 (Hf x Hx))) as [M HM].
          exists M. apply forallb_forall. exact HM. }
        destruct sh as [| | | s0 | | | s | | |]; try discriminate.
        * destruct s0 as [| | | | | | s | | |]; try discriminate.
          simpl in Hc. destruct j; try (destruct n1; simpl in Hc; discriminate).
          -- exists 1. reflexivity.
          -- destruct n1 as [|n2]; simpl in Hc; [discriminate|]. apply andb_true_iff in Hc. destruct Hc as [_ Hc].
             destruct (Hkv n2 s l (IHn n2 ltac:(lia)) He Hc) as [M HM]. exists (S (S M)).
             rewrite inh_unfold. unfold inh_step. rewrite inh_unfold. unfold inh_step. exact HM.
        * simpl in Hc. destruct j; try discriminate. apply andb_true_iff in Hc. destruct Hc as [_ Hc].
          destruct (Hkv n1 s l (IHn n1 ltac:(lia)) He Hc) as [M HM]. exists (S (S M)).
          rewrite inh_unfold. unfold inh_step. rewrite inh_unfold. unfold inh_step. exact HM.
  Qed.
End Global.

Theorem documents_inhabit tenv0 jenv0 tb te sh j n :
  tsim_ok tenv0 jenv0 tb = true -> tmemb tb te sh = true -> conformsb jenv0 n sh j = true ->
  exists m, forall m', m <= m' -> inhabitsb tenv0 m' te j = true.
Proof.
  intros Hsim Hm Hc. destruct (inh_all tenv0 jenv0 tb Hsim n te sh j Hm Hc) as [m Hm'].
  exists m. intros m' Hle. apply (inh_mono_le tenv0 m m' te j Hle Hm').
Qed.

(** * the premise is satisfiable *)
Definition ex_tenv : tenv := [
  ("Int", TDBrand TNumber); ("Color", TDEnum [JNum "0"; JNum "1"]); ("Ar2_Int", TDTuple 2 (TRef "Int"));
  ("Leaf", TDEmptyRecord); ("Shape", TDUnion [("Leaf", TRef "Leaf"); ("Num", TRef "Int")]);
  ("Name", TDAlias TString);
  ("Root", TDInterface [("name", TRef "Name"); ("C", TRef "Color"); ("P", TRef "Ar2_Int"); ("S", TNullable (TArr (TRef "Shape"))); ("D", TNullable (TRecord TString TString))])
].
Definition ex_jenv3 : jenv := [
  ("Leaf", DObject []);
  ("Shape", DUnion [("Leaf", ShRef "Leaf"); ("Num", ShNumber)]);
  ("Root", DObject [("name", ShString, false); ("C", ShEnum [JNum "0"; JNum "1"], false); ("P", ShTuple 2 ShNumber, false);
                    ("S", ShNullable (ShArrayOf (ShRef "Shape")), false); ("D", ShNullable (ShMapOf ShString), false)])
].
Definition ex_ttable : ttable := tbuild ex_tenv ex_jenv3 8 (TRef "Root") (ShRef "Root").
Definition ex_doc3 : json :=
  JObj [("name", JStr "a"); ("C", JNum "1"); ("P", JArr [JNum "1"; JNum "2"]);
        ("S", JArr [JObj [("Kind", JStr "Leaf"); ("Data", JObj [])]; JObj [("Kind", JStr "Num"); ("Data", JNum "3")]]); ("D", JNull)].

Example ex_premises3 : tsim_ok ex_tenv ex_jenv3 ex_ttable = true /\ tmemb ex_ttable (TRef "Root") (ShRef "Root") = true
  /\ conformsb ex_jenv3 8 (ShRef "Root") ex_doc3 = true /\ inhabitsb ex_tenv 12 (TRef "Root") ex_doc3 = true.
Proof. vm_compute. repeat split; reflexivity. Qed.
