From Coq Require Import List String Ascii Bool Lia.
From GM Require Import Base.Result Model.Loader.
Import ListNotations.
Local Open Scope string_scope.
Local Open Scope list_scope.

(** ** split / join round trip *)
Lemma split_nonempty s : split s <> [].
Proof.
  destruct s as [|c r]; simpl; [discriminate|].
  destruct (Ascii.eqb c sepc); [discriminate|]. destruct (split r); discriminate.
Qed.

Lemma split_no_sep s : no_sep s = true -> split s = [s].
Proof.
  induction s as [|c r IH]; simpl; intro H; [reflexivity|].
  apply andb_true_iff in H. destruct H as [Hc Hr]. apply negb_true_iff in Hc.
  rewrite Hc, (IH Hr). reflexivity.
Qed.

Lemma split_app_sep x rest : no_sep x = true ->
  split (x ++ String sepc rest)%string = x :: split rest.
Proof.
  induction x as [|c r IH]; simpl; intro H.
  - reflexivity.
  - apply andb_true_iff in H. destruct H as [Hc Hr]. apply negb_true_iff in Hc.
    rewrite Hc, (IH Hr). reflexivity.
Qed.

Lemma split_join l : l <> [] -> Forall (fun c => no_sep c = true) l -> split (join l) = l.
Proof.
  induction l as [|x r IH]; intros Hne Hall; [contradiction|].
  inversion Hall as [|? ? Hx Hr]; subst.
  destruct r as [|y r'].
  - simpl. apply split_no_sep. assumption.
  - change (join (x :: y :: r')) with (x ++ String sepc (join (y :: r')))%string.
    rewrite split_app_sep by assumption. f_equal. apply IH; [discriminate|assumption].
Qed.

Definition valid_path (cs : list string) : Prop := Forall (fun c => valid_elem c = true) cs.

Lemma valid_no_sep cs : valid_path cs -> Forall (fun c => no_sep c = true) cs.
Proof.
  apply Forall_impl. intros c H. unfold valid_elem in H. apply andb_true_iff in H. tauto.
Qed.

Lemma valid_nonempty c : valid_elem c = true -> c <> "".
Proof.
  unfold valid_elem. intros H E. subst. simpl in H. discriminate.
Qed.

(** the element list Go sees for a rendered path *)
Definition elems (cs : list string) : list string :=
  "" :: match cs with [] => [""] | _ => cs end.

Lemma split_render cs : valid_path cs -> split (render cs) = elems cs.
Proof.
  intro V. destruct cs as [|c r]; [reflexivity|].
  unfold render, elems. apply split_join; [discriminate|].
  constructor; [reflexivity|]. apply valid_no_sep. assumption.
Qed.

(** ** lcp2 *)
Lemma lcp2_prefix_l a : forall b, is_prefix (lcp2 a b) a = true.
Proof.
  induction a as [|x a IH]; intros [|y b]; simpl; auto.
  destruct (String.eqb x y) eqn:E; simpl; auto. rewrite String.eqb_refl. apply IH.
Qed.

Lemma lcp2_prefix_r a : forall b, is_prefix (lcp2 a b) b = true.
Proof.
  induction a as [|x a IH]; intros [|y b]; simpl; auto.
  destruct (String.eqb x y) eqn:E; simpl; auto. rewrite E. apply IH.
Qed.

Lemma is_prefix_refl a : is_prefix a a = true.
Proof. induction a; simpl; auto. rewrite String.eqb_refl. assumption. Qed.

Lemma is_prefix_trans a : forall b c, is_prefix a b = true -> is_prefix b c = true -> is_prefix a c = true.
Proof.
  induction a as [|x a IH]; intros [|y b] [|z c]; simpl; auto; try discriminate.
  intros H1 H2. apply andb_true_iff in H1. apply andb_true_iff in H2.
  destruct H1 as [E1 H1], H2 as [E2 H2]. apply String.eqb_eq in E1, E2. subst.
  rewrite String.eqb_refl. simpl. eapply IH; eauto.
Qed.

Lemma lcp2_greatest q : forall a b, is_prefix q a = true -> is_prefix q b = true -> is_prefix q (lcp2 a b) = true.
Proof.
  induction q as [|x q IH]; intros [|y a] [|z b]; simpl; auto; try discriminate.
  intros H1 H2. apply andb_true_iff in H1. apply andb_true_iff in H2.
  destruct H1 as [E1 H1], H2 as [E2 H2]. apply String.eqb_eq in E1, E2. subst.
  rewrite String.eqb_refl. simpl. rewrite String.eqb_refl. simpl. apply IH; assumption.
Qed.

Lemma lcp_all_prefix_first others : forall first, is_prefix (lcp_all first others) first = true.
Proof.
  induction others as [|o r IH]; intro first; simpl; [apply is_prefix_refl|].
  eapply is_prefix_trans; [apply IH|apply lcp2_prefix_l].
Qed.

Lemma lcp_all_prefix_each others : forall first o, In o others -> is_prefix (lcp_all first others) o = true.
Proof.
  induction others as [|o' r IH]; intros first o Hin; simpl in *; [contradiction|].
  destruct Hin as [->|Hin]; [|apply IH; assumption].
  eapply is_prefix_trans; [apply lcp_all_prefix_first|apply lcp2_prefix_r].
Qed.

Lemma lcp_all_greatest others : forall first q,
  is_prefix q first = true -> (forall o, In o others -> is_prefix q o = true) ->
  is_prefix q (lcp_all first others) = true.
Proof.
  induction others as [|o r IH]; intros first q H1 H2; simpl; [assumption|].
  apply IH; [apply lcp2_greatest; [assumption|apply H2; left; reflexivity]|].
  intros o' Hin. apply H2. right. assumption.
Qed.

(** ** the string-level function computes the rendering of the element-level lcp *)
Lemma lcp2_elems a b : valid_path a -> valid_path b ->
  lcp2 (elems a) (elems b) = match a, b with [], [] => elems [] | _, _ => "" :: lcp2 a b end.
Proof.
  intros Va Vb. unfold elems. simpl.
  destruct a as [|x a], b as [|y b]; simpl; try reflexivity.
  - inversion Vb as [|? ? Hy _]; subst. apply valid_nonempty in Hy.
    destruct y; [congruence|reflexivity].
  - inversion Va as [|? ? Hx _]; subst. apply valid_nonempty in Hx.
    destruct x; [congruence|reflexivity].
Qed.

Lemma lcp2_valid a : forall b, valid_path a -> valid_path (lcp2 a b).
Proof.
  induction a as [|x a IH]; intros [|y b] V; simpl; try constructor.
  inversion V; subst. destruct (String.eqb x y); constructor; auto. apply IH. assumption.
Qed.

(** accumulator invariant of the loop: either still [elems c] for a valid [c], or [""::c] *)
Lemma lcp2_cons_elems c b : valid_path c -> valid_path b ->
  lcp2 ("" :: c) (elems b) = "" :: lcp2 c b.
Proof.
  intros Vc Vb. unfold elems. simpl. destruct b as [|y b]; [|reflexivity].
  destruct c as [|x c]; simpl; [reflexivity|].
  inversion Vc as [|? ? Hx _]; subst. apply valid_nonempty in Hx.
  destruct x; [congruence|reflexivity].
Qed.

Lemma fold_cons others : forall c, valid_path c -> Forall valid_path others ->
  fold_left (fun acc o => lcp2 acc (split o)) (map render others) ("" :: c) = "" :: lcp_all c others.
Proof.
  induction others as [|o r IH]; intros c Vc Vo; cbn [map fold_left lcp_all]; [reflexivity|].
  inversion Vo as [|? ? Ho Hr]; subst.
  rewrite (split_render o Ho), lcp2_cons_elems by assumption.
  apply IH; [apply lcp2_valid; assumption|assumption].
Qed.

Lemma fold_elems others : forall c, valid_path c -> Forall valid_path others ->
  fold_left (fun acc o => lcp2 acc (split o)) (map render others) (elems c) =
  match lcp_all c others, c with
  | [], [] => if forallb (fun o => match o with [] => true | _ => false end) others then elems [] else [""]
  | l, _ => "" :: l
  end.
Proof.
  induction others as [|o r IH]; intros c Vc Vo; cbn [map fold_left lcp_all forallb].
  - destruct c; reflexivity.
  - inversion Vo as [|? ? Ho Hr]; subst.
    rewrite (split_render o Ho), lcp2_elems by assumption.
    destruct c as [|x c], o as [|y o].
    + rewrite (IH [] Vc Hr). simpl. reflexivity.
    + change ("" :: lcp2 [] (y :: o)) with ("" :: @nil string).
      rewrite (fold_cons r [] Vc Hr). simpl.
      assert (lcp_all [] r = []) as ->.
      { clear. induction r; simpl; auto. }
      reflexivity.
    + change ("" :: lcp2 (x :: c) []) with ("" :: @nil string).
      rewrite (fold_cons r [] (Forall_nil _) Hr). simpl.
      assert (lcp_all [] r = []) as ->.
      { clear. induction r; simpl; auto. }
      reflexivity.
    + rewrite (fold_cons r _ (lcp2_valid _ _ Vc) Hr).
      simpl. destruct (lcp_all _ r); reflexivity.
Qed.

Lemma lcp_all_nil others : lcp_all [] others = [].
Proof. induction others; simpl; auto. Qed.

Lemma common_prefix_render c others : valid_path c -> Forall valid_path others ->
  common_prefix (map render (c :: others)) = Ok (render (lcp_all c others)).
Proof.
  intros Vc Vo. cbn [map]. unfold common_prefix, common_elems.
  rewrite (split_render c Vc), (fold_elems others c Vc Vo).
  assert (has_prefix_sep (render c) = true) as HP.
  { destruct c; reflexivity. }
  rewrite HP.
  destruct (lcp_all c others) as [|z l] eqn:E.
  - destruct c as [|x c].
    + destruct (forallb _ others); reflexivity.
    + reflexivity.
  - destruct c as [|x c]; [rewrite lcp_all_nil in E; discriminate|].
    assert (valid_path (z :: l)) as Vz.
    { rewrite <- E. clear E. revert Vc. generalize (x :: c). induction others as [|o r IH]; intros f Vf; simpl; auto.
      inversion Vo; subst. apply IH; auto. apply lcp2_valid. assumption. }
    change (join ("" :: z :: l)) with (String sepc (join (z :: l))).
    simpl. reflexivity.
Qed.

(** elements of a rendered path *)
Definition comps_of (p : string) : list string :=
  if String.eqb p (String sepc EmptyString) then [] else tl (split p).

Lemma comps_of_render cs : valid_path cs -> comps_of (render cs) = cs.
Proof.
  intro V. unfold comps_of. destruct cs as [|c r]; [reflexivity|].
  assert (String.eqb (render (c :: r)) (String sepc "") = false) as ->.
  { apply String.eqb_neq. intro E.
    assert (split (render (c :: r)) = split (String sepc "")) as S by (rewrite E; reflexivity).
    rewrite (split_render _ V) in S. simpl in S.
    inversion S as [[Hc Hr]]. inversion V as [|? ? Hv _]; subst. apply valid_nonempty in Hv. congruence. }
  rewrite (split_render _ V). reflexivity.
Qed.

(** ** main statements *)
Lemma lcp_all_valid others : forall f, valid_path f -> valid_path (lcp_all f others).
Proof.
  induction others as [|o r IH]; intros f Vf; simpl; auto. apply IH. apply lcp2_valid. assumption.
Qed.

Lemma root_is_ancestor c others : valid_path c -> Forall valid_path others ->
  exists root, common_prefix (map render (c :: others)) = Ok root /\
    valid_path (comps_of root) /\ root = render (comps_of root) /\
    (forall p, In p (c :: others) -> is_prefix (comps_of root) p = true) /\
    (forall q, (forall p, In p (c :: others) -> is_prefix q p = true) -> is_prefix q (comps_of root) = true).
Proof.
  intros Vc Vo. exists (render (lcp_all c others)).
  pose proof (lcp_all_valid others c Vc) as Vl.
  rewrite (comps_of_render _ Vl).
  split; [apply common_prefix_render; assumption|].
  split; [assumption|]. split; [reflexivity|]. split.
  - intros p [<-|Hin]; [apply lcp_all_prefix_first|apply lcp_all_prefix_each; assumption].
  - intros q Hq. apply lcp_all_greatest.
    + apply Hq. left. reflexivity.
    + intros o Ho. apply Hq. right. assumption.
Qed.

(** uniqueness: the root depends only on the set of directories *)
Lemma is_prefix_antisym a : forall b, is_prefix a b = true -> is_prefix b a = true -> a = b.
Proof.
  induction a as [|x a IH]; intros [|y b]; simpl; auto; try discriminate.
  intros H1 H2. apply andb_true_iff in H1. destruct H1 as [E H1]. apply andb_true_iff in H2. destruct H2 as [_ H2].
  apply String.eqb_eq in E. subst. f_equal. apply IH; assumption.
Qed.

Lemma root_set_invariant c others c' others' :
  valid_path c -> Forall valid_path others -> valid_path c' -> Forall valid_path others' ->
  (forall p, In p (c :: others) <-> In p (c' :: others')) ->
  common_prefix (map render (c :: others)) = common_prefix (map render (c' :: others')).
Proof.
  intros V1 V2 V3 V4 Hset.
  destruct (root_is_ancestor c others V1 V2) as [r [E [_ [Er [A G]]]]].
  destruct (root_is_ancestor c' others' V3 V4) as [r' [E' [_ [Er' [A' G']]]]].
  rewrite E, E'. f_equal. rewrite Er, Er'. f_equal.
  apply is_prefix_antisym.
  - apply G'. intros p Hp. apply A. apply Hset. assumption.
  - apply G. intros p Hp. apply A'. apply Hset. assumption.
Qed.

(** ** selectByFile / match back *)
Lemma select_by_file_sound pkgs f k : select_by_file pkgs f = Some k ->
  exists files, In (k, files) pkgs /\ In f files.
Proof.
  unfold select_by_file. destruct (find (fun p => existsb (String.eqb f) (snd p)) pkgs) as [[k' files]|] eqn:F; [|discriminate].
  intro H. inversion H; subst. apply find_some in F. destruct F as [Hin Hex]. simpl in *.
  exists files. split; [assumption|]. apply existsb_exists in Hex. destruct Hex as [x [Hx E]].
  apply String.eqb_eq in E. subst. assumption.
Qed.

Lemma select_by_file_complete pkgs f : (exists k files, In (k, files) pkgs /\ In f files) ->
  exists k, select_by_file pkgs f = Some k.
Proof.
  intros [k [files [Hin Hf]]]. unfold select_by_file.
  destruct (find (fun p => existsb (String.eqb f) (snd p)) pkgs) as [p|] eqn:F; [eexists; reflexivity|].
  exfalso. apply (find_none _ _ F) in Hin. simpl in Hin.
  assert (existsb (String.eqb f) files = true); [|congruence].
  apply existsb_exists. exists f. split; [assumption|apply String.eqb_refl].
Qed.

Lemma match_back_spec pkgs files ks : match_back pkgs files = Ok ks ->
  List.length ks = List.length files /\
  forall i f, nth_error files i = Some f -> exists k fs, nth_error ks i = Some k /\ In (k, fs) pkgs /\ In f fs.
Proof.
  revert ks. induction files as [|f r IH]; intros ks H; simpl in H.
  - inversion H; subst. split; [reflexivity|]. intros [|i] f H'; discriminate.
  - destruct (select_by_file pkgs f) as [k|] eqn:S; [|discriminate].
    destruct (match_back pkgs r) as [ks'| |] eqn:M; simpl in H; try discriminate.
    inversion H; subst. destruct (IH ks' eq_refl) as [L N]. split; [simpl; congruence|].
    intros [|i] f' Hn; simpl in *.
    + inversion Hn; subst. apply select_by_file_sound in S. destruct S as [fs [H1 H2]]. exists k, fs. auto.
    + apply N. assumption.
Qed.

Lemma match_back_no_crash pkgs files : is_crash (match_back pkgs files) = false.
Proof.
  induction files as [|f r IH]; simpl; [reflexivity|].
  destruct (select_by_file pkgs f); [|reflexivity].
  destruct (match_back pkgs r); simpl in *; auto.
Qed.

Lemma common_prefix_no_crash ps : is_crash (common_prefix ps) = false.
Proof. destruct ps as [|p r]; simpl; [reflexivity|]. destruct (_ && _); reflexivity. Qed.

(** the pinned byte-wise version is wrong: *)
Lemma bytes_refuted : exists ps root,
  ps = ["/a/foo1"; "/a/foo2"]%string /\ common_prefix_bytes ps = Ok root /\
  is_prefix (comps_of root) ["a"; "foo1"]%string = false.
Proof. eexists; eexists. split; [reflexivity|]. split; vm_compute; reflexivity. Qed.
