(** C06, Dart: closure of the traversal (Model/DartGen.v). For every program, every analysis graph, every root and
    every fuel: when the traversal succeeds, every declaration its output refers to through a type it uses is emitted,
    in the file of the declaration that refers to it or in a file for which an import edge of that file was recorded.
    Invariant, as for TypeScript and randdata: a cached type is being visited (pending) or its declaration is emitted
    in its own file. *)
From Coq Require Import List String Ascii ZArith Bool Arith Lia.
From GM Require Import Base.Result Base.StrOrd Facts.GoFacts Facts.Ana Model.Dart Model.TsGen Model.DartGen.
Import ListNotations.
Local Open Scope string_scope.

Section Closure.
  Variable root : string.
  Variable pr : prog.
  Variable nodes : list nrec.
  Variable F : nat.

  Notation did := (decl_id pr nodes F).
  Notation kid := (key_id pr).
  Notation kfile := (key_file root pr).

  Definition declared (ds : list ddecl) (f id : string) : Prop := exists d, In d ds /\ dd_file d = f /\ dd_id d = id.
  Definition resolved (pending : list string) (ds : list ddecl) (f id : string) : Prop :=
    declared ds f id \/ exists k, In k pending /\ kfile k = f /\ kid k = id.
  Definition Inv (cache pending : list string) (ds : list ddecl) : Prop :=
    forall k, In k cache -> In k pending \/ declared ds (kfile k) (kid k).
  Definition visible (imps : list (string * string)) (f f' : string) : Prop := f' = f \/ In (f, f') imps.
  Definition refs_ok (new all : list ddecl) (imps : list (string * string)) (pending : list string) : Prop :=
    forall d m, In d new -> In m (dd_mentions d) -> exists f', resolved pending all f' m /\ visible imps (dd_file d) f'.

  Definition Post (st st' : dstate) (pending : list string) (new : list ddecl) : Prop :=
    (exists newi, ds_decls st' = (ds_decls st ++ new)%list /\ ds_imps st' = (ds_imps st ++ newi)%list)
    /\ Inv (ds_cache st') pending (ds_decls st')
    /\ refs_ok new (ds_decls st') (ds_imps st') pending.

  Definition Spec (g : dstate -> gty -> result (dstate * string)) : Prop :=
    forall st t st' f pending, g st t = Ok (st', f) -> Inv (ds_cache st) pending (ds_decls st) ->
      exists new, Post st st' pending new /\ (forall id, did t = Ok id -> resolved pending (ds_decls st') f id).

  Lemma declared_mono ds more f id : declared ds f id -> declared (ds ++ more) f id.
  Proof. intros [d [Hd E]]. exists d. split; [apply in_or_app; left; exact Hd|exact E]. Qed.

  Lemma resolved_mono p ds more f id : resolved p ds f id -> resolved p (ds ++ more) f id.
  Proof. intros [H|H]; [left; apply declared_mono; exact H|right; exact H]. Qed.

  Lemma visible_mono imps more f f' : visible imps f f' -> visible (imps ++ more) f f'.
  Proof. intros [H|H]; [left; exact H|right; apply in_or_app; left; exact H]. Qed.

  Lemma Inv_mono c p ds more : Inv c p ds -> Inv c p (ds ++ more).
  Proof. intros H k Hk. destruct (H k Hk) as [A|A]; [left; exact A|right; apply declared_mono; exact A]. Qed.

  Lemma refs_mono new all more imps moi p : refs_ok new all imps p -> refs_ok new (all ++ more) (imps ++ moi) p.
  Proof.
    intros H d m Hd Hm. destruct (H d m Hd Hm) as [f' [R V]]. exists f'. split; [apply resolved_mono; exact R|apply visible_mono; exact V].
  Qed.

  Lemma refs_app a b all imps p : refs_ok a all imps p -> refs_ok b all imps p -> refs_ok (a ++ b) all imps p.
  Proof. intros Ha Hb d m Hd. apply in_app_or in Hd. destruct Hd; [eapply Ha|eapply Hb]; eassumption. Qed.

  Lemma mapM_In {A B} (f : A -> result B) l : forall ms, mapM f l = Ok ms -> forall m, In m ms -> exists c, In c l /\ f c = Ok m.
  Proof.
    induction l as [|x r IH]; intros ms H m Hm; cbn [mapM] in H.
    - inversion H; subst. destruct Hm.
    - destruct (f x) as [y| |] eqn:Fx; cbn [bind] in H; try discriminate.
      destruct (mapM f r) as [ys| |] eqn:Mr; cbn [bind] in H; try discriminate.
      inversion H; subst. destruct Hm as [E|Hm].
      + subst. exists x. split; [left; reflexivity|exact Fx].
      + destruct (IH ys eq_refl m Hm) as [c [Hc Fc]]. exists c. split; [right; exact Hc|exact Fc].
  Qed.

  (** * the children *)
  Lemma gen_list_spec g : Spec g -> forall ts st st' fs pending,
    dgen_list g ts st = Ok (st', fs) -> Inv (ds_cache st) pending (ds_decls st) ->
    exists new, Post st st' pending new
      /\ (forall c, In c ts -> forall id, did c = Ok id -> exists fc, In fc fs /\ resolved pending (ds_decls st') fc id).
  Proof.
    intro Hg. induction ts as [|t r IH]; intros st st' fs pending H HI; cbn [dgen_list] in H.
    - inversion H; subst. exists []. split.
      + split; [exists []; rewrite !app_nil_r; split; reflexivity|]. split; [exact HI|]. intros d m [].
      + intros c [].
    - destruct (g st t) as [[s1 f1]| |] eqn:G; cbn [bind fst snd] in H; try discriminate.
      destruct (dgen_list g r s1) as [[s2 f2]| |] eqn:GL; cbn [bind fst snd] in H; try discriminate.
      inversion H; subst. clear H.
      destruct (Hg _ _ _ _ pending G HI) as [n1 [[[i1 [D1 I1]] [V1 R1]] P1]].
      destruct (IH _ _ _ pending GL V1) as [n2 [[[i2 [D2 I2]] [V2 R2]] P2]].
      exists (n1 ++ n2)%list. split.
      + split; [exists (i1 ++ i2)%list; rewrite D2, D1, I2, I1, !app_assoc; split; reflexivity|].
        split; [exact V2|]. apply refs_app; [|exact R2].
        rewrite D2, I2. apply refs_mono. exact R1.
      + intros c [E|Hin] id Hid.
        * subst c. exists f1. split; [left; reflexivity|]. rewrite D2. apply resolved_mono. apply P1. exact Hid.
        * destruct (P2 c Hin id Hid) as [fc [Hfc R]]. exists fc. split; [right; exact Hfc|exact R].
  Qed.

  (** * the declaration of the type itself *)
  Lemma dtail_spec g outfile n t st st1 ko pending st' f :
    Spec g -> find_node t nodes = Some n -> node_key n = ko ->
    (forall k, ko = Some k -> kfile k = outfile) ->
    ds_decls st1 = ds_decls st -> ds_imps st1 = ds_imps st ->
    ds_cache st1 = match ko with Some k => k :: ds_cache st | None => ds_cache st end ->
    dtail pr nodes F g outfile n t st1 = Ok (st', f) -> Inv (ds_cache st) pending (ds_decls st) ->
    exists new, Post st st' pending new /\ (forall id, did t = Ok id -> resolved pending (ds_decls st') f id).
  Proof.
    intros Hg Fn NK KF ED EI EC H HI. unfold dtail in H.
    destruct (dkids n) as [ks| |] eqn:DK; cbn [bind] in H; try discriminate.
    destruct (dgen_list g ks st1) as [[s2 fs]| |] eqn:GL; cbn [bind fst snd] in H; try discriminate.
    destruct (did t) as [id| |] eqn:DI; cbn [bind] in H; try discriminate.
    destruct (mapM did ks) as [ms| |] eqn:MM; cbn [bind] in H; try discriminate.
    inversion H; subst st' f. clear H.
    set (pending' := match ko with Some k => k :: pending | None => pending end).
    assert (HI1 : Inv (ds_cache st1) pending' (ds_decls st1)).
    { rewrite EC, ED. unfold pending'. destruct ko as [k|]; [|exact HI].
      intros k' [E|Hk']; [left; left; exact E|]. destruct (HI k' Hk') as [A|A]; [left; right; exact A|right; exact A]. }
    destruct (gen_list_spec g Hg ks st1 s2 fs pending' GL HI1) as [n2 [[[i2 [D2 I2]] [V2 R2]] P2]].
    rewrite ED in D2. rewrite EI in I2.
    set (d := {| dd_file := outfile; dd_id := id; dd_mentions := ms; dd_impl := implements_mentions pr n |}).
    set (all' := (ds_decls s2 ++ [d])%list).
    (* the identifier of a cached type is the one of its declaration *)
    assert (KI : forall k, ko = Some k -> kid k = id).
    { intros k E. subst ko. unfold decl_id in DI. rewrite Fn, E in DI. inversion DI. reflexivity. }
    assert (Dd : declared all' outfile id).
    { exists d. split; [apply in_or_app; right; left; reflexivity|split; reflexivity]. }
    (* a reference resolved while the type was pending is resolved once the type is declared *)
    assert (CV : forall f' m, resolved pending' (ds_decls s2) f' m -> resolved pending all' f' m).
    { intros f' m [A|[k' [Hk' [E1 E2]]]]; [left; apply declared_mono; exact A|].
      unfold pending' in Hk'. destruct ko as [k|].
      - destruct Hk' as [E|Hk'].
        + subst k'. left. rewrite <- E1, <- E2, (KF k eq_refl), (KI k eq_refl). exact Dd.
        + right. exists k'. split; [exact Hk'|split; assumption].
      - right. exists k'. split; [exact Hk'|split; assumption]. }
    exists (n2 ++ [d])%list. cbn [ds_decls ds_imps ds_cache fst snd]. fold d. fold all'. split.
    - split; [exists (i2 ++ map (fun f0 => (outfile, f0)) fs)%list; unfold all'; rewrite D2, I2, !app_assoc; split; reflexivity|].
      split.
      + intros k' Hk'. destruct (V2 k' Hk') as [A|A].
        * unfold pending' in A. destruct ko as [k|]; [|left; exact A].
          destruct A as [E|A]; [|left; exact A]. subst k'. right. rewrite (KF k eq_refl), (KI k eq_refl). exact Dd.
        * right. apply declared_mono. exact A.
      + apply refs_app.
        * intros d0 m Hd0 Hm. destruct (R2 d0 m Hd0 Hm) as [f' [R V]]. exists f'. split; [apply CV; exact R|apply visible_mono; exact V].
        * intros d0 m [E|[]] Hm. subst d0. cbn [dd_mentions dd_file d] in *.
          destruct (mapM_In did ks ms MM m Hm) as [c [Hc Dc]].
          destruct (P2 c Hc m Dc) as [fc [Hfc R]]. exists fc. split; [apply CV; exact R|].
          right. apply in_or_app. right. apply in_map_iff. exists fc. split; [reflexivity|exact Hfc].
    - intros id' E. inversion E; subst id'. left. exact Dd.
  Qed.

  (** * the traversal *)
  Lemma generate_spec : forall fuel parent, Spec (dgenerate root pr nodes F fuel parent).
  Proof.
    induction fuel as [|fuel IH]; intros parent st t st' f pending H HI; cbn [dgenerate] in H; [discriminate|].
    destruct (find_node t nodes) as [n|] eqn:Fn; [|discriminate]. cbv zeta in H.
    destruct (node_key n) as [k|] eqn:NK.
    - assert (OF : out_file root pr n parent = kfile k) by (unfold out_file; rewrite NK; reflexivity).
      destruct (existsb (String.eqb k) (ds_cache st)) eqn:Hit.
      + inversion H; subst st' f. clear H. exists []. split.
        * split; [exists []; rewrite !app_nil_r; split; reflexivity|]. split; [exact HI|]. intros d m [].
        * intros id DI. unfold decl_id in DI. rewrite Fn, NK in DI. inversion DI; subst id. rewrite OF.
          apply existsb_exists in Hit. destruct Hit as [k' [Hk' E]]. apply String.eqb_eq in E. subst k'.
          destruct (HI k Hk') as [A|A]; [right; exists k; split; [exact A|split; reflexivity]|left; exact A].
      + eapply (dtail_spec _ _ n t st _ (Some k)); try eassumption; try reflexivity.
        * apply IH.
        * intros k0 E. inversion E; subst k0. symmetry. exact OF.
    - eapply (dtail_spec _ _ n t st st None); try eassumption; try reflexivity.
      + apply IH.
      + intros k0 E. discriminate.
  Qed.

  (** * the whole run *)
  Definition Good (st : dstate) : Prop :=
    Inv (ds_cache st) [] (ds_decls st) /\ refs_ok (ds_decls st) (ds_decls st) (ds_imps st) [].

  Lemma sources_good : forall ts st st', dart_sources root pr nodes F ts st = Ok st' -> Good st -> Good st'.
  Proof.
    induction ts as [|t r IH]; intros st st' H G; cbn [dart_sources] in H; [inversion H; subst; exact G|].
    destruct (dgenerate root pr nodes F (dart_fuel nodes) (source_file root pr t) st t) as [[s1 f1]| |] eqn:E; cbn [bind fst] in H; try discriminate.
    apply (IH s1 st' H). destruct G as [GI GR].
    destruct (generate_spec _ _ _ _ _ _ [] E GI) as [new [[[newi [D I]] [V R]] _]].
    split; [exact V|]. rewrite D at 1. apply refs_app; [|exact R]. rewrite D, I. apply refs_mono. exact GR.
  Qed.

  Theorem dart_run_closed source st : dart_run root pr nodes F source = Ok st ->
    forall d m, In d (ds_decls st) -> In m (dd_mentions d) ->
    exists d', In d' (ds_decls st) /\ dd_id d' = m
               /\ (dd_file d' = dd_file d \/ In (dd_file d, dd_file d') (ds_imps st)).
  Proof.
    intros H d m Hd Hm. unfold dart_run in H.
    assert (G0 : Good {| ds_cache := []; ds_decls := []; ds_imps := [] |}).
    { split; [intros k []|intros d0 m0 []]. }
    destruct (sources_good _ _ _ H G0) as [_ R].
    destruct (R d m Hd Hm) as [f' [[[d' [Hd' [E1 E2]]]|[k [[] _]]] V]].
    exists d'. split; [exact Hd'|]. split; [exact E2|].
    destruct V as [V|V]; [left; rewrite E1; exact V|right; rewrite E1; exact V].
  Qed.
End Closure.
