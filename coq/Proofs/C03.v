(** One-level lemmas: conformance to the Go wire shape implies inhabitation of the corresponding
    TypeScript form, provided the components correspond. These are the induction steps of the claim
    "every document Go emits inhabits the generated type"; the check closes the induction on every
    real document by evaluation. *)
From Coq Require Import List String Ascii ZArith Bool Arith Lia.
From GM Require Import Sem.GoJson Sem.TsSem.
Import ListNotations.
Local Open Scope string_scope.

Section Steps.
  Variable genv : jenv.
  Variable tenv_ : tenv.
  Notation conf := (conformsb genv).
  Notation inh := (inhabitsb tenv_).

  Lemma step_basic f f' j :
    (conf (S f) ShString j = true -> inh (S f') TString j = true) /\
    (conf (S f) ShNumber j = true -> inh (S f') TNumber j = true) /\
    (conf (S f) ShBool j = true -> inh (S f') TBoolean j = true).
  Proof. repeat split; simpl; destruct j; auto. Qed.

  (** nil slices are written as null: the reference is nullable *)
  Lemma step_nullable_array f f' s t j :
    (forall x, conf f s x = true -> inh f' t x = true) ->
    conf (S (S f)) (ShNullable (ShArrayOf s)) j = true -> inh (S (S f')) (TNullable (TArr t)) j = true.
  Proof.
    intros H C. simpl in *. destruct j; try discriminate; auto.
    rewrite forallb_forall in *. intros x Hx. apply H. apply C. assumption.
  Qed.

  Lemma step_nullable_map f f' s k t j :
    (forall x, conf f s x = true -> inh f' t x = true) ->
    conf (S (S f)) (ShNullable (ShMapOf s)) j = true -> inh (S (S f')) (TNullable (TRecord k t)) j = true.
  Proof.
    intros H C. simpl in *. destruct j; try discriminate; auto.
    apply andb_true_iff in C. destruct C as [_ C].
    rewrite forallb_forall in *. intros x Hx. apply H. apply C. assumption.
  Qed.

  (** fixed-size arrays: a tuple alias of the same length *)
  Lemma step_tuple f f' n s t name j :
    lookup_decl name tenv_ = Some (TDTuple n t) ->
    (forall x, conf f s x = true -> inh f' t x = true) ->
    conf (S f) (ShTuple n s) j = true -> inh (S f') (TRef name) j = true.
  Proof.
    intros L H C. simpl in *. rewrite L. destruct j; try discriminate.
    apply andb_true_iff in C. destruct C as [C1 C2]. rewrite C1. simpl.
    rewrite forallb_forall in *. intros x Hx. apply H. apply C2. assumption.
  Qed.

  (** enums: the literal set lists the wire values *)
  Lemma step_enum f f' vs name j :
    lookup_decl name tenv_ = Some (TDEnum vs) ->
    conf (S f) (ShEnum vs) j = true -> inh (S f') (TRef name) j = true.
  Proof. intros L C. simpl in *. rewrite L. exact C. Qed.

  (** unions: same Kind tags, member by member *)
  Lemma step_union f f' id name members alts j :
    lookup_def id genv = Some (DUnion members) ->
    lookup_decl name tenv_ = Some (TDUnion alts) ->
    (forall k sh, In (k, sh) members -> exists t, find (fun a => String.eqb (fst a) k) alts = Some (k, t) /\
                                          forall x, conf f sh x = true -> inh f' t x = true) ->
    NoDup (map fst members) ->
    conf (S f) (ShRef id) j = true -> inh (S f') (TRef name) j = true.
  Proof.
    intros Lg Lt H Hnd C. simpl in *. rewrite Lg in C. rewrite Lt.
    destruct j as [| | | |l0|l]; try discriminate.
    apply andb_true_iff in C. destruct C as [C1 C]. rewrite C1. simpl.
    destruct (assoc_json "Kind" l) as [[| | |k| |]|]; try discriminate.
    destruct (assoc_json "Data" l) as [d|]; try discriminate.
    destruct (find (fun m => String.eqb (fst m) k) members) as [[k' sh]|] eqn:F; try discriminate.
    apply find_some in F. destruct F as [Hin Ek]. simpl in Ek. apply String.eqb_eq in Ek. subst k'.
    destruct (H k sh Hin) as [t [Ft Himp]]. rewrite Ft. simpl. apply Himp. assumption.
  Qed.

  (** structs: same keys, field by field; no field is omitempty *)
  Lemma step_struct f f' id name fields tfields j :
    lookup_def id genv = Some (DObject fields) ->
    lookup_decl name tenv_ = Some (TDInterface tfields) ->
    map (fun fd => fst (fst fd)) fields = map fst tfields ->
    (forall k sh opt, In (k, sh, opt) fields -> opt = false /\
        exists t, In (k, t) tfields /\ forall x, conf f sh x = true -> inh f' t x = true) ->
    NoDup (map fst tfields) ->
    conf (S f) (ShRef id) j = true -> inh (S f') (TRef name) j = true.
  Proof.
    intros Lg Lt Hkeys H Hnd C. simpl in *. rewrite Lg in C. rewrite Lt.
    destruct j as [| | | |l0|l]; try discriminate.
    apply andb_true_iff in C. destruct C as [C C3]. apply andb_true_iff in C. destruct C as [C1 C2].
    rewrite C1. simpl. apply andb_true_iff. split.
    - rewrite forallb_forall in *. intros kv Hkv. specialize (C2 kv Hkv).
      apply existsb_exists in C2. destruct C2 as [[[k sh] opt] [Hin E]]. simpl in E.
      apply existsb_exists. destruct (H k sh opt Hin) as [_ [t [Ht _]]]. exists (k, t). split; [assumption|exact E].
    - rewrite forallb_forall in *. intros [k t] Hkt.
      assert (exists sh opt, In (k, sh, opt) fields) as [sh [opt Hin]].
      { assert (In k (map fst tfields)) as Hk by (apply in_map_iff; exists (k, t); auto).
        rewrite <- Hkeys in Hk. apply in_map_iff in Hk. destruct Hk as [[[k' sh] opt] [E Hin]]. simpl in E. subst. eauto. }
      specialize (C3 (k, sh, opt) Hin). simpl in C3 |- *.
      destruct (H k sh opt Hin) as [Hopt [t' [Ht' Himp]]]. subst opt.
      assert (t' = t) as ->.
      { clear - Hnd Ht' Hkt. induction tfields as [|[a b] r IH]; simpl in *; [contradiction|].
        inversion Hnd as [|? ? Hn Hr]; subst.
        destruct Ht' as [E1|H1]; destruct Hkt as [E2|H2].
        - inversion E1; inversion E2; congruence.
        - inversion E1; subst. exfalso. apply Hn. apply in_map_iff. exists (k, t). auto.
        - inversion E2; subst. exfalso. apply Hn. apply in_map_iff. exists (k, t'). auto.
        - apply IH; assumption. }
      destruct (assoc_json k l); [apply Himp; assumption|discriminate].
  Qed.
End Steps.
