(** No modelled function can end in a Go runtime error. *)
From Coq Require Import List String Ascii Bool Arith Lia.
From GM Require Import Base.Result Facts.GoFacts Facts.Ana Model.Enums Model.Unions Model.Classify Model.Names Proofs.C10.
Import ListNotations.
Local Open Scope string_scope.

Lemma short_name_no_crash s n : is_crash (short_name s n) = false.
Proof.
  unfold short_name, slice_to. destruct (Nat.ltb_spec n (String.length s)); [|reflexivity].
  destruct (Nat.leb_spec n (String.length s)); [reflexivity|lia].
Qed.

Lemma short_name_ok s n : exists r, short_name s n = Ok r.
Proof.
  pose proof (short_name_no_crash s n) as H. unfold short_name, slice_to in *.
  destruct (Nat.ltb n (String.length s)); [|eexists; reflexivity].
  destruct (Nat.leb n (String.length s)); [eexists; reflexivity|discriminate].
Qed.

Lemma kind_var_name_no_crash m u : is_crash (kind_var_name m u) = false.
Proof. unfold kind_var_name. destruct (short_name_ok u 2) as [r ->]. reflexivity. Qed.

Lemma rand_foreign_id_no_crash p l : is_crash (rand_foreign_id p l) = false.
Proof. unfold rand_foreign_id. destruct (short_name_ok p 3) as [r ->]. reflexivity. Qed.

Lemma id_from_named_no_crash p n : is_crash (id_from_named p n) = false.
Proof. unfold id_from_named. destruct (short_name_ok p 4) as [r ->]. reflexivity. Qed.

Lemma lower_first_no_crash s : exists r, lower_first s = Ok r.
Proof. destruct s; eexists; reflexivity. Qed.

Lemma dart_enum_member_no_crash c : is_crash (dart_enum_member c) = false.
Proof.
  unfold dart_enum_member. destruct (lower_first_no_crash c) as [v ->]. simpl.
  match goal with |- is_crash (lower_first ?x) = false => destruct (lower_first_no_crash x) as [r ->] end. reflexivity.
Qed.

(** the pinned versions did crash on legal names *)
Lemma pinned_name_crashes :
  is_crash (kind_var_name_pinned "A" "U") = true /\
  is_crash (rand_foreign_id_pinned "ab" "T") = true /\
  is_crash (dart_enum_member_pinned "Kind_") = true.
Proof. repeat split. Qed.

(** createType: refusals are diagnostics *)
Lemma classify_no_crash pr enums unions t : is_crash (classify pr enums unions t) = false.
Proof.
  destruct t; simpl; try reflexivity.
  - destruct (find_type id (pr_types pr)) as [d|]; [|reflexivity].
    destruct (n_is_time d); [destruct (String.eqb (n_pkg d) "time"); reflexivity|].
    destruct (is_enum enums id); [reflexivity|].
    destruct (union_members unions id); [reflexivity|].
    destruct (n_under d); reflexivity.
  - destruct (String.prefix time_pos_prefix descr); [|reflexivity].
    destruct (find_type _ _); reflexivity.
Qed.

(** the closure can only fail with a diagnostic of the classifier, or by exhausting its fuel *)
Lemma closure_crash_is_fuel pr enums unions fuel : forall work seen msg,
  closure pr enums unions fuel work seen = Crash msg -> msg = "out of fuel (unbounded recursion)".
Proof.
  induction fuel as [|f IH]; intros work seen msg H; simpl in H; [inversion H; reflexivity|].
  destruct work as [|t rest]; [discriminate|].
  destruct (seen_mem t seen); [eapply IH; eauto|].
  pose proof (classify_no_crash pr enums unions t) as Hc.
  destruct (classify pr enums unions t) as [sh| |]; simpl in *; try discriminate.
  eapply IH; eauto.
Qed.
