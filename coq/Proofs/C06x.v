(** C06, Dart: a concrete graph on which the traversal model succeeds (non-vacuity of Proofs/C06c.v), shaped like the
    input of the defect repaired by 3d53a37: struct S { X sub.N } in package models, type N int in package models/sub. *)
From Coq Require Import List String Ascii ZArith Bool Arith.
From GM Require Import Base.Result Facts.GoFacts Facts.Ana Model.Dart Model.TsGen Model.DartGen.
Import ListNotations.
Local Open Scope string_scope.

Definition ex_decl (id pkg name : string) (u : gunder) : ndecl :=
  {| n_id := id; n_pkg := pkg; n_pkg_name := name; n_name := name; n_targs := []; n_under := u; n_exported := true;
     n_is_time := false; n_mset := []; n_in_scope := true |}.

Definition ex_prog : prog :=
  {| pr_root := "example.com/org/models"; pr_pkgs := [];
     pr_types := [ {| n_id := "example.com/org/models.S"; n_pkg := "example.com/org/models"; n_pkg_name := "models"; n_name := "S";
                      n_targs := []; n_under := UStruct []; n_exported := true; n_is_time := false; n_mset := []; n_in_scope := true |};
                   {| n_id := "example.com/org/models/sub.N"; n_pkg := "example.com/org/models/sub"; n_pkg_name := "sub"; n_name := "N";
                      n_targs := []; n_under := UBasic KInt; n_exported := true; n_is_time := false; n_mset := []; n_in_scope := true |} ] |}.

Definition ex_node (at_ : gty) (k : akind) (bk : option bkind) (children : list gty) (fields : list afield) : nrec :=
  {| nr_at := at_; nr_kind := k; nr_self := at_; nr_len := 0; nr_bkind := bk; nr_is_date := false; nr_children := children;
     nr_fields := fields; nr_comments := []; nr_implements := []; nr_members := []; nr_in_types := true |}.

Definition tS := GNamed "example.com/org/models.S".
Definition tN := GNamed "example.com/org/models/sub.N".

Definition ex_nodes : list nrec :=
  [ ex_node tS KdStruct None [tN]
      [ {| af_name := "X"; af_type := tN; af_tag := ""; af_go_exported := true; af_exported := true; af_json := "X" |} ];
    ex_node tN KdNamed None [GBasic KInt] [];
    ex_node (GBasic KInt) KdBasic (Some KInt) [] [] ].

Definition ex_run := dart_run "/home/u/go/src/example.com/org/models" ex_prog ex_nodes 8 [tS].

Definition ex_summary : option (list (string * string * list string) * list (string * string)) :=
  match ex_run with
  | Ok st => Some (map (fun d => (dd_file d, dd_id d, dd_mentions d)) (ds_decls st), ds_imps st)
  | _ => None
  end.

(** children first: the helpers of int in predefined.dart, then N in the file of its package (referring to them and
    importing that file), then S in models.dart, which refers to N only and imports the file of N only *)
Example traversal_succeeds_on_a_two_package_graph :
  ex_summary = Some ([ ("predefined.dart", "int_json", []);
                       ("models_sub.dart", "N", ["int_json"]);
                       ("models.dart", "S", ["N"]) ],
                     [ ("models_sub.dart", "predefined.dart"); ("models.dart", "models_sub.dart") ]).
Proof. vm_compute. reflexivity. Qed.

Example its_output_is_linked : match ex_run with Ok st => links_closed st | _ => false end = true.
Proof. vm_compute. reflexivity. Qed.
