From Coq Require Import List String Ascii ZArith Bool Arith Lia.
From GM Require Import Base.Result Facts.GoFacts Facts.Ana Model.Enums Model.Fields Model.Classify Model.Names Model.SqlTypes Model.Dart Proofs.C09 Proofs.C10.
Import ListNotations.
Local Open Scope string_scope.

(** constructor arguments and JSON keys of a class: one per field encoding/json serialises (C09) *)
Lemma ctor_args_follow_json_keys n :
  forallb tag_supported (map sfield_of (nr_fields n)) = true ->
  dart_ctor_args n = map lower_first_ok (std_keys (filter (fun f => negb (gomacro_ignored f)) (map sfield_of (nr_fields n)))).
Proof. intro H. unfold dart_ctor_args. rewrite (selected_keys_std _ H). reflexivity. Qed.

(** non positional enums: looking a listed wire value up and reading the table back gives the value *)
Lemma index_of_str_spec v l : forall i k, index_of_str v l i = Some k -> i <= k /\ nth_error l (k - i) = Some v.
Proof.
  induction l as [|x r IH]; intros i k H; simpl in H; [discriminate|].
  destruct (String.eqb_spec x v).
  - inversion H; subst. split; [lia|]. rewrite Nat.sub_diag. reflexivity.
  - destruct (IH (S i) k H) as [L N]. split; [lia|]. replace (k - i) with (S (k - S i)) by lia. exact N.
Qed.

Lemma index_of_str_total v l : In v l -> forall i, exists k, index_of_str v l i = Some k.
Proof.
  induction l as [|x r IH]; intros Hin i; simpl; [contradiction|].
  destruct (String.eqb_spec x v); [eexists; reflexivity|].
  destruct Hin as [E|Hin]; [contradiction|]. apply IH. assumption.
Qed.

Lemma values_table_roundtrip values v : In v values ->
  exists i, from_value values v = Some i /\ to_value values i = Some v.
Proof.
  intro Hin. unfold from_value, to_value. destruct (index_of_str_total v values Hin 0) as [k Hk].
  exists k. split; [assumption|]. destruct (index_of_str_spec v values 0 k Hk) as [_ N]. rewrite Nat.sub_0_r in N. exact N.
Qed.

(** positional enums: with the soundness of the iota flag (C10) the index of an exported member is its value *)
Lemma zseq_nth n : forall s i, i < n -> nth_error (zseq s n) i = Some (s + Z.of_nat i)%Z.
Proof.
  induction n as [|n IH]; intros s i H; [lia|]. destruct i as [|i]; simpl.
  - f_equal. lia.
  - rewrite IH by lia. f_equal. lia.
Qed.

Lemma positional_conversion_is_identity ms i :
  exported_int64 ms = map Some (zseq 0 (List.length (filter em_exported ms))) ->
  i < List.length (filter em_exported ms) ->
  nth_error (exported_int64 ms) i = Some (Some (Z.of_nat i)).
Proof.
  intros H Hi. rewrite H. rewrite nth_error_map, (zseq_nth _ 0 i Hi). reflexivity.
Qed.

(** the files of the linker are flat names: no path separator survives, whatever the root and the package *)
Fixpoint no_slash (s : string) : bool :=
  match s with EmptyString => true | String c r => negb (Ascii.eqb c "/"%char) && no_slash r end.

Lemma no_slash_app a b : no_slash a = true -> no_slash b = true -> no_slash (a ++ b) = true.
Proof. induction a as [|c a IH]; simpl; intros Ha Hb; [exact Hb|]. apply andb_true_iff in Ha. destruct Ha as [H1 H2]. rewrite H1, (IH H2 Hb). reflexivity. Qed.

Lemma no_slash_replace s : no_slash (replace_slash s) = true.
Proof.
  induction s as [|c s IH]; simpl; [reflexivity|]. rewrite IH. destruct (Ascii.eqb c "/"%char) eqn:E; simpl; [reflexivity|rewrite E; reflexivity].
Qed.

Lemma out_file_is_flat root p : no_slash (dart_out_file root p) = true.
Proof. unfold dart_out_file. apply no_slash_app; [apply no_slash_replace|reflexivity]. Qed.

(** under a GOPATH-like root, the root package and its sub-packages get the names relative to the parent of the root *)
Example out_file_examples :
  dart_out_file "/home/u/go/src/example.com/org/models" "example.com/org/models" = "models.dart"
  /\ dart_out_file "/home/u/go/src/example.com/org/models" "example.com/org/models/sub/x" = "models_sub_x.dart"
  /\ dart_out_file "/home/u/go/src/example.com/org/models" "math/big" = "stdlib_math_big.dart"
  /\ dart_out_file "/tmp/work/mod" "example.com/org/models" = "stdlib_example.com_org_models.dart".
Proof. vm_compute. repeat split. Qed.

(** the keys fromJson reads and toJson writes are those encoding/json uses (C09), in field order, and the
    constructor has one argument per key *)
Lemma json_keys_are_go_keys n :
  forallb tag_supported (map sfield_of (nr_fields n)) = true ->
  dart_json_keys n = std_keys (filter (fun f => negb (gomacro_ignored f)) (map sfield_of (nr_fields n)))
  /\ dart_ctor_args n = map lower_first_ok (dart_json_keys n).
Proof. intro H. unfold dart_json_keys, dart_ctor_args. rewrite (selected_keys_std _ H). split; reflexivity. Qed.
