From Coq Require Import List String Bool Arith ZArith.
From GM Require Import Base.Result Facts.GoFacts Model.Enums Model.Names Model.GoScope.
Import ListNotations.
Local Open Scope string_scope.

(** members carry Go identifiers: never empty *)
Definition named_members (ms : list emember) : Prop := Forall (fun m => em_name m <> "") ms.

Lemma enum_choices_valid ms : named_members ms -> valid_expr_list (enum_choices ms) = true.
Proof.
  unfold enum_choices, valid_expr_list. induction 1 as [|m r Hm Hr IH]; simpl; [reflexivity|].
  destruct (em_exported m); simpl; [|assumption]. rewrite IH.
  destruct (String.eqb_spec (em_name m) ""); [contradiction|reflexivity].
Qed.

Lemma enum_choices_exact ms x : In x (enum_choices ms) <-> exists m, In m ms /\ em_exported m = true /\ em_name m = x.
Proof.
  unfold enum_choices. rewrite in_map_iff. split.
  - intros [m [E Hin]]. apply filter_In in Hin. exists m. tauto.
  - intros [m [Hin [He E]]]. exists m. split; [assumption|]. apply filter_In. tauto.
Qed.

Lemma enum_choices_pinned_refuted :
  let mk := fun n e => {| em_name := n; em_val := CInt 0%Z; em_exact := "0"; em_exported := e; em_comment := "" |} in
  valid_expr_list (enum_choices_pinned [mk "Red" true; mk "dup" false; mk "Green" true]) = false.
Proof. reflexivity. Qed.

(** two unions sharing their first two letters and a member get the same constant name: open finding *)
Lemma kind_names_collide :
  kind_var_name "A" "Shape1" = kind_var_name "A" "Shape2" /\ "Shape1" <> "Shape2".
Proof. split; [reflexivity|discriminate]. Qed.

Lemma receiver_ok_local types pkg id : receiver_ok types pkg id = true ->
  exists d, find_type id types = Some d /\ n_pkg d = pkg /\ (forall ms, n_under d <> UInterface ms).
Proof.
  unfold receiver_ok. destruct (find_type id types) as [d|]; [|discriminate]. intro H.
  apply andb_true_iff in H. destruct H as [H1 H2]. apply String.eqb_eq in H1.
  exists d. repeat split; auto. intros ms E. rewrite E in H2. discriminate.
Qed.
