(** Proofs about union detection and the Implements back-links (Model/Unions.v). *)
From Coq Require Import List String Bool Arith Sorting.Permutation Sorting.Sorted.
From GM Require Import Base.Result Base.StrOrd Facts.GoFacts Model.Enums Model.Unions.
Import ListNotations.
Local Open Scope string_scope.
Local Open Scope list_scope.

(** a defined type is a member of interface [itf] in the sense of the statement *)
Definition member_ok (itf : list msig) (m : ndecl) : bool := negb (is_interface m) && implements m itf.

Lemma fetch_pkg_unions_spec types p u ms :
  In (u, ms) (fetch_pkg_unions types p) <->
  exists c itf, In c (candidates types p) /\ n_id c = u /\ n_under c = UInterface itf /\
                ms = map n_id (filter (member_ok itf) (candidates types p)) /\ ms <> [].
Proof.
  unfold fetch_pkg_unions. rewrite in_flat_map. split.
  - intros [c [Hc Hin]]. destruct (n_under c) as [| |itf| | | | |] eqn:Hu; try contradiction.
    unfold members_of in Hin. fold (member_ok itf) in Hin.
    destruct (map n_id (filter (member_ok itf) (candidates types p))) as [|m0 r] eqn:Hm; [contradiction|].
    destruct Hin as [E|[]]. inversion E; subst. exists c, itf. repeat split; auto. discriminate.
  - intros [c [itf [Hc [Hid [Hu [Hms Hne]]]]]]. exists c. split; [assumption|]. rewrite Hu.
    unfold members_of. fold (member_ok itf). rewrite <- Hms. destruct ms; [congruence|]. left. subst. reflexivity.
Qed.

(** members are listed in the order of the candidates, without repetition when the candidates have none *)
Lemma map_filter_NoDup {A} (f : A -> bool) (g : A -> string) l : NoDup (map g l) -> NoDup (map g (filter f l)).
Proof.
  induction l as [|x r IH]; simpl; intro H; [constructor|]. inversion H as [|? ? Hn Hr]; subst.
  destruct (f x); simpl; [|apply IH; assumption]. constructor; [|apply IH; assumption].
  intro Hin. apply Hn. apply in_map_iff in Hin. destruct Hin as [y [E Hy]]. apply filter_In in Hy.
  apply in_map_iff. exists y. tauto.
Qed.

Lemma map_filter_sorted (f : ndecl -> bool) l : ssorted (map n_id l) -> ssorted (map n_id (filter f l)).
Proof.
  unfold ssorted. induction l as [|x r IH]; simpl; intro H; [constructor|]. inversion H as [|? ? Hs Hall]; subst.
  destruct (f x); simpl; [|apply IH; assumption]. constructor; [apply IH; assumption|].
  rewrite Forall_forall in *. intros i Hi. apply Hall. apply in_map_iff in Hi. destruct Hi as [y [E Hy]].
  apply filter_In in Hy. apply in_map_iff. exists y. tauto.
Qed.

Lemma members_sorted_nodup types p u ms :
  NoDup (map n_id (candidates types p)) -> ssorted (map n_id (candidates types p)) ->
  In (u, ms) (fetch_pkg_unions types p) -> NoDup ms /\ ssorted ms.
Proof.
  intros Hn Hs Hin. apply fetch_pkg_unions_spec in Hin. destruct Hin as [c [itf [_ [_ [_ [-> _]]]]]].
  split; [apply map_filter_NoDup; assumption|apply map_filter_sorted; assumption].
Qed.

(** ** back-links *)
Lemma set_implements_In unions analysed sid u :
  In u (set_implements unions analysed sid) <->
  exists ms, In (u, ms) unions /\ analysed u = true /\ In sid ms.
Proof.
  unfold set_implements. rewrite sort_str_In, in_map_iff. split.
  - intros [[u' ms] [E Hin]]. simpl in E. subst u'. apply filter_In in Hin. destruct Hin as [Hin Hc].
    simpl in Hc. apply andb_true_iff in Hc. destruct Hc as [Ha He]. exists ms. repeat split; auto.
    apply existsb_exists in He. destruct He as [x [Hx Ex]]. apply String.eqb_eq in Ex. subst. assumption.
  - intros [ms [Hin [Ha Hs]]]. exists (u, ms). split; [reflexivity|]. apply filter_In. split; [assumption|].
    simpl. rewrite Ha. simpl. apply existsb_exists. exists sid. split; [assumption|apply String.eqb_refl].
Qed.

Lemma set_implements_sorted unions analysed sid : ssorted (set_implements unions analysed sid).
Proof. apply sort_str_sorted. Qed.

Lemma filter_perm {A} (f : A -> bool) l l' : Permutation l l' -> Permutation (filter f l) (filter f l').
Proof.
  induction 1; simpl; auto.
  - destruct (f x); auto.
  - destruct (f x), (f y); auto. apply perm_swap.
  - etransitivity; eauto.
Qed.

(** the order in which the union map is ranged over is irrelevant *)
Lemma set_implements_order_indep unions unions' analysed sid :
  Permutation unions unions' -> set_implements unions analysed sid = set_implements unions' analysed sid.
Proof.
  intro P. unfold set_implements. apply sort_str_perm_eq. apply Permutation_map. apply filter_perm. assumption.
Qed.

Lemma set_implements_NoDup unions analysed sid :
  NoDup (map fst unions) -> NoDup (set_implements unions analysed sid).
Proof.
  intro H. unfold set_implements. eapply Permutation_NoDup; [apply Permutation_sym, sort_str_perm|].
  apply map_filter_NoDup with (g := fst). assumption.
Qed.
