(** The JSON round trip of Go values through the wire format (Sem/GoVal.v): decoding what [encode]
    writes gives the value back, a nil and an empty slice or map counting as equal ([canon]); and what
    [encode] writes conforms to the wire shape (so that the Kind/Data statements of Proofs/C02.v apply). *)
From Coq Require Import List String Ascii ZArith Bool Arith Lia.
From GM Require Import Sem.GoJson Sem.GoVal.
Import ListNotations.
Local Open Scope string_scope.
Local Open Scope list_scope.

Definition canonkv (kv : string * value) : string * value := match kv with (k, w) => (k, canon w) end.

Lemma canon_list l l' : map canon l' = map canon l -> canon (VList l') = canon (VList l).
Proof.
  destruct l as [|a l], l' as [|b l']; intros H; try discriminate; [reflexivity|].
  cbn [canon]. f_equal. exact H.
Qed.

Lemma canon_map l l' : map canonkv l' = map canonkv l -> canon (VMap l') = canon (VMap l).
Proof.
  destruct l as [|a l], l' as [|b l']; intros H; try discriminate; [reflexivity|].
  cbn [canon]. f_equal. exact H.
Qed.

Lemma canon_obj l l' : map canonkv l' = map canonkv l -> canon (VObj l') = canon (VObj l).
Proof. intros H. cbn [canon]. f_equal. exact H. Qed.

Lemma map_opt_length {A B} (f : A -> option B) l l' : map_opt f l = Some l' -> List.length l' = List.length l.
Proof.
  revert l'; induction l as [|a l IH]; intros l' H; simpl in H.
  - injection H as <-. reflexivity.
  - destruct (f a); [|discriminate]. destruct (map_opt f l) as [r|]; [|discriminate]. injection H as <-. simpl. f_equal. apply IH. reflexivity.
Qed.

Lemma list_rt (enc : value -> option json) (dec : json -> option value) :
  (forall v j, enc v = Some j -> exists v', dec j = Some v' /\ canon v' = canon v) ->
  forall l jl, map_opt enc l = Some jl -> exists l', map_opt dec jl = Some l' /\ map canon l' = map canon l.
Proof.
  intros H l; induction l as [|a l IH]; intros jl E; simpl in E.
  - injection E as <-. exists []. split; reflexivity.
  - destruct (enc a) as [j|] eqn:Ea; [|discriminate]. destruct (map_opt enc l) as [r|] eqn:Er; [|discriminate].
    injection E as <-. destruct (H _ _ Ea) as [v' [D C]]. destruct (IH _ eq_refl) as [l' [D' C']].
    exists (v' :: l'). simpl. rewrite D, D'. split; [reflexivity|]. rewrite C, C'. reflexivity.
Qed.

Lemma kvlist_rt (enc : value -> option json) (dec : json -> option value) :
  (forall v j, enc v = Some j -> exists v', dec j = Some v' /\ canon v' = canon v) ->
  forall l jl, map_opt (fun kv : string * value => match kv with (k, w) => option_map (pair k) (enc w) end) l = Some jl ->
  exists l', map_opt (fun kv : string * json => match kv with (k, w) => option_map (pair k) (dec w) end) jl = Some l' /\ map canonkv l' = map canonkv l.
Proof.
  intros H l; induction l as [|[k a] l IH]; intros jl E; simpl in E.
  - injection E as <-. exists []. split; reflexivity.
  - destruct (enc a) as [j|] eqn:Ea; [|discriminate]. simpl in E.
    destruct (map_opt _ l) as [r|] eqn:Er; [|discriminate].
    injection E as <-. destruct (H _ _ Ea) as [v' [D C]]. destruct (IH _ eq_refl) as [l' [D' C']].
    exists ((k, v') :: l'). simpl. rewrite D. simpl. rewrite D'. split; [reflexivity|]. rewrite C, C'. reflexivity.
Qed.

Lemma scalar_rt v j : scalar_json v = Some j -> scalar_value j = Some v.
Proof. destruct v; simpl; intros H; try discriminate; injection H as <-; reflexivity. Qed.

Lemma nullable_enc (e : option json) j : not_null e = Some j -> e = Some j /\ j <> JNull.
Proof. unfold not_null. destruct e as [[]|]; intros H; try discriminate; injection H as <-; split; congruence. Qed.

Lemma nullable_dec {A} (j : json) (a b : A) : j <> JNull -> match j with JNull => a | _ => b end = b.
Proof. destruct j; congruence. Qed.

(** * struct fields *)
Notation fkey := (fun fd : string * jshape * bool => fst (fst fd)).

Lemma assoc_app_none k pre l : assoc_json k pre = None -> assoc_json k (pre ++ l) = assoc_json k l.
Proof.
  induction pre as [|[k' v] pre IH]; simpl; [reflexivity|]. destruct (String.eqb k k'); [discriminate|]. exact IH.
Qed.

Lemma assoc_app_hit k pre j l : assoc_json k pre = None -> assoc_json k (pre ++ (k, j) :: l) = Some j.
Proof. intros H. rewrite assoc_app_none by exact H. simpl. rewrite String.eqb_refl. reflexivity. Qed.

Lemma assoc_snoc_none k pre k' j : assoc_json k pre = None -> k <> k' -> assoc_json k (pre ++ [(k', j)]) = None.
Proof. intros H N. rewrite assoc_app_none by exact H. simpl. apply String.eqb_neq in N. rewrite N. reflexivity. Qed.

Lemma not_in_keys (fields : list (string * jshape * bool)) k :
  existsb (fun p => String.eqb (fst (fst p)) k) fields = false -> forall fd, In fd fields -> fst (fst fd) <> k.
Proof.
  intros H fd Hin E. assert (X : existsb (fun p => String.eqb (fst (fst p)) k) fields = true).
  { apply existsb_exists. exists fd. split; [exact Hin|]. rewrite E. apply String.eqb_refl. }
  congruence.
Qed.

Lemma enc_fields_keys enc fields : forall l jl, encode_fields enc fields l = Some jl ->
  forall k, (forall fd, In fd fields -> fst (fst fd) <> k) -> assoc_json k jl = None.
Proof.
  induction fields as [|[[k0 sh] opt] fr IH]; intros l jl E k N; destruct l as [|[k' w] lr]; simpl in E; try discriminate.
  - injection E as <-. reflexivity.
  - destruct (String.eqb k0 k'); [|discriminate]. destruct (enc sh w) as [j|]; [|discriminate].
    destruct (encode_fields enc fr lr) as [rest|] eqn:Er; [|discriminate].
    assert (Hr : assoc_json k rest = None) by (eapply IH; [exact Er|intros fd Hin; apply N; right; exact Hin]).
    destruct (opt && is_empty_at sh w); injection E as <-; [exact Hr|].
    simpl. assert (Hk : k0 <> k) by (apply (N (k0, sh, opt)); left; reflexivity).
    destruct (String.eqb k k0) eqn:Ek; [apply String.eqb_eq in Ek; congruence|exact Hr].
Qed.

Lemma fields_rt (enc : jshape -> value -> option json) (dec : jshape -> json -> option value) :
  (forall sh w j, enc sh w = Some j -> exists w', dec sh j = Some w' /\ canon w' = canon w) ->
  (forall sh w j, enc sh w = Some j -> is_empty_at sh w = true -> exists z, zero_of sh = Some z /\ canon z = canon w) ->
  forall fields l jl, fkeys_nodup fields = true -> encode_fields enc fields l = Some jl ->
  forall pre, (forall fd, In fd fields -> assoc_json (fst (fst fd)) pre = None) ->
  exists l', map_opt (decode_field dec (pre ++ jl)) fields = Some l' /\ map canonkv l' = map canonkv l.
Proof.
  intros Hrt Hz fields; induction fields as [|[[k sh] opt] fr IH]; intros l jl ND E pre Hpre; destruct l as [|[k' w] lr]; simpl in E; try discriminate.
  - injection E as <-. exists []. split; reflexivity.
  - destruct (String.eqb k k') eqn:Ek; [|discriminate]. apply String.eqb_eq in Ek. subst k'.
    destruct (enc sh w) as [j|] eqn:Ew; [|discriminate].
    destruct (encode_fields enc fr lr) as [rest|] eqn:Er; [|discriminate].
    simpl in ND. apply andb_true_iff in ND. destruct ND as [NDk ND]. apply negb_true_iff in NDk.
    pose proof (not_in_keys fr k NDk) as Hfr.
    assert (Hkpre : assoc_json k pre = None) by (apply (Hpre (k, sh, opt)); left; reflexivity).
    destruct (opt && is_empty_at sh w) eqn:Eo; injection E as <-.
    + apply andb_true_iff in Eo. destruct Eo as [Eopt Eemp]. subst opt.
      destruct (Hz _ _ _ Ew Eemp) as [z [Z Cz]].
      destruct (IH lr rest ND Er pre) as [l' [D C]]; [intros fd Hin; apply Hpre; right; exact Hin|].
      exists ((k, z) :: l'). cbn [map_opt decode_field].
      rewrite assoc_app_none by exact Hkpre. rewrite (enc_fields_keys _ _ _ _ Er k Hfr). rewrite Z. cbn [option_map]. rewrite D.
      split; [reflexivity|]. simpl. rewrite Cz, C. reflexivity.
    + destruct (Hrt _ _ _ Ew) as [w' [Dw Cw]].
      destruct (IH lr rest ND Er (pre ++ [(k, j)])) as [l' [D C]].
      { intros fd Hin. apply assoc_snoc_none; [apply Hpre; right; exact Hin|]. apply Hfr. exact Hin. }
      exists ((k, w') :: l'). cbn [map_opt decode_field].
      rewrite assoc_app_hit by exact Hkpre. rewrite Dw. cbn [option_map].
      replace (pre ++ (k, j) :: rest) with ((pre ++ [(k, j)]) ++ rest) by (rewrite <- app_assoc; reflexivity).
      rewrite D. split; [reflexivity|]. simpl. rewrite Cw, C. reflexivity.
Qed.

Lemma env_wf_lookup env id fields : env_wf env = true -> lookup_def id env = Some (DObject fields) -> fkeys_nodup fields = true.
Proof.
  unfold env_wf. induction env as [|[k d] env IH]; simpl; [discriminate|]. intros H L.
  apply andb_true_iff in H. destruct H as [H1 H2]. destruct (String.eqb k id).
  - injection L as ->. exact H1.
  - apply IH; assumption.
Qed.

(** * what omitempty leaves out is what Unmarshal puts back *)
Lemma empty_zero env f sh w j : encode env f sh w = Some j -> is_empty_at sh w = true ->
  exists z, zero_of sh = Some z /\ canon z = canon w.
Proof.
  destruct f as [|f]; [discriminate|]. intros E H. destruct sh as [| | |s|s|n s|s|vs|id|].
  - destruct w as [b| | | | | | | |]; try discriminate. simpl in H. destruct b; [discriminate|]. eexists; split; reflexivity.
  - destruct w as [|l| | | | | | |]; try discriminate. simpl in H. apply String.eqb_eq in H. subst l. eexists; split; reflexivity.
  - destruct w as [| |x| | | | | |]; try discriminate. simpl in H. apply String.eqb_eq in H. subst x. eexists; split; reflexivity.
  - exists VNil. split; [reflexivity|].
    destruct s; destruct w as [| | | |[|? ?]|[|? ?]| | |]; simpl in H; try discriminate; reflexivity.
  - exists VNil. split; [reflexivity|]. destruct w as [| | | |[|? ?]|[|? ?]| | |]; simpl in H; try discriminate; reflexivity.
  - simpl in H. apply Nat.eqb_eq in H. subst n. exists (VList []). split; [reflexivity|].
    simpl in E. destruct w as [| | | |l| | | |]; try discriminate. destruct l; [reflexivity|discriminate].
  - exists VNil. split; [reflexivity|]. destruct w as [| | | |[|? ?]|[|? ?]| | |]; simpl in H; try discriminate; reflexivity.
  - cbn [encode] in E. destruct (scalar_json w) as [j0|] eqn:Es; [|discriminate].
    destruct (existsb (json_eqb j0) vs && same_ctor (hd JNull vs) j0) eqn:Ec; [|discriminate].
    apply andb_true_iff in Ec. destruct Ec as [_ Ec].
    destruct w as [b|l|x| | | | | |]; try discriminate; simpl in H; simpl in Es; injection Es as <-.
    + destruct b; [discriminate|]. destruct vs as [|[] vs]; try discriminate. eexists; split; reflexivity.
    + apply String.eqb_eq in H. subst l. destruct vs as [|[] vs]; try discriminate. eexists; split; reflexivity.
    + apply String.eqb_eq in H. subst x. destruct vs as [|[] vs]; try discriminate. eexists; split; reflexivity.
  - discriminate.
  - destruct w as [| | | | | | | |[]]; try discriminate. eexists; split; reflexivity.
Qed.

(** * the round trip *)
Section RoundTrip.
  Variable env : jenv.
  Hypothesis WF : env_wf env = true.

  Lemma union_doc k d :
    assoc_json "Kind" [("Data", d); ("Kind", JStr k)] = Some (JStr k) /\
    assoc_json "Data" [("Data", d); ("Kind", JStr k)] = Some d.
  Proof. split; reflexivity. Qed.

  Theorem round_trip : forall f s v j, encode env f s v = Some j ->
    exists v', decode env f s j = Some v' /\ canon v' = canon v.
  Proof.
    induction f as [|f IH]; intros s v j E; [discriminate|].
    destruct s as [| | |s|s|n s|s|vs|id|].
    - (* bool *) destruct v; try discriminate. injection E as <-. eexists; split; reflexivity.
    - destruct v; try discriminate. injection E as <-. eexists; split; reflexivity.
    - destruct v; try discriminate. injection E as <-. eexists; split; reflexivity.
    - (* nullable *)
      cbn [encode] in E. cbn [decode].
      destruct v as [b|l|x| |l|l|l|k w|a];
        try (apply nullable_enc in E; destruct E as [E N]; rewrite (nullable_dec j _ _ N); apply IH; exact E).
      injection E as <-. exists VNil. split; reflexivity.
    - (* named slice of unions *)
      cbn [encode] in E. cbn [decode]. destruct v as [| | | |l| | | |]; try discriminate.
      + injection E as <-. exists (VList []). split; reflexivity.
      + destruct (map_opt (encode env f s) l) as [jl|] eqn:El; [|discriminate]. injection E as <-.
        destruct (list_rt (encode env f s) (decode env f s) (IH s) _ _ El) as [l' [D C]].
        exists (VList l'). rewrite D. split; [reflexivity|]. apply canon_list. exact C.
    - (* fixed array *)
      cbn [encode] in E. cbn [decode]. destruct v as [| | | |l| | | |]; try discriminate.
      destruct (Nat.eqb (List.length l) n) eqn:En; [|discriminate].
      destruct (map_opt (encode env f s) l) as [jl|] eqn:El; [|discriminate]. injection E as <-.
      rewrite (map_opt_length _ _ _ El), En.
      destruct (list_rt (encode env f s) (decode env f s) (IH s) _ _ El) as [l' [D C]].
      exists (VList l'). rewrite D. split; [reflexivity|]. apply canon_list. exact C.
    - (* named map of unions *)
      cbn [encode] in E. cbn [decode]. destruct v as [| | | | |l| | |]; try discriminate.
      + injection E as <-. exists (VMap []). split; reflexivity.
      + destruct (vkeys_nodup l); [|discriminate].
        destruct (map_opt _ l) as [jl|] eqn:El; [|discriminate]. injection E as <-.
        destruct (kvlist_rt (encode env f s) (decode env f s) (IH s) _ _ El) as [l' [D C]].
        exists (VMap l'). rewrite D. split; [reflexivity|]. apply canon_map. exact C.
    - (* enum *)
      cbn [encode] in E. cbn [decode]. destruct (scalar_json v) as [j0|] eqn:Es; [|discriminate].
      destruct (existsb (json_eqb j0) vs && same_ctor (hd JNull vs) j0) eqn:Ec; [|discriminate].
      injection E as <-. apply andb_true_iff in Ec. destruct Ec as [Ec _]. rewrite Ec.
      exists v. split; [apply scalar_rt; exact Es|reflexivity].
    - (* struct, union *)
      cbn [encode] in E. cbn [decode]. destruct (lookup_def id env) as [[fields|members]|] eqn:L; [| |discriminate].
      + destruct v as [| | | | | |l| |]; try discriminate.
        destruct (encode_fields (encode env f) fields l) as [jl|] eqn:Ef; [|discriminate]. injection E as <-.
        destruct (fields_rt (encode env f) (decode env f) (IH) (empty_zero env f) fields l jl
                    (env_wf_lookup _ _ _ WF L) Ef []) as [l' [D C]]; [reflexivity|].
        simpl in D. exists (VObj l'). rewrite D. split; [reflexivity|]. apply canon_obj. exact C.
      + destruct v as [| | | | | | |k w|]; try discriminate.
        destruct (find (fun m => String.eqb (fst m) k) members) as [m|] eqn:Fm; [|discriminate].
        destruct (encode env f (snd m) w) as [d|] eqn:Ed; [|discriminate]. injection E as <-.
        destruct (union_doc k d) as [-> ->]. rewrite Fm.
        destruct (IH _ _ _ Ed) as [w' [D C]]. exists (VUnion k w'). rewrite D. split; [reflexivity|].
        cbn [canon]. rewrite C. reflexivity.
    - (* opaque *) destruct v; try discriminate. injection E as <-. eexists; split; reflexivity.
  Qed.
End RoundTrip.

(** * what [encode] writes conforms to the wire shape *)
Lemma existsb_key_assoc k (l : list (string * json)) :
  assoc_json k l = None -> existsb (fun p => String.eqb (fst p) k) l = false.
Proof.
  induction l as [|[k' v] l IH]; simpl; [reflexivity|]. rewrite (String.eqb_sym k' k).
  destruct (String.eqb k k'); [discriminate|]. exact IH.
Qed.

Lemma forallb_map_opt {A B} (enc : A -> option B) (P : B -> bool) :
  (forall a b, enc a = Some b -> P b = true) -> forall l l', map_opt enc l = Some l' -> forallb P l' = true.
Proof.
  intros H l; induction l as [|a l IH]; intros l' E; simpl in E.
  - injection E as <-. reflexivity.
  - destruct (enc a) as [b|] eqn:Ea; [|discriminate]. destruct (map_opt enc l) as [r|]; [|discriminate].
    injection E as <-. simpl. rewrite (H _ _ Ea), (IH _ eq_refl). reflexivity.
Qed.

Lemma kv_keys (enc : value -> option json) : forall l jl,
  map_opt (fun kv : string * value => match kv with (k, w) => option_map (pair k) (enc w) end) l = Some jl ->
  map fst jl = map fst l.
Proof.
  induction l as [|[k a] l IH]; intros jl E; simpl in E.
  - injection E as <-. reflexivity.
  - destruct (enc a) as [j|]; [|discriminate]. simpl in E. destruct (map_opt _ l) as [r|]; [|discriminate].
    injection E as <-. simpl. f_equal. apply IH. reflexivity.
Qed.

Lemma existsb_fst {A B} k (l : list (string * A)) (l' : list (string * B)) : map fst l = map fst l' ->
  existsb (fun p => String.eqb (fst p) k) l = existsb (fun p => String.eqb (fst p) k) l'.
Proof.
  revert l'; induction l as [|[a x] l IH]; intros [|[b y] l'] H; try discriminate; [reflexivity|].
  simpl in *. injection H as -> H. rewrite (IH _ H). reflexivity.
Qed.

Lemma nodup_fst (l : list (string * json)) (l' : list (string * value)) : map fst l = map fst l' -> nodup_keys l = vkeys_nodup l'.
Proof.
  revert l'; induction l as [|[a x] l IH]; intros [|[b y] l'] H; try discriminate; [reflexivity|].
  simpl in *. injection H as -> H. rewrite (IH _ H), (existsb_fst b l l' H). reflexivity.
Qed.

Lemma enc_fields_conf (enc : jshape -> value -> option json) (conf : jshape -> json -> bool) :
  (forall sh w j, enc sh w = Some j -> conf sh j = true) ->
  forall fields l jl, fkeys_nodup fields = true -> encode_fields enc fields l = Some jl ->
    nodup_keys jl = true
    /\ forallb (fun kv : string * json => existsb (fun fd : string * jshape * bool => String.eqb (fst (fst fd)) (fst kv)) fields) jl = true
    /\ forallb (fun fd : string * jshape * bool => let '(k, sh, opt) := fd in
                  match assoc_json k jl with Some v => conf sh v | None => opt end) fields = true.
Proof.
  intros Hc fields; induction fields as [|[[k sh] opt] fr IH]; intros l jl ND E; destruct l as [|[k' w] lr]; simpl in E; try discriminate.
  - injection E as <-. repeat split.
  - destruct (String.eqb k k') eqn:Ek; [|discriminate]. apply String.eqb_eq in Ek. subst k'.
    destruct (enc sh w) as [j|] eqn:Ew; [|discriminate].
    destruct (encode_fields enc fr lr) as [rest|] eqn:Er; [|discriminate].
    simpl in ND. apply andb_true_iff in ND. destruct ND as [NDk ND]. apply negb_true_iff in NDk.
    pose proof (not_in_keys fr k NDk) as Hfr.
    pose proof (enc_fields_keys _ _ _ _ Er k Hfr) as Hk.
    destruct (IH _ _ ND Er) as [A [B C]].
    assert (B' : forallb (fun kv : string * json => existsb (fun fd : string * jshape * bool => String.eqb (fst (fst fd)) (fst kv)) ((k, sh, opt) :: fr)) rest = true).
    { rewrite forallb_forall in *. intros kv Hin. simpl. rewrite (B kv Hin). apply orb_true_r. }
    destruct (opt && is_empty_at sh w) eqn:Eo; injection E as <-.
    + apply andb_true_iff in Eo. destruct Eo as [-> _]. split; [exact A|]. split; [exact B'|].
      cbn [forallb]. rewrite Hk. exact C.
    + split; [|split].
      * simpl. rewrite (existsb_key_assoc _ _ Hk). exact A.
      * cbn [forallb]. rewrite B'. simpl. rewrite String.eqb_refl. reflexivity.
      * cbn [forallb assoc_json]. rewrite String.eqb_refl, (Hc _ _ _ Ew). simpl.
        rewrite forallb_forall in *. intros [[k2 sh2] opt2] Hin. specialize (C _ Hin). simpl in C.
        assert (N : k2 <> k) by (apply (Hfr _ Hin)). apply String.eqb_neq in N. rewrite N. exact C.
Qed.

Section Conforms.
  Variable env : jenv.
  Hypothesis WF : env_wf env = true.

  Theorem encode_conforms : forall f s v j, encode env f s v = Some j -> conformsb env f s j = true.
  Proof.
    induction f as [|f IH]; intros s v j E; [discriminate|].
    destruct s as [| | |s|s|n s|s|vs|id|].
    - destruct v; try discriminate. injection E as <-. reflexivity.
    - destruct v; try discriminate. injection E as <-. reflexivity.
    - destruct v; try discriminate. injection E as <-. reflexivity.
    - cbn [encode] in E. cbn [conformsb].
      destruct v as [b|l|x| |l|l|l|k w|a];
        try (apply nullable_enc in E; destruct E as [E N]; rewrite (nullable_dec j _ _ N); apply (IH _ _ _ E)).
      injection E as <-. reflexivity.
    - cbn [encode] in E. cbn [conformsb]. destruct v as [| | | |l| | | |]; try discriminate.
      + injection E as <-. reflexivity.
      + destruct (map_opt (encode env f s) l) as [jl|] eqn:El; [|discriminate]. injection E as <-.
        exact (forallb_map_opt _ _ (IH s) _ _ El).
    - cbn [encode] in E. cbn [conformsb]. destruct v as [| | | |l| | | |]; try discriminate.
      destruct (Nat.eqb (List.length l) n) eqn:En; [|discriminate].
      destruct (map_opt (encode env f s) l) as [jl|] eqn:El; [|discriminate]. injection E as <-.
      rewrite (map_opt_length _ _ _ El), En. exact (forallb_map_opt _ _ (IH s) _ _ El).
    - cbn [encode] in E. cbn [conformsb]. destruct v as [| | | | |l| | |]; try discriminate.
      + injection E as <-. reflexivity.
      + destruct (vkeys_nodup l) eqn:Nd; [|discriminate].
        destruct (map_opt _ l) as [jl|] eqn:El; [|discriminate]. injection E as <-.
        rewrite (nodup_fst _ _ (kv_keys _ _ _ El)), Nd. simpl.
        refine (forallb_map_opt _ (fun kv => conformsb env f s (snd kv)) _ _ _ El).
        intros [k a] b. destruct (encode env f s a) as [ja|] eqn:Ea; simpl; [|discriminate].
        intros Hb. injection Hb as <-. simpl. exact (IH _ _ _ Ea).
    - cbn [encode] in E. cbn [conformsb]. destruct (scalar_json v) as [j0|]; [|discriminate].
      destruct (existsb (json_eqb j0) vs && same_ctor (hd JNull vs) j0) eqn:Ec; [|discriminate].
      injection E as <-. apply andb_true_iff in Ec. apply Ec.
    - cbn [encode] in E. cbn [conformsb]. destruct (lookup_def id env) as [[fields|members]|] eqn:L; [| |discriminate].
      + destruct v as [| | | | | |l| |]; try discriminate.
        destruct (encode_fields (encode env f) fields l) as [jl|] eqn:Ef; [|discriminate]. injection E as <-.
        destruct (enc_fields_conf (encode env f) (conformsb env f) (IH) fields l jl (env_wf_lookup _ _ _ WF L) Ef) as [A [B C]].
        rewrite A, B. simpl. exact C.
      + destruct v as [| | | | | | |k w|]; try discriminate.
        destruct (find (fun m => String.eqb (fst m) k) members) as [m|] eqn:Fm; [|discriminate].
        destruct (encode env f (snd m) w) as [d|] eqn:Ed; [|discriminate]. injection E as <-.
        destruct (union_doc k d) as [-> ->]. rewrite Fm. simpl. exact (IH _ _ _ Ed).
    - destruct v; try discriminate. reflexivity.
  Qed.
End Conforms.

(** an union value on the wire, read off the encoder *)
Lemma union_value_on_the_wire env f id members k w j :
  lookup_def id env = Some (DUnion members) ->
  encode env (S f) (ShRef id) (VUnion k w) = Some j ->
  exists sh d, In (k, sh) members /\ encode env f sh w = Some d /\ j = JObj [("Data", d); ("Kind", JStr k)].
Proof.
  intros L E. cbn [encode] in E. rewrite L in E.
  destruct (find (fun m => String.eqb (fst m) k) members) as [[k' sh]|] eqn:Fm; [|discriminate].
  apply find_some in Fm. destruct Fm as [Hin Ek]. simpl in Ek. apply String.eqb_eq in Ek. subst k'.
  simpl in E. destruct (encode env f sh w) as [d|] eqn:Ed; [|discriminate]. injection E as <-.
  exists sh, d. repeat split; assumption.
Qed.

(** non-vacuity: a struct with an union field, a named slice of unions left nil, an omitted omitempty field *)
Definition ex_env : jenv :=
  [ ("p.A", DObject [("x", ShNumber, false); ("S", ShNullable (ShArrayOf ShString), false)]);
    ("p.N", DObject []);
    ("p.U", DUnion [("A", ShRef "p.A"); ("N", ShNumber)]);
    ("p.S", DObject [("v", ShRef "p.U", false); ("omit", ShString, true); ("L", ShArrayOf (ShRef "p.U"), false); ("W", ShRef "p.U", false)]) ].

Definition ex_value : value :=
  VObj [("v", VUnion "A" (VObj [("x", VNum "3"); ("S", VList [])])); ("omit", VStr ""); ("L", VNil); ("W", VUnion "N" (VNum "7"))].

Example ex_round_trip :
  env_wf ex_env = true /\
  encode ex_env 6 (ShRef "p.S") ex_value =
    Some (JObj [("v", JObj [("Data", JObj [("x", JNum "3"); ("S", JArr [])]); ("Kind", JStr "A")]);
                ("L", JArr []);
                ("W", JObj [("Data", JNum "7"); ("Kind", JStr "N")])]) /\
  option_map canon (match encode ex_env 6 (ShRef "p.S") ex_value with Some j => decode ex_env 6 (ShRef "p.S") j | None => None end)
    = Some (canon ex_value).
Proof. vm_compute. repeat split. Qed.
