(** C06, Dart: the assembly of one output file from the import edges recorded by the traversal (Model/DartGen.v), and
    the meaning of the link condition evaluated on the traversal's output. *)
From Coq Require Import List String Ascii ZArith Bool Arith Permutation.
From GM Require Import Base.Result Base.StrOrd Facts.GoFacts Facts.Ana Model.Dart Model.DartGen.
Import ListNotations.
Local Open Scope string_scope.

Definition edge_kept (file : string) (e : string * string) : bool :=
  String.eqb (fst e) file && negb (String.eqb (snd e) file).

Lemma imports_of_sorted file imps : strict_sorted (imports_of file imps).
Proof. unfold imports_of. apply sort_nodup_sorted. Qed.

Lemma imports_of_In file imps g : In g (imports_of file imps) <-> In (file, g) imps /\ g <> file.
Proof.
  unfold imports_of. rewrite sort_nodup_In, in_map_iff. split.
  - intros [[a b] [E Hin]]. simpl in E. subst b. apply filter_In in Hin. destruct Hin as [Hin K].
    apply andb_true_iff in K. simpl in K. destruct K as [K1 K2].
    apply String.eqb_eq in K1. subst a. split; [exact Hin|].
    intro E. subst g. rewrite String.eqb_refl in K2. discriminate.
  - intros [Hin Hne]. exists (file, g). split; [reflexivity|]. apply filter_In. split; [exact Hin|].
    simpl. rewrite String.eqb_refl. simpl. destruct (String.eqb_spec g file); [contradiction|reflexivity].
Qed.

Lemma no_self_import file imps : ~ In file (imports_of file imps).
Proof. intro H. apply imports_of_In in H. destruct H as [_ H]. apply H. reflexivity. Qed.

Lemma imports_of_NoDup file imps : NoDup (imports_of file imps).
Proof. apply strict_sorted_NoDup. apply imports_of_sorted. Qed.

(** the import list of a file depends on the set of recorded edges only: neither on the order in which the traversal
    recorded them (map iteration in Generate) nor on how often *)
Lemma imports_of_set file a b : (forall e, In e a <-> In e b) -> imports_of file a = imports_of file b.
Proof.
  intro H. apply strict_sorted_unique; try apply imports_of_sorted.
  intro g. rewrite !imports_of_In. rewrite (H (file, g)). reflexivity.
Qed.

Lemma imports_of_perm file a b : Permutation a b -> imports_of file a = imports_of file b.
Proof.
  intro P. apply imports_of_set. intro e. split; intro Hin; [eapply Permutation_in; eassumption|eapply Permutation_in; [apply Permutation_sym|]; eassumption].
Qed.

(** the link condition, as a statement about declarations and recorded edges *)
Lemma links_closed_sound st : links_closed st = true ->
  forall d m, In d (ds_decls st) -> In m (dd_mentions d ++ dd_impl d) ->
  exists d', In d' (ds_decls st) /\ dd_id d' = m
             /\ (dd_file d' = dd_file d \/ (In (dd_file d, dd_file d') (ds_imps st) /\ dd_file d' <> dd_file d)).
Proof.
  intros H d m Hd Hm. unfold links_closed in H. rewrite forallb_forall in H. specialize (H d Hd).
  rewrite forallb_forall in H. specialize (H m Hm). apply existsb_exists in H. destruct H as [d' [Hd' K]].
  apply andb_true_iff in K. destruct K as [K1 K2]. apply String.eqb_eq in K1.
  exists d'. split; [exact Hd'|]. split; [exact K1|].
  apply existsb_exists in K2. destruct K2 as [f [Hf E]]. apply String.eqb_eq in E. subst f.
  unfold visible_from in Hf. destruct Hf as [E|Hin]; [left; symmetry; exact E|].
  right. apply imports_of_In in Hin. exact Hin.
Qed.

Lemma links_closed_complete st :
  (forall d m, In d (ds_decls st) -> In m (dd_mentions d ++ dd_impl d) ->
     exists d', In d' (ds_decls st) /\ dd_id d' = m
                /\ (dd_file d' = dd_file d \/ In (dd_file d, dd_file d') (ds_imps st))) ->
  links_closed st = true.
Proof.
  intro H. unfold links_closed. apply forallb_forall. intros d Hd. apply forallb_forall. intros m Hm.
  destruct (H d m Hd Hm) as [d' [Hd' [E V]]]. apply existsb_exists. exists d'. split; [exact Hd'|].
  apply andb_true_iff. split; [apply String.eqb_eq; exact E|].
  apply existsb_exists. exists (dd_file d'). split; [|apply String.eqb_refl].
  unfold visible_from. destruct (string_dec (dd_file d') (dd_file d)) as [E2|NE].
  - left. symmetry. exact E2.
  - right. apply imports_of_In. split; [|exact NE]. destruct V as [V|V]; [contradiction|exact V].
Qed.
