(** A typing predicate for the codec: [has_shape] decides "v is a value of the shape whose union-typed
    components hold member values", and [encode] succeeds on exactly such values. *)
From Coq Require Import List String Ascii ZArith Bool Arith Lia.
From GM Require Import Sem.GoJson Sem.GoVal Proofs.C02rt.
Import ListNotations.
Local Open Scope string_scope.
Local Open Scope list_scope.

Lemma map_opt_total {A B} (g : A -> option B) (P : A -> bool) :
  (forall a, P a = true -> exists b, g a = Some b) ->
  forall l, forallb P l = true -> exists l', map_opt g l = Some l'.
Proof.
  intros H l; induction l as [|a l IH]; simpl; intros Hl; [eexists; reflexivity|].
  apply andb_true_iff in Hl. destruct Hl as [Ha Hl]. destruct (H _ Ha) as [b Hb]. destruct (IH Hl) as [l' Hl'].
  rewrite Hb, Hl'. eexists; reflexivity.
Qed.

Lemma enc_null_iff env f s v j : encode env f s v = Some j -> (j = JNull <-> nullish s v = true).
Proof.
  destruct f as [|f]; [discriminate|]. intros E.
  destruct s as [| | |s|s|n s|s|vs|id|]; cbn [encode] in E.
  - destruct v; try discriminate. injection E as <-. simpl. split; discriminate.
  - destruct v; try discriminate. injection E as <-. simpl. split; discriminate.
  - destruct v; try discriminate. injection E as <-. simpl. split; discriminate.
  - destruct v as [b|l|x| |l|l|l|k w|a];
      try (apply nullable_enc in E; destruct E as [_ N]; simpl; split; [intro; contradiction|discriminate]).
    injection E as <-. simpl. split; reflexivity.
  - destruct v as [| | | |l| | | |]; try discriminate.
    + injection E as <-. simpl. split; discriminate.
    + destruct (map_opt _ l); [|discriminate]. injection E as <-. simpl. split; discriminate.
  - destruct v as [| | | |l| | | |]; try discriminate. destruct (Nat.eqb _ _); [|discriminate].
    destruct (map_opt _ l); [|discriminate]. injection E as <-. simpl. split; discriminate.
  - destruct v as [| | | | |l| | |]; try discriminate.
    + injection E as <-. simpl. split; discriminate.
    + destruct (vkeys_nodup l); [|discriminate]. destruct (map_opt _ l); [|discriminate]. injection E as <-. simpl. split; discriminate.
  - destruct (scalar_json v) as [j0|] eqn:Es; [|discriminate]. destruct (_ && _); [|discriminate]. injection E as <-.
    destruct v; try discriminate; simpl in Es; injection Es as <-; simpl; split; discriminate.
  - destruct (lookup_def id env) as [[fields|members]|]; try discriminate.
    + destruct v; try discriminate. destruct (encode_fields _ _ _); [|discriminate]. injection E as <-. simpl. split; discriminate.
    + destruct v as [| | | | | | |k w|]; try discriminate. destruct (find _ members); [|discriminate].
      destruct (encode env f _ w); [|discriminate]. injection E as <-. simpl. split; discriminate.
  - destruct v as [| | | | | | | |a]; try discriminate. injection E as <-. simpl. destruct a; split; try discriminate; reflexivity.
Qed.

Lemma encode_fields_total (enc : jshape -> value -> option json) (hs : jshape -> value -> bool) :
  (forall sh w, hs sh w = true -> exists j, enc sh w = Some j) ->
  forall fields l, fields_shape hs fields l = true -> exists jl, encode_fields enc fields l = Some jl.
Proof.
  intros H fields; induction fields as [|[[k sh] opt] fr IH]; intros l Hl; destruct l as [|[k' w] lr]; simpl in Hl; try discriminate.
  - eexists; reflexivity.
  - apply andb_true_iff in Hl. destruct Hl as [Hl H3]. apply andb_true_iff in Hl. destruct Hl as [H1 H2].
    destruct (H _ _ H2) as [j Hj]. destruct (IH _ H3) as [rest Hr]. simpl. rewrite H1, Hj, Hr.
    destruct (opt && is_empty_at sh w); eexists; reflexivity.
Qed.

Section Total.
  Variable env : jenv.

  Theorem encode_total : forall f s v, has_shape env f s v = true -> exists j, encode env f s v = Some j.
  Proof.
    induction f as [|f IH]; intros s v H; [discriminate|].
    destruct s as [| | |s|s|n s|s|vs|id|]; cbn [has_shape] in H; cbn [encode].
    - destruct v; try discriminate; eexists; reflexivity.
    - destruct v; try discriminate; eexists; reflexivity.
    - destruct v; try discriminate; eexists; reflexivity.
    - assert (G : forall w, has_shape env f s w && negb (nullish s w) = true -> exists j, not_null (encode env f s w) = Some j).
      { intros w Hw. apply andb_true_iff in Hw. destruct Hw as [Hs Hn]. destruct (IH _ _ Hs) as [j Hj]. rewrite Hj.
        destruct (enc_null_iff _ _ _ _ _ Hj) as [N _]. exists j. unfold not_null. destruct j; try reflexivity.
        rewrite (N eq_refl) in Hn. discriminate. }
      destruct v; try (apply G; exact H). eexists; reflexivity.
    - destruct v as [| | | |l| | | |]; try discriminate; [eexists; reflexivity|].
      destruct (map_opt_total (encode env f s) (has_shape env f s) (IH s) l H) as [jl Hjl]. rewrite Hjl. eexists; reflexivity.
    - destruct v as [| | | |l| | | |]; try discriminate. apply andb_true_iff in H. destruct H as [Hn Hl]. rewrite Hn.
      destruct (map_opt_total (encode env f s) (has_shape env f s) (IH s) l Hl) as [jl Hjl]. rewrite Hjl. eexists; reflexivity.
    - destruct v as [| | | | |l| | |]; try discriminate; [eexists; reflexivity|].
      apply andb_true_iff in H. destruct H as [Hk Hl]. rewrite Hk.
      destruct (map_opt_total (fun kv : string * value => match kv with (k, w) => option_map (pair k) (encode env f s w) end)
                              (fun kv : string * value => match kv with (_, w) => has_shape env f s w end)) with (l := l) as [jl Hjl].
      + intros [k w] Hw. destruct (IH _ _ Hw) as [j Hj]. rewrite Hj. eexists; reflexivity.
      + exact Hl.
      + rewrite Hjl. eexists; reflexivity.
    - destruct (scalar_json v) as [j0|]; [|discriminate]. rewrite H. eexists; reflexivity.
    - destruct (lookup_def id env) as [[fields|members]|]; try discriminate.
      + destruct v as [| | | | | |l| |]; try discriminate.
        destruct (encode_fields_total (encode env f) (has_shape env f) (IH) fields l H) as [jl Hjl]. rewrite Hjl. eexists; reflexivity.
      + destruct v as [| | | | | | |k w|]; try discriminate.
        destruct (find (fun m => String.eqb (fst m) k) members) as [m|]; [|discriminate].
        destruct (IH _ _ H) as [d Hd]. rewrite Hd. eexists; reflexivity.
    - destruct v; try discriminate; eexists; reflexivity.
  Qed.
End Total.

(** the round trip, stated on typed values *)
Theorem typed_round_trip env : env_wf env = true -> forall f s v, has_shape env f s v = true ->
  exists j v', encode env f s v = Some j /\ decode env f s j = Some v' /\ canon v' = canon v.
Proof.
  intros WF f s v H. destruct (encode_total env f s v H) as [j Hj].
  destruct (round_trip env WF f s v j Hj) as [v' [D C]]. exists j, v'. auto.
Qed.

Example ex_typed : has_shape ex_env 6 (ShRef "p.S") ex_value = true.
Proof. vm_compute. reflexivity. Qed.
