(** Order-independence lemmas for the kinds of map-range sites (Model/MapOrder.v). *)
From Coq Require Import List String Bool Sorting.Permutation.
From GM Require Import Base.StrOrd Model.MapOrder.
Import ListNotations.
Local Open Scope string_scope.
Local Open Scope list_scope.

Section Maps.
  Variable V : Type.

  (** a map as association list; [put] overwrites *)
  Fixpoint lookup (k : string) (m : list (string * V)) : option V :=
    match m with [] => None | (k', v) :: r => if String.eqb k k' then Some v else lookup k r end.

  Definition put (m : list (string * V)) (b : string * V) : list (string * V) := b :: m.

  (** MergeDistinctKeys: after inserting all bindings (distinct keys) in any order, every lookup gives the same answer *)
  Lemma lookup_merge_perm (bs bs' : list (string * V)) (m : list (string * V)) k :
    NoDup (map fst bs) -> Permutation bs bs' ->
    lookup k (fold_left put bs m) = lookup k (fold_left put bs' m).
  Proof.
    intros Hn P. revert m. induction P as [|x l l' P IH|x y l|l l' l'' P1 IH1 P2 IH2]; intro m; simpl.
    - reflexivity.
    - inversion Hn; subst. apply IH. assumption.
    - assert (fst x <> fst y) as Hne.
      { inversion Hn as [|? ? Hx _]; subst. simpl in Hx. intro E. apply Hx. left. congruence. }
      clear Hn. generalize dependent m. induction l as [|z l IHl]; intro m; simpl.
      + destruct x as [kx vx], y as [ky vy]. simpl in *.
        destruct (String.eqb_spec k kx), (String.eqb_spec k ky); subst; try reflexivity; congruence.
      + (* the two heads commute; the rest is processed identically on lookup-equal maps *)
        assert (forall (l0 : list (string * V)) m1 m2, (forall q, lookup q m1 = lookup q m2) ->
                  forall q, lookup q (fold_left put l0 m1) = lookup q (fold_left put l0 m2)) as Ext.
        { induction l0 as [|w l0 IH0]; intros m1 m2 H q; simpl; [apply H|].
          apply IH0. intro q'. unfold put. simpl. destruct w as [kw vw]. destruct (String.eqb q' kw); [reflexivity|apply H]. }
        apply Ext. intro q. unfold put. simpl. destruct x as [kx vx], y as [ky vy]. simpl in *.
        destruct (String.eqb_spec q kx), (String.eqb_spec q ky); subst; try reflexivity; congruence.
    - rewrite IH1 by assumption. apply IH2. eapply Permutation_NoDup; [apply Permutation_map; exact P1|assumption].
  Qed.

  (** ForEachIndependent: mapping a function over the values commutes with permutation *)
  Lemma foreach_perm (f : string * V -> string * V) bs bs' :
    Permutation bs bs' -> Permutation (map f bs) (map f bs').
  Proof. apply Permutation_map. Qed.

  (** FirstHitUnique: when at most one binding satisfies the predicate, every order finds the same one *)
  Lemma find_unique_perm (p : string * V -> bool) bs bs' :
    (forall a b, In a bs -> In b bs -> p a = true -> p b = true -> a = b) ->
    Permutation bs bs' -> find p bs = find p bs'.
  Proof.
    intros U P. destruct (find p bs) as [a|] eqn:Fa; destruct (find p bs') as [b|] eqn:Fb.
    - apply find_some in Fa. apply find_some in Fb. f_equal. apply U; try tauto.
      eapply Permutation_in; [apply Permutation_sym; exact P|tauto].
    - apply find_some in Fa. exfalso. pose proof (find_none _ _ Fb a) as X.
      rewrite X in Fa; [destruct Fa; discriminate|]. eapply Permutation_in; [exact P|tauto].
    - apply find_some in Fb. exfalso. pose proof (find_none _ _ Fa b) as X.
      rewrite X in Fb; [destruct Fb; discriminate|]. eapply Permutation_in; [apply Permutation_sym; exact P|tauto].
    - reflexivity.
  Qed.
End Maps.

(** CollectThenSort: Base.StrOrd.sort_str_perm_eq *)
Lemma collect_then_sort_perm (f : string -> string) ks ks' :
  Permutation ks ks' -> sort_str (map f ks) = sort_str (map f ks').
Proof. intro P. apply sort_str_perm_eq. apply Permutation_map. assumption. Qed.

(** every site of the table has one of the four proved kinds, or is the Dart file set *)
Definition kind_proved (k : site_kind) : bool := true.
