(** C01, gounions: the declarations emitted by the traversal are closed under the wrapper types they
    mention without a package, for every analysed program (Model/GoUnionsGen.v). *)
From Coq Require Import List String Ascii ZArith Bool Arith Lia.
From GM Require Import Base.Result Facts.GoFacts Facts.Ana Model.Fields Model.Names Model.Dart Model.GoUnionsGen Proofs.C12.
Import ListNotations.
Local Open Scope string_scope.

Lemma find_node_at t nodes n : find_node t nodes = Some n -> nr_at n = t /\ In n nodes.
Proof.
  induction nodes as [|x r IH]; simpl; [discriminate|].
  destruct (gty_eqb (nr_at x) t) eqn:E.
  - intro H. inversion H; subst. split; [apply gty_eqb_eq; exact E | left; reflexivity].
  - intro H. destruct (IH H) as [A B]. split; [exact A | right; exact B].
Qed.

Section Closure.
  Variable pr : prog.
  Variable nodes : list nrec.
  Hypothesis Hloc : structs_with_unions_local pr nodes = true.

  Notation isu := (is_union_at nodes).
  Notation isl := (is_local pr).
  Notation wof := (wrapper_of pr).

  Definition Inv (cache : list string) (out : list gdecl) : Prop :=
    forall id, In id cache -> isu (GNamed id) = true -> isl (GNamed id) = true ->
      In (wof (GNamed id)) (declared_types out).

  Definition closed_in (ds all : list gdecl) : Prop :=
    forall d w, In d ds -> In w (gd_wrappers d) -> wr_same_pkg w = true -> In (wr_text w) (declared_types all).

  Definition Spec (g : list string -> gty -> result (list string * list gdecl)) : Prop :=
    forall cache t cache' ds out, g cache t = Ok (cache', ds) -> Inv cache out ->
      Inv cache' (out ++ ds)
      /\ (isu t = true -> isl t = true -> In (wof t) (declared_types (out ++ ds)))
      /\ closed_in ds (out ++ ds).

  Lemma declared_app a b : declared_types (a ++ b) = (declared_types a ++ declared_types b)%list.
  Proof. unfold declared_types. apply flat_map_app. Qed.

  Lemma Inv_mono c out ds : Inv c out -> Inv c (out ++ ds).
  Proof. intros H id Hi Hu Hl. rewrite declared_app. apply in_or_app. left. apply H; assumption. Qed.

  Lemma closed_mono ds all more : closed_in ds all -> closed_in ds (all ++ more).
  Proof. intros H d w Hd Hw Hs. rewrite declared_app. apply in_or_app. left. eapply H; eassumption. Qed.

  Lemma closed_app a b all : closed_in a all -> closed_in b all -> closed_in (a ++ b) all.
  Proof. intros Ha Hb d w Hd. apply in_app_or in Hd. destruct Hd; [eapply Ha|eapply Hb]; eassumption. Qed.

  Lemma closed_nil all : closed_in [] all.
  Proof. intros d w []. Qed.

  Lemma isl_named t : isl t = true -> exists id, t = GNamed id.
  Proof. unfold is_local, decl_of. destruct t; try discriminate. eexists; reflexivity. Qed.

  Lemma same_pkg_local a b : same_pkg pr a b = true -> isl a = true -> isl b = true.
  Proof.
    unfold same_pkg, is_local. destruct (decl_of pr a) as [da|]; [|discriminate]. destruct (decl_of pr b) as [db|]; [|discriminate].
    intros E Ha. apply String.eqb_eq in E. apply String.eqb_eq in Ha. apply String.eqb_eq. congruence.
  Qed.

  (** the check of the cache *)
  Lemma check_hit cache t : fst (check cache t) = true -> exists id, t = GNamed id /\ In id cache.
  Proof.
    unfold check. destruct t; simpl; try discriminate.
    destruct (existsb (String.eqb id) cache) eqn:E; simpl; [|discriminate]. intros _.
    apply existsb_exists in E. destruct E as [x [Hin Hx]]. apply String.eqb_eq in Hx. subst. eexists; split; [reflexivity|assumption].
  Qed.

  Lemma check_miss cache t id : fst (check cache t) = false -> In id (snd (check cache t)) -> In id cache \/ t = GNamed id.
  Proof.
    unfold check. destruct t; simpl; auto.
    destruct (existsb (String.eqb id0) cache); simpl; auto.
    intros _ [E|H]; [right; congruence|left; assumption].
  Qed.

  Lemma Inv_miss cache t out : fst (check cache t) = false -> isu t = false -> Inv cache out -> Inv (snd (check cache t)) out.
  Proof.
    intros Hm Hu H id Hi Hui Hl. destruct (check_miss _ _ _ Hm Hi) as [Hc|E]; [apply H; assumption|].
    subst. rewrite Hu in Hui. discriminate.
  Qed.

  (** codeForUnion *)
  Lemma union_decl_spec n ud : union_decl pr n = Ok ud ->
    (isl (nr_at n) = true -> In (wof (nr_at n)) (declared_types ud)) /\ (forall all, closed_in ud all).
  Proof.
    unfold union_decl. destruct (isl (nr_at n)) eqn:L; simpl.
    - destruct (mapM _ (nr_members n)) as [cs| |]; simpl; try discriminate. intro H. inversion H; subst. split.
      + intros _. simpl. left. reflexivity.
      + intros all d w [E|[]] Hw. subst. simpl in Hw. contradiction.
    - intro H. inversion H; subst. split; [discriminate|]. intros all. apply closed_nil.
  Qed.

  Lemma union_decl_at_spec c ud : union_decl_at pr nodes c = Ok ud ->
    (isl c = true -> In (wof c) (declared_types ud)) /\ (forall all, closed_in ud all).
  Proof.
    unfold union_decl_at. destruct (find_node c nodes) as [cn|] eqn:F; [|discriminate]. intro H.
    destruct (find_node_at _ _ _ F) as [A _]. rewrite <- A. apply union_decl_spec. exact H.
  Qed.

  (** the fields of a struct, with a visitor that meets the specification *)
  Lemma fold_fields_spec g : Spec g -> forall fs cache cache' ds out,
    fold_fields nodes true g fs cache = Ok (cache', ds) -> Inv cache out ->
    Inv cache' (out ++ ds)
    /\ closed_in ds (out ++ ds)
    /\ (forall fd, In fd fs -> isu (af_type fd) = true -> isl (af_type fd) = true ->
          In (wof (af_type fd)) (declared_types (out ++ ds))).
  Proof.
    intros Hg. induction fs as [|fd r IH]; intros cache cache' ds out H HI; cbn [fold_fields] in H.
    - inversion H; subst. rewrite app_nil_r. split; [exact HI|]. split; [apply closed_nil|]. intros fd [].
    - destruct (visited nodes true fd) eqn:V.
      + destruct (g cache (af_type fd)) as [[c1 d1]| |] eqn:G; simpl in H; try discriminate.
        destruct (fold_fields nodes true g r c1) as [[c2 d2]| |] eqn:F; simpl in H; try discriminate.
        inversion H; subst. clear H.
        destruct (Hg _ _ _ _ out G HI) as [I1 [U1 C1]].
        destruct (IH _ _ _ (out ++ d1)%list F I1) as [I2 [C2 U2]].
        rewrite app_assoc. split; [exact I2|]. split.
        * apply closed_app; [apply closed_mono; exact C1 | exact C2].
        * intros fd' [E|Hin] Hu Hl.
          -- subst fd'. rewrite declared_app. apply in_or_app. left. apply U1; assumption.
          -- apply U2; assumption.
      + simpl in H. destruct (fold_fields nodes true g r cache) as [[c2 d2]| |] eqn:F; simpl in H; try discriminate.
        inversion H; subst. clear H. destruct (IH _ _ _ out F HI) as [I2 [C2 U2]].
        split; [exact I2|]. split; [exact C2|].
        intros fd' [E|Hin] Hu Hl.
        * subst fd'. unfold visited in V. rewrite Hu in V. simpl in V. rewrite orb_true_r in V. discriminate.
        * apply U2; assumption.
  Qed.

  Lemma isu_kind t n : find_node t nodes = Some n -> isu t = akind_eqb (nr_kind n) KdUnion.
  Proof. unfold is_union_at. intro H. rewrite H. reflexivity. Qed.

  (** a named slice / map of unions *)
  Lemma container_spec cache1 t c ud out :
    Inv cache1 out -> isl t = true -> union_decl_at pr nodes c = Ok ud ->
    Inv cache1 (out ++ (ud ++ [container_decl pr t c])) /\ closed_in (ud ++ [container_decl pr t c]) (out ++ (ud ++ [container_decl pr t c])).
  Proof.
    intros HI Hl Hu. split; [apply Inv_mono; exact HI|].
    destruct (union_decl_at_spec _ _ Hu) as [A B].
    apply closed_app; [apply B|].
    intros d w [E|[]] Hw Hs. subst d. simpl in Hw. destruct Hw as [E|[]]. subst w.
    unfold wrapper_ref in *. destruct (same_pkg pr t c) eqn:S; simpl in *; [|discriminate].
    rewrite declared_app. apply in_or_app. right. rewrite declared_app. apply in_or_app. left.
    apply A. eapply same_pkg_local; eassumption.
  Qed.

  Lemma struct_local t n fd : find_node t nodes = Some n -> nr_kind n = KdStruct ->
    In fd (nr_fields n) -> isu (af_type fd) = true -> isl t = true.
  Proof.
    intros F K Hin Hu. destruct (find_node_at _ _ _ F) as [A Hn].
    unfold structs_with_unions_local in Hloc. rewrite forallb_forall in Hloc. specialize (Hloc n Hn). rewrite K in Hloc.
    assert (E : existsb (fun fd0 => isu (af_type fd0)) (nr_fields n) = true) by (apply existsb_exists; exists fd; split; assumption).
    rewrite E in Hloc. simpl in Hloc. rewrite A in Hloc. exact Hloc.
  Qed.

  Ltac not_union F := let K := fresh "K" in
    match goal with Hk : nr_kind ?n = _ |- _ => pose proof (isu_kind _ _ F) as K; rewrite Hk in K; simpl in K end.

  Lemma gen_spec : forall fuel, Spec (generate pr nodes true fuel).
  Proof.
    induction fuel as [|f IH]; intros cache t cache' ds out H HI; cbn [generate] in H; [discriminate|].
    destruct (find_node t nodes) as [n|] eqn:F; [|discriminate].
    destruct (fst (check cache t)) eqn:Hit.
    - (* already visited *)
      inversion H; subst. rewrite app_nil_r. split; [exact HI|]. split; [|apply closed_nil].
      intros Hu Hl. destruct (check_hit _ _ Hit) as [id [E Hin]]. subst t. apply HI; assumption.
    - set (cache1 := snd (check cache t)) in *.
      pose proof (isu_kind _ _ F) as KU.
      destruct (nr_kind n) eqn:K; simpl in KU.
      + (* basic *) inversion H; subst. rewrite app_nil_r. split; [apply Inv_miss; assumption|]. split; [intros Hu; congruence|apply closed_nil].
      + (* time *) inversion H; subst. rewrite app_nil_r. split; [apply Inv_miss; assumption|]. split; [intros Hu; congruence|apply closed_nil].
      + (* array *)
        destruct (nr_children n) as [|c r]; [discriminate|]. destruct (isu c); [discriminate|].
        destruct (IH _ _ _ _ out H (Inv_miss _ _ _ Hit KU HI)) as [I1 [_ C1]].
        split; [exact I1|]. split; [intros Hu; congruence|exact C1].
      + (* map *)
        destruct (nr_children n) as [|k [|c r]]; try discriminate. destruct (isu c); [discriminate|].
        destruct (IH _ _ _ _ out H (Inv_miss _ _ _ Hit KU HI)) as [I1 [_ C1]].
        split; [exact I1|]. split; [intros Hu; congruence|exact C1].
      + (* named *)
        assert (HI1 : Inv cache1 out) by (apply Inv_miss; assumption).
        destruct (isl t) eqn:L; simpl in H.
        2:{ inversion H; subst. rewrite app_nil_r. split; [exact HI1|]. split; [intros Hu; congruence|apply closed_nil]. }
        destruct (nr_children n) as [|u r]; [discriminate|].
        destruct (find_node u nodes) as [un|]; [|discriminate].
        destruct (nr_kind un); destruct (nr_children un) as [|c1 [|c2 r2]]; try discriminate;
          try (inversion H; subst; rewrite app_nil_r; split; [exact HI1|]; split; [intros Hu; congruence|apply closed_nil]).
        * (* array, one child *)
          destruct (isu c1).
          -- destruct (union_decl_at pr nodes c1) as [ud| |] eqn:U; simpl in H; try discriminate. inversion H; subst.
             destruct (container_spec cache1 t c1 ud out HI1 L U) as [A B]. split; [exact A|]. split; [intros Hu; congruence|exact B].
          -- destruct (IH _ _ _ _ out H HI1) as [I1 [_ C1]]. split; [exact I1|]. split; [intros Hu; congruence|exact C1].
        * (* array, more children *)
          destruct (isu c1).
          -- destruct (union_decl_at pr nodes c1) as [ud| |] eqn:U; simpl in H; try discriminate. inversion H; subst.
             destruct (container_spec cache1 t c1 ud out HI1 L U) as [A B]. split; [exact A|]. split; [intros Hu; congruence|exact B].
          -- destruct (IH _ _ _ _ out H HI1) as [I1 [_ C1]]. split; [exact I1|]. split; [intros Hu; congruence|exact C1].
        * (* map *)
          destruct (isu c2).
          -- destruct (union_decl_at pr nodes c2) as [ud| |] eqn:U; simpl in H; try discriminate. inversion H; subst.
             destruct (container_spec cache1 t c2 ud out HI1 L U) as [A B]. split; [exact A|]. split; [intros Hu; congruence|exact B].
          -- destruct (IH _ _ _ _ out H HI1) as [I1 [_ C1]]. split; [exact I1|]. split; [intros Hu; congruence|exact C1].
      + (* enum *) inversion H; subst. rewrite app_nil_r. split; [apply Inv_miss; assumption|]. split; [intros Hu; congruence|apply closed_nil].
      + (* struct *)
        assert (HI1 : Inv cache1 out) by (apply Inv_miss; assumption).
        destruct (fold_fields nodes true (generate pr nodes true f) (nr_fields n) cache1) as [[c2 d2]| |] eqn:FF; simpl in H; try discriminate.
        destruct (fold_fields_spec _ IH _ _ _ _ out FF HI1) as [I2 [C2 U2]].
        destruct (existsb (fun fd => isu (af_type fd)) (nr_fields n)) eqn:EX; inversion H; subst; clear H.
        * rewrite app_assoc. split; [apply Inv_mono; exact I2|]. split; [intros Hu; congruence|].
          apply closed_app; [apply closed_mono; exact C2|].
          intros d w [E|[]] Hw Hs. subst d. simpl in Hw. apply in_map_iff in Hw. destruct Hw as [fd [E Hfd]]. subst w.
          apply filter_In in Hfd. destruct Hfd as [Hin Hu].
          unfold wrapper_ref in *. destruct (same_pkg pr t (af_type fd)) eqn:S; simpl in *; [|discriminate].
          rewrite declared_app. apply in_or_app. left. apply U2; [exact Hin|exact Hu|].
          eapply same_pkg_local; [exact S|]. eapply struct_local; eassumption.
        * split; [exact I2|]. split; [intros Hu; congruence|exact C2].
      + (* union *)
        destruct (union_decl pr n) as [ud| |] eqn:U; simpl in H; try discriminate. inversion H; subst. clear H.
        destruct (union_decl_spec _ _ U) as [A B]. destruct (find_node_at _ _ _ F) as [At _]. rewrite At in A.
        split; [|split; [|apply B]].
        * intros id Hi Hu Hl. destruct (check_miss _ _ _ Hit Hi) as [Hc|E].
          -- apply (Inv_mono _ _ ds HI); assumption.
          -- rewrite declared_app. apply in_or_app. right. rewrite <- E. apply A. rewrite E. exact Hl.
        * intros _ Hl. rewrite declared_app. apply in_or_app. right. apply A. exact Hl.
      + (* pointer *)
        destruct (nr_children n) as [|c r]; [discriminate|].
        destruct (IH _ _ _ _ out H (Inv_miss _ _ _ Hit KU HI)) as [I1 [_ C1]].
        split; [exact I1|]. split; [intros Hu; congruence|exact C1].
  Qed.

  Lemma gen_all_spec fuel : forall src cache ds out,
    gen_all pr nodes true fuel src cache = Ok ds -> Inv cache out -> closed_in ds (out ++ ds).
  Proof.
    induction src as [|t r IH]; intros cache ds out H HI; cbn [gen_all] in H.
    - inversion H; subst. apply closed_nil.
    - destruct (generate pr nodes true fuel cache t) as [[c1 d1]| |] eqn:G; simpl in H; try discriminate.
      destruct (gen_all pr nodes true fuel r c1) as [d2| |] eqn:GA; simpl in H; try discriminate.
      inversion H; subst. clear H.
      destruct (gen_spec fuel _ _ _ _ out G HI) as [I1 [_ C1]].
      pose proof (IH _ _ (out ++ d1)%list GA I1) as C2. rewrite app_assoc.
      apply closed_app; [apply closed_mono; exact C1|exact C2].
  Qed.

  Lemma closed_in_bool ds : closed_in ds ds -> closed ds = true.
  Proof.
    intro H. unfold closed. apply forallb_forall. intros d Hd. apply forallb_forall. intros w Hw.
    destruct (wr_same_pkg w) eqn:S; simpl; [|reflexivity].
    apply existsb_exists. exists (wr_text w). split; [eapply H; eassumption|apply String.eqb_refl].
  Qed.

  Theorem gounions_closed src ds : gounions pr nodes true src = Ok ds -> closed ds = true.
  Proof.
    unfold gounions. intro H. apply closed_in_bool.
    apply (gen_all_spec _ _ _ _ [] H). intros id [].
  Qed.
End Closure.

(** the wrapper types of distinct unions are distinct: appending a suffix is injective *)
Lemma append_length a b : String.length (a ++ b) = String.length a + String.length b.
Proof. induction a as [|c a IH]; simpl; [reflexivity|]. rewrite IH. reflexivity. Qed.

Lemma append_inj_l s : forall a b, a ++ s = b ++ s -> a = b.
Proof.
  induction a as [|c a IH]; intros b H.
  - destruct b as [|d b]; [reflexivity|]. exfalso. apply (f_equal String.length) in H. simpl in H. rewrite append_length in H. lia.
  - destruct b as [|d b].
    + exfalso. apply (f_equal String.length) in H. simpl in H. rewrite append_length in H. lia.
    + simpl in H. inversion H; subst. f_equal. apply IH. assumption.
Qed.

Lemma wrapper_names_nodup (names : list string) : NoDup names -> NoDup (map (fun n => n ++ "Wrapper") names).
Proof.
  induction 1 as [|x l Hx Hl IH]; simpl; constructor; [|exact IH].
  intro Hin. apply in_map_iff in Hin. destruct Hin as [y [E Hy]]. apply append_inj_l in E. subst. contradiction.
Qed.

(** * The defect repaired by 247447e, and the repaired traversal, on the same program *)
Definition ex_decl (id name : string) (u : gunder) : ndecl :=
  {| n_id := id; n_pkg := "m"; n_pkg_name := "m"; n_name := name; n_targs := []; n_under := u; n_exported := true;
     n_is_time := false; n_mset := []; n_in_scope := true |}.

Definition ex_node (at_ : gty) (k : akind) (children : list gty) (fields : list afield) (members : list string) : nrec :=
  {| nr_at := at_; nr_kind := k; nr_self := at_; nr_len := 0%Z; nr_bkind := None; nr_is_date := false; nr_children := children;
     nr_fields := fields; nr_comments := []; nr_implements := []; nr_members := members; nr_in_types := true |}.

Definition ex_field (name : string) (t : gty) (tag : string) : afield :=
  {| af_name := name; af_type := t; af_tag := tag; af_go_exported := true; af_exported := true; af_json := name |}.

(** type T struct { A int; S Shape `gomacro:"ignore"` } in the analysed file, Shape and Circle in another file *)
Definition ex_prog : prog :=
  {| pr_root := "m"; pr_pkgs := [];
     pr_types := [ex_decl "m.T" "T" (UStruct []); ex_decl "m.Shape" "Shape" (UInterface []); ex_decl "m.Circle" "Circle" (UStruct [])] |}.

Definition ex_nodes : list nrec :=
  [ex_node (GNamed "m.T") KdStruct [GBasic KInt; GNamed "m.Shape"]
     [ex_field "A" (GBasic KInt) ""; ex_field "S" (GNamed "m.Shape") "gomacro:""ignore"""] [];
   ex_node (GBasic KInt) KdBasic [] [] [];
   ex_node (GNamed "m.Shape") KdUnion [GNamed "m.Circle"] [] ["m.Circle"];
   ex_node (GNamed "m.Circle") KdStruct [] [] []].

Lemma ignored_union_field_refuted :
  structs_with_unions_local ex_prog ex_nodes = true
  /\ (exists ds, gounions ex_prog ex_nodes false [GNamed "m.T"] = Ok ds /\ closed ds = false)
  /\ (exists ds, gounions ex_prog ex_nodes true [GNamed "m.T"] = Ok ds /\ closed ds = true
                 /\ map gd_id ds = ["Shape"; "T_json"] /\ declared_types ds = ["ShapeWrapper"]).
Proof.
  split; [reflexivity|]. split; eexists; (split; [vm_compute; reflexivity|]); vm_compute; repeat split.
Qed.

(** * Every declaration of the output is one of the three forms, with the side conditions of the traversal *)
Section Forall.
  Variable pr : prog.
  Variable nodes : list nrec.
  Variable b : bool.
  Variable Q : gdecl -> Prop.
  Hypothesis Qu : forall n ud d, union_decl pr n = Ok ud -> is_local pr (nr_at n) = true -> In d ud -> Q d.
  Hypothesis Qc : forall t c, is_local pr t = true -> Q (container_decl pr t c).
  Hypothesis Qs : forall t n, find_node t nodes = Some n -> nr_kind n = KdStruct ->
    existsb (fun fd => is_union_at nodes (af_type fd)) (nr_fields n) = true -> Q (struct_decl pr nodes t n).

  Lemma union_decl_forall n ud : union_decl pr n = Ok ud -> Forall Q ud.
  Proof.
    intro H. apply Forall_forall. intros d Hd. destruct (is_local pr (nr_at n)) eqn:L; [eapply Qu; eassumption|].
    unfold union_decl in H. rewrite L in H. simpl in H. inversion H; subst. destruct Hd.
  Qed.

  Lemma union_decl_at_forall c ud : union_decl_at pr nodes c = Ok ud -> Forall Q ud.
  Proof. unfold union_decl_at. destruct (find_node c nodes); [apply union_decl_forall|discriminate]. Qed.

  Lemma fold_fields_forall g : (forall cache t cache' ds, g cache t = Ok (cache', ds) -> Forall Q ds) ->
    forall fs cache cache' ds, fold_fields nodes b g fs cache = Ok (cache', ds) -> Forall Q ds.
  Proof.
    intro Hg. induction fs as [|fd r IH]; intros cache cache' ds H; cbn [fold_fields] in H.
    - inversion H; subst. constructor.
    - destruct (visited nodes b fd).
      + destruct (g cache (af_type fd)) as [[c1 d1]| |] eqn:G; simpl in H; try discriminate.
        destruct (fold_fields nodes b g r c1) as [[c2 d2]| |] eqn:F; simpl in H; try discriminate.
        inversion H; subst. apply Forall_app. split; [eapply Hg; eassumption|eapply IH; eassumption].
      + simpl in H. destruct (fold_fields nodes b g r cache) as [[c2 d2]| |] eqn:F; simpl in H; try discriminate.
        inversion H; subst. eapply IH; eassumption.
  Qed.

  Lemma generate_forall : forall fuel cache t cache' ds, generate pr nodes b fuel cache t = Ok (cache', ds) -> Forall Q ds.
  Proof.
    induction fuel as [|f IH]; intros cache t cache' ds H; cbn [generate] in H; [discriminate|].
    destruct (find_node t nodes) as [n|] eqn:F; [|discriminate].
    destruct (fst (check cache t)); [inversion H; subst; constructor|].
    destruct (nr_kind n) eqn:K.
    - inversion H; subst; constructor.
    - inversion H; subst; constructor.
    - destruct (nr_children n) as [|c r]; [discriminate|]. destruct (is_union_at nodes c); [discriminate|]. eapply IH; eassumption.
    - destruct (nr_children n) as [|k [|c r]]; try discriminate. destruct (is_union_at nodes c); [discriminate|]. eapply IH; eassumption.
    - destruct (is_local pr t) eqn:L; simpl in H; [|inversion H; subst; constructor].
      destruct (nr_children n) as [|u r]; [discriminate|].
      destruct (find_node u nodes) as [un|]; [|discriminate].
      destruct (nr_kind un); destruct (nr_children un) as [|c1 [|c2 r2]]; try discriminate;
        try (inversion H; subst; constructor; fail).
      + destruct (is_union_at nodes c1); [|eapply IH; eassumption].
        destruct (union_decl_at pr nodes c1) as [ud| |] eqn:U; simpl in H; try discriminate. inversion H; subst.
        apply Forall_app. split; [eapply union_decl_at_forall; eassumption|]. constructor; [apply Qc; exact L|constructor].
      + destruct (is_union_at nodes c1); [|eapply IH; eassumption].
        destruct (union_decl_at pr nodes c1) as [ud| |] eqn:U; simpl in H; try discriminate. inversion H; subst.
        apply Forall_app. split; [eapply union_decl_at_forall; eassumption|]. constructor; [apply Qc; exact L|constructor].
      + destruct (is_union_at nodes c2); [|eapply IH; eassumption].
        destruct (union_decl_at pr nodes c2) as [ud| |] eqn:U; simpl in H; try discriminate. inversion H; subst.
        apply Forall_app. split; [eapply union_decl_at_forall; eassumption|]. constructor; [apply Qc; exact L|constructor].
    - inversion H; subst; constructor.
    - destruct (fold_fields nodes b (generate pr nodes b f) (nr_fields n) (snd (check cache t))) as [[c2 d2]| |] eqn:FF; simpl in H; try discriminate.
      pose proof (fold_fields_forall _ IH _ _ _ _ FF) as HF.
      destruct (existsb (fun fd => is_union_at nodes (af_type fd)) (nr_fields n)) eqn:EX; inversion H; subst; [|exact HF].
      apply Forall_app. split; [exact HF|]. constructor; [eapply Qs; eassumption|constructor].
    - destruct (union_decl pr n) as [ud| |] eqn:U; simpl in H; try discriminate. inversion H; subst. eapply union_decl_forall; eassumption.
    - destruct (nr_children n) as [|c r]; [discriminate|]. eapply IH; eassumption.
  Qed.

  Lemma gen_all_forall fuel : forall src cache ds, gen_all pr nodes b fuel src cache = Ok ds -> Forall Q ds.
  Proof.
    induction src as [|t r IH]; intros cache ds H; cbn [gen_all] in H.
    - inversion H; subst. constructor.
    - destruct (generate pr nodes b fuel cache t) as [[c1 d1]| |] eqn:G; simpl in H; try discriminate.
      destruct (gen_all pr nodes b fuel r c1) as [d2| |] eqn:GA; simpl in H; try discriminate.
      inversion H; subst. apply Forall_app. split; [eapply generate_forall; eassumption|eapply IH; eassumption].
  Qed.
End Forall.

(** methods are declared on the wrapper types of the output or on defined types of the analysed package: Go
    refuses a method on a type of another package *)
Definition receiver_fine (pr : prog) (d : gdecl) : Prop :=
  forall r m, In (r, m) (gd_methods d) -> In r (gd_types d) \/ exists t, is_local pr t = true /\ r = lname pr t.

Theorem gounions_receivers_local pr nodes b src ds :
  structs_with_unions_local pr nodes = true ->
  gounions pr nodes b src = Ok ds -> Forall (receiver_fine pr) ds.
Proof.
  intros Hloc H. unfold gounions in H. eapply gen_all_forall; [| | |exact H].
  - intros n ud d U L Hd. unfold union_decl in U. rewrite L in U. simpl in U.
    destruct (mapM _ (nr_members n)); simpl in U; try discriminate. inversion U; subst. destruct Hd as [E|[]]. subst d.
    intros r m Hin. left. simpl in *. destruct Hin as [E|[E|[]]]; inversion E; subst; left; reflexivity.
  - intros t c L r m Hin. right. exists t. split; [exact L|]. simpl in Hin. destruct Hin as [E|[E|[]]]; inversion E; reflexivity.
  - intros t n F K EX r m Hin. right. exists t. split.
    + destruct (find_node_at _ _ _ F) as [A Hn]. unfold structs_with_unions_local in Hloc. rewrite forallb_forall in Hloc.
      specialize (Hloc n Hn). rewrite K, EX in Hloc. simpl in Hloc. rewrite A in Hloc. exact Hloc.
    + simpl in Hin. destruct Hin as [E|[E|[]]]; inversion E; reflexivity.
Qed.

(** the names declared at top level are those of the unions of the analysed package: wrapper types and kind constants *)
Definition declares_for_unions_only (d : gdecl) : Prop :=
  (gd_types d = [] /\ gd_consts d = []) \/ (exists name, gd_id d = name /\ gd_types d = [name ++ "Wrapper"]).

Theorem gounions_declares_wrappers_only pr nodes b src ds :
  gounions pr nodes b src = Ok ds -> Forall declares_for_unions_only ds.
Proof.
  intro H. unfold gounions in H. eapply gen_all_forall; [| | |exact H].
  - intros n ud d U L Hd. unfold union_decl in U. rewrite L in U. simpl in U.
    destruct (mapM _ (nr_members n)); simpl in U; try discriminate. inversion U; subst. destruct Hd as [E|[]]. subst d.
    right. eexists. split; reflexivity.
  - intros t c _. left. split; reflexivity.
  - intros t n _ _ _. left. split; reflexivity.
Qed.
