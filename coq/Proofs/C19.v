(** Proofs about the model of WriteDeclarations. *)
From Coq Require Import List String Bool Lia Sorting.Permutation Sorting.Sorted.
From GM Require Import Base.StrOrd Model.WriteDecls.
Import ListNotations.
Local Open Scope string_scope.
Local Open Scope list_scope.

(** ** the executable sort is one of the admissible sorts *)
Lemma insert_by_id_perm d l : Permutation (insert_by_id d l) (d :: l).
Proof.
  induction l as [|x r IH]; simpl; [reflexivity|].
  destruct (sleb (d_id d) (d_id x)); [reflexivity|].
  rewrite IH. apply perm_swap.
Qed.

Lemma insert_by_id_In d l x : In x (insert_by_id d l) <-> x = d \/ In x l.
Proof.
  split; intro H.
  - apply (Permutation_in _ (insert_by_id_perm d l)) in H. simpl in H. intuition.
  - apply (Permutation_in _ (Permutation_sym (insert_by_id_perm d l))). simpl. intuition.
Qed.

Lemma insert_by_id_sorted d l : ssorted (map d_id l) -> ssorted (map d_id (insert_by_id d l)).
Proof.
  unfold ssorted. induction l as [|x r IH]; simpl; intro H.
  - constructor; constructor.
  - inversion H as [|? ? Hs Hall]; subst.
    destruct (sleb (d_id d) (d_id x)) eqn:E; simpl.
    + constructor; [assumption|]. constructor; [assumption|].
      rewrite Forall_forall in *. intros y Hy. eapply sleb_trans; eauto.
    + constructor; [apply IH; assumption|].
      rewrite Forall_forall in *. intros y Hy.
      apply in_map_iff in Hy. destruct Hy as [z [<- Hz]].
      apply insert_by_id_In in Hz. destruct Hz as [->|Hz].
      * apply sltb_sleb. apply sleb_false_sltb. assumption.
      * apply Hall. apply in_map. assumption.
Qed.

Lemma isort_id_sorted l : id_sorted (isort l) l.
Proof.
  split.
  - induction l as [|a l IH]; simpl; [reflexivity|].
    rewrite insert_by_id_perm. constructor. assumption.
  - induction l as [|a l IH]; simpl; [constructor|]. apply insert_by_id_sorted. assumption.
Qed.

(** ** dedupe *)
Lemma existsb_eqb_In i seen : existsb (String.eqb i) seen = true <-> In i seen.
Proof.
  rewrite existsb_exists. split.
  - intros [x [Hx E]]. apply String.eqb_eq in E. subst. assumption.
  - intro H. exists i. split; [assumption|apply String.eqb_refl].
Qed.

Lemma dedupe_seen_ext l : forall s1 s2, (forall x, In x s1 <-> In x s2) -> dedupe s1 l = dedupe s2 l.
Proof.
  induction l as [|d r IH]; intros s1 s2 H; simpl; [reflexivity|].
  destruct (existsb (String.eqb (d_id d)) s1) eqn:E1; destruct (existsb (String.eqb (d_id d)) s2) eqn:E2.
  - apply IH; assumption.
  - apply existsb_eqb_In in E1. apply H in E1. apply existsb_eqb_In in E1. congruence.
  - apply existsb_eqb_In in E2. apply H in E2. apply existsb_eqb_In in E2. congruence.
  - f_equal. apply IH. intro x. simpl. rewrite H. tauto.
Qed.

Lemma dedupe_In l : forall seen x, In x (dedupe seen l) -> In x l /\ ~ In (d_id x) seen.
Proof.
  induction l as [|d r IH]; intros seen x H; simpl in *; [contradiction|].
  destruct (existsb (String.eqb (d_id d)) seen) eqn:E.
  - apply IH in H. tauto.
  - destruct H as [<-|H].
    + split; [left; reflexivity|]. intro Hin. apply existsb_eqb_In in Hin. congruence.
    + apply IH in H. simpl in H. tauto.
Qed.

Lemma dedupe_ids_mem l : forall seen i,
  In i (map d_id (dedupe seen l)) <-> In i (map d_id l) /\ ~ In i seen.
Proof.
  induction l as [|d r IH]; intros seen i; simpl; [tauto|].
  destruct (existsb (String.eqb (d_id d)) seen) eqn:E.
  - rewrite IH. apply existsb_eqb_In in E. split; [tauto|].
    intros [[<-|H] N]; [contradiction|tauto].
  - simpl. rewrite IH. simpl.
    assert (~ In (d_id d) seen) by (intro Hin; apply existsb_eqb_In in Hin; congruence).
    split.
    + intros [<-|[H1 H2]]; [tauto|]. tauto.
    + intros [[<-|H1] N]; [tauto|].
      destruct (String.string_dec (d_id d) i); [tauto|]. right. tauto.
Qed.

Lemma dedupe_strict l : forall seen, ssorted (map d_id l) -> strict_sorted (map d_id (dedupe seen l)).
Proof.
  unfold ssorted. induction l as [|d r IH]; intros seen H; simpl; [constructor|].
  inversion H as [|? ? Hs Hall]; subst.
  destruct (existsb (String.eqb (d_id d)) seen); [apply IH; assumption|].
  simpl. constructor; [apply IH; assumption|].
  rewrite Forall_forall in *. intros i Hi.
  apply dedupe_ids_mem in Hi. destruct Hi as [Hi N]. simpl in N.
  apply sleb_neq_sltb; [apply Hall; assumption|]. intro E; apply N; left; assumption.
Qed.

Lemma dedupe_app a : forall seen b,
  dedupe seen (a ++ b) = dedupe seen a ++ dedupe (map d_id a ++ seen) b.
Proof.
  induction a as [|d r IH]; intros seen b; simpl; [reflexivity|].
  destruct (existsb (String.eqb (d_id d)) seen) eqn:E.
  - rewrite IH. f_equal. apply dedupe_seen_ext. intro x. simpl. rewrite !in_app_iff.
    apply existsb_eqb_In in E. split; [tauto|]. intros [<-|H]; tauto.
  - simpl. rewrite IH. f_equal. f_equal. apply dedupe_seen_ext. intro x. simpl.
    rewrite !in_app_iff. simpl. tauto.
Qed.

(** ** sortedness is kept by filtering *)
Lemma ssorted_map_filter (f : decl -> bool) l : ssorted (map d_id l) -> ssorted (map d_id (filter f l)).
Proof.
  unfold ssorted. induction l as [|d r IH]; simpl; intro H; [constructor|].
  inversion H as [|? ? Hs Hall]; subst.
  destruct (f d); simpl; [|apply IH; assumption].
  constructor; [apply IH; assumption|].
  rewrite Forall_forall in *. intros i Hi. apply Hall.
  apply in_map_iff in Hi. destruct Hi as [x [<- Hx]]. apply filter_In in Hx.
  apply in_map. tauto.
Qed.

(** ** has_prio *)
Lemma has_prio_spec l i : has_prio l i = true <-> exists d, In d l /\ d_id d = i /\ d_prio d = true.
Proof.
  unfold has_prio. rewrite existsb_exists. split.
  - intros [d [Hd E]]. apply andb_true_iff in E. destruct E as [E1 E2].
    apply String.eqb_eq in E1. exists d. tauto.
  - intros [d [Hd [E1 E2]]]. exists d. split; [assumption|].
    apply andb_true_iff. split; [apply String.eqb_eq; assumption|assumption].
Qed.

Lemma has_prio_perm l l' i : Permutation l l' -> has_prio l i = has_prio l' i.
Proof.
  intro P. destruct (has_prio l i) eqn:E; symmetry.
  - apply has_prio_spec in E. apply has_prio_spec. destruct E as [d [Hd R]].
    exists d. split; [eapply Permutation_in; eauto|assumption].
  - destruct (has_prio l' i) eqn:E'; [|reflexivity].
    apply has_prio_spec in E'. destruct E' as [d [Hd R]].
    assert (has_prio l i = true) as X.
    { apply has_prio_spec. exists d. split; [eapply Permutation_in; [apply Permutation_sym|]; eauto|assumption]. }
    congruence.
Qed.

(** ** content *)
Lemma content_of_consistent l d : consistent l -> In d l -> content_of l (d_id d) = d_content d.
Proof.
  intros C Hd. unfold content_of.
  destruct (find (fun x => String.eqb (d_id x) (d_id d)) l) as [x|] eqn:F.
  - apply find_some in F. destruct F as [Hx E]. apply String.eqb_eq in E. apply C; assumption.
  - exfalso. apply (find_none _ _ F) in Hd. rewrite String.eqb_refl in Hd. discriminate.
Qed.

(** ** ID sequence of the output *)
Lemma output_ids s l : id_sorted s l ->
  map d_id (dedupe [] (partition_prio s)) = canon_ids l.
Proof.
  intros [P S]. unfold partition_prio, canon_ids.
  rewrite dedupe_app, map_app. f_equal.
  - apply strict_sorted_unique.
    + apply dedupe_strict. apply ssorted_map_filter. assumption.
    + apply strict_sorted_filter. apply sort_nodup_sorted.
    + intro i. rewrite dedupe_ids_mem, filter_In, sort_nodup_In. simpl.
      rewrite in_map_iff. split.
      * intros [[d [<- Hd]] _]. apply filter_In in Hd. destruct Hd as [Hd Hp].
        assert (In d l) by (eapply Permutation_in; eauto).
        split; [apply in_map; assumption|]. apply has_prio_spec. exists d. tauto.
      * intros [_ Hp]. apply has_prio_spec in Hp. destruct Hp as [d [Hd [E Hp]]].
        split; [|tauto]. exists d. split; [assumption|]. apply filter_In.
        split; [eapply Permutation_in; [apply Permutation_sym|]; eauto|assumption].
  - apply strict_sorted_unique.
    + apply dedupe_strict. apply ssorted_map_filter. assumption.
    + apply strict_sorted_filter. apply sort_nodup_sorted.
    + intro i. rewrite dedupe_ids_mem, filter_In, sort_nodup_In, app_nil_r.
      rewrite !in_map_iff. split.
      * intros [[d [<- Hd]] N]. apply filter_In in Hd. destruct Hd as [Hd Hp].
        assert (In d l) by (eapply Permutation_in; eauto).
        split; [exists d; tauto|].
        apply negb_true_iff. destruct (has_prio l (d_id d)) eqn:E; [|reflexivity].
        exfalso. apply N. apply has_prio_spec in E. destruct E as [d' [Hd' [E Hp']]].
        exists d'. split; [assumption|]. apply filter_In.
        split; [eapply Permutation_in; [apply Permutation_sym|]; eauto|assumption].
      * intros [[d [<- Hd]] Hp]. apply negb_true_iff in Hp.
        assert (d_prio d = false) as Hf.
        { destruct (d_prio d) eqn:E; [|reflexivity].
          assert (has_prio l (d_id d) = true) by (apply has_prio_spec; exists d; tauto). congruence. }
        split.
        -- exists d. split; [reflexivity|]. apply filter_In.
           split; [eapply Permutation_in; [apply Permutation_sym|]; eauto|rewrite Hf; reflexivity].
        -- intros [d' [E Hd']]. apply filter_In in Hd'. destruct Hd' as [Hd' Hp'].
           assert (has_prio l (d_id d) = true); [|congruence].
           apply has_prio_spec. exists d'. split; [eapply Permutation_in; eauto|tauto].
Qed.

Lemma output_members s l : id_sorted s l -> forall d, In d (dedupe [] (partition_prio s)) -> In d l.
Proof.
  intros [P _] d H. apply dedupe_In in H. destruct H as [H _].
  unfold partition_prio in H. apply in_app_iff in H.
  eapply Permutation_in; [exact P|].
  destruct H as [H|H]; apply filter_In in H; tauto.
Qed.

(** ** main lemma: whatever the unstable sort returned, the text is the specified one *)
Lemma write_sorted_spec l s : consistent l -> id_sorted s l -> write_sorted s = spec l.
Proof.
  intros C IS. unfold write_sorted, spec, emit.
  rewrite <- (output_ids s l IS). rewrite map_map. f_equal.
  apply map_ext_in. intros d Hd. f_equal. symmetry. apply content_of_consistent; [assumption|].
  eapply output_members; eauto.
Qed.

Lemma write_spec l : consistent l -> write l = spec l.
Proof. intro C. apply write_sorted_spec; [assumption|apply isort_id_sorted]. Qed.

Lemma id_sorted_perm s l l' : Permutation l l' -> id_sorted s l' -> id_sorted s l.
Proof. intros P [P' S]. split; [|assumption]. rewrite P'. apply Permutation_sym. assumption. Qed.

Lemma write_perm_invariant l l' s s' :
  consistent l -> Permutation l l' -> id_sorted s l -> id_sorted s' l' -> write_sorted s = write_sorted s'.
Proof.
  intros C P S S'.
  rewrite (write_sorted_spec l s C S).
  rewrite (write_sorted_spec l s' C (id_sorted_perm _ _ _ P S')). reflexivity.
Qed.

(** ** what the specified ID sequence looks like *)
Lemma canon_ids_In l i : In i (canon_ids l) <-> In i (map d_id l).
Proof.
  unfold canon_ids. rewrite in_app_iff, !filter_In, !sort_nodup_In.
  destruct (has_prio l i); simpl; intuition discriminate.
Qed.

Lemma canon_ids_NoDup l : NoDup (canon_ids l).
Proof.
  unfold canon_ids.
  pose proof (strict_sorted_NoDup _ (sort_nodup_sorted (map d_id l))) as ND.
  induction (sort_nodup (map d_id l)) as [|a r IH]; simpl; [constructor|].
  inversion ND as [|? ? Hn Hr]; subst. specialize (IH Hr).
  destruct (has_prio l a); simpl.
  - constructor; [|assumption]. rewrite in_app_iff, !filter_In. tauto.
  - apply NoDup_Add with (a := a) (l := filter (has_prio l) r ++ filter (fun i => negb (has_prio l i)) r).
    + apply Add_app.
    + split; [assumption|]. rewrite in_app_iff, !filter_In. tauto.
Qed.

Lemma canon_ids_shape l :
  exists P Q, canon_ids l = P ++ Q /\
    strict_sorted P /\ strict_sorted Q /\
    (forall i, In i P -> has_prio l i = true) /\ (forall i, In i Q -> has_prio l i = false).
Proof.
  eexists; eexists. split; [reflexivity|].
  repeat split.
  - apply strict_sorted_filter, sort_nodup_sorted.
  - apply strict_sorted_filter, sort_nodup_sorted.
  - intros i H. apply filter_In in H. tauto.
  - intros i H. apply filter_In in H. destruct H as [_ H]. apply negb_true_iff. assumption.
Qed.

Lemma consistentb_spec l : consistentb l = true -> consistent l.
Proof.
  unfold consistentb, consistent. intros H a b Ha Hb E.
  rewrite forallb_forall in H. specialize (H a Ha). rewrite forallb_forall in H. specialize (H b Hb).
  apply orb_true_iff in H. destruct H as [H|H].
  - apply negb_true_iff in H. apply String.eqb_neq in H. contradiction.
  - apply String.eqb_eq. assumption.
Qed.
