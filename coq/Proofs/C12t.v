(** Termination of the analysis closure (Model/Classify.v): the worklist never runs out of fuel once the
    fuel exceeds an explicit bound computed from the program, for every program - recursive and mutually
    recursive declarations included - because every position ever pushed belongs to a finite universe
    (the subterms of the declared types, their field types and the union members) and each position of
    the universe is expanded at most once. *)
From Coq Require Import List String ZArith Bool Arith Lia.
From GM Require Import Base.Result Facts.GoFacts Facts.Ana Model.Enums Model.Unions Model.Classify Proofs.C12 Proofs.C18.
Import ListNotations.
Local Open Scope string_scope.
Local Open Scope list_scope.

Lemma dedup_in x l : In x (dedup_gty l) <-> In x l.
Proof.
  induction l as [|a l IH]; simpl; [tauto|]. destruct (existsb (gty_eqb a) l) eqn:E.
  - rewrite IH. split; [auto|]. intros [<-|H]; [|exact H]. apply existsb_exists in E. destruct E as [y [Hy Ey]].
    apply gty_eqb_eq in Ey. subst. exact Hy.
  - simpl. rewrite IH. tauto.
Qed.

Lemma dedup_nodup l : NoDup (dedup_gty l).
Proof.
  induction l as [|a l IH]; simpl; [constructor|]. destruct (existsb (gty_eqb a) l) eqn:E; [exact IH|].
  constructor; [|exact IH]. rewrite dedup_in. intro H.
  assert (X : existsb (gty_eqb a) l = true) by (apply existsb_exists; exists a; split; [exact H|apply gty_eqb_eq; reflexivity]).
  congruence.
Qed.

Lemma subterms_refl t : In t (subterms t).
Proof. destruct t; simpl; left; reflexivity. Qed.

Lemma subterms_trans t : forall r, In t (subterms r) -> incl (subterms t) (subterms r).
Proof.
  induction r as [k|id|e IH|n e IH|e IH|k IHk e IHe|s|s]; simpl; intros [<-|H]; try contradiction;
    try (intros x Hx; exact Hx).
  - intros x Hx. right. apply IH; assumption.
  - intros x Hx. right. apply IH; assumption.
  - intros x Hx. right. apply IH; assumption.
  - intros x Hx. right. apply in_or_app. apply in_app_or in H. destruct H as [H|H]; [left; apply IHk|right; apply IHe]; assumption.
Qed.

Section Termination.
  Variable pr : prog.
  Variable enums : list enum.
  Variable unions : list (string * list string).
  Notation classify := (classify pr enums unions).
  Notation closure := (closure pr enums unions).

  (** * a potential that every step of the worklist decreases *)
  Notation cost := (cost pr enums unions).
  Notation pot := (pot pr enums unions).
  Lemma seen_mem_cons t sh seen x : seen_mem x ((t, sh) :: seen) = gty_eqb t x || seen_mem x seen.
  Proof. reflexivity. Qed.

  Lemma pot_other U t sh seen : ~ In t U -> pot U ((t, sh) :: seen) = pot U seen.
  Proof.
    unfold pot, unseen, list_sum. induction U as [|x U IH]; intros N; [reflexivity|].
    assert (E : gty_eqb t x = false).
    { destruct (gty_eqb t x) eqn:E; [|reflexivity]. apply gty_eqb_eq in E. subst. exfalso. apply N. left. reflexivity. }
    assert (N' : ~ In t U) by (intro H; apply N; right; exact H).
    cbn [filter]. rewrite seen_mem_cons, E. change (false || seen_mem x seen) with (seen_mem x seen).
    destruct (negb (seen_mem x seen)); cbn [map fold_right]; rewrite (IH N'); reflexivity.
  Qed.

  Lemma pot_step U t sh seen : NoDup U -> In t U -> seen_mem t seen = false ->
    pot U seen = cost t + pot U ((t, sh) :: seen).
  Proof.
    induction U as [|x U IH]; intros ND Hin Hs; [contradiction|].
    inversion ND as [|? ? Hx ND']; subst. destruct Hin as [->|Hin].
    - pose proof (pot_other U t sh seen Hx) as P. unfold pot, unseen, list_sum in *. cbn [filter]. rewrite Hs.
      rewrite seen_mem_cons. assert (E : gty_eqb t t = true) by (apply gty_eqb_eq; reflexivity). rewrite E.
      change (negb false) with true. change (negb (true || seen_mem t seen)) with false.
      cbn [map fold_right]. rewrite P. reflexivity.
    - assert (E : gty_eqb t x = false).
      { destruct (gty_eqb t x) eqn:E; [|reflexivity]. apply gty_eqb_eq in E. subst. contradiction. }
      specialize (IH ND' Hin Hs). unfold pot, unseen, list_sum in *. cbn [filter]. rewrite seen_mem_cons, E.
      change (false || seen_mem x seen) with (seen_mem x seen).
      destruct (negb (seen_mem x seen)); cbn [map fold_right]; lia.
  Qed.

  (** * the worklist does not run out of fuel *)
  Lemma closure_enough_fuel U : NoDup U ->
    (forall t sh, In t U -> classify t = Ok sh -> incl (sh_children sh) U) ->
    forall fuel work seen, incl work U -> List.length work + pot U seen < fuel ->
    forall msg, closure fuel work seen <> Crash msg.
  Proof.
    intros ND Hclosed. induction fuel as [|f IH]; intros work seen Hw Hf msg; [lia|].
    destruct work as [|t rest]; [discriminate|]. cbn [Classify.closure].
    assert (Ht : In t U) by (apply Hw; left; reflexivity).
    assert (Hr : incl rest U) by (intros x Hx; apply Hw; right; exact Hx).
    destruct (seen_mem t seen) eqn:Hs.
    - apply IH; [exact Hr|]. simpl in Hf. lia.
    - pose proof (classify_no_crash pr enums unions t) as Hc.
      destruct (classify t) as [sh|m|m] eqn:Ec; cbn [bind]; [|discriminate|discriminate].
      apply IH.
      + intros x Hx. apply in_app_or in Hx. destruct Hx as [Hx|Hx]; [exact (Hclosed t sh Ht Ec x Hx)|exact (Hr x Hx)].
      + rewrite app_length. pose proof (pot_step U t sh seen ND Ht Hs) as P. unfold cost in P. rewrite Ec in P.
        simpl in Hf. lia.
  Qed.

  (** * the finite universe of a program *)
  Notation roots := (roots pr enums unions).
  Notation universe := (universe pr enums unions).
  Notation struct_children := (struct_children pr enums unions).
  Lemma in_universe_root r x : In r roots -> In x (subterms r) -> In x universe.
  Proof. intros Hr Hx. unfold Classify.universe. apply (proj2 (dedup_in _ _)). apply in_flat_map. exists r. split; assumption. Qed.

  Lemma find_type_in id l d : find_type id l = Some d -> In d l.
  Proof.
    induction l as [|a l IH]; simpl; [discriminate|]. destruct (String.eqb (n_id a) id).
    - intros H. injection H as ->. left. reflexivity.
    - intros H. right. apply IH. exact H.
  Qed.

  Lemma decl_roots d x : In d (pr_types pr) -> In x (under_gty d :: struct_children d) -> In x roots.
  Proof.
    intros Hd Hx. apply in_or_app. left. apply in_flat_map. exists d. split; [exact Hd|]. right. exact Hx.
  Qed.

  Lemma universe_closed t sh : In t universe -> classify t = Ok sh -> incl (sh_children sh) universe.
  Proof.
    intros Hin. unfold Classify.universe in Hin. apply (proj1 (dedup_in _ _)) in Hin. apply in_flat_map in Hin. destruct Hin as [r [Hr Ht]].
    assert (Hsub : forall x, In x (subterms t) -> In x universe).
    { intros x Hx. apply (in_universe_root r); [exact Hr|]. apply (subterms_trans t r Ht). exact Hx. }
    assert (Hroot : forall x, In x roots -> In x universe).
    { intros x Hx. apply (in_universe_root x); [exact Hx|apply subterms_refl]. }
    destruct t as [k|id|e|n e|e|k e|s|s]; cbn [Classify.classify]; intros E.
    - injection E as <-. intros x [].
    - destruct (find_type id (pr_types pr)) as [d|] eqn:Fd; [|discriminate].
      pose proof (find_type_in _ _ _ Fd) as Hd.
      assert (Hu : In (under_gty d) universe) by (apply Hroot; apply (decl_roots d); [exact Hd|left; reflexivity]).
      destruct (n_is_time d).
      { destruct (String.eqb (n_pkg d) "time"); injection E as <-; intros x Hx; simpl in Hx; [contradiction|].
        destruct Hx as [<-|[]]. exact Hu. }
      destruct (is_enum enums id); [injection E as <-; intros x []|].
      destruct (union_members unions id) as [ms|] eqn:Um.
      { injection E as <-. intros x Hx. simpl in Hx. apply Hroot. apply in_or_app. right.
        unfold union_members in Um. destruct (find (fun u => String.eqb (fst u) id) unions) as [u|] eqn:Fu; [|discriminate].
        injection Um as <-. apply find_some in Fu. apply in_flat_map. exists u. split; [apply Fu|exact Hx]. }
      destruct (n_under d) as [k|fs|ms|e|n e|e|k e|s] eqn:Un; try discriminate;
        try (injection E as <-; intros x Hx; simpl in Hx; destruct Hx as [<-|[]]; exact Hu).
      injection E as <-. intros x Hx. simpl in Hx. apply Hroot. apply (decl_roots d); [exact Hd|]. right.
      unfold struct_children. rewrite Un. exact Hx.
    - injection E as <-. intros x Hx. simpl in Hx. destruct Hx as [<-|[]]. apply Hsub. simpl. right. apply subterms_refl.
    - injection E as <-. intros x Hx. simpl in Hx. destruct Hx as [<-|[]]. apply Hsub. simpl. right. apply subterms_refl.
    - injection E as <-. intros x Hx. simpl in Hx. destruct Hx as [<-|[]]. apply Hsub. simpl. right. apply subterms_refl.
    - injection E as <-. intros x Hx. simpl in Hx. apply Hsub. simpl. right. apply in_or_app.
      destruct Hx as [<-|[<-|[]]]; [left|right]; apply subterms_refl.
    - destruct (String.prefix time_pos_prefix s); [|discriminate].
      destruct (find_type _ (pr_types pr)); [|discriminate]. injection E as <-. intros x [].
    - discriminate.
  Qed.

  Notation closure_bound := (closure_bound pr enums unions).

  Theorem analysis_terminates source fuel : incl source universe -> closure_bound source < fuel ->
    forall msg, analyse_closure pr enums unions source fuel <> Crash msg.
  Proof.
    intros Hs Hf. unfold analyse_closure. apply (closure_enough_fuel universe).
    - apply dedup_nodup.
    - exact universe_closed.
    - exact Hs.
    - exact Hf.
  Qed.

  (** the declarations of the program are in the universe: any list of declared names is an admissible source *)
  Lemma declared_in_universe d : In d (pr_types pr) -> In (GNamed (n_id d)) universe.
  Proof.
    intros Hd. apply (in_universe_root (GNamed (n_id d))); [|apply subterms_refl].
    apply in_or_app. left. apply in_flat_map. exists d. split; [exact Hd|left; reflexivity].
  Qed.
End Termination.
