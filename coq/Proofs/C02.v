(** Properties of the wire-format shapes (Sem/GoJson.v). *)
From Coq Require Import List String ZArith Bool Arith Lia.
From GM Require Import Base.Result Facts.GoFacts Facts.Ana Model.Enums Model.Fields Model.Classify Model.SqlTypes Sem.GoJson.
Import ListNotations.
Local Open Scope string_scope.

Section Conf.
  Variable env : jenv.

  (** a union value on the wire is exactly {"Kind": <member name>, "Data": <the member's own document>} *)
  Lemma union_wire_format f id members j :
    lookup_def id env = Some (DUnion members) ->
    conformsb env (S f) (ShRef id) j = true ->
    exists l k d sh, j = JObj l /\ List.length l = 2 /\ assoc_json "Kind" l = Some (JStr k) /\ assoc_json "Data" l = Some d /\
      In (k, sh) members /\ conformsb env f sh d = true.
  Proof.
    intros Hl H. simpl in H. rewrite Hl in H. destruct j as [| | | |l0|l]; try discriminate.
    apply andb_true_iff in H. destruct H as [Hn H]. apply Nat.eqb_eq in Hn.
    destruct (assoc_json "Kind" l) as [[| | |k| |]|] eqn:EK; try discriminate.
    destruct (assoc_json "Data" l) as [d|] eqn:ED; try discriminate.
    destruct (find (fun m => String.eqb (fst m) k) members) as [[k' sh]|] eqn:EF; try discriminate.
    apply find_some in EF. destruct EF as [Hin Ek]. simpl in Ek. apply String.eqb_eq in Ek. subst k'.
    exists l, k, d, sh. repeat split; auto.
  Qed.

  (** a struct on the wire carries no key outside its serialised fields, and every field that is not omitempty *)
  Lemma struct_wire_format f id fields j :
    lookup_def id env = Some (DObject fields) ->
    conformsb env (S f) (ShRef id) j = true ->
    exists l, j = JObj l /\
      (forall k v, In (k, v) l -> exists sh opt, In (k, sh, opt) fields) /\
      (forall k sh opt, In (k, sh, opt) fields -> match assoc_json k l with Some v => conformsb env f sh v = true | None => opt = true end).
  Proof.
    intros Hl H. simpl in H. rewrite Hl in H. destruct j as [| | | |l0|l]; try discriminate.
    apply andb_true_iff in H. destruct H as [H H3]. apply andb_true_iff in H. destruct H as [_ H2].
    exists l. split; [reflexivity|]. split.
    - intros k v Hin. rewrite forallb_forall in H2. specialize (H2 (k, v) Hin).
      apply existsb_exists in H2. destruct H2 as [[[k' sh] opt] [Hf E]]. simpl in E. apply String.eqb_eq in E. subst. eauto.
    - intros k sh opt Hin. rewrite forallb_forall in H3. specialize (H3 (k, sh, opt) Hin). simpl in H3.
      destruct (assoc_json k l); assumption.
  Qed.

  (** null is written only where the shape allows it *)
  Lemma null_only_where_nullable f s : conformsb env f s JNull = true ->
    match s with ShNullable _ | ShAny => True | ShEnum vs => In JNull vs \/ existsb (json_eqb JNull) vs = true | _ => False end.
  Proof.
    destruct f as [|f]; simpl; [discriminate|]. destruct s; try discriminate; auto.
    destruct (lookup_def id env) as [[|]|]; discriminate.
  Qed.
End Conf.
