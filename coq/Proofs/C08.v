(** Characterisation of the SQL schema model (Model/SqlTypes.v) in the terms of the statement. *)
From Coq Require Import List String Ascii ZArith Bool Arith Lia.
From GM Require Import Base.Result Facts.GoFacts Facts.Ana Model.Enums Model.Fields Model.Classify Model.SqlTypes.
Import ListNotations.
Local Open Scope string_scope.

(** ** snake case: the result carries no upper-case ASCII letter *)
Fixpoint no_upper (s : string) : bool :=
  match s with EmptyString => true | String c r => negb (is_upper c) && no_upper r end.

Lemma lower_ascii_not_upper c : is_upper (lower_ascii c) = false.
Proof.
  unfold lower_ascii, is_upper.
  destruct (Nat.leb 65 (nat_of_ascii c) && Nat.leb (nat_of_ascii c) 90)%bool eqn:E.
  - apply andb_true_iff in E. destruct E as [E1 E2]. apply Nat.leb_le in E1, E2.
    rewrite nat_ascii_embedding by lia.
    destruct (Nat.leb_spec 65 (nat_of_ascii c + 32)); simpl; [|reflexivity].
    destruct (Nat.leb_spec (nat_of_ascii c + 32) 90); [lia|reflexivity].
  - exact E.
Qed.

Lemma lower_no_upper s : no_upper (lower s) = true.
Proof. induction s as [|c r IH]; simpl; [reflexivity|]. rewrite lower_ascii_not_upper, IH. reflexivity. Qed.

Lemma to_snake_case_no_upper s : no_upper (to_snake_case s) = true.
Proof. unfold to_snake_case. apply lower_no_upper. Qed.

(** ** nullability and checks, by SQL type *)
Definition nullable_wrapper (ty : sqlty) : bool := match ty with SBuiltin _ true => true | _ => false end.
Definition variable_array (ty : sqlty) : bool := match ty with SArray _ len => Z.ltb len 0 | _ => false end.

Lemma notnull_iff enums ty :
  cs_notnull (col_spec enums ty) = negb (nullable_wrapper ty || variable_array ty).
Proof.
  destruct ty as [n [|]| | e len | |]; simpl; try reflexivity.
  destruct (Z.leb_spec 0 len); destruct (Z.ltb_spec len 0); simpl; try reflexivity; lia.
Qed.

Lemma check_kind enums ty :
  cs_check (col_spec enums ty) =
  match ty with
  | SEnum id => EnumIn (enum_values enums id)
  | SArray _ len => if Z.leb 0 len then ArrayLen len else NoCheck
  | _ => NoCheck
  end.
Proof. destruct ty as [n b| | e len | |]; simpl; try reflexivity. destruct (Z.leb 0 len); reflexivity. Qed.

(** the CHECK of an enum column lists exactly the constants of the enum, as SQL literals, in member order *)
Lemma enum_values_exact enums id e :
  find (fun x => String.eqb (en_id x) id) enums = Some e -> enum_values enums id = map sql_literal (en_members e).
Proof. unfold enum_values. intros ->. reflexivity. Qed.

(** ** columns *)
Lemma table_columns_spec n f :
  In f (table_columns n) <-> In f (nr_fields n) /\ (is_guard f = true \/ af_go_exported f = true).
Proof. unfold table_columns. rewrite filter_In, orb_true_iff. tauto. Qed.

Lemma column_decls_length pr nodes enums cols : forall prim i ds,
  column_decls pr nodes enums cols prim i = Ok ds -> List.length ds = List.length cols.
Proof.
  induction cols as [|c r IH]; intros prim i ds H; simpl in H; [inversion H; reflexivity|].
  destruct (column_decl pr nodes enums c _) as [d| |]; simpl in H; try discriminate.
  destruct (column_decls pr nodes enums r prim (S i)) as [ds'| |] eqn:E; simpl in H; try discriminate.
  inversion H; subst. simpl. f_equal. eapply IH. eassumption.
Qed.

Lemma primary_decl pr nodes enums f :
  column_decl pr nodes enums f true = Ok (af_name f ++ " serial PRIMARY KEY").
Proof. reflexivity. Qed.

Lemma primary_index_spec cols : forall i p,
  primary_index cols i = Some p -> i <= p /\ exists c, nth_error cols (p - i) = Some c /\ lower (af_name c) = "id".
Proof.
  induction cols as [|c r IH]; intros i p H; simpl in H; [discriminate|].
  destruct (String.eqb_spec (lower (af_name c)) "id").
  - inversion H; subst. split; [lia|]. exists c. rewrite Nat.sub_diag. auto.
  - destruct (IH (S i) p H) as [L [c' [N E]]]. split; [lia|]. exists c'.
    replace (p - i) with (S (p - S i)) by lia. auto.
Qed.

(** ** foreign keys: a column is one iff its type is the ID type of another table or it carries the tag *)
Lemma foreign_key_iff pr nodes tbl f k :
  foreign_key pr nodes tbl f = Ok (Some k) ->
  (is_table_id pr nodes (af_type f) <> "" /\ is_table_id pr nodes (af_type f) <> tbl /\
     k = (af_name f, is_table_id pr nodes (af_type f), tag_lookup "gomacro-sql-on-delete" (af_tag f)))
  \/ (tag_lookup "gomacro-sql-foreign" (af_tag f) <> "" /\
      k = (af_name f, tag_lookup "gomacro-sql-foreign" (af_tag f), tag_lookup "gomacro-sql-on-delete" (af_tag f))).
Proof.
  unfold foreign_key.
  destruct (String.eqb_spec (is_table_id pr nodes (af_type f)) ""); simpl.
  - destruct (String.eqb_spec (tag_lookup "gomacro-sql-foreign" (af_tag f)) ""); [discriminate|].
    destruct (_ || _); [|discriminate]. intro H. inversion H. right. auto.
  - destruct (String.eqb_spec (is_table_id pr nodes (af_type f)) tbl); simpl.
    + destruct (String.eqb_spec (tag_lookup "gomacro-sql-foreign" (af_tag f)) ""); [discriminate|].
      destruct (_ || _); [|discriminate]. intro H. inversion H. right. auto.
    + intro H. inversion H. left. auto.
Qed.

Lemma foreign_key_none pr nodes tbl f :
  foreign_key pr nodes tbl f = Ok None ->
  (is_table_id pr nodes (af_type f) = "" \/ is_table_id pr nodes (af_type f) = tbl) /\
  tag_lookup "gomacro-sql-foreign" (af_tag f) = "".
Proof.
  unfold foreign_key.
  destruct (String.eqb_spec (is_table_id pr nodes (af_type f)) ""); simpl.
  - destruct (String.eqb_spec (tag_lookup "gomacro-sql-foreign" (af_tag f)) ""); [auto|].
    destruct (_ || _); discriminate.
  - destruct (String.eqb_spec (is_table_id pr nodes (af_type f)) tbl); simpl; [|discriminate].
    destruct (String.eqb_spec (tag_lookup "gomacro-sql-foreign" (af_tag f)) ""); [auto|].
    destruct (_ || _); discriminate.
Qed.

(** one constraint per foreign-key column, in column order *)
Lemma foreign_keys_columns pr nodes tbl cols ks :
  foreign_keys pr nodes tbl cols = Ok ks ->
  map (fun k => fst (fst k)) ks =
  map af_name (filter (fun c => match foreign_key pr nodes tbl c with Ok (Some _) => true | _ => false end) cols).
Proof.
  revert ks. induction cols as [|c r IH]; intros ks H; simpl in H; [inversion H; reflexivity|].
  destruct (foreign_key pr nodes tbl c) as [k| |] eqn:E; simpl in H; try discriminate.
  destruct (foreign_keys pr nodes tbl r) as [ks'| |]; simpl in H; try discriminate.
  inversion H; subst. simpl. rewrite E. destruct k as [[[cn tg] ac]|]; simpl.
  - f_equal; [|apply IH; reflexivity].
    destruct (foreign_key_iff pr nodes tbl c _ E) as [[_ [_ Ek]]|[_ Ek]]; inversion Ek; reflexivity.
  - apply IH. reflexivity.
Qed.
