From Coq Require Import List String Bool Arith.
From GM Require Import Model.Http.
Import ListNotations.
Local Open Scope string_scope.
Local Open Scope list_scope.

Lemma extract_one_per_registration prefix regs :
  List.length (extract prefix regs) = List.length (filter (keeps prefix) regs) /\
  map ep_url (extract prefix regs) = map rg_url (filter (keeps prefix) regs) /\
  map ep_method (extract prefix regs) = map rg_verb (filter (keeps prefix) regs).
Proof.
  unfold extract. repeat split.
  - apply map_length.
  - rewrite map_map. reflexivity.
  - rewrite map_map. reflexivity.
Qed.

Lemma extract_no_filter regs : extract "" regs = map endpoint_of regs.
Proof. unfold extract. f_equal. induction regs as [|r rs IH]; simpl; [reflexivity|]. rewrite IH. reflexivity. Qed.

Lemma endpoint_url r : ep_url (endpoint_of r) = rg_url r.
Proof. reflexivity. Qed.

(** the prefix filter keeps exactly the routes whose URL has the prefix, in order *)
Lemma extract_prefix prefix regs : prefix <> "" ->
  extract prefix regs = filter (fun e => String.prefix prefix (ep_url e)) (extract "" regs).
Proof.
  intro Hne. rewrite extract_no_filter. unfold extract, keeps.
  destruct (String.eqb_spec prefix ""); [contradiction|]. simpl.
  induction regs as [|r rs IH]; simpl; [reflexivity|].
  destruct (String.prefix prefix (rg_url r)); simpl; rewrite IH; reflexivity.
Qed.

(** the scan never changes the name, and the query parameters accumulate in statement order *)
Lemma step_name e s : ep_name (step_contract e s) = ep_name e.
Proof.
  unfold step_contract.
  repeat match goal with |- context [if ?c then _ else _] => destruct c; simpl; try reflexivity end.
Qed.

Definition query_of (s : stmt) : list (string * string) :=
  if (String.eqb (st_form s) "assign" || String.eqb (st_form s) "var") && negb (String.eqb (st_call s) "Bind") && is_query_call (st_call s)
  then [(st_name s, st_type s)] else [].

Lemma step_query e s : ep_query (step_contract e s) = ep_query e ++ query_of s.
Proof.
  unfold step_contract, query_of.
  destruct (String.eqb (st_form s) "assign" || String.eqb (st_form s) "var"); simpl.
  - destruct (String.eqb_spec (st_call s) "Bind") as [E|E]; simpl; [rewrite app_nil_r; reflexivity|].
    destruct (is_query_call (st_call s)) eqn:Q; simpl; [reflexivity|].
    rewrite app_nil_r.
    repeat match goal with |- context [if ?c then _ else _] => destruct c; simpl; try reflexivity end.
  - rewrite app_nil_r.
    repeat match goal with |- context [if ?c then _ else _] => destruct c; simpl; try reflexivity end.
Qed.

Lemma fold_query body : forall e,
  ep_query (fold_left step_contract body e) = ep_query e ++ flat_map query_of body.
Proof.
  induction body as [|s r IH]; intro e; simpl; [rewrite app_nil_r; reflexivity|].
  rewrite IH, step_query, <- app_assoc. reflexivity.
Qed.

Lemma contract_query_params name body : ep_query (contract_of name body) = flat_map query_of body.
Proof. unfold contract_of. rewrite fold_query. reflexivity. Qed.

Lemma fold_name body : forall e, ep_name (fold_left step_contract body e) = ep_name e.
Proof. induction body as [|s r IH]; intro e; simpl; [reflexivity|]. rewrite IH. apply step_name. Qed.

Lemma contract_name name body : ep_name (contract_of name body) = name.
Proof. unfold contract_of. rewrite fold_name. reflexivity. Qed.
