(** C03 / C14, TypeScript: every type name a declaration mentions is built in or declared by the output, for every
    analysed program (Model/TsGen.v). Same invariant as for randdata (Proofs/C01r.v): a cached type is being visited
    or its name is resolved. *)
From Coq Require Import List String Ascii ZArith Bool Arith Lia.
From GM Require Import Base.Result Facts.GoFacts Facts.Ana Model.Enums Model.Fields Model.Names Model.Dart Proofs.C12 Proofs.C01g Proofs.C01r.
From GM Require Import Model.TsGen.
Import ListNotations.
Local Open Scope string_scope.

Section Closure.
  Variable pr : prog.
  Variable nodes : list nrec.
  Variable F' : nat.
  Notation F := (S F').   (* any positive fuel for tname *)
  Hypothesis Hshapes : shapes_ok nodes = true.

  Notation kn := (key_name pr).
  Notation tn := (tname pr nodes F).
  Notation ni := (names_in pr nodes F).

  Definition okn (pending : list string) (all : list tsdecl) (m : string) : Prop :=
    ts_builtin m = true \/ In m (declared all) \/ exists k, In k pending /\ kn k = m.

  Definition Inv (cache pending : list string) (out : list tsdecl) : Prop :=
    forall k, In k cache -> In k pending \/ okn pending out (kn k).

  Definition refs_ok (ds all : list tsdecl) (pending : list string) : Prop :=
    forall d m, In d ds -> In m (td_mentions d) -> okn pending all m.

  Definition Spec (g : list string -> gty -> result (list string * list tsdecl)) : Prop :=
    forall cache t cache' ds pending out, g cache t = Ok (cache', ds) -> Inv cache pending out ->
      Inv cache' pending (out ++ ds)
      /\ (forall l, ni t = Ok l -> forall m, In m l -> okn pending (out ++ ds) m)
      /\ refs_ok ds (out ++ ds) pending.

  Lemma declared_app a b : declared (a ++ b) = (declared a ++ declared b)%list.
  Proof. unfold declared. apply map_app. Qed.

  Lemma okn_mono pending all more m : okn pending all m -> okn pending (all ++ more) m.
  Proof. intros [H|[H|H]]; [left; exact H|right; left; rewrite declared_app; apply in_or_app; left; exact H|right; right; exact H]. Qed.

  Lemma Inv_mono c p out ds : Inv c p out -> Inv c p (out ++ ds).
  Proof. intros H k Hk. destruct (H k Hk) as [A|A]; [left; exact A|right; apply okn_mono; exact A]. Qed.

  Lemma refs_mono ds all more p : refs_ok ds all p -> refs_ok ds (all ++ more) p.
  Proof. intros H d m Hd Hm. apply okn_mono. eapply H; eassumption. Qed.

  Lemma refs_app a b all p : refs_ok a all p -> refs_ok b all p -> refs_ok (a ++ b) all p.
  Proof. intros Ha Hb d m Hd. apply in_app_or in Hd. destruct Hd; [eapply Ha|eapply Hb]; eassumption. Qed.

  Lemma gen_list_spec g : Spec g -> forall ts cache cache' ds pending out,
    gen_list g ts cache = Ok (cache', ds) -> Inv cache pending out ->
    Inv cache' pending (out ++ ds)
    /\ (forall t, In t ts -> forall l, ni t = Ok l -> forall m, In m l -> okn pending (out ++ ds) m)
    /\ refs_ok ds (out ++ ds) pending.
  Proof.
    intro Hg. induction ts as [|t r IH]; intros cache cache' ds pending out H HI; cbn [gen_list] in H.
    - inversion H; subst. rewrite app_nil_r. split; [exact HI|]. split; [intros t []|intros d m []].
    - destruct (g cache t) as [[c1 d1]| |] eqn:G; simpl in H; try discriminate.
      destruct (gen_list g r c1) as [[c2 d2]| |] eqn:GL; simpl in H; try discriminate.
      inversion H; subst. clear H.
      destruct (Hg _ _ _ _ pending out G HI) as [I1 [P1 R1]].
      destruct (IH _ _ _ pending (out ++ d1)%list GL I1) as [I2 [P2 R2]].
      rewrite app_assoc. split; [exact I2|]. split.
      + intros t' [E|Hin] l Hl m Hm; [subst t'; apply okn_mono; eapply P1; eassumption|eapply P2; eassumption].
      + apply refs_app; [apply refs_mono; exact R1|exact R2].
  Qed.

  (** * What a node contributes *)
  Lemma shape_of_node t n : find_node t nodes = Some n -> shape_ok n = true /\ nr_at n = t.
  Proof.
    intro Fn. destruct (find_node_at _ _ _ Fn) as [A Hin]. split; [|exact A].
    unfold shapes_ok in Hshapes. rewrite forallb_forall in Hshapes. apply Hshapes. exact Hin.
  Qed.

  Lemma tname_keyed f t n k : find_node t nodes = Some n -> node_key n = Some k -> tname pr nodes (S f) t = Ok (kn k).
  Proof. intros Fn NK. cbn [tname]. rewrite Fn, NK. reflexivity. Qed.

  (** a position with a single name mentions that name *)
  Lemma tname_names t s : tn t = Ok s -> ni t = Ok [s].
  Proof.
    intro H.
    assert (Hn : exists n, find_node t nodes = Some n).
    { cbn [tname] in H. destruct (find_node t nodes) as [n|]; [eexists; reflexivity|discriminate]. }
    destruct Hn as [n Fn]. destruct (shape_of_node _ _ Fn) as [Sh At].
    destruct t; try (cbn [names_in]; rewrite H; reflexivity); exfalso;
      cbn [tname] in H; rewrite Fn in H; unfold shape_ok in Sh; rewrite At in Sh.
    - (* pointer *) assert (K : nr_kind n = KdPointer) by (destruct (nr_kind n); simpl in Sh; try discriminate; reflexivity).
      unfold node_key in H. rewrite K in H. discriminate.
    - (* slice *) apply andb_true_iff in Sh. destruct Sh as [Sh _]. apply andb_true_iff in Sh. destruct Sh as [K L].
      assert (K' : nr_kind n = KdArray) by (destruct (nr_kind n); simpl in K; try discriminate; reflexivity).
      unfold node_key in H. rewrite K' in H. apply Z.eqb_eq in L. rewrite L in H.
      destruct (nr_children n); simpl in H; discriminate.
    - (* map *) apply andb_true_iff in Sh. destruct Sh as [K _].
      assert (K' : nr_kind n = KdMap) by (destruct (nr_kind n); simpl in K; try discriminate; reflexivity).
      unfold node_key in H. rewrite K' in H. destruct (nr_children n); discriminate.
  Qed.

  Lemma names_keyed t n k l : find_node t nodes = Some n -> node_key n = Some k -> ni t = Ok l -> l = [kn k].
  Proof.
    intros Fn NK H. pose proof (tname_keyed F' _ _ _ Fn NK) as T.
    rewrite (tname_names _ _ T) in H. inversion H. reflexivity.
  Qed.

  Hypothesis Hnoself : no_self_alias pr nodes F = true.

  Lemma ni_unfold t n : find_node t nodes = Some n ->
    nr_kind n <> KdMap -> nr_kind n <> KdPointer -> (nr_kind n = KdArray -> (0 <=? nr_len n)%Z = true) ->
    ni t = (do s <- tn t; Ok [s]).
  Proof.
    intros Fn NM NP NA. destruct (shape_of_node _ _ Fn) as [Sh At]. unfold shape_ok in Sh. rewrite At in Sh.
    destruct t; try reflexivity; exfalso.
    - destruct (nr_kind n); simpl in Sh; try discriminate. apply NP. reflexivity.
    - apply andb_true_iff in Sh. destruct Sh as [Sh _]. apply andb_true_iff in Sh. destruct Sh as [K L].
      assert (K' : nr_kind n = KdArray) by (destruct (nr_kind n); simpl in K; try discriminate; reflexivity).
      specialize (NA K'). apply Z.eqb_eq in L. rewrite L in NA. discriminate.
    - apply andb_true_iff in Sh. destruct Sh as [K _]. destruct (nr_kind n); simpl in K; try discriminate. apply NM. reflexivity.
  Qed.

  Lemma keyed_none_absurd t n name : find_node t nodes = Some n ->
    (nr_kind n = KdNamed \/ nr_kind n = KdEnum \/ nr_kind n = KdStruct \/ nr_kind n = KdUnion) ->
    tn t = Ok name -> match nr_self n with GNamed id => Some id | _ => None end = None -> False.
  Proof.
    intros Fn HK Tt E. cbn [tname] in Tt. rewrite Fn in Tt. unfold node_key in Tt.
    destruct HK as [K|[K|[K|K]]]; rewrite K in Tt; rewrite E in Tt; destruct (nr_children n); discriminate.
  Qed.

  Definition from_kids (ks : list gty) (m : string) : Prop := exists c l, In c ks /\ ni c = Ok l /\ In m l.

  Lemma in_concat_str (ls : list (list string)) m : In m (List.concat ls) -> exists l, In l ls /\ In m l.
  Proof.
    induction ls as [|x r IH]; simpl; [intros []|]. intro H. apply in_app_or in H. destruct H as [H|H].
    - exists x. split; [left; reflexivity|exact H].
    - destruct (IH H) as [l [A B]]. exists l. split; [right; exact A|exact B].
  Qed.

  (** what the declaration of a node mentions comes from its children; what the node itself is called is declared
      by it, built in, or comes from its children *)
  Lemma own_spec t n ks own : find_node t nodes = Some n -> kids nodes n = Ok ks -> own_decl pr nodes F t n = Ok own ->
    (forall d m, In d own -> In m (td_mentions d) -> ts_builtin m = true \/ from_kids ks m)
    /\ (node_key n = None -> forall l, ni t = Ok l -> forall m, In m l -> ts_builtin m = true \/ In m (declared own) \/ from_kids ks m)
    /\ (forall k, node_key n = Some k -> In (kn k) (declared own)).
  Proof.
    intros Fn Hk Ho. destruct (shape_of_node _ _ Fn) as [Sh At].
    unfold kids in Hk. unfold own_decl in Ho. unfold node_key.
    destruct (nr_kind n) eqn:K.
    - (* basic *)
      inversion Hk; try subst ks. destruct (nr_bkind n) as [bk|] eqn:BK; [|discriminate].
      split; [|split; [|intros k0 E; discriminate]].
      + intros d m Hd Hm. destruct (kind_is_integer bk); inversion Ho; try subst own; [destruct Hd as [E|[]]; subst d; destruct Hm|destruct Hd].
      + intros _ l Hl m Hm. rewrite (ni_unfold _ _ Fn) in Hl by (rewrite K; try discriminate).
        cbn [tname] in Hl. rewrite Fn in Hl. unfold node_key in Hl. rewrite K, BK in Hl.
        unfold ts_basic in Hl. unfold kind_is_integer in Ho.
        destruct (class_of_kind bk) as [[| | |]|]; simpl in Hl; inversion Hl; try subst l; destruct Hm as [E|[]]; subst m;
          try (left; reflexivity). inversion Ho; try subst own. right. left. left. reflexivity.
    - (* time *)
      inversion Hk; try subst ks. split; [|split; [intro E; destruct (nr_is_date n); discriminate|]].
      + intros d m Hd Hm. destruct (nr_is_date n); inversion Ho; try subst own; destruct Hd as [E|[]]; subst d; destruct Hm.
      + intros k0 E. destruct (nr_is_date n); inversion E; subst k0; inversion Ho; try subst own; left; reflexivity.
    - (* array *)
      destruct (nr_children n) as [|c r] eqn:CH; [discriminate|]. inversion Hk; try subst ks.
      split; [|split; [|intros k0 E; discriminate]].
      + intros d m Hd Hm. destruct (0 <=? nr_len n)%Z; [|inversion Ho; try subst own; destruct Hd].
        destruct (tn t) as [name| |]; cbn [bind] in Ho; try discriminate.
        destruct (tn c) as [e| |] eqn:Tc; cbn [bind] in Ho; try discriminate. inversion Ho; try subst own.
        destruct Hd as [E|[]]; subst d. simpl in Hm. destruct (nr_len n =? 0)%Z; [destruct Hm|].
        destruct Hm as [E|[]]; subst m. right. exists c, [e]. split; [left; reflexivity|]. split; [apply tname_names; exact Tc|left; reflexivity].
      + intros _ l Hl m Hm. destruct (0 <=? nr_len n)%Z eqn:L.
        * rewrite (ni_unfold _ _ Fn) in Hl by (rewrite K; try discriminate; intros _; exact L).
          destruct (tn t) as [name| |]; cbn [bind] in Ho, Hl; try discriminate.
          destruct (tn c) as [e| |]; cbn [bind] in Ho; try discriminate. inversion Ho; try subst own. inversion Hl; try subst l.
          destruct Hm as [E|[]]; subst m. right. left. left. reflexivity.
        * (* a slice: its position is a slice type, linked to its element *)
          unfold shape_ok in Sh. rewrite At in Sh.
          destruct t; try (rewrite K, L in Sh; simpl in Sh; rewrite ?andb_false_r in Sh; discriminate).
          -- rewrite K in Sh. discriminate.
          -- rewrite CH in Sh. apply andb_true_iff in Sh. destruct Sh as [_ Sc]. destruct r; [|discriminate].
             apply gty_eqb_eq in Sc. subst c. cbn [names_in] in Hl.
             right. right. exists t, l. split; [left; reflexivity|]. split; assumption.
          -- rewrite K in Sh. discriminate.
    - (* map *)
      destruct (nr_children n) as [|k0 [|c r]] eqn:CH; try discriminate. inversion Hk; try subst ks. inversion Ho; try subst own.
      split; [intros d m []|]. split; [|intros k1 E; discriminate].
      intros _ l Hl m Hm. unfold shape_ok in Sh. rewrite At in Sh.
      destruct t; try (rewrite K in Sh; simpl in Sh; discriminate).
      rewrite CH in Sh. apply andb_true_iff in Sh. destruct Sh as [_ Sc]. destruct r; [|discriminate].
        apply andb_true_iff in Sc. destruct Sc as [S1 S2]. apply gty_eqb_eq in S1. apply gty_eqb_eq in S2. subst k0 c.
        cbn [names_in] in Hl. destruct (ni t1) as [a| |] eqn:N1; simpl in Hl; try discriminate.
        destruct (ni t2) as [b| |] eqn:N2; simpl in Hl; try discriminate. inversion Hl; try subst l.
        right. right. apply in_app_or in Hm. destruct Hm as [Hm|Hm].
        * exists t1, a. split; [left; reflexivity|]. split; assumption.
        * exists t2, b. split; [right; left; reflexivity|]. split; assumption.
    - (* named *)
      destruct (nr_children n) as [|u r] eqn:CH; [discriminate|].
      destruct (tn t) as [name| |] eqn:Tt; cbn [bind] in Ho; try discriminate.
      assert (Hname : forall k0, match nr_self n with GNamed id => Some id | _ => None end = Some k0 -> name = kn k0).
      { intros k0 E. assert (NK : node_key n = Some k0) by (unfold node_key; rewrite K; exact E).
        rewrite (tname_keyed _ _ _ _ Fn NK) in Tt. inversion Tt. reflexivity. }
      assert (Hns : is_int_basic nodes u || negb (same_as_target pr nodes F n u) = true).
      { unfold no_self_alias in Hnoself. rewrite forallb_forall in Hnoself.
        destruct (find_node_at _ _ _ Fn) as [_ Hin]. specialize (Hnoself n Hin). rewrite K, CH in Hnoself. exact Hnoself. }
      destruct (is_int_basic nodes u) eqn:IB.
      + inversion Hk; try subst ks. inversion Ho; try subst own. split; [intros d m [E|[]] Hm; subst d; destruct Hm|].
        split; [intro E; exfalso; eapply keyed_none_absurd; [exact Fn|rewrite K; tauto|exact Tt|exact E]|]. intros k0 E. left. simpl. apply Hname. exact E.
      + simpl in Hns. apply negb_true_iff in Hns. rewrite Hns in Ho. inversion Hk; try subst ks.
        destruct (ni u) as [ms| |] eqn:Nu; cbn [bind] in Ho; try discriminate. inversion Ho; try subst own.
        split; [|split; [intro E; exfalso; eapply keyed_none_absurd; [exact Fn|rewrite K; tauto|exact Tt|exact E]|]].
        * intros d m [E|[]] Hm; subst d. simpl in Hm. right. exists u, ms. split; [left; reflexivity|]. split; assumption.
        * intros k0 E. left. simpl. apply Hname. exact E.
    - (* enum *)
      inversion Hk; try subst ks. destruct (tn t) as [name| |] eqn:Tt; cbn [bind] in Ho; try discriminate. inversion Ho; try subst own.
      split; [intros d m [E|[]] Hm; subst d; destruct Hm|]. split; [intro E; exfalso; eapply keyed_none_absurd; [exact Fn|rewrite K; tauto|exact Tt|exact E]|].
      intros k0 E. left. simpl. assert (NK : node_key n = Some k0) by (unfold node_key; rewrite K; exact E).
      rewrite (tname_keyed _ _ _ _ Fn NK) in Tt. inversion Tt. reflexivity.
    - (* struct *)
      inversion Hk; try subst ks. destruct (tn t) as [name| |] eqn:Tt; cbn [bind] in Ho; try discriminate.
      destruct (mapM (fun f => ni (af_type f)) (ts_fields n)) as [ms| |] eqn:MM; cbn [bind] in Ho; try discriminate. inversion Ho; try subst own.
      split; [|split; [intro E; exfalso; eapply keyed_none_absurd; [exact Fn|rewrite K; tauto|exact Tt|exact E]|]].
      + intros d m [E|[]] Hm; subst d. simpl in Hm. destruct (in_concat_str _ _ Hm) as [l [Hl Hml]].
        destruct (mapM_in _ _ _ MM _ Hl) as [f [Hf Hnf]]. right. exists (af_type f), l.
        split; [apply in_map; exact Hf|]. split; assumption.
      + intros k0 E. left. simpl. assert (NK : node_key n = Some k0) by (unfold node_key; rewrite K; exact E).
        rewrite (tname_keyed _ _ _ _ Fn NK) in Tt. inversion Tt. reflexivity.
    - (* union *)
      inversion Hk; try subst ks. destruct (tn t) as [name| |] eqn:Tt; cbn [bind] in Ho; try discriminate.
      destruct (mapM tn (nr_children n)) as [ms| |] eqn:MM; cbn [bind] in Ho; try discriminate. inversion Ho; try subst own.
      split; [|split; [intro E; exfalso; eapply keyed_none_absurd; [exact Fn|rewrite K; tauto|exact Tt|exact E]|]].
      + intros d m [E|[]] Hm; subst d. simpl in Hm. destruct (mapM_in _ _ _ MM _ Hm) as [c [Hc Htc]].
        right. exists c, [m]. split; [exact Hc|]. split; [apply tname_names; exact Htc|left; reflexivity].
      + intros k0 E. left. simpl. assert (NK : node_key n = Some k0) by (unfold node_key; rewrite K; exact E).
        rewrite (tname_keyed _ _ _ _ Fn NK) in Tt. inversion Tt. reflexivity.
    - (* pointer *) discriminate.
  Qed.

  Lemma conv pending pending' out dsr own m :
    (forall k', In k' pending' -> In k' pending \/ In (kn k') (declared own)) ->
    okn pending' (out ++ dsr) m -> okn pending (out ++ (dsr ++ own)) m.
  Proof.
    intros Hp [A|[A|[k' [Hk E]]]].
    - left. exact A.
    - right. left. rewrite app_assoc, declared_app. apply in_or_app. left. exact A.
    - destruct (Hp _ Hk) as [B|B].
      + right. right. exists k'. split; assumption.
      + right. left. rewrite <- E. rewrite !declared_app. apply in_or_app. right. apply in_or_app. right. exact B.
  Qed.

  Lemma gen_spec : forall fuel, Spec (generate pr nodes F fuel).
  Proof.
    induction fuel as [|f IH]; intros cache t cache' ds pending out H HI; cbn [generate] in H; [discriminate|].
    destruct (find_node t nodes) as [n|] eqn:Fn; [|discriminate].
    destruct (node_key n) as [k|] eqn:NK.
    - destruct (existsb (String.eqb k) cache) eqn:Hit.
      + inversion H; subst. rewrite app_nil_r. split; [exact HI|]. split; [|intros d m []].
        intros l Hl m Hm. rewrite (names_keyed _ _ _ _ Fn NK Hl) in Hm. destruct Hm as [E|[]]. subst m.
        apply existsb_exists in Hit. destruct Hit as [k' [Hin E]]. apply String.eqb_eq in E. subst k'.
        destruct (HI _ Hin) as [A|A]; [right; right; exists k; split; [exact A|reflexivity]|exact A].
      + destruct (kids nodes n) as [ks| |] eqn:Hk; cbn [bind] in H; try discriminate.
        destruct (gen_list (generate pr nodes F f) ks (k :: cache)) as [[c2 dsr]| |] eqn:GL; cbn [bind] in H; try discriminate.
        destruct (own_decl pr nodes F t n) as [own| |] eqn:Ho; cbn [bind] in H; try discriminate.
        inversion H; subst. clear H.
        destruct (own_spec _ _ _ _ Fn Hk Ho) as [Oa [_ Ob]]. specialize (Ob _ NK).
        assert (HI1 : Inv (k :: cache) (k :: pending) out).
        { intros k' [E|Hk']; [left; left; exact E|]. destruct (HI _ Hk') as [A|A]; [left; right; exact A|].
          right. destruct A as [A|[A|[k2 [A1 A2]]]]; [left; exact A|right; left; exact A|right; right; exists k2; split; [right; exact A1|exact A2]]. }
        destruct (gen_list_spec _ IH _ _ _ _ (k :: pending) out GL HI1) as [I2 [P2 R2]].
        assert (Hp : forall k', In k' (k :: pending) -> In k' pending \/ In (kn k') (declared own)).
        { intros k' [E|Hk']; [subst k'; right; exact Ob|left; exact Hk']. }
        split; [|split].
        * intros k' Hk'. destruct (I2 _ Hk') as [A|A].
          -- destruct (Hp _ A) as [B|B]; [left; exact B|]. right. right. left.
             rewrite !declared_app. apply in_or_app. right. apply in_or_app. right. exact B.
          -- right. eapply conv; eassumption.
        * intros l Hl m Hm. rewrite (names_keyed _ _ _ _ Fn NK Hl) in Hm. destruct Hm as [E|[]]. subst m.
          right. left. rewrite !declared_app. apply in_or_app. right. apply in_or_app. right. exact Ob.
        * apply refs_app.
          -- intros d m Hd Hm. eapply conv; [exact Hp|]. eapply R2; eassumption.
          -- intros d m Hd Hm. destruct (Oa _ _ Hd Hm) as [A|[c [l [Hc [Hl Hml]]]]]; [left; exact A|].
             eapply conv; [exact Hp|]. eapply P2; eassumption.
    - simpl in H.
      destruct (kids nodes n) as [ks| |] eqn:Hk; cbn [bind] in H; try discriminate.
      destruct (gen_list (generate pr nodes F f) ks cache) as [[c2 dsr]| |] eqn:GL; cbn [bind] in H; try discriminate.
      destruct (own_decl pr nodes F t n) as [own| |] eqn:Ho; cbn [bind] in H; try discriminate.
      inversion H; subst. clear H.
      destruct (own_spec _ _ _ _ Fn Hk Ho) as [Oa [Ob _]]. specialize (Ob NK).
      destruct (gen_list_spec _ IH _ _ _ _ pending out GL HI) as [I2 [P2 R2]].
      assert (Hp : forall k', In k' pending -> In k' pending \/ In (kn k') (declared own)) by (intros; left; assumption).
      split; [|split].
      * intros k' Hk'. destruct (I2 _ Hk') as [A|A]; [left; exact A|right; eapply conv; eassumption].
      * intros l Hl m Hm. destruct (Ob _ Hl _ Hm) as [A|[A|[c [l' [Hc [Hl' Hml]]]]]].
        -- left. exact A.
        -- right. left. rewrite !declared_app. apply in_or_app. right. apply in_or_app. right. exact A.
        -- eapply conv; [exact Hp|]. eapply P2; eassumption.
      * apply refs_app.
        -- intros d m Hd Hm. eapply conv; [exact Hp|]. eapply R2; eassumption.
        -- intros d m Hd Hm. destruct (Oa _ _ Hd Hm) as [A|[c [l [Hc [Hl Hml]]]]]; [left; exact A|].
           eapply conv; [exact Hp|]. eapply P2; eassumption.
  Qed.

  Theorem ts_types_closed src ds : ts_types pr nodes F src = Ok ds -> closed ds = true.
  Proof.
    unfold ts_types. destruct (gen_list _ src []) as [[c d]| |] eqn:GL; simpl; try discriminate.
    intro H. inversion H; subst. clear H.
    assert (HI : Inv [] [] []) by (intros k []).
    destruct (gen_list_spec _ (gen_spec _) _ _ _ _ [] [] GL HI) as [_ [_ R]]. simpl in R.
    unfold closed. apply forallb_forall. intros d' Hd. apply forallb_forall. intros m Hm.
    destruct (R _ _ Hd Hm) as [A|[A|[k [[] _]]]]; [rewrite A; reflexivity|].
    apply orb_true_iff. right. apply existsb_exists. exists m. split; [exact A|apply String.eqb_refl].
  Qed.
End Closure.
