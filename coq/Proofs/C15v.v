(** Every value the generated random functions can return is well-formed, whatever the random numbers
    drawn: [gen] (Sem/RandSem.v) succeeding on any list of recorded draws yields a value satisfying [wf]. *)
From Coq Require Import List String Ascii ZArith NArith Bool Arith Lia.
From GM Require Import Base.Result Base.StrOrd Facts.GoFacts Facts.Ana Model.Enums Model.Fields Model.Classify Model.SqlTypes Sem.GoJson Sem.GoVal Sem.RandSem.
Import ListNotations.
Local Open Scope string_scope.
Local Open Scope list_scope.

Lemma gen_n_spec (g : list rcall -> option (value * list rcall)) : forall n rs l rs',
  gen_n g n rs = Some (l, rs') ->
  List.length l = n /\ Forall (fun v => exists r1 r2, g r1 = Some (v, r2)) l.
Proof.
  induction n as [|n IH]; intros rs l rs' H; simpl in H.
  - injection H as <- <-. split; [reflexivity|constructor].
  - destruct (g rs) as [[v rs1]|] eqn:G; [|discriminate].
    destruct (gen_n g n rs1) as [[l' rs2]|] eqn:R; [|discriminate]. injection H as <- <-.
    destruct (IH _ _ _ R) as [L F]. split; [simpl; f_equal; exact L|]. constructor; [exists rs, rs1; exact G|exact F].
Qed.

Lemma gen_all_combine {X} (h : X -> list rcall -> option (value * list rcall)) : forall xs rs vs rs',
  gen_all (map h xs) rs = Some (vs, rs') ->
  List.length vs = List.length xs /\
  forall x v, In (x, v) (combine xs vs) -> exists r1 r2, h x r1 = Some (v, r2).
Proof.
  induction xs as [|x xs IH]; intros rs vs rs' H; simpl in H.
  - injection H as <- <-. split; [reflexivity|intros ? ? []].
  - destruct (h x rs) as [[v rs1]|] eqn:G; [|discriminate].
    destruct (gen_all (map h xs) rs1) as [[l rs2]|] eqn:R; [|discriminate]. injection H as <- <-.
    destruct (IH _ _ _ R) as [L F]. split; [simpl; f_equal; exact L|].
    intros x' v' [E|Hin]; [injection E as <- <-; exists rs, rs1; exact G|exact (F _ _ Hin)].
Qed.

Lemma forallb_insert (P : string * value -> bool) kv l : forallb P (insert_sorted kv l) = P kv && forallb P l.
Proof.
  induction l as [|a l IH]; simpl; [reflexivity|]. destruct (sleb (fst kv) (fst a)); simpl; [reflexivity|].
  rewrite IH. destruct (P kv), (P a); reflexivity.
Qed.

Lemma forallb_sort (P : string * value -> bool) l : forallb P (sort_entries l) = forallb P l.
Proof. induction l as [|a l IH]; simpl; [reflexivity|]. rewrite forallb_insert, IH. reflexivity. Qed.

Lemma length_insert kv l : List.length (insert_sorted kv l) = S (List.length l).
Proof. induction l as [|a l IH]; simpl; [reflexivity|]. destruct (sleb (fst kv) (fst a)); simpl; [reflexivity|]. rewrite IH. reflexivity. Qed.

Lemma length_sort l : List.length (sort_entries l) = List.length l.
Proof. induction l as [|a l IH]; simpl; [reflexivity|]. rewrite length_insert, IH. reflexivity. Qed.

Lemma forallb_set_key (P : string * value -> bool) k v l :
  (forall k', P (k', v) = true) -> forallb P l = true -> forallb P (set_key k v l) = true.
Proof.
  intros Hv. induction l as [|[k' v'] l IH]; simpl; intros H; [rewrite Hv; reflexivity|].
  apply andb_true_iff in H. destruct H as [H1 H2]. destruct (String.eqb k k'); simpl.
  - rewrite Hv, H2. reflexivity.
  - rewrite H1, (IH H2). reflexivity.
Qed.

Lemma set_key_nonempty k v l : set_key k v l <> [].
Proof. destruct l as [|[k' v'] l]; simpl; [discriminate|]. destruct (String.eqb k k'); discriminate. Qed.

Lemma gen_entries_spec (gk gv : list rcall -> option (value * list rcall)) (Q : value -> bool) :
  (forall r1 v r2, gv r1 = Some (v, r2) -> Q v = true) ->
  forall n acc rs l rs', gen_entries gk gv n acc rs = Some (l, rs') ->
  forallb (fun kv => match kv with (_, w) => Q w end) acc = true ->
  forallb (fun kv => match kv with (_, w) => Q w end) l = true /\ (n <> 0 \/ acc <> [] -> l <> []).
Proof.
  intros HQ. induction n as [|n IH]; intros acc rs l rs' H Hacc; simpl in H.
  - injection H as <- <-. split; [exact Hacc|]. intros [N|N]; [contradiction|exact N].
  - destruct (gk rs) as [[k rs1]|]; [|discriminate]. destruct (key_text k) as [kt|]; [|discriminate].
    destruct (gv rs1) as [[v rs2]|] eqn:G; [|discriminate].
    destruct (IH _ _ _ _ H) as [A B].
    + apply forallb_set_key; [intros k'; exact (HQ _ _ _ G)|exact Hacc].
    + split; [exact A|]. intros _. apply B. right. apply set_key_nonempty.
Qed.

Lemma value_eqb_scalar j v : scalar_value j = Some v -> value_eqb v v = true.
Proof.
  destruct j; simpl; intros H; try discriminate; injection H as <-; simpl.
  - destruct b; reflexivity.
  - apply String.eqb_refl.
  - apply String.eqb_refl.
Qed.

Section WF.
  Variable pr : prog.
  Variable nodes : list nrec.
  Variable enums : list enum.
  Notation gen := (gen pr nodes enums).
  Notation wf := (wf pr nodes enums).

  Lemma struct_wf f (IH : forall t rs v rs', gen f t rs = Some (v, rs') -> wf f t v = true) :
    forall (shown : list afield) rs vs rs',
    gen_all (map (fun fd => if data_ignored fd then (fun rs => Some (VZero, rs)) else gen f (af_type fd)) shown) rs = Some (vs, rs') ->
    (fix go (fs : list afield) (l : list (string * value)) : bool :=
       match fs, l with
       | [], [] => true
       | fd :: fs', (k, w) :: l' =>
           String.eqb (af_name fd) k && (if data_ignored fd then is_zero w else wf f (af_type fd) w) && go fs' l'
       | _, _ => false
       end) shown (combine (map af_name shown) vs) = true.
  Proof.
    induction shown as [|fd shown IHs]; intros rs vs rs' H; cbn [map gen_all] in H.
    - injection H as <- <-. reflexivity.
    - destruct (data_ignored fd) eqn:Di.
      + destruct (gen_all _ rs) as [[l rs2]|] eqn:R; [|discriminate]. injection H as <- <-.
        cbn [map combine]. rewrite String.eqb_refl. change (is_zero VZero) with true. cbn [andb]. exact (IHs _ _ _ R).
      + destruct (gen f (af_type fd) rs) as [[v rs1]|] eqn:G; [|discriminate].
        destruct (gen_all _ rs1) as [[l rs2]|] eqn:R; [|discriminate]. injection H as <- <-.
        cbn [map combine]. rewrite String.eqb_refl, (IH _ _ _ _ G). cbn [andb]. exact (IHs _ _ _ R).
  Qed.

  Theorem gen_wf : forall f t rs v rs', gen f t rs = Some (v, rs') -> wf f t v = true.
  Proof.
    induction f as [|f IH]; intros t rs v rs' H; [discriminate|].
    cbn [RandSem.gen] in H. cbn [RandSem.wf].
    destruct (find_node t nodes) as [n|]; [|discriminate].
    destruct (nr_kind n) eqn:K.
    - (* basic *)
      destruct (nr_bkind n) as [k|]; [|discriminate].
      destruct k; try (destruct (take "Intn" 1000000 rs) as [[r rs1]|]; [|discriminate]; simpl in H; try discriminate; injection H as <- <-; reflexivity).
      + destruct (take "Int31n" 2 rs) as [[r rs1]|]; [|discriminate]. injection H as <- <-. reflexivity.
      + destruct (take "Float64" 0 rs) as [[r rs1]|]; [|discriminate].
        destruct (take "Int31" 0 rs1) as [[r2 rs2]|]; [|discriminate]. injection H as <- <-. reflexivity.
      + destruct (gen_string 10 rs) as [[s rs1]|]; [|discriminate]. injection H as <- <-. reflexivity.
    - (* time *)
      destruct (take "Int31" 0 rs) as [[r rs1]|]; [|discriminate]. injection H as <- <-. reflexivity.
    - (* array *)
      destruct (nr_children n) as [|e [|? ?]]; try discriminate.
      destruct (Z.leb 0 (nr_len n)).
      + destruct (gen_n (gen f e) (Z.to_nat (nr_len n)) rs) as [[l rs1]|] eqn:G; [|discriminate]. injection H as <- <-.
        destruct (gen_n_spec _ _ _ _ _ G) as [L F]. rewrite L, Nat.eqb_refl. simpl.
        apply forallb_forall. intros x Hx. rewrite Forall_forall in F. destruct (F x Hx) as [r1 [r2 Hg]]. exact (IH _ _ _ _ Hg).
      + destruct (take "Intn" 5 rs) as [[r rs1]|]; [|discriminate].
        destruct (gen_n (gen f e) (3 + Z.to_nat r) rs1) as [[l rs2]|] eqn:G; [|discriminate]. injection H as <- <-.
        destruct (gen_n_spec _ _ _ _ _ G) as [L F]. rewrite L. simpl.
        apply forallb_forall. intros x Hx. rewrite Forall_forall in F. destruct (F x Hx) as [r1 [r2 Hg]]. exact (IH _ _ _ _ Hg).
    - (* map *)
      destruct (nr_children n) as [|k [|e [|? ?]]]; try discriminate.
      destruct (take "Intn" 10 rs) as [[r rs1]|]; [|discriminate].
      destruct (gen_entries (gen f k) (gen f e) (40 + Z.to_nat r) [] rs1) as [[l rs2]|] eqn:G; [|discriminate]. injection H as <- <-.
      destruct (gen_entries_spec (gen f k) (gen f e) (wf f e) (fun r1 v r2 Hg => IH _ _ _ _ Hg) _ _ _ _ _ G eq_refl) as [A B].
      rewrite length_sort, forallb_sort, A.
      assert (N : l <> []) by (apply B; left; lia).
      destruct l; [contradiction|reflexivity].
    - (* named *)
      destruct (nr_children n) as [|e [|? ?]]; try discriminate. exact (IH _ _ _ _ H).
    - (* enum *)
      destruct (nr_at n) as [|id| | | | | |]; try discriminate.
      destruct (take "Intn" _ rs) as [[i rs1]|]; [|discriminate].
      destruct (nth_error (exported_members enums id) (Z.to_nat i)) as [m|] eqn:N; [|discriminate].
      destruct (member_value m) as [x|] eqn:M; [|discriminate]. injection H as <- <-.
      apply existsb_exists. exists m. split; [exact (nth_error_In _ _ N)|]. rewrite M.
      unfold member_value in M. exact (value_eqb_scalar _ _ M).
    - (* struct *)
      destruct (gen_all _ rs) as [[vs rs1]|] eqn:G; [|discriminate]. injection H as <- <-.
      exact (struct_wf f IH _ _ _ _ G).
    - (* union *)
      destruct (gen_all _ rs) as [[vs rs1]|] eqn:G; [|discriminate].
      destruct (take "Intn" _ rs1) as [[i rs2]|]; [|discriminate].
      destruct (nth_error (combine (nr_members n) vs) (Z.to_nat i)) as [[m x]|] eqn:N; [|discriminate]. injection H as <- <-.
      destruct (gen_all_combine (fun m => gen f (GNamed m)) _ _ _ _ G) as [_ F].
      pose proof (nth_error_In _ _ N) as Hin. destruct (F _ _ Hin) as [r1 [r2 Hg]].
      apply existsb_exists. exists m. split; [exact (in_combine_l _ _ _ _ Hin)|].
      rewrite String.eqb_refl. exact (IH _ _ _ _ Hg).
    - (* pointer *)
      destruct (nr_children n) as [|e [|? ?]]; try discriminate. exact (IH _ _ _ _ H).
  Qed.
End WF.

(** * what [wf] says at enum and union positions *)
Section Reading.
  Variable pr : prog.
  Variable nodes : list nrec.
  Variable enums : list enum.

  Lemma wf_enum f t n id v :
    find_node t nodes = Some n -> nr_kind n = KdEnum -> nr_at n = GNamed id ->
    wf pr nodes enums (S f) t v = true ->
    exists m x, In m (exported_members enums id) /\ em_exported m = true /\ member_value m = Some x /\ value_eqb x v = true.
  Proof.
    intros Fn K A H. cbn [RandSem.wf] in H. rewrite Fn, K, A in H.
    apply existsb_exists in H. destruct H as [m [Hin Hm]].
    destruct (member_value m) as [x|] eqn:M; [|discriminate].
    exists m, x. repeat split; try assumption.
    unfold exported_members in Hin. destruct (find _ enums); [|contradiction].
    apply filter_In in Hin. apply Hin.
  Qed.

  Lemma wf_union f t n v :
    find_node t nodes = Some n -> nr_kind n = KdUnion ->
    wf pr nodes enums (S f) t v = true ->
    exists m w, v = VUnion (local_name_of pr m) w /\ In m (nr_members n) /\ wf pr nodes enums f (GNamed m) w = true.
  Proof.
    intros Fn K H. cbn [RandSem.wf] in H. rewrite Fn, K in H.
    destruct v as [| | | | | | |k w|]; try discriminate.
    apply existsb_exists in H. destruct H as [m [Hin Hm]]. apply andb_true_iff in Hm. destruct Hm as [E W].
    apply String.eqb_eq in E. subst k. exists m, w. repeat split; assumption.
  Qed.
End Reading.

(** * non-vacuity: a struct with an enum, a slice of an union and a skipped field, on a recorded sequence of draws *)
Definition ex_nodes : list nrec :=
  let mk at_ k len bk ch fs ms :=
    {| nr_at := at_; nr_kind := k; nr_self := at_; nr_len := len; nr_bkind := bk; nr_is_date := false; nr_children := ch;
       nr_fields := fs; nr_comments := []; nr_implements := []; nr_members := ms; nr_in_types := true |} in
  let fld name ty tag := {| af_name := name; af_type := ty; af_tag := tag; af_go_exported := true; af_exported := true; af_json := name |} in
  [ mk (GNamed "p.S") KdStruct 0%Z None [] [fld "E" (GNamed "p.E") ""; fld "L" (GSlice (GNamed "p.U")) ""; fld "Skip" (GBasic KInt) "gomacro-data:""ignore"""] [];
    mk (GNamed "p.E") KdEnum 0%Z (Some KInt) [] [] ["A"; "b"; "C"];
    mk (GSlice (GNamed "p.U")) KdArray (-1)%Z None [GNamed "p.U"] [] [];
    mk (GNamed "p.U") KdUnion 0%Z None [GNamed "p.A"; GNamed "p.N"] [] ["p.A"; "p.N"];
    mk (GNamed "p.A") KdStruct 0%Z None [] [fld "X" (GBasic KBool) ""] [];
    mk (GNamed "p.N") KdNamed 0%Z None [GBasic KUint8] [] [];
    mk (GBasic KBool) KdBasic 0%Z (Some KBool) [] [] [];
    mk (GBasic KUint8) KdBasic 0%Z (Some KUint8) [] [] [];
    mk (GBasic KInt) KdBasic 0%Z (Some KInt) [] [] [] ].

Definition ex_enums : list enum :=
  [ {| en_id := "p.E"; en_is_iota := false;
       en_members := [ {| em_name := "A"; em_val := CInt 0; em_exact := "0"; em_exported := true; em_comment := "" |};
                       {| em_name := "b"; em_val := CInt 1; em_exact := "1"; em_exported := false; em_comment := "" |};
                       {| em_name := "C"; em_val := CInt 2; em_exact := "2"; em_exported := true; em_comment := "" |} ] |} ].

Definition ex_prog : prog := {| pr_root := "p"; pr_pkgs := []; pr_types := [] |}.

Definition ex_calls : list rcall :=
  let rc fn a r := {| rc_fn := fn; rc_arg := a; rc_res := r |} in
  [ rc "Intn" 2 1;                                   (* E: the second exported constant *)
    rc "Intn" 5 0;                                   (* L: 3 elements *)
    rc "Int31n" 2 1; rc "Intn" 1000000 300; rc "Intn" 2 0;    (* both alternatives are evaluated, the first is kept *)
    rc "Int31n" 2 0; rc "Intn" 1000000 7;   rc "Intn" 2 1;
    rc "Int31n" 2 0; rc "Intn" 1000000 999999; rc "Intn" 2 1 ]%Z.

Example ex_gen :
  gen ex_prog ex_nodes ex_enums 6 (GNamed "p.S") ex_calls =
    Some (VObj [("E", VNum "2");
                ("L", VList [VUnion "p.A" (VObj [("X", VBool true)]); VUnion "p.N" (VNum "7"); VUnion "p.N" (VNum "63")]);
                ("Skip", VZero)], [])
  /\ wf ex_prog ex_nodes ex_enums 6 (GNamed "p.S")
        (VObj [("E", VNum "2");
               ("L", VList [VUnion "p.A" (VObj [("X", VBool true)]); VUnion "p.N" (VNum "7"); VUnion "p.N" (VNum "63")]);
               ("Skip", VNum "0")]) = true.
Proof. vm_compute. split; reflexivity. Qed.
