From Coq Require Import List String ZArith Bool Arith Lia.
From GM Require Import Base.Result Facts.GoFacts Facts.Ana Model.Enums Model.Fields Model.Classify Model.RandData.
Import ListNotations.

Section C15.
  Variable nodes : list nrec.
  Notation returns := (returns nodes).
  Notation rand_calls := (rand_calls nodes).

  Lemma returns_mono fuel : forall t, returns fuel t = true -> returns (S fuel) t = true.
  Proof.
    induction fuel as [|f IH]; intros t H; [discriminate|].
    simpl in H. change (forallb (returns (S f)) (rand_calls t) = true).
    rewrite forallb_forall in *. intros c Hc. apply IH. apply H. assumption.
  Qed.

  Lemma returns_callee fuel t c : returns (S fuel) t = true -> In c (rand_calls t) -> returns fuel c = true.
  Proof. simpl. intros H Hc. rewrite forallb_forall in H. apply H. assumption. Qed.

  (** along a call path of length k, returning within k + fuel means the end of the path returns within fuel *)
  Lemma returns_along_path p : forall fuel t, is_path nodes t p -> returns (List.length p + fuel) t = true ->
    returns fuel (path_end t p) = true.
  Proof.
    induction p as [|c r IH]; intros fuel t Hp H; simpl in *; [assumption|].
    destruct Hp as [Hc Hr]. apply IH; [assumption|]. eapply returns_callee; [exact H|assumption].
  Qed.

  Lemma path_needs_fuel q : forall f u, is_path nodes u q -> returns f u = true -> List.length q < f.
  Proof.
    induction q as [|c r IHq]; intros f u Hq Hr; simpl.
    - destruct f; [discriminate|lia].
    - destruct f as [|f]; [discriminate|]. destruct Hq as [Hc Hq].
      specialize (IHq f c Hq (returns_callee f u c Hr Hc)). lia.
  Qed.

  (** a type that reaches itself: its generated function never returns, whatever the random stream *)
  Lemma cyclic_never_returns t p : p <> [] -> is_path nodes t p -> path_end t p = t -> forall fuel, returns fuel t = false.
  Proof.
    intros Hne Hp Hl fuel. induction fuel as [fuel IH] using lt_wf_ind.
    destruct (returns fuel t) eqn:E; [|reflexivity]. exfalso.
    pose proof (path_needs_fuel p fuel t Hp E) as Hlen.
    replace fuel with (List.length p + (fuel - List.length p)) in E by lia.
    apply returns_along_path in E; [|assumption]. rewrite Hl in E.
    assert (fuel - List.length p < fuel) as Hlt by (destruct p; [contradiction|simpl in *; lia]).
    rewrite (IH _ Hlt) in E. discriminate.
  Qed.

  (** a ranking of the positions that decreases along calls bounds the nesting: the function returns *)
  Lemma ranked_returns (rk : gty -> nat) :
    (forall t c, In c (rand_calls t) -> rk c < rk t) -> forall t, returns (S (rk t)) t = true.
  Proof.
    intros Hrk t. remember (rk t) as n eqn:En. revert t En.
    induction n as [n IH] using lt_wf_ind. intros t En. simpl. apply forallb_forall. intros c Hc.
    specialize (Hrk t c Hc). assert (rk c < n) as Hlt by lia.
    pose proof (IH (rk c) Hlt c eq_refl) as R.
    (* lift the fuel *)
    assert (forall k f u, returns f u = true -> returns (k + f) u = true) as Lift.
    { induction k; intros f u Hu; simpl; [assumption|]. apply returns_mono. apply IHk. assumption. }
    replace n with ((n - S (rk c)) + S (rk c)) by lia. apply Lift. assumption.
  Qed.
End C15.
