From Coq Require Import List String ZArith Bool Arith Lia.
From GM Require Import Base.Result Facts.GoFacts Facts.Ana Model.Enums Model.Fields Model.Classify Model.RandData Proofs.C12.
Import ListNotations.

Section C15.
  Variable nodes : list nrec.
  Notation returns := (returns nodes).
  Notation rand_calls := (rand_calls nodes).

  Lemma returns_mono fuel : forall t, returns fuel t = true -> returns (S fuel) t = true.
  Proof.
    induction fuel as [|f IH]; intros t H; [discriminate|].
    simpl in H. change (forallb (returns (S f)) (rand_calls t) = true).
    rewrite forallb_forall in *. intros c Hc. apply IH. apply H. assumption.
  Qed.

  Lemma returns_callee fuel t c : returns (S fuel) t = true -> In c (rand_calls t) -> returns fuel c = true.
  Proof. simpl. intros H Hc. rewrite forallb_forall in H. apply H. assumption. Qed.

  (** along a call path of length k, returning within k + fuel means the end of the path returns within fuel *)
  Lemma returns_along_path p : forall fuel t, is_path nodes t p -> returns (List.length p + fuel) t = true ->
    returns fuel (path_end t p) = true.
  Proof.
    induction p as [|c r IH]; intros fuel t Hp H; simpl in *; [assumption|].
    destruct Hp as [Hc Hr]. apply IH; [assumption|]. eapply returns_callee; [exact H|assumption].
  Qed.

  Lemma path_needs_fuel q : forall f u, is_path nodes u q -> returns f u = true -> List.length q < f.
  Proof.
    induction q as [|c r IHq]; intros f u Hq Hr; simpl.
    - destruct f; [discriminate|lia].
    - destruct f as [|f]; [discriminate|]. destruct Hq as [Hc Hq].
      specialize (IHq f c Hq (returns_callee f u c Hr Hc)). lia.
  Qed.

  (** a type that reaches itself: its generated function never returns, whatever the random stream *)
  Lemma cyclic_never_returns t p : p <> [] -> is_path nodes t p -> path_end t p = t -> forall fuel, returns fuel t = false.
  Proof.
    intros Hne Hp Hl fuel. induction fuel as [fuel IH] using lt_wf_ind.
    destruct (returns fuel t) eqn:E; [|reflexivity]. exfalso.
    pose proof (path_needs_fuel p fuel t Hp E) as Hlen.
    replace fuel with (List.length p + (fuel - List.length p)) in E by lia.
    apply returns_along_path in E; [|assumption]. rewrite Hl in E.
    assert (fuel - List.length p < fuel) as Hlt by (destruct p; [contradiction|simpl in *; lia]).
    rewrite (IH _ Hlt) in E. discriminate.
  Qed.

  (** a ranking of the positions that decreases along calls bounds the nesting: the function returns *)
  Lemma ranked_returns (rk : gty -> nat) :
    (forall t c, In c (rand_calls t) -> rk c < rk t) -> forall t, returns (S (rk t)) t = true.
  Proof.
    intros Hrk t. remember (rk t) as n eqn:En. revert t En.
    induction n as [n IH] using lt_wf_ind. intros t En. simpl. apply forallb_forall. intros c Hc.
    specialize (Hrk t c Hc). assert (rk c < n) as Hlt by lia.
    pose proof (IH (rk c) Hlt c eq_refl) as R.
    (* lift the fuel *)
    assert (forall k f u, returns f u = true -> returns (k + f) u = true) as Lift.
    { induction k; intros f u Hu; simpl; [assumption|]. apply returns_mono. apply IHk. assumption. }
    replace n with ((n - S (rk c)) + S (rk c)) by lia. apply Lift. assumption.
  Qed.

  (** the level-by-level computation used by the check is [returns] *)
  Lemma existsb_gty t l : existsb (gty_eqb t) l = true <-> In t l.
  Proof.
    rewrite existsb_exists. split.
    - intros [x [Hin He]]. apply gty_eqb_eq in He. subst. exact Hin.
    - intros Hin. exists t. split; [exact Hin | apply gty_eqb_eq; reflexivity].
  Qed.

  Lemma returns_level_spec : calls_closed nodes = true ->
    forall k t, In t (positions nodes) -> returns k t = returns_level nodes k t.
  Proof.
    intros Hcl. unfold calls_closed in Hcl. rewrite forallb_forall in Hcl.
    induction k as [|k IH]; intros t Ht; [reflexivity|].
    unfold returns_level. cbn [RandData.returns returning].
    assert (Hcalls : forall c, In c (rand_calls t) -> In c (positions nodes)).
    { intros c Hc. pose proof (Hcl t Ht) as H. rewrite forallb_forall in H. apply existsb_gty. apply H. exact Hc. }
    assert (Heq : forallb (returns k) (rand_calls t) = forallb (fun c => existsb (gty_eqb c) (returning nodes k)) (rand_calls t)).
    { clear - IH Hcalls. induction (rand_calls t) as [|c l IHl]; [reflexivity|]. cbn [forallb].
      rewrite (IH c (Hcalls c (or_introl eq_refl))). rewrite IHl; [reflexivity|]. intros c' Hc'. apply Hcalls. right. exact Hc'. }
    rewrite Heq. destruct (forallb (fun c => existsb (gty_eqb c) (returning nodes k)) (rand_calls t)) eqn:E.
    - symmetry. apply existsb_gty. apply filter_In. split; [exact Ht | exact E].
    - symmetry. apply not_true_is_false. intros H. apply existsb_gty in H. apply filter_In in H. destruct H as [_ H]. congruence.
  Qed.
End C15.
