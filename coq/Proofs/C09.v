(** Proofs about field selection and JSON naming (Model/Fields.v). *)
From Coq Require Import List String Ascii Bool Arith.
From GM Require Import Model.Fields.
Import ListNotations.
Local Open Scope string_scope.
Local Open Scope list_scope.

Lemma exported_iff f : exported f = std_serialised f && negb (gomacro_ignored f).
Proof.
  unfold exported, std_serialised, gomacro_ignored.
  destruct (String.eqb (tag_lookup "json" (sf_tag f)) "-"); simpl; [rewrite andb_false_r; reflexivity|].
  destruct (String.eqb (tag_lookup "gomacro" (sf_tag f)) "ignore"); simpl; [rewrite andb_false_r; reflexivity|].
  rewrite !andb_true_r. reflexivity.
Qed.

Lemma json_name_std f : tag_supported f = true -> json_name f = std_key f.
Proof.
  unfold tag_supported, json_name, std_key. intro H.
  destruct (String.eqb (before_comma (tag_lookup "json" (sf_tag f))) ""); simpl in *; [reflexivity|].
  rewrite H. reflexivity.
Qed.

(** selection and keys coincide with encoding/json's on the struct without its gomacro-ignored fields *)
Lemma selected_keys_std fs : forallb tag_supported fs = true ->
  selected_keys fs = std_keys (filter (fun f => negb (gomacro_ignored f)) fs).
Proof.
  unfold selected_keys, std_keys. induction fs as [|f r IH]; simpl; intro H; [reflexivity|].
  apply andb_true_iff in H. destruct H as [Hf Hr]. rewrite exported_iff.
  destruct (gomacro_ignored f); simpl.
  - rewrite andb_false_r. apply IH. assumption.
  - rewrite andb_true_r. destruct (std_serialised f); simpl; [|apply IH; assumption].
    rewrite (json_name_std f Hf), (IH Hr). reflexivity.
Qed.

Lemma selected_iff fs f : In f fs ->
  (In f (filter exported fs) <-> std_serialised f = true /\ gomacro_ignored f = false).
Proof.
  intro Hin. rewrite filter_In, exported_iff, andb_true_iff, negb_true_iff. tauto.
Qed.

(** adding or removing an ignored field changes nothing; retyping never matters (keys do not depend on types) *)
Lemma ignored_field_invariance l1 l2 f : exported f = false ->
  selected_keys (l1 ++ f :: l2) = selected_keys (l1 ++ l2).
Proof.
  intro H. unfold selected_keys. rewrite !filter_app. simpl. rewrite H. reflexivity.
Qed.

(** the pinned JSONName returned the options too *)
Lemma json_name_pinned_refuted :
  let f := {| sf_name := "A"; sf_tag := "json:""x,omitempty"""; sf_go_exported := true; sf_embedded_struct := false |} in
  tag_supported f = true /\ json_name_pinned f = "x,omitempty" /\ std_key f = "x".
Proof. repeat split. Qed.

(** reflect.StructTag.Get on the conventional layout *)
Lemma tag_lookup_examples :
  tag_lookup "json" "json:""a,omitempty"" xml:""b""" = "a,omitempty" /\
  tag_lookup "json" "xml:""b"" json:""-""" = "-" /\
  tag_lookup "gomacro" "json:""x"" gomacro:""ignore""" = "ignore" /\
  tag_lookup "json" "json:x" = "" /\ tag_lookup "json" "" = "".
Proof. repeat split. Qed.
