(** Proofs about the classifier and the closure (Model/Classify.v). *)
From Coq Require Import List String ZArith Bool Arith Lia.
From GM Require Import Base.Result Facts.GoFacts Facts.Ana Model.Enums Model.Unions Model.Classify.
Import ListNotations.
Local Open Scope string_scope.
Local Open Scope list_scope.

Lemma bkind_eqb_eq a b : bkind_eqb a b = true <-> a = b.
Proof. destruct a, b; simpl; split; intro H; try reflexivity; try discriminate. Qed.

Lemma gty_eqb_eq a : forall b, gty_eqb a b = true <-> a = b.
Proof.
  induction a as [k|id|e IH|n e IH|e IH|k IHk e IHe|s|s]; intros [k'|id'|e'|n' e'|e'|k' e'|s'|s']; simpl;
    try (split; intro H; discriminate).
  - rewrite bkind_eqb_eq. split; congruence.
  - rewrite String.eqb_eq. split; congruence.
  - rewrite IH. split; congruence.
  - rewrite andb_true_iff, Z.eqb_eq, IH. split; [intros [-> ->]; reflexivity|intro H; inversion H; auto].
  - rewrite IH. split; congruence.
  - rewrite andb_true_iff, IHk, IHe. split; [intros [-> ->]; reflexivity|intro H; inversion H; auto].
  - rewrite String.eqb_eq. split; congruence.
  - rewrite String.eqb_eq. split; congruence.
Qed.

Section Closure.
  Variable pr : prog.
  Variable enums : list enum.
  Variable unions : list (string * list string).
  Notation classify := (classify pr enums unions).
  Notation closure := (closure pr enums unions).

  Lemma seen_mem_In t seen : seen_mem t seen = true <-> In t (map fst seen).
  Proof.
    unfold seen_mem. rewrite existsb_exists, in_map_iff. split.
    - intros [p [Hp E]]. apply gty_eqb_eq in E. exists p. auto.
    - intros [p [E Hp]]. exists p. split; [assumption|]. apply gty_eqb_eq. auto.
  Qed.

  Definition sound (l : list (gty * shape)) : Prop := forall t sh, In (t, sh) l -> classify t = Ok sh.
  Definition closed_upto (l : list (gty * shape)) (work : list gty) : Prop :=
    forall t sh c, In (t, sh) l -> In c (sh_children sh) -> In c (map fst l) \/ In c work.

  Lemma closure_spec fuel : forall work seen res,
    closure fuel work seen = Ok res -> sound seen -> closed_upto seen work ->
    sound res /\ closed_upto res [] /\
    (forall t, In t work -> In t (map fst res)) /\ (forall t, In t (map fst seen) -> In t (map fst res)).
  Proof.
    induction fuel as [|f IH]; intros work seen res H Hs Hc; simpl in H; [discriminate|].
    destruct work as [|t rest].
    - inversion H; subst res. clear H. repeat split.
      + intros t sh Hin. apply in_rev in Hin. apply Hs. assumption.
      + intros t sh c Hin Hch. apply in_rev in Hin. destruct (Hc t sh c Hin Hch) as [X|[]].
        left. rewrite map_rev. apply -> in_rev. assumption.
      + intros t [].
      + intros t Hin. rewrite map_rev. apply -> in_rev. assumption.
    - destruct (seen_mem t seen) eqn:Em.
      + apply seen_mem_In in Em.
        destruct (IH rest seen res H Hs) as [A [B [C D]]].
        { intros t' sh c Hin Hch. destruct (Hc t' sh c Hin Hch) as [X|[X|X]]; auto. subst. auto. }
        repeat split; auto. intros t' [<-|Hin]; auto.
      + destruct (classify t) as [sh| |] eqn:Ec; simpl in H; try discriminate.
        destruct (IH (sh_children sh ++ rest) ((t, sh) :: seen) res H) as [A [B [C D]]].
        { intros t' sh' [E|Hin]; [inversion E; subst; assumption|apply Hs; assumption]. }
        { intros t' sh' c [E|Hin] Hch.
          - inversion E; subst. right. apply in_app_iff. auto.
          - destruct (Hc t' sh' c Hin Hch) as [X|[X|X]].
            + left. simpl. auto.
            + subst. left. simpl. auto.
            + right. apply in_app_iff. auto. }
        repeat split; auto.
        * intros t' [<-|Hin]; [apply D; simpl; auto|apply C; apply in_app_iff; auto].
        * intros t' Hin. apply D. simpl. auto.
  Qed.

  (** the result of the analysis closure: sound, closed, contains every source declaration *)
  Lemma analyse_closure_spec source fuel res :
    analyse_closure pr enums unions source fuel = Ok res ->
    (forall t sh, In (t, sh) res -> classify t = Ok sh) /\
    (forall t sh c, In (t, sh) res -> In c (sh_children sh) -> In c (map fst res)) /\
    (forall t, In t source -> In t (map fst res)).
  Proof.
    unfold analyse_closure. intro H.
    destruct (closure_spec fuel source [] res H) as [A [B [C _]]].
    - intros t sh [].
    - intros t sh c [].
    - repeat split; auto. intros t sh c Hin Hch. destruct (B t sh c Hin Hch) as [X|[]]. assumption.
  Qed.

  (** positions are classified once *)
  Lemma closure_nodup fuel : forall work seen res,
    closure fuel work seen = Ok res -> NoDup (map fst seen) -> NoDup (map fst res).
  Proof.
    induction fuel as [|f IH]; intros work seen res H Hn; simpl in H; [discriminate|].
    destruct work as [|t rest].
    - inversion H; subst. rewrite map_rev. apply NoDup_rev. assumption.
    - destruct (seen_mem t seen) eqn:Em; [eapply IH; eauto|].
      destruct (classify t) as [sh| |] eqn:Ec; simpl in H; try discriminate.
      eapply IH; [exact H|]. simpl. constructor; [|assumption].
      intro Hin. apply seen_mem_In in Hin. congruence.
  Qed.

  (** ** faithfulness of one classification step *)
  Definition faithful_shape (t : gty) (sh : shape) : Prop :=
    match t with
    | GBasic k => sh_kind sh = KdBasic /\ sh_bkind sh = Some k /\ sh_self sh = t /\ sh_children sh = []
    | GPointer e => sh_kind sh = KdPointer /\ sh_self sh = predef t /\ sh_children sh = [e]
    | GArray n e => sh_kind sh = KdArray /\ sh_len sh = n /\ sh_self sh = predef t /\ sh_children sh = [e]
    | GSlice e => sh_kind sh = KdArray /\ sh_len sh = (-1)%Z /\ sh_self sh = predef t /\ sh_children sh = [e]
    | GMap k e => sh_kind sh = KdMap /\ sh_self sh = predef t /\ sh_children sh = [k; e]
    | GNamed id =>
        exists d, find_type id (pr_types pr) = Some d /\
          match sh_kind sh with
          | KdTime => n_is_time d = true /\ n_pkg d = "time" /\ sh_self sh = time_self (sh_is_date sh) /\ sh_children sh = []
          | KdNamed => sh_self sh = t /\ sh_children sh = [under_gty d]
          | KdEnum => sh_self sh = t /\ is_enum enums id = true /\ sh_children sh = []
          | KdUnion => sh_self sh = t /\ exists ms, union_members unions id = Some ms /\ sh_children sh = map GNamed ms
          | KdStruct => sh_self sh = t /\ exists fs, n_under d = UStruct fs /\
                          sh_children sh = map f_type (flat_fields pr enums unions (List.length (pr_types pr)) fs)
          | _ => False
          end
    | GStructLit s => sh_kind sh = KdTime /\ sh_self sh = time_self (sh_is_date sh) /\ sh_children sh = []
    | GOther _ => False
    end.

  Lemma classify_faithful t sh : classify t = Ok sh -> faithful_shape t sh.
  Proof.
    destruct t as [k|id|e|n e|e|k e|s|s]; simpl; intro H; try (inversion H; subst; simpl; repeat split; reflexivity).
    - destruct (find_type id (pr_types pr)) as [d|] eqn:F; [|discriminate]. exists d. split; [reflexivity|].
      destruct (n_is_time d) eqn:Et.
      + destruct (String.eqb_spec (n_pkg d) "time"); inversion H; subst; simpl; repeat split; auto.
      + destruct (is_enum enums id) eqn:Ee; [inversion H; subst; simpl; repeat split; auto|].
        destruct (union_members unions id) as [ms|] eqn:Eu; [inversion H; subst; simpl; split; [reflexivity|]; exists ms; auto|].
        destruct (n_under d) eqn:Eun; inversion H; subst; simpl; try (split; [reflexivity|unfold under_gty; rewrite Eun; reflexivity]).
        split; [reflexivity|]. eexists. split; reflexivity.
    - destruct (String.prefix time_pos_prefix s); [|discriminate].
      destruct (find_type _ _); inversion H; subst; simpl; repeat split; reflexivity.
  Qed.
End Closure.
