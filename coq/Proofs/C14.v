From Coq Require Import List String Ascii Bool Arith.
From GM Require Import Model.Http Model.Classify Model.Axios.
Import ListNotations.
Local Open Scope string_scope.

Lemma lower_post_put e : expects_body e = true -> takes_data (lower (ep_method e)) = true.
Proof.
  unfold expects_body, takes_data. intro H. apply orb_true_iff in H.
  destruct H as [H|H]; apply String.eqb_eq in H; rewrite H; reflexivity.
Qed.

Lemma call_is_request a : body_verb_ok (ae a) = true -> call (gen_method a) = request_of a.
Proof.
  unfold body_verb_ok, call, request_of, gen_method. set (e := ae a). simpl. intro H.
  destruct (expects_body e) eqn:Ex.
  - rewrite (lower_post_put e Ex). simpl. destruct (with_form e); destruct (has_body e); reflexivity.
  - simpl in H. apply negb_true_iff in H. apply orb_false_iff in H. destruct H as [H1 H2]. rewrite H1, H2. simpl.
    rewrite andb_false_r. reflexivity.
Qed.

(** outside that class the request is wrong: the data argument of get/delete is read as the config *)
Lemma get_with_body_refuted :
  let e := {| ep_url := "/x"; ep_method := "GET"; ep_name := "h"; ep_input := "int"; ep_return := ""; ep_blob := false;
              ep_query := []; ep_form_values := []; ep_file := ""; ep_json := ("", "") |} in
  call (gen_method {| ae := e; ae_kinds := [] |}) <> request_of {| ae := e; ae_kinds := [] |}.
Proof. vm_compute. discriminate. Qed.

Lemma one_method_per_endpoint (l : list aendpoint) :
  map mi_name (map gen_method l) = map (fun a => ep_name (ae a)) l.
Proof. rewrite map_map. reflexivity. Qed.
