(** C15 / C01, randdata: every function the generated functions call is declared by the output, for every
    analysed program (RG.RandGen.v). The cache holds a type before its function is declared (recursive types):
    the invariant speaks of the types being visited ("pending"). *)
From Coq Require Import List String Ascii ZArith Bool Arith Lia.
From GM Require Import Base.Result Facts.GoFacts Facts.Ana Model.Enums Model.Fields Model.Names Model.RandGen.
Import ListNotations.
Local Open Scope string_scope.

Lemma mapM_in {A B} (f : A -> result B) : forall l ys, mapM f l = Ok ys -> forall y, In y ys -> exists x, In x l /\ f x = Ok y.
Proof.
  induction l as [|x r IH]; intros ys H y Hy; simpl in H.
  - inversion H; subst. destruct Hy.
  - destruct (f x) as [b| |] eqn:Fx; simpl in H; try discriminate.
    destruct (mapM f r) as [bs| |] eqn:M; simpl in H; try discriminate. inversion H; subst.
    destruct Hy as [E|Hy].
    + subst. exists x. split; [left; reflexivity|exact Fx].
    + destruct (IH _ eq_refl _ Hy) as [x' [Hin Hx]]. exists x'. split; [right; exact Hin|exact Hx].
Qed.

Section Closure.
  Variable pr : prog.
  Variable nodes : list nrec.
  Variable enums : list enum.
  Variable F : nat.

  Notation kf := (key_fid pr F).
  Notation fd := (fid pr nodes F).

  Definition Inv (cache pending : list string) (out : list rdecl) : Prop :=
    forall k, In k cache -> In k pending \/ (forall s, kf k = Ok s -> In s (ids out)).

  Definition called_ok (pending : list string) (all : list rdecl) (c : string) : Prop :=
    In c (ids all) \/ exists k, In k pending /\ kf k = Ok c.

  Definition refs_ok (ds all : list rdecl) (pending : list string) : Prop :=
    forall d c, In d ds -> In c (rd_calls d) -> called_ok pending all c.

  Definition Spec (g : list string -> gty -> result (list string * list rdecl)) : Prop :=
    forall cache t cache' ds pending out, g cache t = Ok (cache', ds) -> Inv cache pending out ->
      Inv cache' pending (out ++ ds)
      /\ (forall s, fd t = Ok s -> called_ok pending (out ++ ds) s)
      /\ refs_ok ds (out ++ ds) pending.

  Lemma ids_app a b : ids (a ++ b) = (ids a ++ ids b)%list.
  Proof. unfold ids. apply map_app. Qed.

  Lemma called_mono pending all more c : called_ok pending all c -> called_ok pending (all ++ more) c.
  Proof. intros [H|H]; [left; rewrite ids_app; apply in_or_app; left; exact H|right; exact H]. Qed.

  Lemma Inv_mono c p out ds : Inv c p out -> Inv c p (out ++ ds).
  Proof.
    intros H k Hk. destruct (H k Hk) as [A|A]; [left; exact A|right].
    intros s Hs. rewrite ids_app. apply in_or_app. left. apply A. exact Hs.
  Qed.

  Lemma refs_mono ds all more p : refs_ok ds all p -> refs_ok ds (all ++ more) p.
  Proof. intros H d c Hd Hc. apply called_mono. eapply H; eassumption. Qed.

  Lemma refs_app a b all p : refs_ok a all p -> refs_ok b all p -> refs_ok (a ++ b) all p.
  Proof. intros Ha Hb d c Hd. apply in_app_or in Hd. destruct Hd; [eapply Ha|eapply Hb]; eassumption. Qed.

  Lemma gen_list_spec g : Spec g -> forall ts cache cache' ds pending out,
    gen_list g ts cache = Ok (cache', ds) -> Inv cache pending out ->
    Inv cache' pending (out ++ ds)
    /\ (forall t, In t ts -> forall s, fd t = Ok s -> called_ok pending (out ++ ds) s)
    /\ refs_ok ds (out ++ ds) pending.
  Proof.
    intro Hg. induction ts as [|t r IH]; intros cache cache' ds pending out H HI; cbn [gen_list] in H.
    - inversion H; subst. rewrite app_nil_r. split; [exact HI|]. split; [intros t []|intros d c []].
    - destruct (g cache t) as [[c1 d1]| |] eqn:G; simpl in H; try discriminate.
      destruct (gen_list g r c1) as [[c2 d2]| |] eqn:GL; simpl in H; try discriminate.
      inversion H; subst. clear H.
      destruct (Hg _ _ _ _ pending out G HI) as [I1 [P1 R1]].
      destruct (IH _ _ _ pending (out ++ d1)%list GL I1) as [I2 [P2 R2]].
      rewrite app_assoc. split; [exact I2|]. split.
      + intros t' [E|Hin] s Hs; [subst t'; apply called_mono; apply P1; exact Hs|eapply P2; eassumption].
      + apply refs_app; [apply refs_mono; exact R1|exact R2].
  Qed.

  (** the function of a type is declared once its children are done *)
  Lemma finish cache2 pending pending' out dsr d ks :
    (forall k', In k' pending' -> In k' pending \/ kf k' = Ok (rd_id d)) ->
    Inv cache2 pending' (out ++ dsr) ->
    (forall t', In t' ks -> forall s, fd t' = Ok s -> called_ok pending' (out ++ dsr) s) ->
    refs_ok dsr (out ++ dsr) pending' ->
    mapM fd ks = Ok (rd_calls d) ->
    Inv cache2 pending (out ++ (dsr ++ [d])) /\ refs_ok (dsr ++ [d]) (out ++ (dsr ++ [d])) pending.
  Proof.
    intros Hp HI HP HR HM.
    assert (Hd : In (rd_id d) (ids (out ++ (dsr ++ [d])))).
    { rewrite !ids_app. apply in_or_app. right. apply in_or_app. right. left. reflexivity. }
    assert (Hc : forall c, called_ok pending' (out ++ dsr) c -> called_ok pending (out ++ (dsr ++ [d])) c).
    { intros c [A|[k' [Hk Hkf]]].
      - left. rewrite app_assoc, ids_app. apply in_or_app. left. exact A.
      - destruct (Hp _ Hk) as [B|B]; [right; exists k'; split; assumption|].
        left. rewrite Hkf in B. inversion B; subst. exact Hd. }
    split.
    - intros k' Hk'. destruct (HI _ Hk') as [A|A].
      + destruct (Hp _ A) as [B|B]; [left; exact B|]. right. intros s Hs. rewrite Hs in B. inversion B; subst. exact Hd.
      + right. intros s Hs. rewrite app_assoc, ids_app. apply in_or_app. left. apply A. exact Hs.
    - apply refs_app.
      + intros d' c Hd' Hc'. apply Hc. eapply HR; eassumption.
      + intros d' c [E|[]] Hc'. subst d'. destruct (mapM_in _ _ _ HM _ Hc') as [t' [Ht' Hf]]. apply Hc. eapply HP; eassumption.
  Qed.

  Lemma fid_keyed t n k : find_node t nodes = Some n -> node_key n = Some k -> fd t = kf k \/ F = 0.
  Proof.
    intros Hn Hk. destruct F as [|f]; [right; reflexivity|left]. cbn [fid]. rewrite Hn, Hk. reflexivity.
  Qed.

  Lemma gen_spec : forall fuel, Spec (generate pr nodes enums F fuel).
  Proof.
    induction fuel as [|f IH]; intros cache t cache' ds pending out H HI; cbn [generate] in H; [discriminate|].
    destruct (find_node t nodes) as [n|] eqn:Fn; [|discriminate].
    destruct (node_key n) as [k|] eqn:NK.
    - destruct (existsb (String.eqb k) cache) eqn:Hit.
      + (* already in the cache *)
        inversion H; subst. rewrite app_nil_r. split; [exact HI|]. split; [|intros d c []].
        intros s Hs. apply existsb_exists in Hit. destruct Hit as [k' [Hin E]]. apply String.eqb_eq in E. subst k'.
        destruct (fid_keyed _ _ _ Fn NK) as [E|E].
        * rewrite E in Hs. destruct (HI _ Hin) as [A|A]; [right; exists k; split; assumption|left; apply A; exact Hs].
        * rewrite E in Hs. simpl in Hs. discriminate.
      + destruct (nameable pr n); simpl in H; try discriminate.
        destruct (kids enums n) as [ks| |]; simpl in H; try discriminate.
        destruct (gen_list (generate pr nodes enums F f) ks (k :: cache)) as [[c2 dsr]| |] eqn:GL; simpl in H; try discriminate.
        destruct (fd t) as [id| |] eqn:Fid; simpl in H; try discriminate.
        destruct (mapM fd ks) as [calls| |] eqn:MC; simpl in H; try discriminate.
        inversion H; subst. clear H.
        assert (HI1 : Inv (k :: cache) (k :: pending) out).
        { intros k' [E|Hk']; [left; left; exact E|]. destruct (HI _ Hk') as [A|A]; [left; right; exact A|right; exact A]. }
        destruct (gen_list_spec _ IH _ _ _ _ (k :: pending) out GL HI1) as [I2 [P2 R2]].
        assert (Hp : forall k', In k' (k :: pending) -> In k' pending \/ kf k' = Ok (rd_id {| rd_id := id; rd_calls := calls |})).
        { intros k' [E|Hk']; [|left; exact Hk']. subst k'. right. simpl.
          destruct (fid_keyed _ _ _ Fn NK) as [E|E]; [rewrite <- E; exact Fid|]. rewrite E in Fid. simpl in Fid. discriminate. }
        destruct (finish _ pending _ out dsr {| rd_id := id; rd_calls := calls |} ks Hp I2 P2 R2 MC) as [A B].
        split; [exact A|]. split; [|exact B].
        intros s Hs. inversion Hs; subst. left. rewrite !ids_app. apply in_or_app. right. apply in_or_app. right. left. reflexivity.
    - destruct (nameable pr n); simpl in H; try discriminate.
      destruct (kids enums n) as [ks| |]; simpl in H; try discriminate.
      destruct (gen_list (generate pr nodes enums F f) ks cache) as [[c2 dsr]| |] eqn:GL; simpl in H; try discriminate.
      destruct (fd t) as [id| |] eqn:Fid; simpl in H; try discriminate.
      destruct (mapM fd ks) as [calls| |] eqn:MC; simpl in H; try discriminate.
      inversion H; subst. clear H.
      destruct (gen_list_spec _ IH _ _ _ _ pending out GL HI) as [I2 [P2 R2]].
      assert (Hp : forall k', In k' pending -> In k' pending \/ kf k' = Ok (rd_id {| rd_id := id; rd_calls := calls |})) by (intros; left; assumption).
      destruct (finish _ pending _ out dsr {| rd_id := id; rd_calls := calls |} ks Hp I2 P2 R2 MC) as [A B].
      split; [exact A|]. split; [|exact B].
      intros s Hs. inversion Hs; subst. left. rewrite !ids_app. apply in_or_app. right. apply in_or_app. right. left. reflexivity.
  Qed.

  Theorem randdata_closed src ds : randdata pr nodes enums F src = Ok ds -> closed ds = true.
  Proof.
    unfold randdata. destruct (gen_list _ src []) as [[c d]| |] eqn:GL; simpl; try discriminate.
    intro H. inversion H; subst. clear H.
    assert (HI : Inv [] [] []) by (intros k []).
    destruct (gen_list_spec _ (gen_spec _) _ _ _ _ [] [] GL HI) as [_ [_ R]]. simpl in R.
    unfold closed. apply forallb_forall. intros d' Hd. apply forallb_forall. intros c' Hc.
    destruct (R _ _ Hd Hc) as [A|[k [[] _]]]. apply existsb_exists. exists c'. split; [exact A|apply String.eqb_refl].
  Qed.
End Closure.

(** * A recursive type: the cache holds Tree while its fields are visited; its function is declared last *)
Definition rx_decl (id name : string) (u : gunder) : ndecl :=
  {| n_id := id; n_pkg := "m"; n_pkg_name := "m"; n_name := name; n_targs := []; n_under := u; n_exported := true;
     n_is_time := false; n_mset := []; n_in_scope := true |}.

Definition rx_node (at_ : gty) (k : akind) (len : Z) (bk : option bkind) (children : list gty) (fields : list afield) : nrec :=
  {| nr_at := at_; nr_kind := k; nr_self := at_; nr_len := len; nr_bkind := bk; nr_is_date := false; nr_children := children;
     nr_fields := fields; nr_comments := []; nr_implements := []; nr_members := []; nr_in_types := true |}.

Definition rx_field (name : string) (t : gty) (tag : string) (exported : bool) : afield :=
  {| af_name := name; af_type := t; af_tag := tag; af_go_exported := exported; af_exported := exported; af_json := name |}.

(** type Tree struct { Children []Tree; Name string; hidden int; Skip int `gomacro-data:"ignore"` } *)
Definition rx_prog : prog := {| pr_root := "m"; pr_pkgs := []; pr_types := [rx_decl "m.Tree" "Tree" (UStruct [])] |}.

Definition rx_nodes : list nrec :=
  [rx_node (GNamed "m.Tree") KdStruct 0 None [GSlice (GNamed "m.Tree"); GBasic KString; GBasic KInt; GBasic KInt]
     [rx_field "Children" (GSlice (GNamed "m.Tree")) "" true; rx_field "Name" (GBasic KString) "" true;
      rx_field "hidden" (GBasic KInt) "" false; rx_field "Skip" (GBasic KInt) "gomacro-data:""ignore""" true];
   rx_node (GSlice (GNamed "m.Tree")) KdArray (-1) None [GNamed "m.Tree"] [];
   rx_node (GBasic KString) KdBasic 0 (Some KString) [] [];
   rx_node (GBasic KInt) KdBasic 0 (Some KInt) [] []].

Lemma recursive_struct_example :
  exists ds, randdata rx_prog rx_nodes [] 8 [GNamed "m.Tree"] = Ok ds
    /\ map rd_id ds = ["SliceTree"; "string"; "Tree"]
    /\ map rd_calls ds = [["Tree"]; []; ["SliceTree"; "string"]]
    /\ closed ds = true.
Proof. eexists. split; [vm_compute; reflexivity|]. vm_compute. repeat split. Qed.
