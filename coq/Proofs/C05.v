(** C05: the statements of the generated CRUD functions, executed over one table (Sem/SqlStore.v),
    behave like the obvious model on lists of items; for every table (any column list without two
    names equal up to case, the id at any position) and every history of calls. *)
From Coq Require Import List String Ascii ZArith Bool Arith Lia.
From GM Require Import Model.Classify Model.Crud Sem.SqlStore.
Import ListNotations.
Local Open Scope string_scope.

(** * folding to lower case is idempotent *)
Lemma lower_ascii_idem c : lower_ascii (lower_ascii c) = lower_ascii c.
Proof. destruct c as [[] [] [] [] [] [] [] []]; reflexivity. Qed.

Lemma lower_idem s : lower (lower s) = lower s.
Proof. induction s as [|c s IH]; simpl; [reflexivity | rewrite lower_ascii_idem, IH; reflexivity]. Qed.

(** * lists *)
Fixpoint set_nth {A} (n : nat) (x : A) (l : list A) : list A :=
  match l, n with
  | [], _ => []
  | _ :: r, O => x :: r
  | y :: r, S m => y :: set_nth m x r
  end.

Lemma set_nth_length {A} n (x : A) l : List.length (set_nth n x l) = List.length l.
Proof. revert n. induction l as [|y l IH]; intros [|n]; simpl; auto. Qed.

Lemma nth_set_nth {A} n j (x d : A) l : n < List.length l -> nth j (set_nth n x l) d = if Nat.eqb j n then x else nth j l d.
Proof.
  revert n j. induction l as [|y l IH]; intros n j Hn; simpl in Hn; [lia|].
  destruct n as [|n], j as [|j]; simpl; try reflexivity. apply IH. lia.
Qed.

Lemma remove_nth_length {A} n (l : list A) : n < List.length l -> S (List.length (remove_nth n l)) = List.length l.
Proof. revert n. induction l as [|y l IH]; intros [|n] H; simpl in *; try lia. rewrite IH; lia. Qed.

Lemma filter_map_comm {A B} (f : B -> bool) (g : A -> B) l : filter f (map g l) = map g (filter (fun x => f (g x)) l).
Proof. induction l as [|x l IH]; simpl; [reflexivity|]. destruct (f (g x)); simpl; rewrite IH; reflexivity. Qed.

(** * the value written in a column: by position in the argument list, then by name *)
Fixpoint wl (names : list string) (vals : list val) (c : string) : option val :=
  match names, vals with
  | x :: names', v :: vals' => if String.eqb (lower x) c then Some v else wl names' vals' c
  | _, _ => None
  end.

Lemma written_seq names : forall vals extra pre c, List.length vals = List.length names ->
  written names (seq (S (List.length pre)) (List.length names)) (pre ++ map AV vals ++ extra) c = wl names vals c.
Proof.
  induction names as [|x names IH]; intros vals extra pre c Hl; [reflexivity|].
  destruct vals as [|v vals]; [discriminate|]. cbn [List.length seq written wl map].
  assert (Ha : arg_val (pre ++ (AV v :: map AV vals) ++ extra) (S (List.length pre)) = v).
  { unfold arg_val. replace (S (List.length pre) - 1) with (List.length pre) by lia.
    rewrite nth_error_app2 by lia. rewrite Nat.sub_diag. reflexivity. }
  rewrite Ha. destruct (String.eqb (lower x) c); [reflexivity|].
  specialize (IH vals extra (pre ++ [AV v])%list c ltac:(simpl in Hl; lia)).
  rewrite app_length in IH. cbn [List.length] in IH. replace (List.length pre + 1) with (S (List.length pre)) in IH by lia.
  rewrite <- IH. f_equal. rewrite <- app_assoc. reflexivity.
Qed.

Lemma wl_none names : forall vals c, ~ In c (map lower names) -> wl names vals c = None.
Proof.
  induction names as [|x names IH]; intros vals c Hn; [reflexivity|]. destruct vals as [|v vals]; [reflexivity|]. cbn [wl].
  destruct (String.eqb (lower x) c) eqn:E; [apply String.eqb_eq in E; exfalso; apply Hn; left; exact E|].
  apply IH. intros H. apply Hn. right. exact H.
Qed.

Lemma wl_remove names : forall vals p c, NoDup (map lower names) -> List.length vals = List.length names -> p < List.length names ->
  wl (remove_nth p names) (remove_nth p vals) c = if String.eqb (lower (nth p names "")) c then None else wl names vals c.
Proof.
  induction names as [|x names IH]; intros vals p c Hnd Hl Hp; [simpl in Hp; lia|].
  destruct vals as [|v vals]; [discriminate|]. inversion Hnd as [|? ? Hnotin Hnd']; subst.
  destruct p as [|p]; cbn [remove_nth nth wl].
  - destruct (String.eqb (lower x) c) eqn:E; [|reflexivity]. apply String.eqb_eq in E. subst c. apply wl_none. exact Hnotin.
  - destruct (String.eqb (lower x) c) eqn:E.
    + apply String.eqb_eq in E. subst c.
      destruct (String.eqb (lower (nth p names "")) (lower x)) eqn:E2; [|reflexivity].
      apply String.eqb_eq in E2. exfalso. apply Hnotin. rewrite <- E2. apply in_map. apply nth_In. simpl in Hp. lia.
    + apply IH; [exact Hnd' | simpl in Hl; lia | simpl in Hp; lia].
Qed.

Lemma wl_nth names : forall vals j, NoDup (map lower names) -> List.length vals = List.length names -> j < List.length names ->
  wl names vals (lower (nth j names "")) = Some (nth j vals None).
Proof.
  induction names as [|x names IH]; intros vals j Hnd Hl Hj; [simpl in Hj; lia|].
  destruct vals as [|v vals]; [discriminate|]. inversion Hnd as [|? ? Hnotin Hnd']; subst.
  destruct j as [|j]; cbn [nth wl].
  - rewrite String.eqb_refl. reflexivity.
  - destruct (String.eqb (lower x) (lower (nth j names ""))) eqn:E.
    + apply String.eqb_eq in E. exfalso. apply Hnotin. rewrite E. apply in_map. apply nth_In. simpl in Hj. lia.
    + apply IH; [exact Hnd' | simpl in Hl; lia | simpl in Hj; lia].
Qed.

(** * one table: [cols] are the folded names of the non-guard columns, the id is the p-th *)
Section Table.
  Variable dflt : string -> val.
  Variable table : string.
  Variable cols : list string.
  Variable p : nat.
  Hypothesis Hlow : forall c, In c cols -> lower c = c.
  Hypothesis Hnd : NoDup cols.
  Hypothesis Hp : nth_error cols p = Some "id".

  Notation item := (list (option Z)) (only parsing).   (* the fields of the Go struct, in scan order *)
  Definition proj (r : row) : item := project cols r.
  Definition abs (tb : tbl) : list item := map proj (t_rows tb).

  Lemma p_lt : p < List.length cols.
  Proof. apply nth_error_Some. rewrite Hp. discriminate. Qed.

  Lemma nth_p : nth p cols "" = "id".
  Proof. apply nth_error_nth. exact Hp. Qed.

  Lemma map_lower_cols : map lower cols = cols.
  Proof. rewrite <- (map_id cols) at 2. apply map_ext_in. exact Hlow. Qed.

  Lemma Hnd_lower : NoDup (map lower cols).
  Proof. rewrite map_lower_cols. exact Hnd. Qed.

  Lemma proj_length r : List.length (proj r) = List.length cols.
  Proof. unfold proj, project. apply map_length. Qed.

  Lemma nth_proj r j : j < List.length cols -> nth j (proj r) None = r (nth j cols "").
  Proof.
    intros Hj. unfold proj, project.
    rewrite (nth_indep _ None ((fun c => r (lower c)) "")) by (rewrite map_length; exact Hj).
    transitivity (r (lower (nth j cols ""))); [exact (map_nth (fun c => r (lower c)) cols "" j)|].
    rewrite Hlow by (apply nth_In; exact Hj). reflexivity.
  Qed.

  Lemma nth_p_proj r : nth p (proj r) None = r "id".
  Proof. rewrite nth_proj by exact p_lt. rewrite nth_p. reflexivity. Qed.

  (** the statements of the model, for a table with an id *)
  Definition ncols := remove_nth p cols.
  Definition ins_stmt := SInsert table ncols (seq 1 (List.length ncols)) cols.
  Definition upd_stmt := SUpdate table ncols (seq 1 (List.length ncols)) "id" (List.length cols) cols.
  Definition ins_args (it : item) : list arg := map AV (remove_nth p it).
  Definition upd_args (it : item) : list arg := (map AV (remove_nth p it) ++ [AV (nth p it None)])%list.

  Lemma ncols_length (it : item) : List.length it = List.length cols -> List.length (remove_nth p it) = List.length ncols.
  Proof.
    intros Hl. unfold ncols. pose proof p_lt as Hlt.
    pose proof (remove_nth_length p it ltac:(lia)). pose proof (remove_nth_length p cols Hlt). lia.
  Qed.

  Lemma ret_match {A} (x : list A) : match cols with [] => [] | _ :: _ => x end = x.
  Proof. pose proof p_lt as Hlt. destruct cols; [simpl in Hlt; lia | reflexivity]. Qed.

  (** what INSERT and UPDATE write, column by column *)
  Lemma written_cols (it : item) extra j : List.length it = List.length cols -> j < List.length cols ->
    written ncols (seq 1 (List.length ncols)) (map AV (remove_nth p it) ++ extra) (nth j cols "")
    = if Nat.eqb j p then None else Some (nth j it None).
  Proof.
    intros Hl Hj. pose proof p_lt as Hlt.
    pose proof (written_seq ncols (remove_nth p it) extra [] (nth j cols "") (ncols_length it Hl)) as Hw.
    cbn [List.length app] in Hw. rewrite Hw. unfold ncols.
    rewrite (wl_remove cols it p (nth j cols "") Hnd_lower Hl Hlt).
    rewrite (Hlow (nth p cols "")) by (apply nth_In; exact Hlt).
    destruct (Nat.eqb j p) eqn:E.
    - apply Nat.eqb_eq in E. subst j. rewrite String.eqb_refl. reflexivity.
    - apply Nat.eqb_neq in E.
      destruct (String.eqb (nth p cols "") (nth j cols "")) eqn:E2.
      + apply String.eqb_eq in E2. exfalso. apply E. symmetry.
        apply (proj1 (NoDup_nth cols "") Hnd p j Hlt Hj E2).
      + rewrite <- (Hlow (nth j cols "")) at 1 by (apply nth_In; exact Hj).
        apply (wl_nth cols it j Hnd_lower Hl Hj).
  Qed.

  Lemma written_other (it : item) extra c : List.length it = List.length cols -> ~ In c cols ->
    written ncols (seq 1 (List.length ncols)) (map AV (remove_nth p it) ++ extra) c = None.
  Proof.
    intros Hl Hn. pose proof (written_seq ncols (remove_nth p it) extra [] c (ncols_length it Hl)) as Hw.
    cbn [List.length app] in Hw. rewrite Hw. apply wl_none. intros H. apply Hn.
    apply in_map_iff in H. destruct H as [x [Hx Hin]]. subst c.
    assert (Hx : In x cols).
    { unfold ncols in Hin. clear - Hin. revert Hin. generalize p. induction cols as [|y l IH]; intros [|n] H; simpl in *; try tauto.
      destruct H as [H | H]; [left; exact H | right; apply (IH n); exact H]. }
    rewrite Hlow by exact Hx. exact Hx.
  Qed.

  (** * INSERT ... RETURNING: the item comes back with its id filled *)
  Theorem insert_spec (tb : tbl) (it : item) : List.length it = List.length cols ->
    let it' := set_nth p (Some (t_next tb)) it in
    exists tb', exec dflt ins_stmt (ins_args it) tb = (tb', [it']) /\ abs tb' = (abs tb ++ [it'])%list /\ t_next tb' = (t_next tb + 1)%Z.
  Proof.
    intros Hl it'. pose proof p_lt as Hlt.
    set (r := inserted dflt ncols (seq 1 (List.length ncols)) (ins_args it) (t_next tb)).
    assert (Hr : proj r = it').
    { apply (nth_ext _ _ None None).
      - rewrite proj_length. unfold it'. rewrite set_nth_length. lia.
      - intros j Hj. rewrite proj_length in Hj. rewrite nth_proj by exact Hj. unfold it'. rewrite nth_set_nth by lia.
        unfold r, inserted, ins_args. rewrite <- (app_nil_r (map AV (remove_nth p it))). rewrite (written_cols it [] j Hl Hj).
        destruct (Nat.eqb j p) eqn:E; [|reflexivity]. apply Nat.eqb_eq in E. subst j. rewrite nth_p. reflexivity. }
    exists {| t_rows := (t_rows tb ++ [r])%list; t_next := (t_next tb + 1)%Z |}. split; [|split].
    - unfold ins_stmt. cbn [exec]. fold r. rewrite ret_match. fold (proj r). rewrite Hr. reflexivity.
    - unfold abs. cbn [t_rows]. rewrite map_app. cbn [map]. rewrite Hr. reflexivity.
    - reflexivity.
  Qed.

  (** * conditions on rows are conditions on items *)
  Fixpoint index_of (c : string) (l : list string) : nat :=
    match l with [] => 0 | x :: r => if String.eqb x c then 0 else S (index_of c r) end.

  Lemma index_of_nth c l : In c l -> index_of c l < List.length l /\ nth (index_of c l) l "" = c.
  Proof.
    induction l as [|x l IH]; intros H; [destruct H|]. cbn [index_of].
    destruct (String.eqb x c) eqn:E; [apply String.eqb_eq in E; subst; simpl; split; [lia | reflexivity]|].
    destruct H as [H | H]; [subst; rewrite String.eqb_refl in E; discriminate|].
    destruct (IH H) as [H1 H2]. simpl. split; [lia | exact H2].
  Qed.

  Definition col_val (it : item) (c : string) : val := nth (index_of (lower c) cols) it None.

  Lemma col_val_proj r c : In (lower c) cols -> col_val (proj r) c = r (lower c).
  Proof.
    intros H. unfold col_val. destruct (index_of_nth _ _ H) as [H1 H2]. rewrite nth_proj by exact H1. rewrite H2. reflexivity.
  Qed.

  Definition item_holds (it : item) (args : list arg) (c : cond) : bool :=
    match c with
    | CEq col ph => match col_val it col, arg_val args ph with Some a, Some b => Z.eqb a b | _, _ => false end
    | CAny col ph => match col_val it col with Some a => existsb (Z.eqb a) (arg_list args ph) | None => false end
    | CNullEq col ph => match col_val it col, arg_val args ph with None, None => true | Some a, Some b => Z.eqb a b | _, _ => false end
    end.

  Definition known (c : cond) : Prop := In (lower (match c with CEq x _ | CAny x _ | CNullEq x _ => x end)) cols.

  Lemma holds_item r args c : known c -> holds r args c = item_holds (proj r) args c.
  Proof. intros H. destruct c; unfold known in H; cbn [holds item_holds]; rewrite (col_val_proj r _ H); reflexivity. Qed.

  Definition matches (conds : list cond) (args : list arg) (it : item) : bool := forallb (item_holds it args) conds.

  Lemma holds_all r args conds : Forall known conds -> forallb (holds r args) conds = matches conds args (proj r).
  Proof.
    intros H. unfold matches. induction H as [|c conds Hc _ IH]; [reflexivity|]. cbn [forallb]. rewrite (holds_item r args c Hc), IH. reflexivity.
  Qed.

  (** * SELECT ... WHERE: exactly the matching items, whatever the (known) columns compared *)
  Theorem select_spec (tb : tbl) conds args : Forall known conds ->
    exec dflt (SSelect cols table conds) args tb = (tb, filter (matches conds args) (abs tb)).
  Proof.
    intros Hk. cbn [exec]. f_equal. unfold abs. rewrite filter_map_comm. fold proj. f_equal.
    apply filter_ext. intros r. apply holds_all. exact Hk.
  Qed.

  (** * DELETE ... WHERE ... RETURNING: removes and returns exactly the matching items *)
  Theorem delete_spec (tb : tbl) conds args : Forall known conds ->
    exists tb', exec dflt (SDelete table conds cols) args tb = (tb', filter (matches conds args) (abs tb))
      /\ abs tb' = filter (fun it => negb (matches conds args it)) (abs tb) /\ t_next tb' = t_next tb.
  Proof.
    intros Hk. pose proof p_lt as Hlt. eexists. split; [|split].
    - cbn [exec]. rewrite ret_match. f_equal.
      unfold abs. rewrite filter_map_comm. fold proj. f_equal. apply filter_ext. intros r. apply holds_all. exact Hk.
    - unfold abs. cbn [t_rows]. rewrite filter_map_comm. f_equal. apply filter_ext. intros r. fold proj. rewrite (holds_all r args conds Hk). reflexivity.
    - reflexivity.
  Qed.

  (** * UPDATE ... WHERE id = $n RETURNING: replaces the item of that id, nothing else *)
  Definition same_id (a b : item) : bool :=
    match nth p a None, nth p b None with Some x, Some y => Z.eqb x y | _, _ => false end.

  Lemma upd_hit r (it : item) : List.length it = List.length cols ->
    holds r (upd_args it) (CEq "id" (List.length cols)) = same_id (proj r) it.
  Proof.
    intros Hl. pose proof p_lt as Hlt. cbn [holds]. unfold same_id. rewrite nth_p_proj.
    change (lower "id") with "id".
    assert (Ha : arg_val (upd_args it) (List.length cols) = nth p it None).
    { unfold arg_val, upd_args. pose proof (remove_nth_length p it ltac:(lia)) as Hr.
      rewrite nth_error_app2 by (rewrite map_length; lia). rewrite map_length.
      replace (List.length cols - 1 - List.length (remove_nth p it)) with 0 by lia. reflexivity. }
    rewrite Ha. reflexivity.
  Qed.

  Lemma upd_proj r (it : item) : List.length it = List.length cols -> same_id (proj r) it = true ->
    proj (updated ncols (seq 1 (List.length ncols)) (upd_args it) r) = it.
  Proof.
    intros Hl Hs. apply (nth_ext _ _ None None); [rewrite proj_length; lia|].
    intros j Hj. rewrite proj_length in Hj. rewrite nth_proj by exact Hj. unfold updated, upd_args.
    rewrite (written_cols it _ j Hl Hj). destruct (Nat.eqb j p) eqn:E; [|reflexivity].
    apply Nat.eqb_eq in E. subst j. rewrite nth_p. unfold same_id in Hs. rewrite nth_p_proj in Hs.
    destruct (r "id") as [x|], (nth p it None) as [y|]; try discriminate. apply Z.eqb_eq in Hs. subst. reflexivity.
  Qed.

  Theorem update_spec (tb : tbl) (it : item) : List.length it = List.length cols ->
    exists tb', exec dflt upd_stmt (upd_args it) tb = (tb', map (fun _ => it) (filter (fun x => same_id x it) (abs tb)))
      /\ abs tb' = map (fun x => if same_id x it then it else x) (abs tb) /\ t_next tb' = t_next tb.
  Proof.
    intros Hl. eexists. split; [|split].
    - unfold upd_stmt. cbn [exec]. f_equal. unfold abs. rewrite filter_map_comm, map_map.
      rewrite (filter_ext _ (fun r => same_id (proj r) it)) by (intros r; apply upd_hit; exact Hl).
      apply map_ext_in. intros r Hr. apply filter_In in Hr. destruct Hr as [_ Hr]. fold (proj (updated ncols (seq 1 (List.length ncols)) (upd_args it) r)).
      apply upd_proj; assumption.
    - unfold abs. cbn [t_rows]. rewrite !map_map. apply map_ext. intros r. rewrite (upd_hit r it Hl).
      destruct (same_id (proj r) it) eqn:E; [apply upd_proj; assumption | reflexivity].
    - reflexivity.
  Qed.
End Table.

(** * histories *)
Inductive op :=
| OInsert (it : list (option Z))
| OUpdate (it : list (option Z))
| OSelect (conds : list cond) (args : list arg)     (* by id, by ids, by foreign key, by unique columns, by select key, all *)
| ODelete (conds : list cond) (args : list arg).

Section History.
  Variable dflt : string -> val.
  Variable table : string.
  Variable cols : list string.
  Variable p : nat.
  Hypothesis Hlow : forall c, In c cols -> lower c = c.
  Hypothesis Hnd : NoDup cols.
  Hypothesis Hp : nth_error cols p = Some "id".

  Definition wf_op (o : op) : Prop :=
    match o with
    | OInsert it | OUpdate it => List.length it = List.length cols
    | OSelect conds _ | ODelete conds _ => Forall (known cols) conds
    end.

  (** the generated functions *)
  Definition impl_step (tb : tbl) (o : op) : tbl * list (list (option Z)) :=
    match o with
    | OInsert it => exec dflt (ins_stmt table cols p) (ins_args p it) tb
    | OUpdate it => exec dflt (upd_stmt table cols p) (upd_args p it) tb
    | OSelect conds args => exec dflt (SSelect cols table conds) args tb
    | ODelete conds args => exec dflt (SDelete table conds cols) args tb
    end.

  (** the obvious model: a list of items and the next id *)
  Definition spec_step (st : list (list (option Z)) * Z) (o : op) : (list (list (option Z)) * Z) * list (list (option Z)) :=
    match o with
    | OInsert it => let it' := set_nth p (Some (snd st)) it in (((fst st ++ [it'])%list, (snd st + 1)%Z), [it'])
    | OUpdate it => ((map (fun x => if same_id p x it then it else x) (fst st), snd st), map (fun _ => it) (filter (fun x => same_id p x it) (fst st)))
    | OSelect conds args => (st, filter (matches cols conds args) (fst st))
    | ODelete conds args => ((filter (fun x => negb (matches cols conds args x)) (fst st), snd st), filter (matches cols conds args) (fst st))
    end.

  Lemma step_refines tb o : wf_op o ->
    spec_step (abs cols tb, t_next tb) o = ((abs cols (fst (impl_step tb o)), t_next (fst (impl_step tb o))), snd (impl_step tb o)).
  Proof.
    intros Hwf. destruct o as [it | it | conds args | conds args]; cbn [wf_op impl_step spec_step fst snd] in *.
    - destruct (insert_spec dflt table cols p Hlow Hnd Hp tb it Hwf) as [tb' [He [Ha Hn]]]. rewrite He. cbn [fst snd]. rewrite Ha, Hn. reflexivity.
    - destruct (update_spec dflt table cols p Hlow Hnd Hp tb it Hwf) as [tb' [He [Ha Hn]]]. rewrite He. cbn [fst snd]. rewrite Ha, Hn. reflexivity.
    - rewrite (select_spec dflt table cols Hlow tb conds args Hwf). reflexivity.
    - destruct (delete_spec dflt table cols p Hlow Hnd Hp tb conds args Hwf) as [tb' [He [Ha Hn]]]. rewrite He. cbn [fst snd]. rewrite Ha, Hn. reflexivity.
  Qed.

  Fixpoint run_impl (tb : tbl) (ops : list op) : tbl * list (list (list (option Z))) :=
    match ops with
    | [] => (tb, [])
    | o :: r => let s := impl_step tb o in let rest := run_impl (fst s) r in (fst rest, snd s :: snd rest)
    end.

  Fixpoint run_spec (st : list (list (option Z)) * Z) (ops : list op) : (list (list (option Z)) * Z) * list (list (list (option Z))) :=
    match ops with
    | [] => (st, [])
    | o :: r => let s := spec_step st o in let rest := run_spec (fst s) r in (fst rest, snd s :: snd rest)
    end.

  (** every history of generated calls returns what the model returns, and leaves the table in the model's state *)
  Theorem history_refines ops : forall tb, Forall wf_op ops ->
    run_spec (abs cols tb, t_next tb) ops = ((abs cols (fst (run_impl tb ops)), t_next (fst (run_impl tb ops))), snd (run_impl tb ops)).
  Proof.
    induction ops as [|o ops IH]; intros tb Hwf; [reflexivity|].
    inversion Hwf as [|? ? Ho Hops]; subst. cbn [run_impl run_spec fst snd].
    rewrite (step_refines tb o Ho). cbn [fst snd]. rewrite (IH (fst (impl_step tb o)) Hops). reflexivity.
  Qed.

  (** * an inserted row comes back from the select by id, with all fields equal *)
  Definition fresh (items : list (list (option Z))) (next : Z) : Prop :=
    forall it z, In it items -> nth p it None = Some z -> (z < next)%Z.

  Lemma index_of_p : index_of "id" cols = p.
  Proof.
    pose proof (p_lt cols p Hp) as Hlt. pose proof (nth_p cols p Hp) as Hn.
    assert (Hin : In "id" cols) by (rewrite <- Hn; apply nth_In; exact Hlt).
    destruct (index_of_nth "id" cols Hin) as [H1 H2].
    apply (proj1 (NoDup_nth cols "") Hnd _ _ H1 Hlt). rewrite H2, Hn. reflexivity.
  Qed.

  Lemma by_id_matches it id : matches cols [CEq "id" 1] [AV (Some id)] it = match nth p it None with Some a => Z.eqb a id | None => false end.
  Proof.
    unfold matches. cbn [forallb item_holds]. unfold col_val. change (lower "id") with "id". rewrite index_of_p.
    change (arg_val [AV (Some id)] 1) with (Some id). rewrite andb_true_r. reflexivity.
  Qed.

  Lemma filter_fresh_nil items next : fresh items next -> filter (matches cols [CEq "id" 1] [AV (Some next)]) items = [].
  Proof.
    induction items as [|x l IHl]; intros Hf; [reflexivity|]. cbn [filter]. rewrite by_id_matches.
    assert (Hf' : fresh l next) by (intros y z Hy Hz; apply (Hf y z (or_intror Hy) Hz)).
    destruct (nth p x None) as [a|] eqn:Ea; [|apply IHl; exact Hf'].
    pose proof (Hf x a (or_introl eq_refl) Ea) as Hlt'. destruct (Z.eqb a next) eqn:E; [apply Z.eqb_eq in E; lia|]. apply IHl. exact Hf'.
  Qed.

  Theorem insert_then_select tb it : List.length it = List.length cols -> fresh (abs cols tb) (t_next tb) ->
    let it' := set_nth p (Some (t_next tb)) it in
    snd (impl_step (fst (impl_step tb (OInsert it))) (OSelect [CEq "id" 1] [AV (Some (t_next tb))])) = [it'].
  Proof.
    intros Hl Hf it'. pose proof (p_lt cols p Hp) as Hlt.
    assert (Hk : Forall (known cols) [CEq "id" 1]).
    { constructor; [|constructor]. unfold known. change (lower "id") with "id". rewrite <- (nth_p cols p Hp). apply nth_In. exact Hlt. }
    cbn [impl_step]. destruct (insert_spec dflt table cols p Hlow Hnd Hp tb it Hl) as [tb' [He [Ha Hn]]]. rewrite He. cbn [fst].
    rewrite (select_spec dflt table cols Hlow tb' _ _ Hk). cbn [snd]. rewrite Ha. rewrite filter_app.
    pose proof (filter_fresh_nil (abs cols tb) (t_next tb) Hf) as H1.
    rewrite H1. cbn [app filter]. rewrite by_id_matches. fold it'. unfold it'. rewrite nth_set_nth by lia. rewrite Nat.eqb_refl, Z.eqb_refl. reflexivity.
  Qed.

  (** the ids stay below the next serial value along any history *)
  Lemma fresh_step st o : wf_op o -> fresh (fst st) (snd st) -> fresh (fst (fst (spec_step st o))) (snd (fst (spec_step st o))).
  Proof.
    intros Hwf Hf. pose proof (p_lt cols p Hp) as Hlt. destruct o as [it | it | conds args | conds args]; cbn [spec_step fst snd wf_op] in *.
    - intros x z Hx Hz. apply in_app_or in Hx. destruct Hx as [Hx | [Hx | []]].
      + pose proof (Hf x z Hx Hz). lia.
      + subst x. rewrite nth_set_nth in Hz by lia. rewrite Nat.eqb_refl in Hz. inversion Hz. lia.
    - intros x z Hx Hz. apply in_map_iff in Hx. destruct Hx as [y [Hy Hyin]].
      destruct (same_id p y it) eqn:E; [|subst x; apply (Hf y z Hyin Hz)].
      subst x. unfold same_id in E. destruct (nth p y None) as [a|] eqn:Ea; [|discriminate]. rewrite Hz in E. apply Z.eqb_eq in E. subst a.
      apply (Hf y z Hyin Ea).
    - exact Hf.
    - intros x z Hx Hz. apply filter_In in Hx. destruct Hx as [Hx _]. apply (Hf x z Hx Hz).
  Qed.
End History.

(** * link tables: INSERT without RETURNING appends the item *)
Section Link.
  Variable dflt : string -> val.
  Variable table : string.
  Variable cols : list string.
  Hypothesis Hlow : forall c, In c cols -> lower c = c.
  Hypothesis Hnd : NoDup cols.

  Theorem link_insert_spec (tb : tbl) (it : list (option Z)) : List.length it = List.length cols ->
    exists tb', exec dflt (SInsert table cols (seq 1 (List.length cols)) []) (map AV it) tb = (tb', [])
      /\ abs cols tb' = (abs cols tb ++ [it])%list.
  Proof.
    intros Hl. eexists. split; [reflexivity|]. unfold abs. cbn [t_rows]. rewrite map_app. cbn [map]. f_equal. f_equal.
    apply (nth_ext _ _ None None); [rewrite proj_length; lia|].
    intros j Hj. rewrite proj_length in Hj.
    assert (Hml : map lower cols = cols) by (rewrite <- (map_id cols) at 2; apply map_ext_in; exact Hlow).
    rewrite (nth_proj cols Hlow _ j Hj). unfold inserted.
    pose proof (written_seq cols it [] [] (nth j cols "") Hl) as Hw. cbn [List.length app] in Hw. rewrite app_nil_r in Hw. rewrite Hw.
    rewrite <- (Hlow (nth j cols "")) at 1 by (apply nth_In; exact Hj).
    rewrite (wl_nth cols it j) by (try rewrite Hml; assumption). reflexivity.
  Qed.

  (** Delete(item): removes exactly the links whose foreign keys match *)
  Theorem link_delete_spec (tb : tbl) conds args : Forall (known cols) conds ->
    exists tb', exec dflt (SDelete table conds []) args tb = (tb', [])
      /\ abs cols tb' = filter (fun it => negb (matches cols conds args it)) (abs cols tb).
  Proof.
    intros Hk. eexists. split; [reflexivity|]. unfold abs. cbn [t_rows]. rewrite filter_map_comm. f_equal. apply filter_ext. intros r.
    rewrite (holds_all cols Hlow r args conds Hk). reflexivity.
  Qed.
End Link.

(** * the statements above are the ones of the model of the generator *)
Lemma cols_lower t c : In c (cols t) -> lower c = c.
Proof. unfold cols. intros H. apply in_map_iff in H. destruct H as [x [Hx _]]. subst c. apply lower_idem. Qed.

Lemma primary_in_crud_primary t p : primary_in_crud t = Some p -> exists q, to_primary t = Some q.
Proof. unfold primary_in_crud. destruct (to_primary t) as [q|]; [exists q; reflexivity | discriminate]. Qed.

Definition fun_named (name : string) (l : list gfun) : option gfun := find (fun f => String.eqb (gf_name f) name) l.

Lemma model_primary_statements t p : primary_in_crud t = Some p ->
  exists rest,
    crud_funs t =
      ({| gf_name := "SelectAll" ++ tname t ++ "s"; gf_stmt := SSelect (cols t) (sname t) []; gf_args := []; gf_scan := "Scan" ++ tname t ++ "s" |}
       :: {| gf_name := "Select" ++ tname t; gf_stmt := SSelect (cols t) (sname t) [CEq "id" 1]; gf_args := ["id"]; gf_scan := "Scan" ++ tname t |}
       :: {| gf_name := "Select" ++ tname t ++ "s"; gf_stmt := SSelect (cols t) (sname t) [CAny "id" 1]; gf_args := [idt t ++ "ArrayToPQ(ids)"]; gf_scan := "Scan" ++ tname t ++ "s" |}
       :: {| gf_name := tname t ++ ".Insert"; gf_stmt := ins_stmt (sname t) (cols t) p; gf_args := remove_nth p (vals t); gf_scan := "Scan" ++ tname t |}
       :: {| gf_name := tname t ++ ".Update"; gf_stmt := upd_stmt (sname t) (cols t) p;
             gf_args := List.app (remove_nth p (vals t)) [String.append "item." (primary_field t)]; gf_scan := "Scan" ++ tname t |}
       :: {| gf_name := "Delete" ++ tname t ++ "ById"; gf_stmt := SDelete (sname t) [CEq "id" 1] (cols t); gf_args := ["id"]; gf_scan := "Scan" ++ tname t |}
       :: rest).
Proof.
  intros Hp. destruct (primary_in_crud_primary t p Hp) as [q Hq]. unfold crud_funs. rewrite Hq. unfold primary_funs, np. rewrite Hp.
  eexists. cbn [app]. reflexivity.
Qed.

(** every history of Insert / Update / Select... / Delete... calls on a table with an id *)
Theorem model_history_refines (dflt : string -> val) t p ops tb :
  primary_in_crud t = Some p -> nth_error (cols t) p = Some "id" -> NoDup (cols t) ->
  Forall (wf_op (cols t)) ops ->
  run_spec (cols t) p (abs (cols t) tb, t_next tb) ops
  = ((abs (cols t) (fst (run_impl dflt (sname t) (cols t) p tb ops)), t_next (fst (run_impl dflt (sname t) (cols t) p tb ops))),
     snd (run_impl dflt (sname t) (cols t) p tb ops)).
Proof. intros _ Hid Hnd Hwf. apply (history_refines dflt (sname t) (cols t) p (cols_lower t) Hnd Hid ops tb Hwf). Qed.

(** * the premises are met by a concrete table, and the model is not vacuous on it *)
Definition ex_table : tbl_obs :=
  {| to_go := "BlogPost";
     to_cols := [{| co_field := "Title"; co_guard := false |}; {| co_field := "ID"; co_guard := false |};
                 {| co_field := "secret"; co_guard := true |}; {| co_field := "IdUser"; co_guard := false |}];
     to_primary := Some 1; to_idtype := "IdBlogPost";
     to_fks := [{| fk_field := "IdUser"; fk_nullable := false; fk_unique := false; fk_idtype := "IdUser" |}];
     to_uniques := [["Title"; "IdUser"]]; to_keys := [["Title"]] |}.

Example ex_premises :
  primary_in_crud ex_table = Some 1 /\ nth_error (cols ex_table) 1 = Some "id" /\ cols ex_table = ["title"; "id"; "iduser"]
  /\ sname ex_table = "blog_posts"
  /\ snd (run_impl (fun _ => Some 7%Z) "blog_posts" (cols ex_table) 1 {| t_rows := []; t_next := 1 |}
            [OInsert [Some 10; None; Some 3]; OInsert [Some 11; None; Some 3]; OUpdate [Some 12; Some 1; Some 4];
             OSelect [CEq "id" 1] [AV (Some 1)]; OSelect [CAny "iduser" 1] [AL [3; 4]]; ODelete [CEq "Title" 1] [AV (Some 11)]; OSelect [] []])%Z
     = [[[Some 10; Some 1; Some 3]]; [[Some 11; Some 2; Some 3]]; [[Some 12; Some 1; Some 4]];
        [[Some 12; Some 1; Some 4]]; [[Some 12; Some 1; Some 4]; [Some 11; Some 2; Some 3]]; [[Some 11; Some 2; Some 3]]; [[Some 12; Some 1; Some 4]]]%Z.
Proof. vm_compute. repeat split; reflexivity. Qed.

(** * every statement of the model carries as many placeholders as arguments, numbered 1..n *)
Lemma placeholders_seq n : placeholders_ok (seq 1 n) n = true.
Proof.
  unfold placeholders_ok. apply andb_true_iff. split; apply forallb_forall; intros x Hx.
  - apply in_seq in Hx. apply andb_true_iff. split; apply Nat.leb_le; lia.
  - apply existsb_exists. exists x. split; [exact Hx | apply Nat.eqb_refl].
Qed.

Lemma placeholders_seq_last n : placeholders_ok (seq 1 n ++ [S n]) (S n) = true.
Proof.
  unfold placeholders_ok. apply andb_true_iff. split; apply forallb_forall; intros x Hx.
  - apply in_app_or in Hx. destruct Hx as [Hx | [Hx | []]]; [apply in_seq in Hx | subst x]; apply andb_true_iff; split; apply Nat.leb_le; lia.
  - apply existsb_exists. exists x. split; [| apply Nat.eqb_refl]. apply in_seq in Hx. apply in_or_app.
    destruct (Nat.eq_dec x (S n)) as [E | E]; [right; left; symmetry; exact E | left; apply in_seq; lia].
Qed.

Lemma conds_eq_phs names : map cond_ph (conds_eq names) = seq 1 (List.length names).
Proof.
  unfold conds_eq. rewrite map_map. cbn [cond_ph].
  assert (H : forall a, map (fun ix : nat * string => S (fst ix)) (combine (seq a (List.length names)) names) = seq (S a) (List.length names)).
  { induction names as [|x l IH]; intros a; [reflexivity|]. cbn [List.length seq combine map fst]. f_equal. apply IH. }
  apply H.
Qed.

Lemma link_conds_phs t : map cond_ph (link_delete_conds t) = seq 1 (List.length (to_fks t)).
Proof.
  unfold link_delete_conds. rewrite map_map.
  assert (H : forall a l, map (fun ik : nat * fk_obs => cond_ph (let '(i, k) := ik in if fk_nullable k then CNullEq (fk_field k) (S i) else CEq (fk_field k) (S i)))
                              (combine (seq a (List.length l)) l) = seq (S a) (List.length l)).
  { intros a l. revert a. induction l as [|x l IH]; intros a; [reflexivity|]. cbn [List.length seq combine map]. f_equal; [destruct (fk_nullable x); reflexivity | apply IH]. }
  apply H.
Qed.

Theorem model_placeholders t f :
  match to_primary t with Some _ => exists p, primary_in_crud t = Some p /\ p < List.length (cols t) | None => True end ->
  In f (crud_funs t) -> placeholders_ok (stmt_phs (gf_stmt f)) (List.length (gf_args f)) = true.
Proof.
  intros Hprim Hin. unfold crud_funs in Hin. apply in_app_or in Hin. destruct Hin as [Hin | Hin].
  - assert (Hfk : forall b k g, In g (fk_funs t b k) -> placeholders_ok (stmt_phs (gf_stmt g)) (List.length (gf_args g)) = true).
    { intros b k g Hg. unfold fk_funs in Hg. apply in_app_or in Hg. destruct Hg as [Hg | Hg].
      - destruct (fk_unique k); [destruct Hg as [Hg | []]; subst g; reflexivity | destruct Hg].
      - destruct Hg as [Hg | [Hg | []]]; subst g; [reflexivity|]. destruct b; reflexivity. }
    destruct (to_primary t) as [q|] eqn:Hq.
    + destruct Hprim as [p [Hp Hlt]]. unfold primary_funs in Hin. apply in_app_or in Hin. destruct Hin as [Hin | Hin].
      * assert (Hnp : forall A (l : list A), List.length l = List.length (cols t) -> S (List.length (np t l)) = List.length (cols t)).
        { intros A l Hl. unfold np. rewrite Hp. rewrite remove_nth_length; lia. }
        assert (Hv : List.length (vals t) = List.length (cols t)) by (unfold vals, cols; rewrite !map_length; reflexivity).
        destruct Hin as [Hin | [Hin | [Hin | [Hin | [Hin | [Hin | [Hin | []]]]]]]]; subst f; try reflexivity; cbn [gf_stmt gf_args stmt_phs].
        -- unfold phs_upto. replace (List.length (np t (vals t))) with (List.length (np t (cols t))) by (pose proof (Hnp _ (vals t) Hv); pose proof (Hnp _ (cols t) eq_refl); lia).
           apply placeholders_seq.
        -- unfold phs_upto. rewrite app_length. cbn [List.length].
           pose proof (Hnp _ (vals t) Hv). pose proof (Hnp _ (cols t) eq_refl).
           replace (List.length (np t (vals t)) + 1) with (S (List.length (np t (cols t)))) by lia.
           replace (List.length (cols t)) with (S (List.length (np t (cols t)))) by lia. apply placeholders_seq_last.
      * apply in_flat_map in Hin. destruct Hin as [k [_ Hg]]. apply (Hfk true k f Hg).
    + unfold link_funs in Hin. apply in_app_or in Hin. destruct Hin as [Hin | Hin].
      * destruct Hin as [Hin | [Hin | [Hin | [Hin | []]]]]; subst f; try reflexivity; cbn [gf_stmt gf_args stmt_phs].
        -- unfold phs_upto, vals, cols. rewrite !map_length. apply placeholders_seq.
        -- unfold vals, cols. rewrite !map_length. apply placeholders_seq.
        -- rewrite link_conds_phs, map_length. apply placeholders_seq.
      * apply in_flat_map in Hin. destruct Hin as [k [_ Hg]]. apply (Hfk false k f Hg).
  - apply in_app_or in Hin. destruct Hin as [Hin | Hin].
    + unfold unique_funs in Hin. apply in_map_iff in Hin. destruct Hin as [names [Hf _]]. subst f. cbn [gf_stmt gf_args stmt_phs].
      rewrite conds_eq_phs, map_length. apply placeholders_seq.
    + unfold key_funs in Hin. apply in_flat_map in Hin. destruct Hin as [names [_ Hg]].
      destruct Hg as [Hg | [Hg | []]]; subst f; cbn [gf_stmt gf_args stmt_phs]; rewrite conds_eq_phs, map_length; apply placeholders_seq.
Qed.
