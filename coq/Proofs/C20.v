(** Invariants of the interleaving semantics of Model/Formatters.v, for every schedule,
    every number of requests and every tool environment. *)
From Coq Require Import List String Bool Arith Lia.
From GM Require Import Model.Formatters.
Import ListNotations.

(** ** list updates *)
Lemma set_nth_length {A} n (x : A) l : List.length (set_nth n x l) = List.length l.
Proof. revert n; induction l as [|y r IH]; intros [|n]; simpl; auto. Qed.

Lemma nth_set_nth_eq {A} n (x d : A) l : n < List.length l -> nth n (set_nth n x l) d = x.
Proof. revert n; induction l as [|y r IH]; intros [|n] H; simpl in *; try lia; auto. apply IH. lia. Qed.

Lemma nth_set_nth_neq {A} n m (x d : A) l : m <> n -> nth m (set_nth n x l) d = nth m l d.
Proof. revert n m; induction l as [|y r IH]; intros [|n] [|m] H; simpl; auto; try congruence. Qed.

(** ** frame lemmas for [upd] *)
Lemma pc_upd_eq s t l f e p : t < List.length (st_pcs s) -> pc_of (upd s t l f e p) t = p.
Proof. intro H. unfold pc_of, upd. simpl. apply nth_set_nth_eq. assumption. Qed.
Lemma pc_upd_neq s t u l f e p : u <> t -> pc_of (upd s t l f e p) u = pc_of s u.
Proof. intro H. unfold pc_of, upd. simpl. apply nth_set_nth_neq. assumption. Qed.
Lemma field_upd_none s t l e p k : field (upd s t l None e p) k = field s k.
Proof. reflexivity. Qed.
Lemma field_upd_eq s t l e p k v : k < List.length (st_fields s) -> field (upd s t l (Some (k, v)) e p) k = v.
Proof. intro H. unfold field, upd. simpl. apply nth_set_nth_eq. assumption. Qed.
Lemma field_upd_neq s t l e p k k' v : k' <> k -> field (upd s t l (Some (k, v)) e p) k' = field s k'.
Proof. intro H. unfold field, upd. simpl. apply nth_set_nth_neq. assumption. Qed.

Definition in_crit (p : pc) : bool :=
  match p with
  | PTest _ | PProbe _ | PAlloc _ _ | PStore _ _ | PLoad _ | PUnlock _ _ | PNilDeref => true
  | _ => false
  end.

Definition pc_slot (p : pc) : option nat :=
  match p with
  | PLock k | PTest k | PProbe k | PAlloc k _ | PStore k _ | PLoad k | PUnlock k _ | PRun k => Some k
  | _ => None
  end.

Lemma count_probe_app k e tr : count_probe k (e ++ tr) = count_probe k e + count_probe k tr.
Proof. unfold count_probe. rewrite filter_app, app_length. reflexivity. Qed.
Lemma count_run_app t k e tr : count_run t k (e ++ tr) = count_run t k e + count_run t k tr.
Proof. unfold count_run. rewrite filter_app, app_length. reflexivity. Qed.

Lemma count_probe_single k t k' : count_probe k [EProbe t k'] = if Nat.eqb k k' then 1 else 0.
Proof. unfold count_probe. simpl. destruct (Nat.eqb k k'); reflexivity. Qed.

Lemma nth_map_start (rs : requests) t :
  nth t (map start_pc rs) (PDone false) = match nth_error rs t with Some r => start_pc r | None => PDone false end.
Proof. revert t. induction rs as [|r rs IH]; intros [|t]; simpl; auto. Qed.

Lemma nth_repeat_none k m : nth k (repeat (@None bool) m) None = None.
Proof. revert k; induction m; intros [|k]; simpl; auto. Qed.

Section Inv.
  Variable env : tool_env.
  Variable reqs : requests.
  Variable nslots : nat.
  Hypothesis reqs_ok : forall t k, nth t reqs None = Some k -> k < nslots.

  Let n := List.length reqs.

  (** *** M: mutual exclusion *)
  Record MInv (s : state) : Prop := {
    m_len : List.length (st_pcs s) = n;
    m_flen : List.length (st_fields s) = nslots;
    m_lock_lt : forall h, st_lock s = Some h -> h < n;
    m_mutex : forall t, t < n -> (in_crit (pc_of s t) = true <-> st_lock s = Some t)
  }.

  Lemma MInv_init : MInv (init nslots reqs).
  Proof.
    constructor; simpl.
    - apply map_length.
    - apply repeat_length.
    - discriminate.
    - intros t Ht. unfold pc_of. simpl. rewrite nth_map_start.
      destruct (nth_error reqs t) as [[k|]|]; simpl; split; discriminate.
  Qed.

  Lemma MInv_upd s t l f e p :
    MInv s -> t < n ->
    (in_crit p = true <-> l = Some t) ->
    (forall u, u <> t -> (l = Some u <-> st_lock s = Some u)) ->
    MInv (upd s t l f e p).
  Proof.
    intros M Ht H1 H2. destruct M as [Ml Mf Mlt Mm]. constructor.
    - simpl. rewrite set_nth_length. assumption.
    - simpl. destruct f as [[k v]|]; [rewrite set_nth_length|]; assumption.
    - simpl. intros h E. destruct (Nat.eq_dec h t) as [->|Hne]; [assumption|].
      apply Mlt. apply (H2 h Hne). assumption.
    - intros u Hu. simpl st_lock. destruct (Nat.eq_dec u t) as [->|Hne].
      + rewrite pc_upd_eq by lia. assumption.
      + rewrite pc_upd_neq by assumption. rewrite (H2 u Hne). apply Mm. assumption.
  Qed.

  Lemma holder_of_crit s t : MInv s -> t < n -> in_crit (pc_of s t) = true -> st_lock s = Some t.
  Proof. intros M Ht H. apply (m_mutex s M t Ht). assumption. Qed.

  Lemma MInv_step s t s' : MInv s -> step env s t = Some s' -> MInv s'.
  Proof.
    intros M Hs. unfold step in Hs.
    destruct (Nat.ltb t (List.length (st_pcs s))) eqn:Hlt; simpl in Hs; [|discriminate].
    apply Nat.ltb_lt in Hlt. rewrite (m_len s M) in Hlt.
    pose proof (m_mutex s M t Hlt) as Hmx.
    destruct (pc_of s t) eqn:Hpc; simpl in Hmx;
      try (assert (Hh : st_lock s = Some t) by (apply Hmx; reflexivity)).
    - destruct (st_lock s) eqn:Hl; [discriminate|]. inversion Hs; subst s'.
      apply MInv_upd; [assumption|assumption|simpl; tauto|].
      intros u Hu. rewrite Hl. split; intro E; [inversion E; congruence|discriminate].
    - inversion Hs; subst s'. apply MInv_upd; [assumption|assumption| |tauto].
      rewrite Hh. destruct (field s k); simpl; tauto.
    - inversion Hs; subst s'. apply MInv_upd; [assumption|assumption| |tauto]. rewrite Hh. simpl; tauto.
    - inversion Hs; subst s'. apply MInv_upd; [assumption|assumption| |tauto]. rewrite Hh. simpl; tauto.
    - destruct (field s k); inversion Hs; subst s'.
      + apply MInv_upd; [assumption|assumption| |tauto]. rewrite Hh. simpl; tauto.
      + apply MInv_upd; [assumption|assumption| |tauto]. rewrite Hh. simpl; tauto.
    - inversion Hs; subst s'. apply MInv_upd; [assumption|assumption| |tauto]. rewrite Hh.
      destruct (field s k); simpl; tauto.
    - inversion Hs; subst s'. apply MInv_upd; [assumption|assumption| |].
      + destruct res; simpl; split; discriminate.
      + intros u Hu. rewrite Hh. split; intro E; [discriminate|inversion E; congruence].
    - inversion Hs; subst s'. apply MInv_upd; [assumption|assumption| |tauto]. simpl.
      split; [discriminate|]. intro E. apply Hmx in E. discriminate.
    - discriminate.
    - discriminate.
  Qed.

  (** *** C: the cache protocol (probe at most once, cached value = tool presence) *)
  Inductive stage := SProbe | SMid (ok : bool) | SStore (ok : bool) | SOther.

  Definition stage_of (p : pc) (k : nat) : stage :=
    match p with
    | PProbe k' => if Nat.eqb k' k then SProbe else SOther
    | PAlloc k' ok => if Nat.eqb k' k then SMid ok else SOther
    | PStore k' ok => if Nat.eqb k' k then SStore ok else SOther
    | _ => SOther
    end.

  Definition holder_stage (s : state) (k : nat) : stage :=
    match st_lock s with Some h => stage_of (pc_of s h) k | None => SOther end.

  Definition cache_ok (s : state) (k : nat) : Prop :=
    match holder_stage s k with
    | SProbe => field s k = None /\ count_probe k (st_trace s) = 0
    | SMid ok => field s k = None /\ count_probe k (st_trace s) = 1 /\ ok = present env k
    | SStore ok => (exists b, field s k = Some b) /\ count_probe k (st_trace s) = 1 /\ ok = present env k
    | SOther => match field s k with
                | None => count_probe k (st_trace s) = 0
                | Some b => count_probe k (st_trace s) = 1 /\ b = present env k
                end
    end.

  Lemma hs_upd_self s t f e p k : t < List.length (st_pcs s) -> holder_stage (upd s t (Some t) f e p) k = stage_of p k.
  Proof. intro H. unfold holder_stage. cbn [st_lock upd]. fold (upd s t (Some t) f e p). rewrite pc_upd_eq by assumption. reflexivity. Qed.
  Lemma hs_upd_none s t f e p k : holder_stage (upd s t None f e p) k = SOther.
  Proof. reflexivity. Qed.
  Lemma hs_upd_other s t h f e p k : h <> t -> holder_stage (upd s t (Some h) f e p) k = stage_of (pc_of s h) k.
  Proof. intro H. unfold holder_stage. cbn [st_lock upd]. fold (upd s t (Some h) f e p). rewrite pc_upd_neq by assumption. reflexivity. Qed.
  Lemma trace_upd s t l f e p : st_trace (upd s t l f e p) = e ++ st_trace s.
  Proof. reflexivity. Qed.

  Record CInv (s : state) : Prop := {
    c_cache : forall k, k < nslots -> cache_ok s k;
    c_slot : forall t k, t < n -> pc_slot (pc_of s t) = Some k -> nth t reqs None = Some k;
    c_nonnil : forall t k, t < n -> pc_of s t = PLoad k -> field s k <> None
  }.

  Lemma nth_error_nth {A} (l : list A) t d x : nth_error l t = Some x -> nth t l d = x.
  Proof. revert t; induction l; intros [|t] H; simpl in *; try discriminate; [congruence|auto]. Qed.

  Lemma CInv_init : CInv (init nslots reqs).
  Proof.
    constructor.
    - intros k Hk. unfold cache_ok, holder_stage, field. simpl. rewrite nth_repeat_none. reflexivity.
    - intros t k Ht. unfold pc_of. simpl. rewrite nth_map_start.
      destruct (nth_error reqs t) as [[k'|]|] eqn:E; simpl; try discriminate.
      intro H. inversion H; subst. apply nth_error_nth. assumption.
    - intros t k Ht. unfold pc_of. simpl. rewrite nth_map_start.
      destruct (nth_error reqs t) as [[k'|]|]; simpl; discriminate.
  Qed.

  Lemma stage_of_not_special p k : (forall k', p <> PProbe k') -> (forall k' ok, p <> PAlloc k' ok) -> (forall k' ok, p <> PStore k' ok) -> stage_of p k = SOther.
  Proof. destruct p; simpl; intros H1 H2 H3; try reflexivity; exfalso; [eapply H1|eapply H2|eapply H3]; reflexivity. Qed.

  Lemma eqb_neq_false a b : a <> b -> Nat.eqb a b = false.
  Proof. apply Nat.eqb_neq. Qed.

  Lemma CInv_step s t s' : MInv s -> CInv s -> step env s t = Some s' -> CInv s'.
  Proof.
    intros M C Hs. pose proof Hs as Hs0. unfold step in Hs.
    destruct (Nat.ltb t (List.length (st_pcs s))) eqn:Hlt; simpl in Hs; [|discriminate].
    apply Nat.ltb_lt in Hlt. pose proof Hlt as Hlt'. rewrite (m_len s M) in Hlt.
    pose proof (m_flen s M) as Hfl.
    pose proof (m_mutex s M t Hlt) as Hmx.
    pose proof (c_slot s C t) as Hslot.
    destruct (pc_of s t) eqn:Hpc; simpl in Hmx;
      try (assert (Hh : st_lock s = Some t) by (apply Hmx; reflexivity));
      try (assert (Hk : k < nslots) by (apply (reqs_ok t); apply Hslot; [assumption|reflexivity])).
    - (* PLock *)
      destruct (st_lock s) eqn:Hl; [discriminate|]. inversion Hs; subst s'. constructor.
      + intros k' Hk'. pose proof (c_cache s C k' Hk') as X. unfold cache_ok in *.
        unfold holder_stage in X. rewrite Hl in X. rewrite hs_upd_self by assumption. simpl. exact X.
      + intros u k' Hu. destruct (Nat.eq_dec u t) as [->|Hne].
        * rewrite pc_upd_eq by assumption. simpl. intro E. apply Hslot; [assumption|simpl; assumption].
        * rewrite pc_upd_neq by assumption. apply (c_slot s C u k' Hu).
      + intros u k' Hu. destruct (Nat.eq_dec u t) as [->|Hne].
        * rewrite pc_upd_eq by assumption. discriminate.
        * rewrite pc_upd_neq by assumption. apply (c_nonnil s C u k' Hu).
    - (* PTest *)
      inversion Hs; subst s'. constructor.
      + intros k' Hk'. pose proof (c_cache s C k' Hk') as X. unfold cache_ok in *. unfold holder_stage in X.
        rewrite Hh, Hpc in X. simpl in X. rewrite Hh, hs_upd_self by assumption.
        rewrite field_upd_none, trace_upd, count_probe_app. simpl.
        destruct (field s k) eqn:Hf; simpl; [exact X|].
        destruct (Nat.eq_dec k k') as [<-|Hkk].
        * rewrite Nat.eqb_refl. rewrite Hf in *. auto.
        * rewrite (eqb_neq_false _ _ Hkk). exact X.
      + intros u k' Hu. destruct (Nat.eq_dec u t) as [->|Hne].
        * rewrite pc_upd_eq by assumption. intro E. apply Hslot; [assumption|].
          destruct (field s k); simpl in *; assumption.
        * rewrite pc_upd_neq by assumption. apply (c_slot s C u k' Hu).
      + intros u k' Hu. rewrite field_upd_none. destruct (Nat.eq_dec u t) as [->|Hne].
        * rewrite pc_upd_eq by assumption. destruct (field s k) eqn:Hf; [|discriminate].
          intro E. inversion E; subst. congruence.
        * rewrite pc_upd_neq by assumption. apply (c_nonnil s C u k' Hu).
    - (* PProbe *)
      inversion Hs; subst s'. constructor.
      + intros k' Hk'. pose proof (c_cache s C k' Hk') as X. unfold cache_ok in *. unfold holder_stage in X.
        rewrite Hh, Hpc in X. simpl in X. rewrite Hh, hs_upd_self by assumption.
        rewrite field_upd_none, trace_upd, count_probe_app. simpl.
        destruct (Nat.eq_dec k k') as [<-|Hkk].
        * rewrite Nat.eqb_refl in *. rewrite count_probe_single, Nat.eqb_refl.
          destruct X as [X1 X2]. rewrite X2. auto.
        * rewrite (eqb_neq_false _ _ Hkk) in *. rewrite count_probe_single.
          rewrite (eqb_neq_false k' k) by congruence. simpl. exact X.
      + intros u k' Hu. destruct (Nat.eq_dec u t) as [->|Hne].
        * rewrite pc_upd_eq by assumption. intro E. apply Hslot; [assumption|exact E].
        * rewrite pc_upd_neq by assumption. apply (c_slot s C u k' Hu).
      + intros u k' Hu. rewrite field_upd_none. destruct (Nat.eq_dec u t) as [->|Hne].
        * rewrite pc_upd_eq by assumption. discriminate.
        * rewrite pc_upd_neq by assumption. apply (c_nonnil s C u k' Hu).
    - (* PAlloc *)
      inversion Hs; subst s'. constructor.
      + intros k' Hk'. pose proof (c_cache s C k' Hk') as X. unfold cache_ok in *. unfold holder_stage in X.
        rewrite Hh, Hpc in X. simpl in X. rewrite Hh, hs_upd_self by assumption.
        rewrite trace_upd, count_probe_app. simpl.
        destruct (Nat.eq_dec k k') as [<-|Hkk].
        * rewrite Nat.eqb_refl in *. rewrite field_upd_eq by lia.
          destruct X as [X1 [X2 X3]]. split; [eexists; reflexivity|auto].
        * rewrite (eqb_neq_false _ _ Hkk) in *. rewrite field_upd_neq by congruence. exact X.
      + intros u k' Hu. destruct (Nat.eq_dec u t) as [->|Hne].
        * rewrite pc_upd_eq by assumption. intro E. apply Hslot; [assumption|exact E].
        * rewrite pc_upd_neq by assumption. apply (c_slot s C u k' Hu).
      + intros u k' Hu. destruct (Nat.eq_dec u t) as [->|Hne].
        * rewrite pc_upd_eq by assumption. discriminate.
        * rewrite pc_upd_neq by assumption. intro E. pose proof (c_nonnil s C u k' Hu E) as N.
          destruct (Nat.eq_dec k' k) as [->|Hkk]; [rewrite field_upd_eq by lia; discriminate|].
          rewrite field_upd_neq by assumption. exact N.
    - (* PStore *)
      pose proof (c_cache s C k Hk) as Xk. unfold cache_ok, holder_stage in Xk.
      rewrite Hh, Hpc in Xk. simpl in Xk. rewrite Nat.eqb_refl in Xk. destruct Xk as [[b Hb] [Xc Xo]].
      rewrite Hb in Hs. inversion Hs; subst s'. constructor.
      + intros k' Hk'. pose proof (c_cache s C k' Hk') as X. unfold cache_ok in *. unfold holder_stage in X.
        rewrite Hh, Hpc in X. simpl in X. rewrite Hh, hs_upd_self by assumption.
        rewrite trace_upd, count_probe_app. simpl.
        destruct (Nat.eq_dec k k') as [<-|Hkk].
        * rewrite field_upd_eq by lia. auto.
        * rewrite (eqb_neq_false _ _ Hkk) in *. rewrite field_upd_neq by congruence. exact X.
      + intros u k' Hu. destruct (Nat.eq_dec u t) as [->|Hne].
        * rewrite pc_upd_eq by assumption. intro E. apply Hslot; [assumption|exact E].
        * rewrite pc_upd_neq by assumption. apply (c_slot s C u k' Hu).
      + intros u k' Hu. destruct (Nat.eq_dec u t) as [->|Hne].
        * rewrite pc_upd_eq by assumption. intro E. inversion E; subst. rewrite field_upd_eq by lia. discriminate.
        * rewrite pc_upd_neq by assumption. intro E. pose proof (c_nonnil s C u k' Hu E) as N.
          destruct (Nat.eq_dec k' k) as [->|Hkk]; [rewrite field_upd_eq by lia; discriminate|].
          rewrite field_upd_neq by assumption. exact N.
    - (* PLoad *)
      inversion Hs; subst s'. constructor.
      + intros k' Hk'. pose proof (c_cache s C k' Hk') as X. unfold cache_ok in *. unfold holder_stage in X.
        rewrite Hh, Hpc in X. simpl in X. rewrite Hh, hs_upd_self by assumption.
        rewrite field_upd_none, trace_upd, count_probe_app. simpl.
        destruct (field s k); simpl; exact X.
      + intros u k' Hu. destruct (Nat.eq_dec u t) as [->|Hne].
        * rewrite pc_upd_eq by assumption. intro E. apply Hslot; [assumption|].
          destruct (field s k); simpl in *; [assumption|discriminate].
        * rewrite pc_upd_neq by assumption. apply (c_slot s C u k' Hu).
      + intros u k' Hu. rewrite field_upd_none. destruct (Nat.eq_dec u t) as [->|Hne].
        * rewrite pc_upd_eq by assumption. destruct (field s k); discriminate.
        * rewrite pc_upd_neq by assumption. apply (c_nonnil s C u k' Hu).
    - (* PUnlock *)
      inversion Hs; subst s'. constructor.
      + intros k' Hk'. pose proof (c_cache s C k' Hk') as X. unfold cache_ok in *. unfold holder_stage in X.
        rewrite Hh, Hpc in X. simpl in X. rewrite hs_upd_none, field_upd_none, trace_upd. simpl. exact X.
      + intros u k' Hu. destruct (Nat.eq_dec u t) as [->|Hne].
        * rewrite pc_upd_eq by assumption. intro E. apply Hslot; [assumption|].
          destruct res; simpl in *; [assumption|discriminate].
        * rewrite pc_upd_neq by assumption. apply (c_slot s C u k' Hu).
      + intros u k' Hu. rewrite field_upd_none. destruct (Nat.eq_dec u t) as [->|Hne].
        * rewrite pc_upd_eq by assumption. destruct res; discriminate.
        * rewrite pc_upd_neq by assumption. apply (c_nonnil s C u k' Hu).
    - (* PRun: t does not hold the lock *)
      inversion Hs; subst s'. constructor.
      + intros k' Hk'. pose proof (c_cache s C k' Hk') as X. unfold cache_ok in *. unfold holder_stage in X.
        rewrite field_upd_none, trace_upd, count_probe_app.
        change (count_probe k' [ERun t k]) with 0. simpl.
        destruct (st_lock s) as [h|] eqn:Hl; [|rewrite hs_upd_none; exact X].
        destruct (Nat.eq_dec h t) as [->|Hne].
        * exfalso. destruct Hmx as [_ Hm]. specialize (Hm eq_refl). discriminate.
        * rewrite hs_upd_other by assumption. exact X.
      + intros u k' Hu. destruct (Nat.eq_dec u t) as [->|Hne].
        * rewrite pc_upd_eq by assumption. discriminate.
        * rewrite pc_upd_neq by assumption. apply (c_slot s C u k' Hu).
      + intros u k' Hu. rewrite field_upd_none. destruct (Nat.eq_dec u t) as [->|Hne].
        * rewrite pc_upd_eq by assumption. discriminate.
        * rewrite pc_upd_neq by assumption. apply (c_nonnil s C u k' Hu).
    - discriminate.
    - discriminate.
  Qed.

  (** *** T: per-request accounting; A: every access happens under the lock *)
  Definition no_runs (s : state) (t : nat) : Prop := forall k, count_run t k (st_trace s) = 0.

  Definition thread_ok (s : state) (t : nat) : Prop :=
    match pc_of s t with
    | PRun k => no_runs s t /\ present env k = true
    | PDone e =>
        match nth t reqs None with
        | Some k => (forall k', count_run t k' (st_trace s) = if Nat.eqb k k' && present env k then 1 else 0)
                    /\ e = present env k && failing env k
        | None => no_runs s t /\ e = false
        end
    | PUnlock k b => no_runs s t /\ b = present env k
    | PNilDeref => False
    | _ => no_runs s t
    end.

  Definition locked_ev (e : event) : Prop :=
    match e with ERead _ _ l | EWrite _ _ l => l = true | _ => True end.

  Record TInv (s : state) : Prop := {
    t_thread : forall t, t < n -> thread_ok s t;
    t_locked : forall e, In e (st_trace s) -> locked_ev e
  }.

  Lemma TInv_init : TInv (init nslots reqs).
  Proof.
    constructor.
    - intros t Ht. unfold thread_ok, pc_of. simpl. rewrite nth_map_start.
      destruct (nth_error reqs t) as [[k|]|] eqn:E; simpl.
      + intro k'. reflexivity.
      + rewrite (nth_error_nth _ _ None _ E). split; [intro k'; reflexivity|reflexivity].
      + apply nth_error_None in E. unfold n in Ht. lia.
    - intros e [].
  Qed.

  Lemma count_run_other u t k k' : u <> t -> count_run u k' [ERun t k] = 0.
  Proof. intro H. unfold count_run. simpl. rewrite (eqb_neq_false u t H). reflexivity. Qed.

  Lemma thread_ok_frame s t u l f ev p :
    u <> t -> (forall k', count_run u k' ev = 0) ->
    thread_ok s u -> thread_ok (upd s t l f ev p) u.
  Proof.
    intros Hne Hev H. unfold thread_ok, no_runs in *. rewrite pc_upd_neq by assumption. rewrite trace_upd.
    destruct (pc_of s u); try (intro k'; rewrite count_run_app, Hev; apply H); try exact H.
    - destruct H as [H1 H2]. split; [intro k'; rewrite count_run_app, Hev; apply H1|assumption].
    - destruct H as [H1 H2]. split; [intro k'; rewrite count_run_app, Hev; apply H1|assumption].
    - destruct (nth u reqs None); destruct H as [H1 H2]; (split; [intro k'; rewrite count_run_app, Hev; apply H1|assumption]).
  Qed.

  Lemma TInv_step s t s' : MInv s -> CInv s -> TInv s -> step env s t = Some s' -> TInv s'.
  Proof.
    intros M C T Hs. unfold step in Hs.
    destruct (Nat.ltb t (List.length (st_pcs s))) eqn:Hlt; simpl in Hs; [|discriminate].
    apply Nat.ltb_lt in Hlt. pose proof Hlt as Hlt'. rewrite (m_len s M) in Hlt.
    pose proof (m_mutex s M t Hlt) as Hmx.
    pose proof (t_thread s T t Hlt) as Ht. unfold thread_ok in Ht.
    pose proof (c_slot s C t) as Hslot.
    assert (Hholds : in_crit (pc_of s t) = true -> holds s t = true).
    { intro H. apply Hmx in H. unfold holds. rewrite H. apply Nat.eqb_refl. }
    destruct (pc_of s t) eqn:Hpc; simpl in Hmx;
      try (assert (Hh : st_lock s = Some t) by (apply Hmx; reflexivity));
      try (assert (Hk : k < nslots) by (apply (reqs_ok t); apply Hslot; [assumption|reflexivity])).
    - (* PLock *)
      destruct (st_lock s) eqn:Hl; [discriminate|]. inversion Hs; subst s'. constructor.
      + intros u Hu. destruct (Nat.eq_dec u t) as [->|Hne].
        * unfold thread_ok. rewrite pc_upd_eq by assumption. exact Ht.
        * apply thread_ok_frame; [assumption|reflexivity|apply (t_thread s T u Hu)].
      + apply (t_locked s T).
    - (* PTest *)
      inversion Hs; subst s'. constructor.
      + intros u Hu. destruct (Nat.eq_dec u t) as [->|Hne].
        * unfold thread_ok. rewrite pc_upd_eq by assumption.
          destruct (field s k); intro k'; rewrite trace_upd, count_run_app; apply Ht.
        * apply thread_ok_frame; [assumption|reflexivity|apply (t_thread s T u Hu)].
      + intros e. rewrite trace_upd. intros [<-|Hin]; [apply Hholds; reflexivity|apply (t_locked s T); assumption].
    - (* PProbe *)
      inversion Hs; subst s'. constructor.
      + intros u Hu. destruct (Nat.eq_dec u t) as [->|Hne].
        * unfold thread_ok. rewrite pc_upd_eq by assumption.
          intro k'; rewrite trace_upd, count_run_app; apply Ht.
        * apply thread_ok_frame; [assumption|reflexivity|apply (t_thread s T u Hu)].
      + intros e. rewrite trace_upd. intros [<-|Hin]; [exact I|apply (t_locked s T); assumption].
    - (* PAlloc *)
      inversion Hs; subst s'. constructor.
      + intros u Hu. destruct (Nat.eq_dec u t) as [->|Hne].
        * unfold thread_ok. rewrite pc_upd_eq by assumption.
          intro k'; rewrite trace_upd, count_run_app; apply Ht.
        * apply thread_ok_frame; [assumption|reflexivity|apply (t_thread s T u Hu)].
      + intros e. rewrite trace_upd. intros [<-|Hin]; [apply Hholds; reflexivity|apply (t_locked s T); assumption].
    - (* PStore *)
      pose proof (c_cache s C k Hk) as Xk. unfold cache_ok, holder_stage in Xk.
      rewrite Hh, Hpc in Xk. simpl in Xk. rewrite Nat.eqb_refl in Xk. destruct Xk as [[b Hb] [Xc Xo]].
      rewrite Hb in Hs. inversion Hs; subst s'. constructor.
      + intros u Hu. destruct (Nat.eq_dec u t) as [->|Hne].
        * unfold thread_ok. rewrite pc_upd_eq by assumption.
          intro k'; rewrite trace_upd, count_run_app; apply Ht.
        * apply thread_ok_frame; [assumption|reflexivity|apply (t_thread s T u Hu)].
      + intros e. rewrite trace_upd. intros [<-|Hin]; [apply Hholds; reflexivity|apply (t_locked s T); assumption].
    - (* PLoad *)
      pose proof (c_cache s C k Hk) as Xk. unfold cache_ok, holder_stage in Xk.
      rewrite Hh, Hpc in Xk. simpl in Xk.
      pose proof (c_nonnil s C t k Hlt Hpc) as Nn.
      destruct (field s k) as [b|] eqn:Hf; [|congruence].
      inversion Hs; subst s'. constructor.
      + intros u Hu. destruct (Nat.eq_dec u t) as [->|Hne].
        * unfold thread_ok. rewrite pc_upd_eq by assumption.
          split; [intro k'; rewrite trace_upd, count_run_app; apply Ht|tauto].
        * apply thread_ok_frame; [assumption|reflexivity|apply (t_thread s T u Hu)].
      + intros e. rewrite trace_upd. intros [<-|Hin]; [apply Hholds; reflexivity|apply (t_locked s T); assumption].
    - (* PUnlock *)
      inversion Hs; subst s'. destruct Ht as [Ht1 Ht2]. constructor.
      + intros u Hu. destruct (Nat.eq_dec u t) as [->|Hne].
        * unfold thread_ok. rewrite pc_upd_eq by assumption.
          assert (Hreq : nth t reqs None = Some k) by (apply Hslot; [assumption|reflexivity]).
          destruct res.
          -- split; [exact Ht1|auto].
          -- rewrite Hreq. rewrite <- Ht2. split; [|reflexivity].
             intro k'. rewrite andb_false_r. apply Ht1.
        * apply thread_ok_frame; [assumption|reflexivity|apply (t_thread s T u Hu)].
      + apply (t_locked s T).
    - (* PRun *)
      inversion Hs; subst s'. destruct Ht as [Ht1 Ht2]. constructor.
      + intros u Hu. destruct (Nat.eq_dec u t) as [->|Hne].
        * unfold thread_ok. rewrite pc_upd_eq by assumption.
          assert (Hreq : nth t reqs None = Some k) by (apply Hslot; [assumption|reflexivity]).
          rewrite Hreq, Ht2. split; [|reflexivity].
          intro k'. rewrite trace_upd, count_run_app, Ht1. rewrite andb_true_r.
          unfold count_run. simpl. rewrite Nat.eqb_refl. simpl. rewrite (Nat.eqb_sym k' k).
          destruct (Nat.eqb k k'); reflexivity.
        * apply thread_ok_frame; [assumption|intro k'; apply count_run_other; assumption|apply (t_thread s T u Hu)].
      + intros e. rewrite trace_upd. intros [<-|Hin]; [exact I|apply (t_locked s T); assumption].
    - discriminate.
    - discriminate.
  Qed.

  (** *** all invariants along any schedule *)
  Record Inv (s : state) : Prop := { i_m : MInv s; i_c : CInv s; i_t : TInv s }.

  Lemma Inv_init : Inv (init nslots reqs).
  Proof. constructor; [apply MInv_init|apply CInv_init|apply TInv_init]. Qed.

  Lemma Inv_step s t s' : Inv s -> step env s t = Some s' -> Inv s'.
  Proof.
    intros [M C T] H. constructor.
    - eapply MInv_step; eauto.
    - eapply CInv_step; eauto.
    - eapply TInv_step; eauto.
  Qed.

  Lemma Inv_run sched : forall s, Inv s -> Inv (run env sched s).
  Proof.
    induction sched as [|t r IH]; intros s I; simpl; [assumption|].
    destruct (step env s t) eqn:E; [apply IH; eapply Inv_step; eauto|apply IH; assumption].
  Qed.

  Definition reach (sched : list nat) : state := run env sched (init nslots reqs).

  Lemma Inv_reach sched : Inv (reach sched).
  Proof. apply Inv_run. apply Inv_init. Qed.

  (** ** the properties *)
  Lemma access_in_crit p k w : access p = Some (k, w) -> in_crit p = true.
  Proof. destruct p; simpl; intro H; try discriminate; reflexivity. Qed.

  Lemma race_free sched : ~ racy (reach sched).
  Proof.
    intros [t [u [k [wt [wu [Hne [Ht [Hu [At [Au _]]]]]]]]]].
    destruct (Inv_reach sched) as [M _ _]. rewrite (m_len _ M) in Ht, Hu.
    apply access_in_crit in At. apply access_in_crit in Au.
    apply (m_mutex _ M t Ht) in At. apply (m_mutex _ M u Hu) in Au. congruence.
  Qed.

  Lemma accesses_locked sched e : In e (st_trace (reach sched)) -> locked_ev e.
  Proof. destruct (Inv_reach sched) as [_ _ T]. apply (t_locked _ T). Qed.

  Lemma probe_once sched k : k < nslots -> count_probe k (st_trace (reach sched)) <= 1.
  Proof.
    intro Hk. destruct (Inv_reach sched) as [_ C _]. pose proof (c_cache _ C k Hk) as X.
    unfold cache_ok in X. destruct (holder_stage (reach sched) k).
    - destruct X as [_ X]. lia.
    - destruct X as [_ [X _]]. lia.
    - destruct X as [_ [X _]]. lia.
    - destruct (field (reach sched) k); [destruct X as [X _]|]; lia.
  Qed.

  (** a probe that happened is remembered: the cached value is the tool's presence *)
  Lemma cached_value_correct sched k b : k < nslots -> st_lock (reach sched) = None ->
    field (reach sched) k = Some b -> b = present env k /\ count_probe k (st_trace (reach sched)) = 1.
  Proof.
    intros Hk Hl Hf. destruct (Inv_reach sched) as [_ C _]. pose proof (c_cache _ C k Hk) as X.
    unfold cache_ok, holder_stage in X. rewrite Hl, Hf in X. tauto.
  Qed.

  Lemma request_outcome sched t e : t < n -> pc_of (reach sched) t = PDone e ->
    match nth t reqs None with
    | Some k => (forall k', count_run t k' (st_trace (reach sched)) = if Nat.eqb k k' && present env k then 1 else 0)
                /\ e = present env k && failing env k
    | None => (forall k', count_run t k' (st_trace (reach sched)) = 0) /\ e = false
    end.
  Proof.
    intros Ht Hpc. destruct (Inv_reach sched) as [_ _ T]. pose proof (t_thread _ T t Ht) as X.
    unfold thread_ok in X. rewrite Hpc in X. exact X.
  Qed.

  Lemma no_run_before_done sched t : t < n -> (forall e, pc_of (reach sched) t <> PDone e) ->
    forall k, count_run t k (st_trace (reach sched)) = 0.
  Proof.
    intros Ht Hpc. destruct (Inv_reach sched) as [_ _ T]. pose proof (t_thread _ T t Ht) as X.
    unfold thread_ok, no_runs in X. destruct (pc_of (reach sched) t) eqn:E; try tauto.
    exfalso. eapply Hpc. reflexivity.
  Qed.

  Lemma no_nil_deref sched t : pc_of (reach sched) t <> PNilDeref.
  Proof.
    intro H. destruct (Inv_reach sched) as [M _ T].
    destruct (Nat.lt_ge_cases t n) as [Ht|Ht].
    - pose proof (t_thread _ T t Ht) as X. unfold thread_ok in X. rewrite H in X. exact X.
    - unfold pc_of in H. rewrite nth_overflow in H; [discriminate|]. rewrite (m_len _ M). assumption.
  Qed.

  (** progress: unless every request has returned, some thread can take a step *)
  Lemma progress sched : all_doneb (reach sched) = false -> exists t, step env (reach sched) t <> None.
  Proof.
    intro H. pose proof (Inv_reach sched) as I. destruct I as [M C T]. set (s := reach sched) in *.
    destruct (st_lock s) as [h|] eqn:Hl.
    - exists h. pose proof (m_lock_lt s M h Hl) as Hh.
      pose proof (proj2 (m_mutex s M h Hh) Hl) as Hc.
      pose proof (t_thread s T h Hh) as X. unfold thread_ok in X.
      unfold step. rewrite (m_len s M). apply Nat.ltb_lt in Hh. rewrite Hh. simpl.
      destruct (pc_of s h); simpl in Hc; try discriminate; try (destruct (field s k)); try discriminate.
      destruct X.
    - unfold all_doneb in H.
      assert (exists t, t < n /\ forall e, pc_of s t <> PDone e) as [t [Ht Hnd]].
      { rewrite <- (m_len s M). unfold pc_of. clear -H. induction (st_pcs s) as [|p r IH]; simpl in H; [discriminate|].
        destruct p; try (exists 0; split; [simpl; lia|intros e; simpl; discriminate]).
        simpl in H. destruct (IH H) as [t [Ht Hn]]. exists (S t). split; [simpl; lia|exact Hn]. }
      exists t. pose proof (m_mutex s M t Ht) as Hm. rewrite Hl in Hm.
      pose proof (t_thread s T t Ht) as X. unfold thread_ok in X.
      unfold step. rewrite (m_len s M). apply Nat.ltb_lt in Ht. rewrite Ht. simpl. rewrite Hl.
      destruct (pc_of s t) eqn:E; try discriminate;
        try (exfalso; destruct Hm as [Hm _]; specialize (Hm eq_refl); discriminate).
      + exfalso. eapply Hnd. reflexivity.
  Qed.

  (** every step strictly decreases a bounded measure: at most 8 steps per request *)
  Definition rank (p : pc) : nat :=
    match p with
    | PLock _ => 8 | PTest _ => 7 | PProbe _ => 6 | PAlloc _ _ => 5 | PStore _ _ => 4
    | PLoad _ => 3 | PUnlock _ _ => 2 | PRun _ => 1 | PDone _ => 0 | PNilDeref => 0
    end.
  Definition total_rank (s : state) : nat := list_sum (map rank (st_pcs s)).

  Lemma list_sum_set_nth l t p : t < List.length l ->
    list_sum (map rank (set_nth t p l)) + rank (nth t l (PDone false)) = list_sum (map rank l) + rank p.
  Proof.
    revert t. induction l as [|x r IH]; intros [|t] H; simpl in *; try lia.
    specialize (IH t ltac:(lia)). lia.
  Qed.

  Lemma step_decreases s t s' : step env s t = Some s' -> total_rank s' < total_rank s.
  Proof.
    unfold step. destruct (Nat.ltb t (List.length (st_pcs s))) eqn:Hlt; simpl; [|discriminate].
    apply Nat.ltb_lt in Hlt. intro H. unfold total_rank.
    assert (forall l f e p q, pc_of s t = q -> rank p < rank q ->
              list_sum (map rank (st_pcs (upd s t l f e p))) < list_sum (map rank (st_pcs s))) as D.
    { intros l f e p q Hq Hr. simpl. pose proof (list_sum_set_nth (st_pcs s) t p Hlt). unfold pc_of in Hq. rewrite Hq in H0. lia. }
    destruct (pc_of s t) eqn:Hpc; try discriminate.
    - destruct (st_lock s); [discriminate|]. inversion H; subst. eapply D; [reflexivity|]. simpl. lia.
    - inversion H; subst. eapply D; [reflexivity|]. destruct (field s k); simpl; lia.
    - inversion H; subst. eapply D; [reflexivity|]. simpl. lia.
    - inversion H; subst. eapply D; [reflexivity|]. simpl. lia.
    - destruct (field s k); inversion H; subst; (eapply D; [reflexivity|]); simpl; lia.
    - inversion H; subst. eapply D; [reflexivity|]. destruct (field s k); simpl; lia.
    - inversion H; subst. eapply D; [reflexivity|]. destruct res; simpl; lia.
    - inversion H; subst. eapply D; [reflexivity|]. simpl. lia.
  Qed.

  Lemma total_rank_init : total_rank (init nslots reqs) <= 8 * n.
  Proof.
    unfold total_rank, init, n. simpl. clear. induction reqs as [|r rs IH]; simpl; [lia|].
    destruct r; simpl; lia.
  Qed.
End Inv.
