(** C10 — Enum detection is exact.
    Facts: [p_consts p] are the package-level constants of package [p] in scope order, with the
    defined type of each, its exact value, its export status and the trailing comment of its
    specification; [const_wf c] says that a value specification encloses the constant's position
    (true of every constant of a parsed Go file; evaluated on every harness case). *)
From Coq Require Import List String ZArith Bool Sorting.Permutation.
From GM Require Import Base.Result Facts.GoFacts Model.Enums Proofs.C10.
Import ListNotations.
Local Open Scope string_scope.

(** A defined type is an enum of its package exactly when the package declares at least one typed
    constant of it that is not opted out; each enum is listed once. *)
Theorem C10_enum_iff : forall types p es,
  Forall const_wf (p_consts p) -> fetch_pkg_enums_raw types p = Ok es ->
  NoDup (map en_id es) /\
  forall id, In id (map en_id es) <-> spec_members (p_consts p) id <> [].
Proof. intros types p es W H. destruct (fetch_pkg_enums_spec types p es W H) as [A [B _]]. auto. Qed.

(** Its members are all those constants, exported or not, each once, with their exact values and
    trailing comments (a permutation; the declaration order itself when the enum is not iota-like). *)
Theorem C10_members : forall types p es e,
  Forall const_wf (p_consts p) -> fetch_pkg_enums_raw types p = Ok es -> In e es ->
  let raw := map (fun c => member_of c (c_comment c)) (spec_members (p_consts p) (en_id e)) in
  Permutation (en_members e) raw /\ (en_is_iota e = false -> en_members e = raw).
Proof. intros types p es e W H He. destruct (fetch_pkg_enums_spec types p es W H) as [_ [_ C]]. destruct (C e He) as [A [B _]]. auto. Qed.

(** Soundness of the iota flag: integer-backed, and the exported members, in the reported member
    order, have the values 0,1,2,... without gap or duplicate. *)
Theorem C10_iota_sound : forall types p es e,
  Forall const_wf (p_consts p) -> fetch_pkg_enums_raw types p = Ok es -> In e es -> en_is_iota e = true ->
  type_is_integer types (en_id e) = true /\
  exported_int64 (en_members e) = map Some (zseq 0 (List.length (filter em_exported (en_members e)))).
Proof. intros types p es e W H He Hi. destruct (fetch_pkg_enums_spec types p es W H) as [_ [_ C]]. destruct (C e He) as [_ [_ D]]. auto. Qed.

(** Completeness: an integer-backed enum all of whose values are non-negative int64 and whose exported
    values are exactly 0..n-1, each once, in any declaration order, is flagged - in particular
    every plain iota block of non-negative constants. *)
Theorem C10_iota_complete : forall types p es e vs,
  Forall const_wf (p_consts p) -> fetch_pkg_enums_raw types p = Ok es -> In e es ->
  type_is_integer types (en_id e) = true ->
  let raw := map (fun c => member_of c (c_comment c)) (spec_members (p_consts p) (en_id e)) in
  all_values raw = Some vs ->
  Permutation (exported_vals raw vs) (zseq 0 (List.length (exported_vals raw vs))) ->
  en_is_iota e = true.
Proof.
  intros types p es e vs W H He Hint raw Hv Hp.
  rewrite (fetch_pkg_enums_flag types p es e W H He), Hint. apply (set_is_iota_complete _ vs); assumption.
Qed.

(** [fetch_pkg_enums_raw types p] is the table built from the constants [p_consts p]; the generator applies it to
    [own_pkg types p], the package restricted to the constants whose type it declares itself ("its package
    declares ..."). The walk over the user's packages: never a crash or a refusal, and every enum found comes from
    the constants of one selected package (enums are keyed by qualified type, so a type name used
    in two packages gives two unrelated enums). *)
Theorem C10_walk_total : forall pr, exists es, fetch_enums pr = Ok es.
Proof. exact fetch_enums_ok. Qed.

Theorem C10_walk_origin : forall pr es e, fetch_enums pr = Ok es -> In e es ->
  exists path p pes, In path (selected_pkgs pr) /\ find_pkg path (pr_pkgs pr) = Some p /\
    fetch_pkg_enums_raw (pr_types pr) (own_pkg (pr_types pr) p) = Ok pes /\ In e pes.
Proof. exact fetch_enums_origin. Qed.

(** The two defects of the pinned tree, kept as regression witnesses. *)
Theorem C10_pinned_duplicates_refuted :
  let ms := [ {| em_name := "Red"; em_val := CInt 0; em_exact := "0"; em_exported := true; em_comment := "" |};
              {| em_name := "Green"; em_val := CInt 1; em_exact := "1"; em_exported := true; em_comment := "" |};
              {| em_name := "Blue"; em_val := CInt 1; em_exact := "1"; em_exported := true; em_comment := "" |} ] in
  snd (set_is_iota_pinned true ms) = true /\
  exported_int64 (fst (set_is_iota_pinned true ms)) <> map Some (zseq 0 3).
Proof. exact set_is_iota_pinned_refuted. Qed.

Theorem C10_pinned_multi_name_crash_refuted :
  exists c, (exists v, In v (c_cands c) /\ cd_kind v = NValueSpec) /\ is_crash (fetch_const_comment_pinned c) = true.
Proof. exact pinned_comment_crashes_on_second_name. Qed.

(** Non-vacuity: an iota block with an unexported member sharing a value. *)
Example C10_example :
  let mk := fun n v e => {| em_name := n; em_val := CInt v; em_exact := ""; em_exported := e; em_comment := "" |} in
  set_is_iota true [mk "B" 1%Z true; mk "dup" 0%Z false; mk "A" 0%Z true] =
  ([mk "dup" 0%Z false; mk "A" 0%Z true; mk "B" 1%Z true], true).
Proof. reflexivity. Qed.

Print Assumptions C10_enum_iff.
Print Assumptions C10_members.
Print Assumptions C10_iota_sound.
Print Assumptions C10_iota_complete.
Print Assumptions C10_walk_total.
Print Assumptions C10_walk_origin.
Print Assumptions C10_pinned_duplicates_refuted.
Print Assumptions C10_pinned_multi_name_crash_refuted.
