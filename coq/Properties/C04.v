(** C04 — The generated Postgres JSON validators accept what Go emits and refuse foreign shapes.
    PostgreSQL side: the six PL/pgSQL templates as an AST and their evaluation over jsonb under
    three-valued logic (Sem/PgSem.v). Go side: the wire shapes of Sem/GoJson.v (validated against the
    real encoder by C02, and again by C04 on every document). The two are related by a finite table of
    pairs (validator name, shape) closed under "is called on the children of" ([sim_ok], Sem/PgSim.v):
    a decidable premise, computed by Corr/Check_C04.v on every run for every jsonb column from the
    script parsed out of /repo's generator and the wire shapes of the analysed program. Under it the
    statements hold for every document of the shape, of any size and nesting, and for every one of its
    single-point corruptions (Sem/Corrupt.v: the five classes of the statement, at every position).
    Not modelled: PostgreSQL itself (the semantics is a reading of its manual), jsonb numbers other
    than the literals Go writes, the RAISE WARNING side effect. *)
From Coq Require Import List String Bool Arith.
From GM Require Import Sem.GoJson Sem.PgSem Sem.Corrupt Sem.PgSim Proofs.C04.
Import ListNotations.
Local Open Scope string_scope.

(** the CHECK never evaluates to false (nor raises) on a document Go emits for the column *)
Theorem C04_validators_admit_go_documents : forall venv jenv t fn sh j n m,
  sim_ok venv jenv t = true -> memb t fn sh = true ->
  conformsb jenv n sh j = true -> n < m ->
  check_passes (eval venv m fn (Some j)) = true.
Proof. exact validators_admit. Qed.

(** it evaluates to false on every single-point corruption: unknown object key, value of the wrong
    JSON kind, unknown union Kind, non-member enum value, wrong fixed-array length *)
Theorem C04_validators_refuse_corruptions : forall venv jenv t fn sh j n m k cl c,
  sim_ok venv jenv t = true -> memb t fn sh = true ->
  conformsb jenv n sh j = true ->
  In (cl, c) (corruptions jenv k sh j) -> n < m ->
  eval venv m fn (Some c) = TFalse.
Proof. exact validators_refuse. Qed.

(** every validation function called by a body reached from a CHECK is defined in the script *)
Theorem C04_called_validators_defined : forall venv jenv t fn sh v g,
  sim_ok venv jenv t = true -> memb t fn sh = true ->
  lookup_fun fn venv = Some v -> In g (callees v) ->
  exists v', lookup_fun g venv = Some v'.
Proof. exact callees_defined. Qed.

(** the premises are met by a concrete script and document, with corruptions of the five classes *)
Theorem C04_premises_satisfiable :
  sim_ok ex_venv ex_jenv ex_table = true /\ memb ex_table "f_root" (ShRef "Root") = true
  /\ conformsb ex_jenv 8 (ShRef "Root") ex_doc = true
  /\ List.length (corruptions ex_jenv 8 (ShRef "Root") ex_doc) = 20.
Proof. destruct premises_hold as [H1 [H2 [H3 [H4 _]]]]. repeat split; assumption. Qed.

Print Assumptions C04_validators_admit_go_documents.
Print Assumptions C04_validators_refuse_corruptions.
Print Assumptions C04_called_validators_defined.
Print Assumptions C04_premises_satisfiable.
