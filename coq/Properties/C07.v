(** C07 — Generation is deterministic.
    The only source of run-to-run variation in gomacro is the iteration order of Go maps (the
    inventory regenerated from /repo on every run shows no use of math/rand, time.Now or %p in
    non-test code, and which functions range over maps). A range over a map visits some permutation of
    its bindings (distinct keys). Every site of [site_table] is of one of the kinds below; each theorem
    says that the result of that kind of loop is the same for every permutation. Together with C19
    (the assembled text does not depend on the order of the declarations) this gives byte-identical
    outputs. *)
From Coq Require Import List String Bool Sorting.Permutation.
From GM Require Import Base.StrOrd Model.MapOrder Model.WriteDecls Model.Unions Proofs.C07 Proofs.C19 Proofs.C11.
Import ListNotations.
Local Open Scope string_scope.

(** MergeDistinctKeys: out[k] = v for every binding *)
Theorem C07_merge_order_independent : forall (V : Type) (bs bs' m : list (string * V)) k,
  NoDup (map fst bs) -> Permutation bs bs' ->
  lookup V k (fold_left (put V) bs m) = lookup V k (fold_left (put V) bs' m).
Proof. intros. apply lookup_merge_perm; assumption. Qed.

(** ForEachIndependent: each binding is updated on its own *)
Theorem C07_foreach_order_independent : forall (V : Type) (f : string * V -> string * V) bs bs',
  Permutation bs bs' -> Permutation (map f bs) (map f bs').
Proof. intros. apply Permutation_map. assumption. Qed.

(** CollectThenSort: the keys are appended to a list which is sorted afterwards *)
Theorem C07_collect_then_sort_order_independent : forall (f : string -> string) ks ks',
  Permutation ks ks' -> sort_str (map f ks) = sort_str (map f ks').
Proof. exact collect_then_sort_perm. Qed.

(** FirstHitUnique: the first binding satisfying a predicate that at most one binding satisfies *)
Theorem C07_first_hit_order_independent : forall (V : Type) (p : string * V -> bool) bs bs',
  (forall a b, In a bs -> In b bs -> p a = true -> p b = true -> a = b) ->
  Permutation bs bs' -> find p bs = find p bs'.
Proof. intros. apply find_unique_perm; assumption. Qed.

(** Struct.setImplements, on the model of C11 *)
Theorem C07_implements_order_independent : forall unions unions' analysed sid,
  Permutation unions unions' -> set_implements unions analysed sid = set_implements unions' analysed sid.
Proof. exact set_implements_order_indep. Qed.

(** the final text does not depend on the order in which the traversal produced the declarations *)
Theorem C07_declaration_order_independent : forall l l' s s',
  consistent l -> Permutation l l' -> id_sorted s l -> id_sorted s' l' -> write_sorted s = write_sorted s'.
Proof. exact write_perm_invariant. Qed.

Print Assumptions C07_merge_order_independent.
Print Assumptions C07_foreach_order_independent.
Print Assumptions C07_collect_then_sort_order_independent.
Print Assumptions C07_first_hit_order_independent.
Print Assumptions C07_implements_order_independent.
Print Assumptions C07_declaration_order_independent.
