(** C11 — Union detection and membership are exact.
    Facts: [candidates types p] are the defined types of package [p] found through its scope names
    (sorted), each with its underlying type and the method set of the value type; an interface is
    given by its full method set. [implements m itf] = every method of [itf] (name qualified when
    unexported, full signature) belongs to the method set of [m]. *)
From Coq Require Import List String Bool Sorting.Permutation.
From GM Require Import Base.StrOrd Facts.GoFacts Model.Enums Model.Unions Proofs.C11.
Import ListNotations.
Local Open Scope string_scope.

(** A named interface of a package is a union exactly when some non-interface defined type of the
    same package implements it, and its members are exactly those types, in candidate order. *)
Theorem C11_union_iff_and_members : forall types p u ms,
  In (u, ms) (fetch_pkg_unions types p) <->
  exists c itf, In c (candidates types p) /\ n_id c = u /\ n_under c = UInterface itf /\
                ms = map n_id (filter (member_ok itf) (candidates types p)) /\ ms <> [].
Proof. exact fetch_pkg_unions_spec. Qed.

(** Each member once, in name order (the scope names are sorted and unique). *)
Theorem C11_members_once_in_name_order : forall types p u ms,
  NoDup (map n_id (candidates types p)) -> ssorted (map n_id (candidates types p)) ->
  In (u, ms) (fetch_pkg_unions types p) -> NoDup ms /\ ssorted ms.
Proof. exact members_sorted_nodup. Qed.

(** A struct reports exactly the analysed unions that list it as a member, in name order, each once,
    whatever the iteration order over the union table. *)
Theorem C11_backlinks_exact : forall unions analysed sid u,
  In u (set_implements unions analysed sid) <->
  exists ms, In (u, ms) unions /\ analysed u = true /\ In sid ms.
Proof. exact set_implements_In. Qed.

Theorem C11_backlinks_sorted_once : forall unions analysed sid,
  ssorted (set_implements unions analysed sid) /\
  (NoDup (map fst unions) -> NoDup (set_implements unions analysed sid)).
Proof. intros. split; [apply set_implements_sorted|apply set_implements_NoDup]. Qed.

Theorem C11_backlinks_order_independent : forall unions unions' analysed sid,
  Permutation unions unions' -> set_implements unions analysed sid = set_implements unions' analysed sid.
Proof. exact set_implements_order_indep. Qed.

Print Assumptions C11_union_iff_and_members.
Print Assumptions C11_members_once_in_name_order.
Print Assumptions C11_backlinks_exact.
Print Assumptions C11_backlinks_sorted_once.
Print Assumptions C11_backlinks_order_independent.
