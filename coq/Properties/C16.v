(** C16 — SQL comment directives are expanded exactly.
    The regular expressions of the code are modelled as scanners (Model/Comments.v); the model is
    compared on every run with the constraint section of the real SQL script and with the custom
    query functions of the real CRUD file. *)
From Coq Require Import List String Bool.
From GM Require Import Base.Result Facts.GoFacts Facts.Ana Model.Enums Model.SqlTypes Model.Comments Proofs.C16.
Import ListNotations.
Local Open Scope string_scope.

(** Whole words only: the text is cut into maximal runs of word characters and runs of other characters
    (a partition of the text); a run is replaced iff it is, as a whole, the name of a table struct. *)
Theorem C16_tokens_partition_the_text : forall s, String.concat "" (tokens s) = s.
Proof. exact tokens_concat. Qed.

Theorem C16_only_table_names_are_replaced : forall tbl t,
  (token_is_word t = false -> subst_word tbl t = t) /\
  (lookup_str t tbl = None -> subst_word tbl t = t) /\
  (forall v, token_is_word t = true -> lookup_str t tbl = Some v -> subst_word tbl t = v).
Proof. intros. repeat split; [apply subst_word_other|apply subst_word_unknown|intro v; apply subst_word_known]. Qed.

Theorem C16_no_table_name_no_change : forall tbl s,
  Forall (fun t => lookup_str t tbl = None) (tokens s) -> replace_words tbl s = s.
Proof. exact replace_words_identity. Qed.

(** A constraint starting with ADD is attached to the table of the struct carrying the comment (the
    [tsql] the caller passes: the table of the struct node whose Comments list holds the directive). *)
Theorem C16_add_constraints_are_attached_to_their_table : forall pr enums rep tsql content out,
  custom_constraint pr enums rep tsql content = Ok out ->
  exists body, replace_enums_all pr enums (replace_words rep (rewrite_references (S (String.length content)) content)) = Ok body /\
    out = if String.prefix "ADD" body then ("ALTER TABLE " ++ tsql ++ " " ++ body ++ ";")%string else (body ++ ";")%string.
Proof. exact custom_constraint_owner. Qed.

(** Placeholders of a custom query: numbered by first occurrence in a comparison, equal names share a
    number, and the Go function takes exactly one argument per distinct name, each a column of the table. *)
Theorem C16_placeholder_numbering : forall ms,
  NoDup (map snd (number_names ms [])) /\
  (forall nm, In nm (map snd (number_names ms [])) <-> In nm (map snd ms)).
Proof. exact numbering. Qed.

Theorem C16_query_arguments : forall cols comment q,
  new_custom_query cols comment = Ok q ->
  NoDup (map snd (cq_inputs q)) /\ Forall (fun p => In (fst p) cols) (cq_inputs q).
Proof. exact custom_query_arguments. Qed.

Example C16_example :
  replace_words [("Item", "items"); ("Owner", "owners")] "ON Item (O) WHERE ItemX IS NULL AND xItem = Owner.Id"
    = "ON items (O) WHERE ItemX IS NULL AND xItem = owners.Id"
  /\ match new_custom_query ["A"; "B"; "C"] "Move UPDATE Item SET B = $x$ WHERE C = $y$ AND B <> $x$ ;" with
     | Ok q => cq_query q = "UPDATE Item SET B = $1 WHERE C = $2 AND B <> $1 ;" /\ map snd (cq_inputs q) = ["x"; "y"]
     | _ => False end.
Proof. split; [reflexivity|vm_compute; split; reflexivity]. Qed.

Print Assumptions C16_tokens_partition_the_text.
Print Assumptions C16_only_table_names_are_replaced.
Print Assumptions C16_no_table_name_no_change.
Print Assumptions C16_add_constraints_are_attached_to_their_table.
Print Assumptions C16_placeholder_numbering.
Print Assumptions C16_query_arguments.
