(** C15 — Generated random-data functions terminate and return well-formed values.
    [returns fuel t]: the generated function of the type at position [t] returns within [fuel] nested
    calls; it calls the functions of [rand_calls t] unconditionally (slices have at least 3 elements,
    maps at least 40 entries, every union alternative is evaluated), so it returns iff they all do,
    independently of the random stream. Well-formedness of the returned values (enum constants, union
    members, populated containers, skipped fields) and variation are checked by reflection on the real
    functions in the test binary on every run. *)
From Coq Require Import List String ZArith Bool Arith.
From GM Require Import Base.Result Facts.GoFacts Facts.Ana Model.Enums Model.Fields Model.Classify Model.RandData Proofs.C15.
Import ListNotations.

(** if the call structure below a type is well-founded (some ranking decreases along every call), its
    function returns *)
Theorem C15_terminates_when_acyclic : forall nodes (rk : gty -> nat),
  (forall t c, In c (rand_calls nodes t) -> rk c < rk t) -> forall t, returns nodes (S (rk t)) t = true.
Proof. exact ranked_returns. Qed.

(** conversely the function of a type that reaches itself through calls never returns - the known
    finding for recursive types, as a theorem about the model *)
Theorem C15_recursive_type_never_returns : forall nodes t p,
  p <> [] -> is_path nodes t p -> path_end t p = t -> forall fuel, returns nodes fuel t = false.
Proof. exact cyclic_never_returns. Qed.

Theorem C15_more_fuel_never_hurts : forall nodes fuel t, returns nodes fuel t = true -> returns nodes (S fuel) t = true.
Proof. exact returns_mono. Qed.

(** the check evaluates [returns] level by level (linear in the size of the graph instead of exponential) *)
Theorem C15_levels_compute_returns : forall nodes, calls_closed nodes = true ->
  forall k t, In t (positions nodes) -> returns nodes k t = returns_level nodes k t.
Proof. exact returns_level_spec. Qed.

Print Assumptions C15_terminates_when_acyclic.
Print Assumptions C15_recursive_type_never_returns.
Print Assumptions C15_more_fuel_never_hurts.
Print Assumptions C15_levels_compute_returns.
