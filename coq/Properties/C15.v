(** C15 — Generated random-data functions terminate and return well-formed values.
    [returns fuel t]: the generated function of the type at position [t] returns within [fuel] nested
    calls; it calls the functions of [rand_calls t] unconditionally (slices have at least 3 elements,
    maps at least 40 entries, every union alternative is evaluated), so it returns iff they all do,
    independently of the random stream.

    The values: [gen] (Sem/RandSem.v) is rand<T>() as a function of the random numbers drawn, [wf] is
    "well-formed" (every enum-typed component equals an exported constant, every union-typed component
    holds a member, fixed arrays, slices and maps are populated with well-formed elements, skipped fields
    keep their zero value). [gen] is replayed on the calls to math/rand recorded during every real call
    the test binary makes and must rebuild the very value the real function returned; [wf] is also
    evaluated on each real value (Corr/Check_C15.v). Variation is counted in the test binary. *)
From Coq Require Import List String ZArith Bool Arith.
From GM Require Import Base.Result Facts.GoFacts Facts.Ana Model.Enums Model.Fields Model.Classify Model.RandData Model.SqlTypes Sem.GoJson Sem.GoVal Sem.RandSem Proofs.C15 Proofs.C15v.
Import ListNotations.
Local Open Scope string_scope.

(** if the call structure below a type is well-founded (some ranking decreases along every call), its
    function returns *)
Theorem C15_terminates_when_acyclic : forall nodes (rk : gty -> nat),
  (forall t c, In c (rand_calls nodes t) -> rk c < rk t) -> forall t, returns nodes (S (rk t)) t = true.
Proof. exact ranked_returns. Qed.

(** conversely the function of a type that reaches itself through calls never returns - the known
    finding for recursive types, as a theorem about the model *)
Theorem C15_recursive_type_never_returns : forall nodes t p,
  p <> [] -> is_path nodes t p -> path_end t p = t -> forall fuel, returns nodes fuel t = false.
Proof. exact cyclic_never_returns. Qed.

Theorem C15_more_fuel_never_hurts : forall nodes fuel t, returns nodes fuel t = true -> returns nodes (S fuel) t = true.
Proof. exact returns_mono. Qed.

(** the check evaluates [returns] level by level (linear in the size of the graph instead of exponential) *)
Theorem C15_levels_compute_returns : forall nodes, calls_closed nodes = true ->
  forall k t, In t (positions nodes) -> returns nodes k t = returns_level nodes k t.
Proof. exact returns_level_spec. Qed.

(** whatever the random numbers drawn, the value a generated function returns is well-formed *)
Theorem C15_generated_values_are_well_formed : forall pr nodes enums fuel t draws v rest,
  gen pr nodes enums fuel t draws = Some (v, rest) -> wf pr nodes enums fuel t v = true.
Proof. exact gen_wf. Qed.

(** what well-formed means at an enum position: the value of an exported constant *)
Theorem C15_wf_enum_component : forall pr nodes enums f t n id v,
  find_node t nodes = Some n -> nr_kind n = KdEnum -> nr_at n = GNamed id ->
  wf pr nodes enums (S f) t v = true ->
  exists m x, In m (exported_members enums id) /\ em_exported m = true /\ member_value m = Some x /\ value_eqb x v = true.
Proof. exact wf_enum. Qed.

(** ... and at an union position: a member of the union holding a well-formed value of that member *)
Theorem C15_wf_union_component : forall pr nodes enums f t n v,
  find_node t nodes = Some n -> nr_kind n = KdUnion ->
  wf pr nodes enums (S f) t v = true ->
  exists m w, v = VUnion (local_name_of pr m) w /\ In m (nr_members n) /\ wf pr nodes enums f (GNamed m) w = true.
Proof. exact wf_union. Qed.

(** the premise is satisfiable: a struct with an enum, a slice of an union and a skipped field, on a recorded sequence of draws *)
Theorem C15_generated_value_example :
  gen ex_prog ex_nodes ex_enums 6 (GNamed "p.S") ex_calls =
    Some (VObj [("E", VNum "2");
                ("L", VList [VUnion "p.A" (VObj [("X", VBool true)]); VUnion "p.N" (VNum "7"); VUnion "p.N" (VNum "63")]);
                ("Skip", VZero)], [])
  /\ wf ex_prog ex_nodes ex_enums 6 (GNamed "p.S")
        (VObj [("E", VNum "2");
               ("L", VList [VUnion "p.A" (VObj [("X", VBool true)]); VUnion "p.N" (VNum "7"); VUnion "p.N" (VNum "63")]);
               ("Skip", VNum "0")]) = true.
Proof. exact ex_gen. Qed.


Print Assumptions C15_terminates_when_acyclic.
Print Assumptions C15_recursive_type_never_returns.
Print Assumptions C15_more_fuel_never_hurts.
Print Assumptions C15_levels_compute_returns.
Print Assumptions C15_generated_values_are_well_formed.
Print Assumptions C15_wf_enum_component.
Print Assumptions C15_wf_union_component.
Print Assumptions C15_generated_value_example.
