(** C17 — Source loading maps every file to its package and a real common root.
    Paths are absolute, cleaned directories, [render cs] with [cs] a list of non-empty,
    separator-free elements (what filepath.Dir(filepath.Abs(f)) returns). *)
From Coq Require Import List String Bool.
From GM Require Import Base.Result Model.Loader Proofs.C17.
Import ListNotations.
Local Open Scope string_scope.
Local Open Scope list_scope.

(** The computed root is itself an absolute cleaned directory, an ancestor (element-wise)
    of every input directory, and the deepest such directory — whatever the directories are called. *)
Theorem C17_root_is_deepest_common_ancestor : forall c others,
  valid_path c -> Forall valid_path others ->
  exists root, common_prefix (map render (c :: others)) = Ok root /\
    valid_path (comps_of root) /\ root = render (comps_of root) /\
    (forall p, In p (c :: others) -> is_prefix (comps_of root) p = true) /\
    (forall q, (forall p, In p (c :: others) -> is_prefix q p = true) -> is_prefix q (comps_of root) = true).
Proof. exact root_is_ancestor. Qed.

(** It depends only on the set of directories: duplicates and order are irrelevant. *)
Theorem C17_root_depends_on_set_only : forall c others c' others',
  valid_path c -> Forall valid_path others -> valid_path c' -> Forall valid_path others' ->
  (forall p, In p (c :: others) <-> In p (c' :: others')) ->
  common_prefix (map render (c :: others)) = common_prefix (map render (c' :: others')).
Proof. exact root_set_invariant. Qed.

(** Matching back: one package per input file, in order, and that package lists the file. *)
Theorem C17_each_file_gets_its_package : forall pkgs files ks,
  match_back pkgs files = Ok ks ->
  List.length ks = List.length files /\
  forall i f, nth_error files i = Some f ->
    exists k fs, nth_error ks i = Some k /\ In (k, fs) pkgs /\ In f fs.
Proof. exact match_back_spec. Qed.

Theorem C17_listed_file_is_found : forall pkgs f,
  (exists k files, In (k, files) pkgs /\ In f files) -> exists k, select_by_file pkgs f = Some k.
Proof. exact select_by_file_complete. Qed.

(** No runtime error, for any input (including the empty list and unmatched files). *)
Theorem C17_no_crash : forall ps pkgs files,
  is_crash (common_prefix ps) = false /\ is_crash (match_back pkgs files) = false.
Proof. intros. split; [apply common_prefix_no_crash|apply match_back_no_crash]. Qed.

(** The byte-wise prefix of the pinned tree violated the property (kept as a regression witness). *)
Theorem C17_bytewise_prefix_refuted : exists ps root,
  ps = ["/a/foo1"; "/a/foo2"] /\ common_prefix_bytes ps = Ok root /\
  is_prefix (comps_of root) ["a"; "foo1"] = false.
Proof. exact bytes_refuted. Qed.

Example C17_example :
  valid_path ["a"; "foo1"] /\ Forall valid_path [["a"; "foo2"; "x"]; ["a"; "foo1"]] /\
  common_prefix (map render [["a"; "foo1"]; ["a"; "foo2"; "x"]; ["a"; "foo1"]]) = Ok "/a".
Proof. repeat split; repeat constructor. Qed.

Print Assumptions C17_root_is_deepest_common_ancestor.
Print Assumptions C17_root_depends_on_set_only.
Print Assumptions C17_each_file_gets_its_package.
Print Assumptions C17_listed_file_is_found.
Print Assumptions C17_no_crash.
Print Assumptions C17_bytewise_prefix_refuted.
