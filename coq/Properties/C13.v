(** C13 — Every registered HTTP route is extracted with its contract.
    The model reads an abstract route file: the registrations in source order (verb, constant-folded
    URL, handler kind and name, contract-carrying statements of the body). It is compared on every
    run with httpapi.ParseEcho on synthesised route files for which this abstract form is known by
    construction; constant folding, handler resolution and the syntax scan themselves are exercised
    by that comparison, not modelled. *)
From Coq Require Import List String Bool.
From GM Require Import Model.Http Proofs.C13.
Import ListNotations.
Local Open Scope string_scope.

(** exactly one entry per (kept) registration, in source order, with its verb and URL *)
Theorem C13_one_endpoint_per_registration : forall prefix regs,
  List.length (extract prefix regs) = List.length (filter (keeps prefix) regs) /\
  map ep_url (extract prefix regs) = map rg_url (filter (keeps prefix) regs) /\
  map ep_method (extract prefix regs) = map rg_verb (filter (keeps prefix) regs).
Proof. exact extract_one_per_registration. Qed.

Theorem C13_no_prefix_keeps_everything : forall regs, extract "" regs = map endpoint_of regs.
Proof. exact extract_no_filter. Qed.

(** the prefix filter keeps exactly the routes whose URL has that prefix *)
Theorem C13_prefix_filter : forall prefix regs, prefix <> "" ->
  extract prefix regs = filter (fun e => String.prefix prefix (ep_url e)) (extract "" regs).
Proof. exact extract_prefix. Qed.

(** the contract is named after the handler and lists the query parameters of the body in order, with their types *)
Theorem C13_contract_name : forall name body, ep_name (contract_of name body) = name.
Proof. exact contract_name. Qed.

Theorem C13_query_parameters_in_order : forall name body,
  ep_query (contract_of name body) = flat_map query_of body.
Proof. exact contract_query_params. Qed.

Print Assumptions C13_one_endpoint_per_registration.
Print Assumptions C13_no_prefix_keeps_everything.
Print Assumptions C13_prefix_filter.
Print Assumptions C13_contract_name.
Print Assumptions C13_query_parameters_in_order.
