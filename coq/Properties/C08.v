(** C08 — The SQL schema is a faithful image of the table structs.
    The model (Model/SqlTypes.v) computes, from the go/types facts and the analysis nodes, the tables
    of the script: name, column declarations, foreign keys, validator CHECKs, composite types. The
    statements below read the clauses of the property off that model; the model itself is compared
    with the script parsed from the real output on every run. *)
From Coq Require Import List String ZArith Bool.
From GM Require Import Base.Result Facts.GoFacts Facts.Ana Model.Enums Model.Fields Model.Classify Model.SqlTypes Proofs.C08.
Import ListNotations.
Local Open Scope string_scope.

(** snake-case-plural table names never contain an upper-case letter *)
Theorem C08_table_name_is_lower_snake : forall s, no_upper (to_snake_case s) = true.
Proof. exact to_snake_case_no_upper. Qed.

(** one column per exported or guard field, in field order *)
Theorem C08_columns_are_exported_or_guard_fields : forall n f,
  In f (table_columns n) <-> In f (nr_fields n) /\ (is_guard f = true \/ af_go_exported f = true).
Proof. exact table_columns_spec. Qed.

Theorem C08_one_declaration_per_column : forall pr nodes enums cols prim i ds,
  column_decls pr nodes enums cols prim i = Ok ds -> List.length ds = List.length cols.
Proof. exact column_decls_length. Qed.

(** NOT NULL unless the type is a nullable wrapper or maps to a variable-length SQL array *)
Theorem C08_not_null_iff : forall enums ty,
  cs_notnull (col_spec enums ty) = negb (nullable_wrapper ty || variable_array ty).
Proof. exact notnull_iff. Qed.

(** enum columns: a CHECK listing the enum's values; fixed arrays: a length CHECK; nothing else inline *)
Theorem C08_inline_checks : forall enums ty,
  cs_check (col_spec enums ty) =
  match ty with
  | SEnum id => EnumIn (enum_values enums id)
  | SArray _ len => if Z.leb 0 len then ArrayLen len else NoCheck
  | _ => NoCheck
  end.
Proof. exact check_kind. Qed.

Theorem C08_enum_check_lists_exactly_the_constants : forall enums id e,
  find (fun x => String.eqb (en_id x) id) enums = Some e -> enum_values enums id = map sql_literal (en_members e).
Proof. exact enum_values_exact. Qed.

(** the id field is a serial primary key *)
Theorem C08_primary_key : forall pr nodes enums f,
  column_decl pr nodes enums f true = Ok (af_name f ++ " serial PRIMARY KEY").
Proof. exact primary_decl. Qed.

Theorem C08_primary_is_the_id_field : forall cols i p,
  primary_index cols i = Some p -> i <= p /\ exists c, nth_error cols (p - i) = Some c /\ lower (af_name c) = "id".
Proof. exact primary_index_spec. Qed.

(** a field is a foreign key exactly when its type is the ID type of another table or it carries the
    foreign tag; each such field gives exactly one constraint, with the tagged ON DELETE action *)
Theorem C08_foreign_key_iff : forall pr nodes tbl f k,
  foreign_key pr nodes tbl f = Ok (Some k) ->
  (is_table_id pr nodes (af_type f) <> "" /\ is_table_id pr nodes (af_type f) <> tbl /\
     k = (af_name f, is_table_id pr nodes (af_type f), tag_lookup "gomacro-sql-on-delete" (af_tag f)))
  \/ (tag_lookup "gomacro-sql-foreign" (af_tag f) <> "" /\
      k = (af_name f, tag_lookup "gomacro-sql-foreign" (af_tag f), tag_lookup "gomacro-sql-on-delete" (af_tag f))).
Proof. exact foreign_key_iff. Qed.

Theorem C08_not_a_foreign_key : forall pr nodes tbl f,
  foreign_key pr nodes tbl f = Ok None ->
  (is_table_id pr nodes (af_type f) = "" \/ is_table_id pr nodes (af_type f) = tbl) /\
  tag_lookup "gomacro-sql-foreign" (af_tag f) = "".
Proof. exact foreign_key_none. Qed.

Theorem C08_one_constraint_per_foreign_key_field : forall pr nodes tbl cols ks,
  foreign_keys pr nodes tbl cols = Ok ks ->
  map (fun k => fst (fst k)) ks =
  map af_name (filter (fun c => match foreign_key pr nodes tbl c with Ok (Some _) => true | _ => false end) cols).
Proof. exact foreign_keys_columns. Qed.

Example C08_snake_examples :
  sql_table_name "HTTPServer" = "http_servers" /\ sql_table_name "UserID2Name" = "user_id2_names" /\
  sql_table_name "A" = "as" /\ sql_table_name "BlogPost" = "blog_posts".
Proof. repeat split. Qed.

Print Assumptions C08_table_name_is_lower_snake.
Print Assumptions C08_columns_are_exported_or_guard_fields.
Print Assumptions C08_one_declaration_per_column.
Print Assumptions C08_not_null_iff.
Print Assumptions C08_inline_checks.
Print Assumptions C08_enum_check_lists_exactly_the_constants.
Print Assumptions C08_primary_key.
Print Assumptions C08_primary_is_the_id_field.
Print Assumptions C08_foreign_key_iff.
Print Assumptions C08_not_a_foreign_key.
Print Assumptions C08_one_constraint_per_foreign_key_field.
