(** C06 — Dart JSON routines mirror the Go wire format and link across files.
    The tables the generator decides (constructor arguments / JSON keys, union dispatch tags,
    implements lists, enum member and value tables) are modelled in Model/Dart.v and compared on every
    run with the tables parsed from the real files; the link conditions (every used class, typedef and
    helper defined exactly once in the file or its imports, no self import) are evaluated in Coq on the
    parsed files. Dart itself is never executed (no SDK): DartSem covers the enum conversions only. *)
From Coq Require Import List String ZArith Bool.
From GM Require Import Base.Result Facts.GoFacts Facts.Ana Model.Enums Model.Fields Model.Classify Model.Names Model.SqlTypes Model.Dart Proofs.C10 Proofs.C06 Proofs.C06t Proofs.C06c Proofs.C06d Proofs.C06x.
From GM Require Import Base.StrOrd Model.DartGen.
Import ListNotations.
Local Open Scope string_scope.

(** one constructor argument and one JSON key per field that encoding/json serialises, in field order *)
Theorem C06_keys_and_constructor_arguments : forall n,
  forallb tag_supported (map sfield_of (nr_fields n)) = true ->
  dart_ctor_args n = map lower_first_ok (std_keys (filter (fun f => negb (gomacro_ignored f)) (map sfield_of (nr_fields n)))).
Proof. exact ctor_args_follow_json_keys. Qed.

(** enum value tables: member <-> value conversion is the identity on the wire *)
Theorem C06_enum_value_table_roundtrip : forall values v, In v values ->
  exists i, from_value values v = Some i /\ to_value values i = Some v.
Proof. exact values_table_roundtrip. Qed.

(** positional enums (iota flag, sound by C10): the index of an exported member is its wire value *)
Theorem C06_positional_enum_index_is_value : forall ms i,
  exported_int64 ms = map Some (zseq 0 (List.length (filter em_exported ms))) ->
  i < List.length (filter em_exported ms) ->
  nth_error (exported_int64 ms) i = Some (Some (Z.of_nat i)).
Proof. exact positional_conversion_is_identity. Qed.

(** every named Go type is emitted in the file assigned to its package: [dart_out_file] (the model of
    analysis.NewLinker, compared on every run with the file each class, union and enum is found in) depends on the
    package path only, and names a file of the output directory itself *)
Theorem C06_output_files_are_flat : forall root pkg_path, no_slash (dart_out_file root pkg_path) = true.
Proof. exact out_file_is_flat. Qed.

Theorem C06_output_file_examples :
  dart_out_file "/home/u/go/src/example.com/org/models" "example.com/org/models" = "models.dart"
  /\ dart_out_file "/home/u/go/src/example.com/org/models" "example.com/org/models/sub/x" = "models_sub_x.dart"
  /\ dart_out_file "/home/u/go/src/example.com/org/models" "math/big" = "stdlib_math_big.dart"
  /\ dart_out_file "/tmp/work/mod" "example.com/org/models" = "stdlib_example.com_org_models.dart".
Proof. exact out_file_examples. Qed.


(** the keys the struct routines read and write ([dart_json_keys], compared with the text of fromJson / toJson on
    every run) are exactly the keys Go uses, in field order, one constructor argument per key *)
Theorem C06_struct_routines_use_the_go_keys : forall n,
  forallb tag_supported (map sfield_of (nr_fields n)) = true ->
  dart_json_keys n = std_keys (filter (fun f => negb (gomacro_ignored f)) (map sfield_of (nr_fields n)))
  /\ dart_ctor_args n = map lower_first_ok (dart_json_keys n).
Proof. exact json_keys_are_go_keys. Qed.


(** the import block of an output file, assembled from the edges recorded by the traversal ([Model/DartGen.v], compared
    with the declaration lists and import blocks of the real generator on every run): strictly sorted (hence without
    duplicates), never the file itself, exactly the other files of the recorded edges, and a function of the SET of
    edges (not of the order in which map iteration visits them) *)
Theorem C06_import_block : forall file imps,
  strict_sorted (imports_of file imps) /\ ~ In file (imports_of file imps)
  /\ (forall g, In g (imports_of file imps) <-> In (file, g) imps /\ g <> file).
Proof. intros file imps. split; [apply imports_of_sorted|]. split; [apply no_self_import|]. intro g. apply imports_of_In. Qed.

Theorem C06_import_block_depends_on_the_edge_set_only : forall file a b,
  (forall e, In e a <-> In e b) -> imports_of file a = imports_of file b.
Proof. exact imports_of_set. Qed.

(** the link condition computed on every run on the traversal's output means: every declaration a declaration refers
    to (class, typedef, enum, JSON helpers of a type it uses, union it implements) is emitted in its own file or in a
    file for which an import edge was recorded *)
Theorem C06_links_closed_means_every_reference_resolves : forall st, links_closed st = true ->
  forall d m, In d (ds_decls st) -> In m (dd_mentions d ++ dd_impl d) ->
  exists d', In d' (ds_decls st) /\ dd_id d' = m
             /\ (dd_file d' = dd_file d \/ (In (dd_file d, dd_file d') (ds_imps st) /\ dd_file d' <> dd_file d)).
Proof. exact links_closed_sound. Qed.

(** closure of the traversal, for every root directory, program, analysis graph, fuel and source list: when the model
    of dart.Generate succeeds, every declaration that a declaration of the output refers to through a type it uses
    (field, element, key, underlying type, union member) is emitted, in the same file or in a file for which an
    import edge of that file was recorded - recursive types, types shared by several files and anonymous containers
    included. (The unions a class implements are not covered: see the open finding dart-implements-union-not-emitted;
    they are part of the link condition computed on every run.) *)
Theorem C06_traversal_output_is_linked : forall root pr nodes F source st,
  dart_run root pr nodes F source = Ok st ->
  forall d m, In d (ds_decls st) -> In m (dd_mentions d) ->
  exists d', In d' (ds_decls st) /\ dd_id d' = m
             /\ (dd_file d' = dd_file d \/ In (dd_file d, dd_file d') (ds_imps st)).
Proof. exact dart_run_closed. Qed.

(** the premise of the closure theorem is satisfiable: on the graph of struct S { X sub.N }, type N int (the input of
    the defect repaired by 3d53a37) the traversal succeeds, S refers to N only, and models.dart imports the file of N *)
Theorem C06_traversal_example :
  ex_summary = Some ([ ("predefined.dart", "int_json", []);
                       ("models_sub.dart", "N", ["int_json"]);
                       ("models.dart", "S", ["N"]) ],
                     [ ("models_sub.dart", "predefined.dart"); ("models.dart", "models_sub.dart") ]).
Proof. exact traversal_succeeds_on_a_two_package_graph. Qed.

(** no dangling import, for every root directory, program, analysis graph, fuel and source list: every import edge the
    traversal records leads to a file in which the traversal emits at least one declaration (an imported file exists
    and is not empty) *)
Theorem C06_traversal_imports_lead_to_emitted_files : forall root pr nodes F source st,
  dart_run root pr nodes F source = Ok st ->
  forall f f', In (f, f') (ds_imps st) -> exists d, In d (ds_decls st) /\ dd_file d = f'.
Proof. exact dart_run_no_dangling_import. Qed.

Print Assumptions C06_keys_and_constructor_arguments.
Print Assumptions C06_enum_value_table_roundtrip.
Print Assumptions C06_positional_enum_index_is_value.
Print Assumptions C06_output_files_are_flat.
Print Assumptions C06_output_file_examples.
Print Assumptions C06_struct_routines_use_the_go_keys.
Print Assumptions C06_import_block.
Print Assumptions C06_import_block_depends_on_the_edge_set_only.
Print Assumptions C06_links_closed_means_every_reference_resolves.
Print Assumptions C06_traversal_output_is_linked.
Print Assumptions C06_traversal_example.
Print Assumptions C06_traversal_imports_lead_to_emitted_files.
