(** C01 — Generated Go boilerplate always compiles with its source package.
    Go's type checker is not modelled: C01 is decided on every run by go/types on the real outputs
    (after the goimports pass). What is proved here are the template obligations of the identifier-
    deciding parts of the three generators; the check evaluates the same obligations in Coq on the
    identifiers read back from the generated files. Partial by nature (see DESIGN.md). *)
From Coq Require Import List String Bool ZArith.
From GM Require Import Base.Result Facts.GoFacts Facts.Ana Model.Enums Model.Names Model.GoScope Model.GoUnionsGen Model.RandGen Proofs.C01 Proofs.C01g Proofs.C01r.
Import ListNotations.
Local Open Scope string_scope.

(** randdata: the choice list of an enum is a well-formed expression list made of exactly the exported members *)
Theorem C01_enum_choice_list_wellformed : forall ms, named_members ms -> valid_expr_list (enum_choices ms) = true.
Proof. exact enum_choices_valid. Qed.

Theorem C01_enum_choice_list_exact : forall ms x,
  In x (enum_choices ms) <-> exists m, In m ms /\ em_exported m = true /\ em_name m = x.
Proof. exact enum_choices_exact. Qed.

(** sqlcrud: Scan/Value receivers accepted by the locality test are defined, non-interface types of the target package *)
Theorem C01_receivers_are_local : forall types pkg id, receiver_ok types pkg id = true ->
  exists d, find_type id types = Some d /\ n_pkg d = pkg /\ (forall ms, n_under d <> UInterface ms).
Proof. exact receiver_ok_local. Qed.

(** gounions, for every analysed program and every source list on which the traversal completes: the wrapper
    types the JSON routines mention without a package are declared by the output itself ("no undefined
    identifier", for the identifiers the generator invents). The premise is decidable and evaluated on every run:
    the structs whose routines are written belong to the analysed package (its failure is an open finding). *)
Theorem C01_gounions_output_is_closed : forall pr nodes,
  structs_with_unions_local pr nodes = true ->
  forall src ds, gounions pr nodes true src = Ok ds -> GoUnionsGen.closed ds = true.
Proof. exact gounions_closed. Qed.

(** methods are written on the wrapper types of the output or on defined types of the analysed package *)
Theorem C01_gounions_receivers_are_local : forall pr nodes b src ds,
  structs_with_unions_local pr nodes = true ->
  gounions pr nodes b src = Ok ds -> Forall (receiver_fine pr) ds.
Proof. exact gounions_receivers_local. Qed.

(** the only types the output declares are the wrappers <Union>Wrapper, one per declaration of an union, and
    distinct unions get distinct wrapper names *)
Theorem C01_gounions_declares_wrappers_only : forall pr nodes b src ds,
  gounions pr nodes b src = Ok ds -> Forall declares_for_unions_only ds.
Proof. exact gounions_declares_wrappers_only. Qed.

Theorem C01_wrapper_names_are_distinct : forall names, NoDup names -> NoDup (map (fun n => n ++ "Wrapper") names).
Proof. exact wrapper_names_nodup. Qed.

(** the traversal before fix 247447e left the wrapper of an ignored union field undeclared; the repaired one,
    on the same program, declares it (non-vacuity of the closure theorem: its premise holds here) *)
Theorem C01_ignored_union_field_refuted :
  structs_with_unions_local ex_prog ex_nodes = true
  /\ (exists ds, gounions ex_prog ex_nodes false [GNamed "m.T"] = Ok ds /\ GoUnionsGen.closed ds = false)
  /\ (exists ds, gounions ex_prog ex_nodes true [GNamed "m.T"] = Ok ds /\ GoUnionsGen.closed ds = true
                 /\ map gd_id ds = ["Shape"; "T_json"] /\ declared_types ds = ["ShapeWrapper"]).
Proof. exact ignored_union_field_refuted. Qed.

(** randdata, for every analysed program, enum table and source list on which the traversal completes: every
    function rand<X>() called by a generated function is declared by the output ("no undefined identifier"), recursive
    types included (the cache holds a type before its function is written: the invariant of the proof speaks of the
    types being visited). No premise. *)
Theorem C01_randdata_output_is_closed : forall pr nodes enums fid_fuel src ds,
  randdata pr nodes enums fid_fuel src = Ok ds -> RandGen.closed ds = true.
Proof. exact randdata_closed. Qed.

Theorem C01_randdata_recursive_example :
  exists ds, randdata rx_prog rx_nodes [] 8 [GNamed "m.Tree"] = Ok ds
    /\ map rd_id ds = ["SliceTree"; "string"; "Tree"]
    /\ map rd_calls ds = [["Tree"]; []; ["SliceTree"; "string"]]
    /\ RandGen.closed ds = true.
Proof. exact recursive_struct_example. Qed.

(** regression witness (pinned tree) and open finding (constant names of gounions are not injective) *)
Theorem C01_pinned_enum_choices_refuted :
  let mk := fun n e => {| em_name := n; em_val := CInt 0%Z; em_exact := "0"; em_exported := e; em_comment := "" |} in
  valid_expr_list (enum_choices_pinned [mk "Red" true; mk "dup" false; mk "Green" true]) = false.
Proof. exact enum_choices_pinned_refuted. Qed.

Theorem C01_kind_constant_names_collide_refuted :
  kind_var_name "A" "Shape1" = kind_var_name "A" "Shape2" /\ "Shape1" <> "Shape2".
Proof. exact kind_names_collide. Qed.

Print Assumptions C01_enum_choice_list_wellformed.
Print Assumptions C01_enum_choice_list_exact.
Print Assumptions C01_receivers_are_local.
Print Assumptions C01_pinned_enum_choices_refuted.
Print Assumptions C01_kind_constant_names_collide_refuted.
Print Assumptions C01_gounions_output_is_closed.
Print Assumptions C01_gounions_receivers_are_local.
Print Assumptions C01_gounions_declares_wrappers_only.
Print Assumptions C01_wrapper_names_are_distinct.
Print Assumptions C01_ignored_union_field_refuted.
Print Assumptions C01_randdata_output_is_closed.
Print Assumptions C01_randdata_recursive_example.
