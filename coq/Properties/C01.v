(** C01 — Generated Go boilerplate always compiles with its source package.
    Go's type checker is not modelled: C01 is decided on every run by go/types on the real outputs
    (after the goimports pass). What is proved here are the template obligations of the identifier-
    deciding parts of the three generators; the check evaluates the same obligations in Coq on the
    identifiers read back from the generated files. Partial by nature (see DESIGN.md). *)
From Coq Require Import List String Bool ZArith.
From GM Require Import Base.Result Facts.GoFacts Model.Enums Model.Names Model.GoScope Proofs.C01.
Import ListNotations.
Local Open Scope string_scope.

(** randdata: the choice list of an enum is a well-formed expression list made of exactly the exported members *)
Theorem C01_enum_choice_list_wellformed : forall ms, named_members ms -> valid_expr_list (enum_choices ms) = true.
Proof. exact enum_choices_valid. Qed.

Theorem C01_enum_choice_list_exact : forall ms x,
  In x (enum_choices ms) <-> exists m, In m ms /\ em_exported m = true /\ em_name m = x.
Proof. exact enum_choices_exact. Qed.

(** sqlcrud: Scan/Value receivers accepted by the locality test are defined, non-interface types of the target package *)
Theorem C01_receivers_are_local : forall types pkg id, receiver_ok types pkg id = true ->
  exists d, find_type id types = Some d /\ n_pkg d = pkg /\ (forall ms, n_under d <> UInterface ms).
Proof. exact receiver_ok_local. Qed.

(** regression witness (pinned tree) and open finding (constant names of gounions are not injective) *)
Theorem C01_pinned_enum_choices_refuted :
  let mk := fun n e => {| em_name := n; em_val := CInt 0%Z; em_exact := "0"; em_exported := e; em_comment := "" |} in
  valid_expr_list (enum_choices_pinned [mk "Red" true; mk "dup" false; mk "Green" true]) = false.
Proof. exact enum_choices_pinned_refuted. Qed.

Theorem C01_kind_constant_names_collide_refuted :
  kind_var_name "A" "Shape1" = kind_var_name "A" "Shape2" /\ "Shape1" <> "Shape2".
Proof. exact kind_names_collide. Qed.

Print Assumptions C01_enum_choice_list_wellformed.
Print Assumptions C01_enum_choice_list_exact.
Print Assumptions C01_receivers_are_local.
Print Assumptions C01_pinned_enum_choices_refuted.
Print Assumptions C01_kind_constant_names_collide_refuted.
