(** C12 — The analysed type graph is closed, faithful and finite.
    [classify] is the model of one level of createType: the node built for the go/types type at a
    position and the positions it links to; [analyse_closure] is the set of positions reached from the
    declarations of the source file (the memo table of handleType, keyed structurally). *)
From Coq Require Import List String ZArith Bool.
From GM Require Import Base.Result Facts.GoFacts Facts.Ana Model.Enums Model.Unions Model.Classify Proofs.C12 Proofs.C12t.
Import ListNotations.
Local Open Scope string_scope.

(** Closed: every entry of the result is the classification of its position, every position linked
    from an entry (field, element, key, underlying type, union member) is in the result, and so is
    every declaration of the source file. *)
Theorem C12_closed : forall pr enums unions source fuel res,
  analyse_closure pr enums unions source fuel = Ok res ->
  (forall t sh, In (t, sh) res -> classify pr enums unions t = Ok sh) /\
  (forall t sh c, In (t, sh) res -> In c (sh_children sh) -> In c (map fst res)) /\
  (forall t, In t source -> In t (map fst res)).
Proof. exact analyse_closure_spec. Qed.

(** Each position is analysed once. *)
Theorem C12_once : forall pr enums unions source fuel res,
  analyse_closure pr enums unions source fuel = Ok res -> NoDup (map fst res).
Proof. intros. eapply closure_nodup; [eassumption|constructor]. Qed.

(** Faithful: the node has the kind, array length, key/element and basic kind that go/types reports
    for the position, and its Type() is that type - time.Time being reported as predefined, also
    inside composite types. *)
Theorem C12_faithful : forall pr enums unions t sh,
  classify pr enums unions t = Ok sh -> faithful_shape pr enums unions t sh.
Proof. exact classify_faithful. Qed.

(** Finite: the analysis of any program terminates. Every position the worklist ever holds belongs to
    the finite [universe] of the program (the structural components of the declared types, of their
    underlying and field types, and of the union members) and each is expanded at most once, so that the
    worklist needs at most [closure_bound] steps: with more fuel than that it never reports unbounded
    recursion, whatever the declarations (self- and mutually recursive ones included). The correspondence
    check runs the model with exactly that fuel (Corr/Check_C12.v:fuel_for). *)
Theorem C12_terminates : forall pr enums unions source fuel,
  incl source (universe pr enums unions) ->
  closure_bound pr enums unions source < fuel ->
  forall msg, analyse_closure pr enums unions source fuel <> Crash msg.
Proof. exact analysis_terminates. Qed.

(** every declared name is in the universe: any list of declared types is an admissible source *)
Theorem C12_declared_types_are_admissible_sources : forall pr enums unions d,
  In d (pr_types pr) -> In (GNamed (n_id d)) (universe pr enums unions).
Proof. exact declared_in_universe. Qed.

(** Non-vacuity: a self-recursive struct through a slice has a finite closure. *)
Example C12_example :
  let tree := {| n_id := "p.Tree"; n_pkg := "p"; n_pkg_name := "p"; n_name := "Tree"; n_targs := [];
                 n_under := UStruct [ {| f_name := "Children"; f_type := GSlice (GNamed "p.Tree"); f_tag := ""; f_embedded := false; f_exported := true |} ];
                 n_exported := true; n_is_time := false; n_mset := []; n_in_scope := true |} in
  let pr := {| pr_root := "p"; pr_pkgs := []; pr_types := [tree] |} in
  match analyse_closure pr [] [] [GNamed "p.Tree"] 10 with
  | Ok res => map fst res = [GNamed "p.Tree"; GSlice (GNamed "p.Tree")]
  | _ => False
  end.
Proof. vm_compute. reflexivity. Qed.

Print Assumptions C12_closed.
Print Assumptions C12_once.
Print Assumptions C12_faithful.
Print Assumptions C12_terminates.
Print Assumptions C12_declared_types_are_admissible_sources.
