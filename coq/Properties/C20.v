(** C20 — Formatter probing is race-free, cached and optional.
    All statements quantify over every tool environment [env], every list of concurrent requests
    [reqs] (any length; [Some k] = a format served by slot [k], [None] = NoFormat), every number of
    slots and every schedule [sched] (any list of thread numbers, fair or not), for the
    instruction-level interleaving semantics of Model/Formatters.v. *)
From Coq Require Import List String Bool Arith.
From GM Require Import Model.Formatters Proofs.C20.
Import ListNotations.

Section C20.
  Variable env : tool_env.
  Variable reqs : requests.
  Variable nslots : nat.
  Hypothesis reqs_ok : forall t k, nth t reqs None = Some k -> k < nslots.
  Notation reach := (reach env reqs nslots).

  (** no reachable state has two threads about to touch the same cache field, one of them writing *)
  Theorem C20_race_free : forall sched, ~ racy (reach sched).
  Proof. exact (race_free env reqs nslots reqs_ok). Qed.

  (** every access to a cache field that ever happened, happened while its thread held the mutex *)
  Theorem C20_accesses_locked : forall sched e, In e (st_trace (reach sched)) ->
    match e with ERead _ _ l | EWrite _ _ l => l = true | _ => True end.
  Proof. exact (accesses_locked env reqs nslots reqs_ok). Qed.

  (** each external tool is probed at most once per cache *)
  Theorem C20_probe_once : forall sched k, k < nslots -> count_probe k (st_trace (reach sched)) <= 1.
  Proof. exact (probe_once env reqs nslots reqs_ok). Qed.

  (** a returned request has run its formatter exactly once when the tool is present and not at all
      otherwise (it never runs another tool), and reports an error exactly when that run failed *)
  Theorem C20_request_outcome : forall sched t e, t < List.length reqs -> pc_of (reach sched) t = PDone e ->
    match nth t reqs None with
    | Some k => (forall k', count_run t k' (st_trace (reach sched)) = if Nat.eqb k k' && present env k then 1 else 0)
                /\ e = present env k && failing env k
    | None => (forall k', count_run t k' (st_trace (reach sched)) = 0) /\ e = false
    end.
  Proof. exact (request_outcome env reqs nslots reqs_ok). Qed.

  Theorem C20_absent_is_noop : forall sched t e k, t < List.length reqs -> pc_of (reach sched) t = PDone e ->
    nth t reqs None = Some k -> present env k = false ->
    e = false /\ forall k', count_run t k' (st_trace (reach sched)) = 0.
  Proof.
    intros sched t e k Ht Hpc Hr Hp. pose proof (request_outcome env reqs nslots reqs_ok sched t e Ht Hpc) as X.
    rewrite Hr, Hp in X. destruct X as [X1 X2]. split; [assumption|].
    intro k'. rewrite X1. rewrite andb_false_r. reflexivity.
  Qed.

  Theorem C20_failure_reported : forall sched t e k, t < List.length reqs -> pc_of (reach sched) t = PDone e ->
    nth t reqs None = Some k -> present env k = true -> failing env k = true -> e = true.
  Proof.
    intros sched t e k Ht Hpc Hr Hp Hf. pose proof (request_outcome env reqs nslots reqs_ok sched t e Ht Hpc) as X.
    rewrite Hr, Hp, Hf in X. tauto.
  Qed.

  (** nothing runs on behalf of a request before it returns *)
  Theorem C20_no_run_before_done : forall sched t, t < List.length reqs -> (forall e, pc_of (reach sched) t <> PDone e) ->
    forall k, count_run t k (st_trace (reach sched)) = 0.
  Proof. exact (no_run_before_done env reqs nslots reqs_ok). Qed.

  (** the cached value, once written and the mutex released, is the tool's presence *)
  Theorem C20_cached_value_correct : forall sched k b, k < nslots -> st_lock (reach sched) = None ->
    field (reach sched) k = Some b -> b = present env k /\ count_probe k (st_trace (reach sched)) = 1.
  Proof. exact (cached_value_correct env reqs nslots reqs_ok). Qed.

  (** no nil dereference of a cache pointer *)
  Theorem C20_no_nil_deref : forall sched t, pc_of (reach sched) t <> PNilDeref.
  Proof. exact (no_nil_deref env reqs nslots reqs_ok). Qed.

  (** no deadlock: until all requests have returned some thread is enabled, and every step
      decreases a measure bounded by 8 per request — so every schedule that keeps choosing
      enabled threads completes all requests within 8 * N steps *)
  Theorem C20_progress : forall sched, all_doneb (reach sched) = false -> exists t, step env (reach sched) t <> None.
  Proof. exact (progress env reqs nslots reqs_ok). Qed.

  Theorem C20_bounded : (forall s t s', step env s t = Some s' -> total_rank s' < total_rank s)
                        /\ total_rank (init nslots reqs) <= 8 * List.length reqs.
  Proof. split; [exact (step_decreases env reqs)|exact (total_rank_init reqs nslots)]. Qed.
End C20.

(** Non-vacuity: three concurrent requests on two slots, tool 0 present and failing, tool 1 missing. *)
Example C20_example :
  let env := {| present := fun k => Nat.eqb k 0; failing := fun k => Nat.eqb k 0 |} in
  let reqs := [Some 0; Some 1; Some 0; None] in
  let s := run env (round_robin 4 30) (init 2 reqs) in
  all_doneb s = true /\ count_probe 0 (st_trace s) = 1 /\ count_probe 1 (st_trace s) = 1 /\
  count_run_slot 0 (st_trace s) = 2 /\ count_run_slot 1 (st_trace s) = 0 /\
  map (pc_of s) [0; 1; 2; 3] = [PDone true; PDone false; PDone true; PDone false].
Proof. vm_compute. repeat split. Qed.

Print Assumptions C20_race_free.
Print Assumptions C20_accesses_locked.
Print Assumptions C20_probe_once.
Print Assumptions C20_request_outcome.
Print Assumptions C20_absent_is_noop.
Print Assumptions C20_failure_reported.
Print Assumptions C20_no_run_before_done.
Print Assumptions C20_cached_value_correct.
Print Assumptions C20_no_nil_deref.
Print Assumptions C20_progress.
Print Assumptions C20_bounded.
