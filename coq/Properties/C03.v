(** C03 — Every JSON document Go emits inhabits the generated TypeScript type.
    Go side: the wire shapes of Sem/GoJson.v (validated against the real encoder, C02). TypeScript side:
    the type environment of Sem/TsSem.v with structural inhabitation. The theorems are the induction
    steps, one per type former; the induction itself is closed on every run by evaluating, in Coq, the
    inhabitation of every real document in the environment parsed from the real file (which is also
    compared, declaration by declaration, with Model/TsTypes.v, and checked closed and duplicate-free).
    The global statement is C03_documents_inhabit: under the agreement table [tsim_ok] (Sem/TsSim.v, a
    decidable premise computed on every run for every documented type from the parsed TypeScript file
    and the wire shapes), every conforming document of any size and depth inhabits its type. *)
From Coq Require Import List String Bool.
From GM Require Import Base.Result Facts.GoFacts Facts.Ana Sem.GoJson Sem.TsSem Sem.PgSim Sem.TsSim Model.TsGen Proofs.C03 Proofs.C03g Proofs.C03t.
Import ListNotations.
Local Open Scope string_scope.

Theorem C03_basic_kinds : forall genv tenv f f' j,
  (conformsb genv (S f) ShString j = true -> inhabitsb tenv (S f') TString j = true) /\
  (conformsb genv (S f) ShNumber j = true -> inhabitsb tenv (S f') TNumber j = true) /\
  (conformsb genv (S f) ShBool j = true -> inhabitsb tenv (S f') TBoolean j = true).
Proof. exact step_basic. Qed.

(** null is accepted wherever Go writes it for nil slices and maps *)
Theorem C03_nullable_slice : forall genv tenv f f' s t j,
  (forall x, conformsb genv f s x = true -> inhabitsb tenv f' t x = true) ->
  conformsb genv (S (S f)) (ShNullable (ShArrayOf s)) j = true -> inhabitsb tenv (S (S f')) (TNullable (TArr t)) j = true.
Proof. exact step_nullable_array. Qed.

Theorem C03_nullable_map : forall genv tenv f f' s k t j,
  (forall x, conformsb genv f s x = true -> inhabitsb tenv f' t x = true) ->
  conformsb genv (S (S f)) (ShNullable (ShMapOf s)) j = true -> inhabitsb tenv (S (S f')) (TNullable (TRecord k t)) j = true.
Proof. exact step_nullable_map. Qed.

(** tuple lengths *)
Theorem C03_fixed_array_is_tuple : forall genv tenv f f' n s t name j,
  lookup_decl name tenv = Some (TDTuple n t) ->
  (forall x, conformsb genv f s x = true -> inhabitsb tenv f' t x = true) ->
  conformsb genv (S f) (ShTuple n s) j = true -> inhabitsb tenv (S f') (TRef name) j = true.
Proof. exact step_tuple. Qed.

(** enum literal sets *)
Theorem C03_enum_literals : forall genv tenv f f' vs name j,
  lookup_decl name tenv = Some (TDEnum vs) ->
  conformsb genv (S f) (ShEnum vs) j = true -> inhabitsb tenv (S f') (TRef name) j = true.
Proof. exact step_enum. Qed.

(** Kind/Data union shapes *)
Theorem C03_union_shapes : forall genv tenv f f' id name members alts j,
  lookup_def id genv = Some (DUnion members) ->
  lookup_decl name tenv = Some (TDUnion alts) ->
  (forall k sh, In (k, sh) members -> exists t, find (fun a => String.eqb (fst a) k) alts = Some (k, t) /\
                                        forall x, conformsb genv f sh x = true -> inhabitsb tenv f' t x = true) ->
  NoDup (map fst members) ->
  conformsb genv (S f) (ShRef id) j = true -> inhabitsb tenv (S f') (TRef name) j = true.
Proof. exact step_union. Qed.

(** same property names: none missing, none extra (fields without omitempty) *)
Theorem C03_struct_properties : forall genv tenv f f' id name fields tfields j,
  lookup_def id genv = Some (DObject fields) ->
  lookup_decl name tenv = Some (TDInterface tfields) ->
  map (fun fd => fst (fst fd)) fields = map fst tfields ->
  (forall k sh opt, In (k, sh, opt) fields -> opt = false /\
      exists t, In (k, t) tfields /\ forall x, conformsb genv f sh x = true -> inhabitsb tenv f' t x = true) ->
  NoDup (map fst tfields) ->
  conformsb genv (S f) (ShRef id) j = true -> inhabitsb tenv (S f') (TRef name) j = true.
Proof. exact step_struct. Qed.

(** the global statement: any document of the Go wire shape inhabits the TypeScript type *)
Theorem C03_documents_inhabit : forall tenv jenv tb te sh j n,
  tsim_ok tenv jenv tb = true -> tmemb tb te sh = true ->
  conformsb jenv n sh j = true ->
  exists m, forall m', m <= m' -> inhabitsb tenv m' te j = true.
Proof. exact documents_inhabit. Qed.

(** the premise is met by a concrete environment *)
Theorem C03_premises_satisfiable : tsim_ok ex_tenv ex_jenv3 ex_ttable = true /\ tmemb ex_ttable (TRef "Root") (ShRef "Root") = true
  /\ conformsb ex_jenv3 8 (ShRef "Root") ex_doc3 = true /\ inhabitsb ex_tenv 12 (TRef "Root") ex_doc3 = true.
Proof. exact ex_premises3. Qed.

(** the declaration list of the generator, as a traversal (Model/TsGen.v), for every analysed program and every source
    list on which it completes: every type name a declaration mentions is built in (number, string, boolean, unknown)
    or declared by the list ("the file is well-formed TypeScript": no reference to an undeclared type), recursive types
    included. Premises, decidable and evaluated on every run: the node found at a slice / map / pointer position is of
    that kind with the element links (the faithfulness C12 checks), and no named type is called like its underlying
    type. [F'] + 1 is the fuel of the naming function (the nesting depth of fixed arrays). *)
Theorem C03_declaration_list_is_closed : forall pr nodes F',
  shapes_ok nodes = true -> no_self_alias pr nodes (S F') = true ->
  forall src ds, ts_types pr nodes (S F') src = Ok ds -> TsGen.closed ds = true.
Proof. exact ts_types_closed. Qed.

Print Assumptions C03_basic_kinds.
Print Assumptions C03_nullable_slice.
Print Assumptions C03_nullable_map.
Print Assumptions C03_fixed_array_is_tuple.
Print Assumptions C03_enum_literals.
Print Assumptions C03_union_shapes.
Print Assumptions C03_struct_properties.
Print Assumptions C03_documents_inhabit.
Print Assumptions C03_premises_satisfiable.
Print Assumptions C03_declaration_list_is_closed.
