(** C03 — Every JSON document Go emits inhabits the generated TypeScript type.
    Go side: the wire shapes of Sem/GoJson.v (validated against the real encoder, C02). TypeScript side:
    the type environment of Sem/TsSem.v with structural inhabitation. The theorems are the induction
    steps, one per type former; the induction itself is closed on every run by evaluating, in Coq, the
    inhabitation of every real document in the environment parsed from the real file (which is also
    compared, declaration by declaration, with Model/TsTypes.v, and checked closed and duplicate-free).
    Partial: the global statement over all type graphs is not proved as one theorem. *)
From Coq Require Import List String Bool.
From GM Require Import Sem.GoJson Sem.TsSem Proofs.C03.
Import ListNotations.
Local Open Scope string_scope.

Theorem C03_basic_kinds : forall genv tenv f f' j,
  (conformsb genv (S f) ShString j = true -> inhabitsb tenv (S f') TString j = true) /\
  (conformsb genv (S f) ShNumber j = true -> inhabitsb tenv (S f') TNumber j = true) /\
  (conformsb genv (S f) ShBool j = true -> inhabitsb tenv (S f') TBoolean j = true).
Proof. exact step_basic. Qed.

(** null is accepted wherever Go writes it for nil slices and maps *)
Theorem C03_nullable_slice : forall genv tenv f f' s t j,
  (forall x, conformsb genv f s x = true -> inhabitsb tenv f' t x = true) ->
  conformsb genv (S (S f)) (ShNullable (ShArrayOf s)) j = true -> inhabitsb tenv (S (S f')) (TNullable (TArr t)) j = true.
Proof. exact step_nullable_array. Qed.

Theorem C03_nullable_map : forall genv tenv f f' s k t j,
  (forall x, conformsb genv f s x = true -> inhabitsb tenv f' t x = true) ->
  conformsb genv (S (S f)) (ShNullable (ShMapOf s)) j = true -> inhabitsb tenv (S (S f')) (TNullable (TRecord k t)) j = true.
Proof. exact step_nullable_map. Qed.

(** tuple lengths *)
Theorem C03_fixed_array_is_tuple : forall genv tenv f f' n s t name j,
  lookup_decl name tenv = Some (TDTuple n t) ->
  (forall x, conformsb genv f s x = true -> inhabitsb tenv f' t x = true) ->
  conformsb genv (S f) (ShTuple n s) j = true -> inhabitsb tenv (S f') (TRef name) j = true.
Proof. exact step_tuple. Qed.

(** enum literal sets *)
Theorem C03_enum_literals : forall genv tenv f f' vs name j,
  lookup_decl name tenv = Some (TDEnum vs) ->
  conformsb genv (S f) (ShEnum vs) j = true -> inhabitsb tenv (S f') (TRef name) j = true.
Proof. exact step_enum. Qed.

(** Kind/Data union shapes *)
Theorem C03_union_shapes : forall genv tenv f f' id name members alts j,
  lookup_def id genv = Some (DUnion members) ->
  lookup_decl name tenv = Some (TDUnion alts) ->
  (forall k sh, In (k, sh) members -> exists t, find (fun a => String.eqb (fst a) k) alts = Some (k, t) /\
                                        forall x, conformsb genv f sh x = true -> inhabitsb tenv f' t x = true) ->
  NoDup (map fst members) ->
  conformsb genv (S f) (ShRef id) j = true -> inhabitsb tenv (S f') (TRef name) j = true.
Proof. exact step_union. Qed.

(** same property names: none missing, none extra (fields without omitempty) *)
Theorem C03_struct_properties : forall genv tenv f f' id name fields tfields j,
  lookup_def id genv = Some (DObject fields) ->
  lookup_decl name tenv = Some (TDInterface tfields) ->
  map (fun fd => fst (fst fd)) fields = map fst tfields ->
  (forall k sh opt, In (k, sh, opt) fields -> opt = false /\
      exists t, In (k, t) tfields /\ forall x, conformsb genv f sh x = true -> inhabitsb tenv f' t x = true) ->
  NoDup (map fst tfields) ->
  conformsb genv (S f) (ShRef id) j = true -> inhabitsb tenv (S f') (TRef name) j = true.
Proof. exact step_struct. Qed.

Print Assumptions C03_basic_kinds.
Print Assumptions C03_nullable_slice.
Print Assumptions C03_nullable_map.
Print Assumptions C03_fixed_array_is_tuple.
Print Assumptions C03_enum_literals.
Print Assumptions C03_union_shapes.
Print Assumptions C03_struct_properties.
