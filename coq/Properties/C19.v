(** C19 — Declaration assembly is a set-like, order-independent merge.
    Only statements here; every proof is [exact <lemma of Proofs/C19.v>]. *)
From Coq Require Import List String Bool Sorting.Permutation.
From GM Require Import Base.StrOrd Model.WriteDecls Proofs.C19.
Import ListNotations.
Local Open Scope string_scope.
Local Open Scope list_scope.

(** Whatever permutation the unstable ID sort returns, the emitted text is
    [spec l]: the content of each distinct ID exactly once, each followed by a
    newline, in the order [canon_ids l]. *)
Theorem C19_exactly_once : forall l s,
  consistent l -> id_sorted s l -> write_sorted s = spec l.
Proof. exact write_sorted_spec. Qed.

(** [canon_ids l]: every ID of [l], none twice, the IDs owning a priority
    declaration first, each group strictly increasing. *)
Theorem C19_ids_complete : forall l i, In i (canon_ids l) <-> In i (map d_id l).
Proof. exact canon_ids_In. Qed.

Theorem C19_ids_once : forall l, NoDup (canon_ids l).
Proof. exact canon_ids_NoDup. Qed.

Theorem C19_groups_ordered : forall l,
  exists P Q, canon_ids l = P ++ Q /\ strict_sorted P /\ strict_sorted Q /\
    (forall i, In i P -> has_prio l i = true) /\ (forall i, In i Q -> has_prio l i = false).
Proof. exact canon_ids_shape. Qed.

(** The result does not depend on the order in which declarations are supplied
    (nor on which sorted permutation the unstable sort picks). *)
Theorem C19_perm_invariant : forall l l' s s',
  consistent l -> Permutation l l' -> id_sorted s l -> id_sorted s' l' ->
  write_sorted s = write_sorted s'.
Proof. exact write_perm_invariant. Qed.

(** The executable instance used by the correspondence is one such sort. *)
Theorem C19_model_instance : forall l, id_sorted (isort l) l.
Proof. exact isort_id_sorted. Qed.

(** Non-vacuity: a concrete list with a repeated ID, both priority classes. *)
Example C19_example :
  let l := [mkDecl "b" "B" false; mkDecl "a" "A" false; mkDecl "c" "C" true; mkDecl "a" "A" true] in
  consistent l /\ write l = ("A" ++ nl ++ "C" ++ nl ++ "B" ++ nl)%string.
Proof. split; [apply consistentb_spec; vm_compute; reflexivity | vm_compute; reflexivity]. Qed.

Print Assumptions C19_exactly_once.
Print Assumptions C19_ids_complete.
Print Assumptions C19_ids_once.
Print Assumptions C19_groups_ordered.
Print Assumptions C19_perm_invariant.
Print Assumptions C19_model_instance.
