(** C09 — Field selection and JSON naming coincide with encoding/json.
    [fs] is the (flattened) field list of a struct node: Go name, raw struct tag, Go export status.
    [selected_keys fs] is what every generator emits for it: [JSONName] of the fields kept by
    [Exported]. [std_serialised] / [std_key] are encoding/json's rules (validated on every run against
    the real package). [tag_supported]: the name part of the json tag is empty or a valid key name. *)
From Coq Require Import List String Bool.
From GM Require Import Model.Fields Proofs.C09.
Import ListNotations.
Local Open Scope string_scope.

(** A field takes part iff encoding/json serialises it and it is not tagged gomacro:"ignore". *)
Theorem C09_selection : forall fs f, In f fs ->
  (In f (filter exported fs) <-> std_serialised f = true /\ gomacro_ignored f = false).
Proof. exact selected_iff. Qed.

(** It appears under exactly the key encoding/json uses, in field order. *)
Theorem C09_keys : forall fs, forallb tag_supported fs = true ->
  selected_keys fs = std_keys (filter (fun f => negb (gomacro_ignored f)) fs).
Proof. exact selected_keys_std. Qed.

(** Adding or removing an ignored field (unexported, json:"-" or gomacro:"ignore") at any place leaves
    the emitted key list unchanged. *)
Theorem C09_ignored_field_invariance : forall l1 l2 f, exported f = false ->
  selected_keys (l1 ++ f :: l2) = selected_keys (l1 ++ l2).
Proof. exact ignored_field_invariance. Qed.

(** Regression witness for the pinned tree: tag options ended up in the key. *)
Theorem C09_pinned_options_refuted :
  let f := {| sf_name := "A"; sf_tag := "json:""x,omitempty"""; sf_go_exported := true; sf_embedded_struct := false |} in
  tag_supported f = true /\ json_name_pinned f = "x,omitempty" /\ std_key f = "x".
Proof. exact json_name_pinned_refuted. Qed.

Example C09_example :
  let mk := fun n t e => {| sf_name := n; sf_tag := t; sf_go_exported := e; sf_embedded_struct := false |} in
  let fs := [mk "A" "json:""x,omitempty""" true; mk "B" "json:""-""" true; mk "c" "" false; mk "D" "gomacro:""ignore""" true; mk "E" "json:"",omitempty""" true; mk "F" "json:""-,""" true] in
  forallb tag_supported fs = true /\ selected_keys fs = ["x"; "E"; "-"].
Proof. split; reflexivity. Qed.

Print Assumptions C09_selection.
Print Assumptions C09_keys.
Print Assumptions C09_ignored_field_invariance.
Print Assumptions C09_pinned_options_refuted.
