(** C05 — Generated CRUD code and generated schema agree, statement by statement.
    The statements of the generated functions are modelled as a small SQL AST (Model/Crud.v: the
    parallel lists of newColumnsCode, the templates of primary_table.go / link_table.go / sql.go)
    and given a meaning over one table (Sem/SqlStore.v: rows as maps from folded column names to
    nullable integers, serial id, comparisons with NULL not true). The theorems hold for every table
    (any number of columns, the id at any position, guards anywhere) whose folded column names are
    distinct, and for every history of calls. The model is compared on every run, function by
    function (SQL text parsed into the AST, argument expressions, scan destinations), with the file
    the real generator writes; the schema-level conditions (tables and columns exist up to case,
    unwritten columns have a default, result columns line up with the scan destinations) are
    evaluated in Coq on the real CRUD file against the real SQL script (Corr/Check_C05.v).
    Not modelled: PostgreSQL itself, column types and their Scan/Value converters, constraints
    other than the serial id, transactions. *)
From Coq Require Import List String ZArith Bool Arith.
From GM Require Import Model.Classify Model.Crud Sem.SqlStore Proofs.C05.
Import ListNotations.
Local Open Scope string_scope.

(** Insert: the item comes back with its id filled and every other field equal; the table holds it *)
Theorem C05_insert_returns_the_item : forall dflt table cols p,
  (forall c, In c cols -> lower c = c) -> NoDup cols -> nth_error cols p = Some "id" ->
  forall tb it, List.length it = List.length cols ->
  let it' := set_nth p (Some (t_next tb)) it in
  exists tb', exec dflt (ins_stmt table cols p) (ins_args p it) tb = (tb', [it'])
    /\ abs cols tb' = (abs cols tb ++ [it'])%list /\ t_next tb' = (t_next tb + 1)%Z.
Proof. exact insert_spec. Qed.

(** Update: replaces the item of that id (WHERE id = $n, n = number of columns), nothing else *)
Theorem C05_update_replaces_the_item : forall dflt table cols p,
  (forall c, In c cols -> lower c = c) -> NoDup cols -> nth_error cols p = Some "id" ->
  forall tb it, List.length it = List.length cols ->
  exists tb', exec dflt (upd_stmt table cols p) (upd_args p it) tb = (tb', map (fun _ => it) (filter (fun x => same_id p x it) (abs cols tb)))
    /\ abs cols tb' = map (fun x => if same_id p x it then it else x) (abs cols tb) /\ t_next tb' = t_next tb.
Proof. exact update_spec. Qed.

(** Select by id / ids / foreign key / unique columns / select key: exactly the matching items *)
Theorem C05_select_returns_the_matching_items : forall dflt table cols,
  (forall c, In c cols -> lower c = c) ->
  forall tb conds args, Forall (known cols) conds ->
  exec dflt (SSelect cols table conds) args tb = (tb, filter (matches cols conds args) (abs cols tb)).
Proof. exact select_spec. Qed.

(** Delete ... RETURNING: removes and returns exactly the matching items *)
Theorem C05_delete_removes_and_returns : forall dflt table cols p,
  (forall c, In c cols -> lower c = c) -> NoDup cols -> nth_error cols p = Some "id" ->
  forall tb conds args, Forall (known cols) conds ->
  exists tb', exec dflt (SDelete table conds cols) args tb = (tb', filter (matches cols conds args) (abs cols tb))
    /\ abs cols tb' = filter (fun it => negb (matches cols conds args it)) (abs cols tb) /\ t_next tb' = t_next tb.
Proof. exact delete_spec. Qed.

(** every history of generated calls returns what the list-of-items model returns *)
Theorem C05_histories_refine_the_model : forall (dflt : string -> option Z) t p ops tb,
  primary_in_crud t = Some p -> nth_error (cols t) p = Some "id" -> NoDup (cols t) ->
  Forall (wf_op (cols t)) ops ->
  run_spec (cols t) p (abs (cols t) tb, t_next tb) ops
  = ((abs (cols t) (fst (run_impl dflt (sname t) (cols t) p tb ops)), t_next (fst (run_impl dflt (sname t) (cols t) p tb ops))),
     snd (run_impl dflt (sname t) (cols t) p tb ops)).
Proof. exact model_history_refines. Qed.

(** an inserted row comes back from the select by id with all fields equal *)
Theorem C05_insert_then_select : forall dflt table cols p,
  (forall c, In c cols -> lower c = c) -> NoDup cols -> nth_error cols p = Some "id" ->
  forall tb it, List.length it = List.length cols -> fresh p (abs cols tb) (t_next tb) ->
  snd (impl_step dflt table cols p (fst (impl_step dflt table cols p tb (OInsert it))) (OSelect [CEq "id" 1] [AV (Some (t_next tb))]))
  = [set_nth p (Some (t_next tb)) it].
Proof. exact insert_then_select. Qed.

(** link tables: Insert appends the link, Delete removes the links with these foreign keys *)
Theorem C05_link_insert : forall dflt table cols,
  (forall c, In c cols -> lower c = c) -> NoDup cols ->
  forall tb it, List.length it = List.length cols ->
  exists tb', exec dflt (SInsert table cols (seq 1 (List.length cols)) []) (map AV it) tb = (tb', [])
    /\ abs cols tb' = (abs cols tb ++ [it])%list.
Proof. exact link_insert_spec. Qed.

Theorem C05_link_delete : forall dflt table cols,
  (forall c, In c cols -> lower c = c) ->
  forall tb conds args, Forall (known cols) conds ->
  exists tb', exec dflt (SDelete table conds []) args tb = (tb', [])
    /\ abs cols tb' = filter (fun it => negb (matches cols conds args it)) (abs cols tb).
Proof. exact link_delete_spec. Qed.

(** every statement of the model carries as many placeholders as arguments, numbered 1..n *)
Theorem C05_placeholders_numbered : forall t f,
  match to_primary t with Some _ => exists p, primary_in_crud t = Some p /\ p < List.length (cols t) | None => True end ->
  In f (crud_funs t) -> placeholders_ok (stmt_phs (gf_stmt f)) (List.length (gf_args f)) = true.
Proof. exact model_placeholders. Qed.

(** the statements the theorems speak of are the ones of the model of the generator *)
Theorem C05_model_statements : forall t p, primary_in_crud t = Some p ->
  exists rest,
    crud_funs t =
      ({| gf_name := "SelectAll" ++ tname t ++ "s"; gf_stmt := SSelect (cols t) (sname t) []; gf_args := []; gf_scan := "Scan" ++ tname t ++ "s" |}
       :: {| gf_name := "Select" ++ tname t; gf_stmt := SSelect (cols t) (sname t) [CEq "id" 1]; gf_args := ["id"]; gf_scan := "Scan" ++ tname t |}
       :: {| gf_name := "Select" ++ tname t ++ "s"; gf_stmt := SSelect (cols t) (sname t) [CAny "id" 1]; gf_args := [idt t ++ "ArrayToPQ(ids)"]; gf_scan := "Scan" ++ tname t ++ "s" |}
       :: {| gf_name := tname t ++ ".Insert"; gf_stmt := ins_stmt (sname t) (cols t) p; gf_args := remove_nth p (vals t); gf_scan := "Scan" ++ tname t |}
       :: {| gf_name := tname t ++ ".Update"; gf_stmt := upd_stmt (sname t) (cols t) p;
             gf_args := List.app (remove_nth p (vals t)) [String.append "item." (primary_field t)]; gf_scan := "Scan" ++ tname t |}
       :: {| gf_name := "Delete" ++ tname t ++ "ById"; gf_stmt := SDelete (sname t) [CEq "id" 1] (cols t); gf_args := ["id"]; gf_scan := "Scan" ++ tname t |}
       :: rest).
Proof. exact model_primary_statements. Qed.

(** the premises are met by a concrete table; the run is the expected one *)
Theorem C05_premises_satisfiable :
  primary_in_crud ex_table = Some 1 /\ nth_error (cols ex_table) 1 = Some "id" /\ cols ex_table = ["title"; "id"; "iduser"].
Proof. destruct ex_premises as [H1 [H2 [H3 _]]]. repeat split; assumption. Qed.

Print Assumptions C05_insert_returns_the_item.
Print Assumptions C05_update_replaces_the_item.
Print Assumptions C05_select_returns_the_matching_items.
Print Assumptions C05_delete_removes_and_returns.
Print Assumptions C05_histories_refine_the_model.
Print Assumptions C05_insert_then_select.
Print Assumptions C05_link_insert.
Print Assumptions C05_link_delete.
Print Assumptions C05_placeholders_numbered.
Print Assumptions C05_model_statements.
Print Assumptions C05_premises_satisfiable.
