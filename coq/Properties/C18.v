(** C18 — Unsupported input is refused with a diagnostic, never a crash.
    Model functions return [Ok | Diag | Crash]; [Crash] stands for a Go runtime error. The statements
    say that the modelled mechanisms cannot produce one, for any input. The generators themselves are
    observed stage by stage on every run (recovered panic value), which is decisive on its own. *)
From Coq Require Import List String Bool.
From GM Require Import Base.Result Facts.GoFacts Facts.Ana Model.Enums Model.Unions Model.Classify Model.Names Proofs.C10 Proofs.C18.
Import ListNotations.
Local Open Scope string_scope.

(** one level of the analysis: every refusal is a diagnostic (anonymous structs, channels, functions,
    interface literals, type parameters, named interfaces that are not unions, named pointers) *)
Theorem C18_classifier_never_crashes : forall pr enums unions t, is_crash (classify pr enums unions t) = false.
Proof. exact classify_no_crash. Qed.

(** the whole closure can only crash by running out of fuel, i.e. by unbounded recursion *)
Theorem C18_closure_crash_is_divergence : forall pr enums unions fuel work seen msg,
  closure pr enums unions fuel work seen = Crash msg -> msg = "out of fuel (unbounded recursion)".
Proof. exact closure_crash_is_fuel. Qed.

(** enum detection, whatever the shape of the constant declarations (grouped, multi-name, ...) *)
Theorem C18_enum_detection_never_crashes : forall pr, exists es, fetch_enums pr = Ok es.
Proof. exact fetch_enums_ok. Qed.

(** names of every length, one letter and empty included *)
Theorem C18_names_never_crash : forall a b,
  is_crash (kind_var_name a b) = false /\ is_crash (rand_foreign_id a b) = false /\
  is_crash (id_from_named a b) = false /\ is_crash (dart_enum_member a) = false.
Proof.
  intros. repeat split; [apply kind_var_name_no_crash|apply rand_foreign_id_no_crash|apply id_from_named_no_crash|apply dart_enum_member_no_crash].
Qed.

(** regression witnesses for the pinned tree *)
Theorem C18_pinned_names_refuted :
  is_crash (kind_var_name_pinned "A" "U") = true /\
  is_crash (rand_foreign_id_pinned "ab" "T") = true /\
  is_crash (dart_enum_member_pinned "Kind_") = true.
Proof. exact pinned_name_crashes. Qed.

Print Assumptions C18_classifier_never_crashes.
Print Assumptions C18_closure_crash_is_divergence.
Print Assumptions C18_enum_detection_never_crashes.
Print Assumptions C18_names_never_crash.
Print Assumptions C18_pinned_names_refuted.
