(** C14 — The generated Axios client issues exactly the extracted requests.
    [gen_method] is the model of the generated method (as an IR that the harness also parses from the
    real text), [call] the request the IR issues under the calling conventions of axios (get/delete
    take (url, config), post/put take (url, data, config)), [request_of] the request the statement
    specifies. TypeScript itself is not executed (no type checker available). *)
From Coq Require Import List String Bool.
From GM Require Import Model.Http Model.Classify Model.Axios Proofs.C14.
Import ListNotations.
Local Open Scope string_scope.

(** for every endpoint that carries a body only with POST or PUT, and every query parameter kind:
    verb, URL, body (JSON input | exactly the declared form entries | null | none), exactly the declared
    query keys with their string conversion, headers, response type and returned value are as specified *)
Theorem C14_request_is_the_specified_one : forall a,
  body_verb_ok (ae a) = true -> call (gen_method a) = request_of a.
Proof. exact call_is_request. Qed.

(** one method per endpoint, named after its handler, in order *)
Theorem C14_one_method_per_endpoint : forall l,
  map mi_name (map gen_method l) = map (fun a => ep_name (ae a)) l.
Proof. exact one_method_per_endpoint. Qed.

(** open finding: a GET or DELETE endpoint with a bound body passes it where axios expects the config *)
Theorem C14_get_with_body_refuted :
  let e := {| ep_url := "/x"; ep_method := "GET"; ep_name := "h"; ep_input := "int"; ep_return := ""; ep_blob := false;
              ep_query := []; ep_form_values := []; ep_file := ""; ep_json := ("", "") |} in
  call (gen_method {| ae := e; ae_kinds := [] |}) <> request_of {| ae := e; ae_kinds := [] |}.
Proof. exact get_with_body_refuted. Qed.

Print Assumptions C14_request_is_the_specified_one.
Print Assumptions C14_one_method_per_endpoint.
Print Assumptions C14_get_with_body_refuted.
