(** C02 — Union values survive a JSON round trip in the Kind/Data wire format.
    Decided on every run by a test binary built from the source package and the real generated
    wrappers: real round trips (deep equality modulo nil/empty) and comparison with a reference encoder.
    The wire format itself is stated in Coq as the shape [shape_of] / [env_of] (Sem/GoJson.v) of the
    documents of each analysed type; every document the real encoder writes must conform to it
    (vm_compute per document), and the lemmas below say what conformance means at union and struct
    positions. The same shapes are what C03, C04 are proved against.

    The round trip itself is a theorem about the codec model of Sem/GoVal.v: [encode] / [decode] are
    json.Marshal / json.Unmarshal with the generated wrappers compiled in, directed by the wire shape,
    over Go values in which every union-typed component holds a member value ([VUnion]). The model is
    run (vm_compute) on every value the test binary marshals: [encode] must give the very document the
    real encoder wrote and [decode] the very value the real decoder built (Corr/Check_C02.v). *)
From Coq Require Import List String ZArith Bool.
From GM Require Import Base.Result Facts.GoFacts Facts.Ana Model.Enums Model.Fields Model.Classify Model.SqlTypes Sem.GoJson Sem.GoVal Proofs.C02 Proofs.C02rt Proofs.C02ty.
Import ListNotations.
Local Open Scope string_scope.

Theorem C02_union_wire_format : forall env f id members j,
  lookup_def id env = Some (DUnion members) ->
  conformsb env (S f) (ShRef id) j = true ->
  exists l k d sh, j = JObj l /\ List.length l = 2 /\ assoc_json "Kind" l = Some (JStr k) /\ assoc_json "Data" l = Some d /\
    In (k, sh) members /\ conformsb env f sh d = true.
Proof. exact union_wire_format. Qed.

Theorem C02_struct_wire_format : forall env f id fields j,
  lookup_def id env = Some (DObject fields) ->
  conformsb env (S f) (ShRef id) j = true ->
  exists l, j = JObj l /\
    (forall k v, In (k, v) l -> exists sh opt, In (k, sh, opt) fields) /\
    (forall k sh opt, In (k, sh, opt) fields -> match assoc_json k l with Some v => conformsb env f sh v = true | None => opt = true end).
Proof. exact struct_wire_format. Qed.

(** Marshalling any value of the shape and unmarshalling the result yields the value back, a nil and an
    empty slice or map counting as equal ([canon]); [encode] succeeding is "v is a value of the type whose
    union-typed components hold member values" (it is computed on every value of every run). *)
Theorem C02_round_trip : forall env, env_wf env = true -> forall f s v j,
  encode env f s v = Some j ->
  exists v', decode env f s j = Some v' /\ canon v' = canon v.
Proof. exact round_trip. Qed.

(** ... and the document conforms to the wire shape of the type, so that the two statements above apply to it *)
Theorem C02_encoded_documents_conform : forall env, env_wf env = true -> forall f s v j,
  encode env f s v = Some j -> conformsb env f s j = true.
Proof. exact encode_conforms. Qed.

(** on the wire an union value is {"Kind": <name of the member>, "Data": <the member's own document>} *)
Theorem C02_union_value_on_the_wire : forall env f id members k w j,
  lookup_def id env = Some (DUnion members) ->
  encode env (S f) (ShRef id) (VUnion k w) = Some j ->
  exists sh d, In (k, sh) members /\ encode env f sh w = Some d /\ j = JObj [("Data", d); ("Kind", JStr k)].
Proof. exact union_value_on_the_wire. Qed.

(** the premises are satisfiable: a struct with union fields, a nil named slice of unions, an omitted omitempty field *)
Theorem C02_round_trip_example :
  env_wf ex_env = true /\
  encode ex_env 6 (ShRef "p.S") ex_value =
    Some (JObj [("v", JObj [("Data", JObj [("x", JNum "3"); ("S", JArr [])]); ("Kind", JStr "A")]);
                ("L", JArr []);
                ("W", JObj [("Data", JNum "7"); ("Kind", JStr "N")])]) /\
  option_map canon (match encode ex_env 6 (ShRef "p.S") ex_value with Some j => decode ex_env 6 (ShRef "p.S") j | None => None end)
    = Some (canon ex_value).
Proof. exact ex_round_trip. Qed.


(** the same on typed values: [has_shape] decides "v is a value of the shape whose union-typed components hold member
    values" ([encode] succeeds exactly on those: it is evaluated on every value of every run, Corr/Check_C02.v) *)
Theorem C02_typed_values_round_trip : forall env, env_wf env = true -> forall f s v, has_shape env f s v = true ->
  exists j v', encode env f s v = Some j /\ decode env f s j = Some v' /\ canon v' = canon v.
Proof. exact typed_round_trip. Qed.

Theorem C02_typed_example : has_shape ex_env 6 (ShRef "p.S") ex_value = true.
Proof. exact ex_typed. Qed.


Print Assumptions C02_union_wire_format.
Print Assumptions C02_struct_wire_format.
Print Assumptions C02_round_trip.
Print Assumptions C02_encoded_documents_conform.
Print Assumptions C02_union_value_on_the_wire.
Print Assumptions C02_round_trip_example.
Print Assumptions C02_typed_values_round_trip.
Print Assumptions C02_typed_example.
