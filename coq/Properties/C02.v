(** C02 — Union values survive a JSON round trip in the Kind/Data wire format.
    Decided on every run by a test binary built from the source package and the real generated
    wrappers: real round trips (deep equality modulo nil/empty) and comparison with a reference encoder.
    The wire format itself is stated in Coq as the shape [shape_of] / [env_of] (Sem/GoJson.v) of the
    documents of each analysed type; every document the real encoder writes must conform to it
    (vm_compute per document), and the lemmas below say what conformance means at union and struct
    positions. The same shapes are what C03, C04 are proved against. *)
From Coq Require Import List String ZArith Bool.
From GM Require Import Base.Result Facts.GoFacts Facts.Ana Model.Enums Model.Fields Model.Classify Model.SqlTypes Sem.GoJson Proofs.C02.
Import ListNotations.
Local Open Scope string_scope.

Theorem C02_union_wire_format : forall env f id members j,
  lookup_def id env = Some (DUnion members) ->
  conformsb env (S f) (ShRef id) j = true ->
  exists l k d sh, j = JObj l /\ List.length l = 2 /\ assoc_json "Kind" l = Some (JStr k) /\ assoc_json "Data" l = Some d /\
    In (k, sh) members /\ conformsb env f sh d = true.
Proof. exact union_wire_format. Qed.

Theorem C02_struct_wire_format : forall env f id fields j,
  lookup_def id env = Some (DObject fields) ->
  conformsb env (S f) (ShRef id) j = true ->
  exists l, j = JObj l /\
    (forall k v, In (k, v) l -> exists sh opt, In (k, sh, opt) fields) /\
    (forall k sh opt, In (k, sh, opt) fields -> match assoc_json k l with Some v => conformsb env f sh v = true | None => opt = true end).
Proof. exact struct_wire_format. Qed.

Print Assumptions C02_union_wire_format.
Print Assumptions C02_struct_wire_format.
