(** Correspondence for C17. *)
From Coq Require Import List String NArith Bool.
From GM Require Import Base.Result Model.Loader.
Import ListNotations.

Section Generic.
  Context {A : Type} (chk : A -> bool).
  Fixpoint mism_from (n : N) (cases : list A) : list N :=
    match cases with
    | [] => []
    | c :: r => if chk c then mism_from (N.succ n) r else n :: mism_from (N.succ n) r
    end.
End Generic.

(** (paths, observed result of commonPrefix) *)
Definition chk_prefix (c : list string * string) : bool :=
  match common_prefix (fst c) with
  | Ok s => String.eqb s (snd c)
  | _ => false
  end.
Definition mismatches := mism_from chk_prefix 0%N.

(** LoadSources on a real layout: packages as returned by packages.Load (ID, GoFiles), the
    absolute input files, the absolute directories, and what was observed. *)
Inductive ls_obs := LsOk (pkgs : list string) (root : string) | LsErr | LsCrash.
Record ls_case := { lc_pkgs : list pkg; lc_files : list string; lc_dirs : list string; lc_obs : ls_obs }.

Definition list_eqb (a b : list string) : bool :=
  (Nat.eqb (List.length a) (List.length b)) && forallb (fun p => String.eqb (fst p) (snd p)) (combine a b).

Definition chk_ls (c : ls_case) : bool :=
  match lc_obs c with
  | LsCrash => false
  | LsErr => true   (* errors come from os.Stat / go list, outside the model; only their class matters *)
  | LsOk ks root =>
      match common_prefix (lc_dirs c), match_back (lc_pkgs c) (lc_files c) with
      | Ok r, Ok ks' => String.eqb r root && list_eqb ks ks'
      | _, _ => false
      end
  end.
Definition mismatches_ls := mism_from chk_ls 0%N.
