(** C07: the static inventory regenerated from /repo must be exactly the model's site table. *)
From Coq Require Import List String Bool Arith NArith.
From GM Require Import Model.MapOrder.
Import ListNotations.
Local Open Scope string_scope.

Definition site_eqb (a : string * string * string) (b : string * string * string * site_kind) : bool :=
  let '(p, f, t) := a in let '(p', f', t', _) := b in String.eqb p p' && String.eqb f f' && String.eqb t t'.

(** multiset equality of the two lists of sites *)
Fixpoint remove_first (a : string * string * string) (l : list (string * string * string * site_kind)) : option (list (string * string * string * site_kind)) :=
  match l with
  | [] => None
  | b :: r => if site_eqb a b then Some r else match remove_first a r with Some r' => Some (b :: r') | None => None end
  end.

Fixpoint same_sites (obs : list (string * string * string)) (tbl : list (string * string * string * site_kind)) : bool :=
  match obs with
  | [] => match tbl with [] => true | _ => false end
  | a :: r => match remove_first a tbl with Some tbl' => same_sites r tbl' | None => false end
  end.

(** 1000000: a range over a map that the model has no lemma for (or a vanished one); 1000001: rand / time.Now / %p in generator code *)
Definition inventory_mismatches (sites : list (string * string * string)) (others : list string) : list N :=
  (if same_sites sites site_table then [] else [1000000%N]) ++
  (if forallb (fun o => existsb (String.eqb o) allowed_others) others then [] else [1000001%N]).
