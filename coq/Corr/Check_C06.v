From Coq Require Import List String Ascii ZArith Bool Arith NArith.
From GM Require Corr.AnaCross.
From GM Require Import Base.Result Facts.GoFacts Facts.Ana Model.Enums Model.Fields Model.Classify Model.Names Model.SqlTypes Model.Loader Model.Unions Model.Dart Model.DartGen.
Import ListNotations.
Local Open Scope string_scope.

Record dfile := { df_name : string; df_imports : list string; df_defs : list string; df_uses : list string }.
Record dclass := { dc_name : string; dc_implements : list string; dc_ctor : list string; dc_file : string;
                   dc_has_json : bool;                       (* the fromJson / toJson routines of the class were found *)
                   dc_from : list string;                    (* keys read by fromJson, in order *)
                   dc_to : list (string * string) }.         (* (key written by toJson, field of the item) in order *)
Record dunion := { du_name : string; du_from : list string; du_to : list (string * string); du_file : string }.
Record denum := { de_name : string; de_members : list string; de_values : option (list string); de_iota : bool; de_file : string }.

Record c6_case := {
  c6_root : string;     (* the source root handed to dart.Generate *)
  c6_prog : prog; c6_enums : list enum; c6_ana : ana_obs;
  c6_dl : option (list (string * (list string * list string)));  (* per file handed to WriteDeclarations: declaration identifiers in order, import lines *)
  c6_files : list dfile; c6_classes : list dclass; c6_unions : list dunion; c6_denums : list denum
}.

Fixpoint strs_eqb (a b : list string) : bool :=
  match a, b with [], [] => true | x :: a', y :: b' => String.eqb x y && strs_eqb a' b' | _, _ => false end.

Definition node_local (pr : prog) (n : nrec) : string := match nr_at n with GNamed id => local_name_of pr id | _ => "" end.

(** the unions a member class must declare, decided from the facts of the program (the union detection model, C11),
    not from the Implements list of the observed node: the analysed exported unions that list the struct *)
Definition union_analysed (a : ana_obs) (id : string) : bool :=
  existsb (fun n => gty_eqb (nr_at n) (GNamed id) && akind_eqb (nr_kind n) KdUnion && nr_in_types n) (ao_nodes a).
Definition implements_by_model (pr : prog) (a : ana_obs) (n : nrec) : list string :=
  match nr_at n with
  | GNamed sid => map (local_name_of pr) (filter (union_exported pr) (set_implements (fetch_unions pr) (union_analysed a) sid))
  | _ => [] end.

Definition find_named (pr : prog) (a : ana_obs) (k : akind) (dart_name : string) : list nrec :=
  filter (fun n => akind_eqb (nr_kind n) k &&
                   String.eqb (if akind_eqb k KdStruct then dart_class_name pr n else title (node_local pr n)) dart_name) (ao_nodes a).

(** a generic instantiation has a bracket in its id: the text readers cannot tell instantiations apart *)
Definition ambiguous (l : list nrec) : bool :=
  match l with
  | [] => true
  | n :: r => negb (forallb (fun m => gty_eqb (nr_at m) (nr_at n)) r)
  end.

Definition chk_model (c : c6_case) : bool :=
  let pr := c6_prog c in let a := c6_ana c in
  forallb (fun cl =>
    let ns := find_named pr a KdStruct (dc_name cl) in
    match ns with
    | n :: _ => ambiguous ns || (strs_eqb (dart_ctor_args n) (dc_ctor cl) && strs_eqb (dart_implements pr n) (dc_implements cl)
                                 && strs_eqb (implements_by_model pr a n) (dc_implements cl)
                                 (* fromJson reads and toJson writes exactly the keys Go uses, in field order, one per constructor argument *)
                                 && dc_has_json cl
                                 && strs_eqb (dart_json_keys n) (dc_from cl)
                                 && strs_eqb (dart_json_keys n) (map fst (dc_to cl))
                                 && strs_eqb (dart_ctor_args n) (map snd (dc_to cl)))
    | [] => (* the abstract class of a union *) negb (match find_named pr a KdUnion (dc_name cl) with [] => true | _ => false end)
    end) (c6_classes c)
  && forallb (fun u =>
    let ns := find_named pr a KdUnion (du_name u) in
    match ns with
    | n :: _ => ambiguous ns ||
                (let tags := dart_union_tags pr n in
                 strs_eqb tags (du_from u) && strs_eqb tags (map snd (du_to u)) && strs_eqb (map title tags) (map fst (du_to u)))
    | [] => false
    end) (c6_unions c)
  && forallb (fun e =>
    match filter (fun m => String.eqb (title (local_name_of pr (en_id m))) (de_name e)) (c6_enums c) with
    | [m] => strs_eqb (dart_enum_names m) (de_members e) && Bool.eqb (en_is_iota m) (de_iota e)
             && (match de_values e with Some vs => strs_eqb (dart_enum_values m) vs | None => en_is_iota m end)
    | _ => true
    end) (c6_denums c).

(** * every named Go type is emitted in the file assigned to its package (Model/Dart.v: dart_out_file) *)
Definition file_of_id (c : c6_case) (id : string) : option string :=
  match find_type id (pr_types (c6_prog c)) with
  | Some d => Some (dart_out_file (c6_root c) (n_pkg d))
  | None => None end.

Definition node_file_ok (c : c6_case) (ns : list nrec) (file : string) : bool :=
  match ns with
  | n :: _ => ambiguous ns || match nr_at n with
                              | GNamed id => match file_of_id c id with Some f => String.eqb f file | None => false end
                              | _ => true end
  | [] => true
  end.

Definition chk_files (c : c6_case) : bool :=
  let pr := c6_prog c in let a := c6_ana c in
  forallb (fun cl => node_file_ok c (find_named pr a KdStruct (dc_name cl)) (dc_file cl)) (c6_classes c)
  && forallb (fun u => node_file_ok c (find_named pr a KdUnion (du_name u)) (du_file u)) (c6_unions c)
  && forallb (fun e => node_file_ok c (find_named pr a KdEnum (de_name e)) (de_file e)) (c6_denums c).

(** * links, on the parsed files alone *)
Definition file_named (c : c6_case) (n : string) : option dfile := find (fun f => String.eqb (df_name f) n) (c6_files c).

Definition visible_defs (c : c6_case) (f : dfile) : list string :=
  df_defs f ++ flat_map (fun i => match file_named c i with Some g => df_defs g | None => [] end) (df_imports f).

Definition count_str (x : string) (l : list string) : nat := List.length (filter (String.eqb x) l).

Definition is_dart_builtin (n : string) : bool :=
  existsb (String.eqb n) ["String"; "List"; "Map"; "DateTime"; "MapEntry"; "Override"].

Definition chk_links (c : c6_case) : bool :=
  forallb (fun f =>
    negb (existsb (String.eqb (df_name f)) (df_imports f))
    && forallb (fun i => match file_named c i with Some _ => true | None => false end) (df_imports f)
    && forallb (fun u => is_dart_builtin u || Nat.eqb (count_str u (visible_defs c f)) 1) (df_uses f))
  (c6_files c).

Fixpoint list_eqb_opt (a b : list (option Z)) : bool :=
  match a, b with
  | [], [] => true
  | Some x :: a', Some y :: b' => Z.eqb x y && list_eqb_opt a' b'
  | _, _ => false
  end.

(** the wire conversion of non positional enums is the identity on the listed values *)
Definition chk_enum_wire (c : c6_case) : bool :=
  forallb (fun e => match de_values e with
                    | Some vs => forallb (fun v => match from_value vs v with
                                                   | Some i => match to_value vs i with Some v' => String.eqb v v' | None => false end
                                                   | None => false end) vs
                                 && Nat.eqb (List.length vs) (List.length (de_members e))
                    | None =>
                        (* positional conversion (values[i] / index): sound only when the listed members have the Go values 0, 1, 2, ... in order *)
                        de_iota e
                        && match filter (fun m => String.eqb (title (local_name_of (c6_prog c) (en_id m))) (de_name e)) (c6_enums c) with
                           | [m] => let vals := map (fun x => int64_of (em_val x)) (filter em_exported (en_members m)) in
                                    list_eqb_opt vals (map Some (zseq 0 (List.length vals)))
                           | _ => true
                           end
                    end) (c6_denums c).

(** the Kind strings a Dart union accepts and writes are the Go names of its members (what the generated
    Go wrappers write, C02), in the same order as the dispatch *)
Definition chk_union_wire (c : c6_case) : bool :=
  let pr := c6_prog c in let a := c6_ana c in
  forallb (fun u =>
    let ns := find_named pr a KdUnion (du_name u) in
    match ns with
    | n :: _ => ambiguous ns ||
                (let tags := map (local_name_of pr) (nr_members n) in
                 strs_eqb tags (du_from u) && strs_eqb tags (map snd (du_to u)))
    | [] => true
    end) (c6_unions c).

(** the struct routines of a class, on the generated text alone: fromJson passes one value per constructor
    argument, toJson writes the fields of the constructor in order, under the keys fromJson reads *)
Definition chk_struct_wire (c : c6_case) : bool :=
  forallb (fun cl => negb (dc_has_json cl)
                     || (Nat.eqb (List.length (dc_from cl)) (List.length (dc_ctor cl))
                         && strs_eqb (map snd (dc_to cl)) (dc_ctor cl)
                         && strs_eqb (map fst (dc_to cl)) (dc_from cl))) (c6_classes c).

Definition chk_prop (c : c6_case) : bool := chk_links c && chk_enum_wire c && chk_union_wire c && chk_struct_wire c.

(** * the traversal model (Model/DartGen.v) against the declaration lists of the real generator: same files, same
      identifiers in the same order, same imports *)
Definition dart_model (c : c6_case) : result dstate :=
  dart_run (c6_root c) (c6_prog c) (ao_nodes (c6_ana c)) 16 (ao_source (c6_ana c)).

Definition dart_model_ok (c : c6_case) : bool :=
  match c6_dl c with
  | None => true
  | Some l =>
      match dart_model c with
      | Ok st =>
          forallb (fun x => strs_eqb (decl_ids_of (fst x) (ds_decls st)) (fst (snd x))
                            && strs_eqb (imports_of (fst x) (ds_imps st)) (snd (snd x))) l
          && forallb (fun d => existsb (fun x => String.eqb (fst x) (dd_file d)) l) (ds_decls st)
      | _ => false
      end
  end.

(** the references of the model cover the references of the text: every name a real file uses (class, typedef, enum,
    extension, JSON helper) is provided by a declaration the model emits in that file or lets a declaration of that
    file refer to. Without this the closure theorem would speak about fewer references than the files make. *)
Fixpoint strip_suffix_json (s : string) : string :=
  if String.eqb s "_json" then "" else match s with EmptyString => EmptyString | String c r => String c (strip_suffix_json r) end.
Definition ends_json (s : string) : bool := negb (String.eqb (strip_suffix_json s) s).
Definition id_base (id : string) : string :=
  if String.eqb id "__DateTime_json" then "dateTime" else if ends_json id then strip_suffix_json id else id.
Definition provides (id u : string) : bool :=
  let b := id_base id in let lf := lower_first_ok b in
  String.eqb u b || String.eqb u (lf ++ "FromJson") || String.eqb u (lf ++ "ToJson")
  || String.eqb u ("_" ++ b ++ "Ext") || String.eqb u (lf ++ "Label").

Definition dart_uses_covered (c : c6_case) : bool :=
  match dart_model c with
  | Ok st =>
      forallb (fun f =>
        let ds := filter (fun d => String.eqb (dd_file d) (df_name f)) (ds_decls st) in
        let ids := (map dd_id ds ++ flat_map dd_mentions ds ++ flat_map dd_impl ds)%list in
        forallb (fun u => is_dart_builtin u || existsb (fun id => provides id u) ids) (df_uses f)) (c6_files c)
  | _ => true
  end.

(** the link condition on the model's output (Proofs/C06t.v: links_closed_sound) *)
Definition dart_links_ok (c : c6_case) : bool :=
  match dart_model c with Ok st => links_closed st | _ => true end.

Section Generic.
  Context {A : Type} (f : A -> bool).
  Fixpoint mism_from (n : N) (cases : list A) : list N :=
    match cases with [] => [] | c :: r => if f c then mism_from (N.succ n) r else n :: mism_from (N.succ n) r end.
End Generic.
Definition mismatches := mism_from (fun c => AnaCross.ana_cross_e (c6_prog c) (c6_enums c) (c6_ana c) && chk_model c && chk_files c && dart_model_ok c && dart_uses_covered c) 0%N.
Definition prop_failures := mism_from (fun c => chk_prop c && dart_links_ok c) 0%N.
