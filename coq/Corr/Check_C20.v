(** Correspondence for C20: (1) the program translated from generator/formatters.go on this run is
    accepted by [compile]; (2) its slots carry the command lines the real code was seen to execute;
    (3) for each tool environment and request vector run against the real FormatFile (under -race,
    with recording stand-in tools), the observed probe / run / error counts are the model's. *)
From Coq Require Import List String NArith Bool Arith.
From GM Require Import Model.Formatters.
Import ListNotations.
Local Open Scope string_scope.

Record c20_case := {
  cc_present : list bool;            (* per slot *)
  cc_failing : list bool;
  cc_reqs : list string;             (* format constant names, one per goroutine *)
  cc_probes : list nat;              (* observed: probe commands executed, per slot *)
  cc_runs : list nat;                (* observed: formatter runs, per slot *)
  cc_errs : list nat;                (* observed: non-nil errors returned, per slot *)
  cc_touched : list nat              (* observed: files modified by a formatter, per slot *)
}.

Fixpoint index_of (f : string) (sl : list slot) (i : nat) : option nat :=
  match sl with
  | [] => None
  | s :: r => if String.eqb (sl_format s) f then Some i else index_of f r (S i)
  end.

Definition env_of (c : c20_case) : tool_env :=
  {| present := fun k => nth k (cc_present c) false; failing := fun k => nth k (cc_failing c) false |}.

Definition count_err_slot (reqs : requests) (s : state) (k : nat) : nat :=
  List.length (filter (fun tp => match tp with
                                | (Some k', PDone true) => Nat.eqb k k'
                                | _ => false end) (combine reqs (st_pcs s))).

Definition list_nat_eqb (a b : list nat) : bool :=
  Nat.eqb (List.length a) (List.length b) && forallb (fun p => Nat.eqb (fst p) (snd p)) (combine a b).

Definition check_case (sl : list slot) (c : c20_case) : bool :=
  let reqs := map (fun f => index_of f sl 0) (cc_reqs c) in
  let n := List.length sl in
  let s := run (env_of c) (seq_schedule (List.length reqs)) (init n reqs) in
  let ks := seq 0 n in
  all_doneb s
  && list_nat_eqb (map (fun k => count_probe k (st_trace s)) ks) (cc_probes c)
  && list_nat_eqb (map (fun k => count_run_slot k (st_trace s)) ks) (cc_runs c)
  && list_nat_eqb (map (count_err_slot reqs s) ks) (cc_errs c)
  && list_nat_eqb (map (fun k => count_run_slot k (st_trace s)) ks) (cc_touched c).

Fixpoint mism_from (sl : list slot) (n : N) (cases : list c20_case) : list N :=
  match cases with
  | [] => []
  | c :: r => if check_case sl c then mism_from sl (N.succ n) r else n :: mism_from sl (N.succ n) r
  end.

(** observed command lines per slot: (format, probe argv, run argv with the file replaced by "$FILE") *)
Definition cmd_obs := (string * list string * list string)%type.

Definition strs_eqb (a b : list string) : bool :=
  Nat.eqb (List.length a) (List.length b) && forallb (fun p => String.eqb (fst p) (snd p)) (combine a b).

Definition slot_matches (s : slot) (o : cmd_obs) : bool :=
  let '(f, probe, runv) := o in
  String.eqb (sl_format s) f
  && (match probe with [] => true (* never observed *) | _ =>
        strs_eqb probe (pd_tool (sl_desc s) :: pd_args (sl_desc s)) end)
  && (match runv with [] => true | _ =>
        strs_eqb runv (sl_run_tool s :: sl_run_args s) end).

(** index 1000000 = the translated program is not accepted; 1000001 = command lines differ *)
Definition mismatches_prog (p : cprog) (cmds : list cmd_obs) (cases : list c20_case) : list N :=
  match compile p with
  | None => [1000000%N]
  | Some sl =>
      (if Nat.eqb (List.length sl) (List.length cmds) && forallb (fun so => slot_matches (fst so) (snd so)) (combine sl cmds)
       then [] else [1000001%N]) ++ mism_from sl 0%N cases
  end.
