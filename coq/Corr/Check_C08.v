(** Correspondence for C08: the tables, foreign keys, JSON checks and composite types parsed from the
    real SQL script against the model. *)
From Coq Require Import List String Ascii ZArith Bool Arith NArith.
From GM Require Corr.AnaCross.
From GM Require Import Base.Result Facts.GoFacts Facts.Ana Model.Enums Model.Fields Model.Classify Model.SqlTypes.
Import ListNotations.
Local Open Scope string_scope.

Inductive sql_obs := SqlOk (tables : list table_ir) (composites : list string) | SqlDiag | SqlCrash.

Record c8_case := { c8_prog : prog; c8_enums : list enum; c8_ana : ana_obs; c8_obs : sql_obs }.

(** collapse runs of blanks (space, tab, newline) into one space and trim: what the reader does to a column line *)
Definition is_blank (c : ascii) : bool := let n := nat_of_ascii c in Nat.eqb n 32 || Nat.eqb n 9 || Nat.eqb n 10.
Fixpoint collapse (prev_blank : bool) (s : string) : string :=
  match s with
  | EmptyString => EmptyString
  | String c r => if is_blank c then (if prev_blank then collapse true r else String " "%char (collapse true r))
                  else String c (collapse false r)
  end.
Fixpoint trim_end (s : string) : string :=
  match s with
  | EmptyString => EmptyString
  | String c r => match trim_end r with
                  | EmptyString => if is_blank c then EmptyString else String c EmptyString
                  | r' => String c r' end
  end.
Definition norm_ws (s : string) : string := trim_end (collapse true s).

Fixpoint strs_eqb (a b : list string) : bool :=
  match a, b with
  | [], [] => true
  | x :: a', y :: b' => String.eqb x y && strs_eqb a' b'
  | _, _ => false
  end.

Definition fk_eqb (a b : string * string * string) : bool :=
  let '(c, t, x) := a in let '(c', t', x') := b in String.eqb c c' && String.eqb t t' && String.eqb x x'.

Fixpoint fks_eqb (a b : list (string * string * string)) : bool :=
  match a, b with
  | [], [] => true
  | x :: a', y :: b' => fk_eqb x y && fks_eqb a' b'
  | _, _ => false
  end.

Definition table_eqb (m o : table_ir) : bool :=
  String.eqb (t_name m) (t_name o)
  && strs_eqb (map norm_ws (t_columns m)) (t_columns o)
  && fks_eqb (t_fks m) (t_fks o)
  (* the validator CHECKs are separate declarations, ordered by validator name: compare as sets *)
  && forallb (fun x => existsb (String.eqb x) (t_json_checks o)) (t_json_checks m)
  && forallb (fun x => existsb (String.eqb x) (t_json_checks m)) (t_json_checks o)
  && Nat.eqb (List.length (t_json_checks m)) (List.length (t_json_checks o)).

Fixpoint tables_eqb (a b : list table_ir) : bool :=
  match a, b with
  | [], [] => true
  | x :: a', y :: b' => table_eqb x y && tables_eqb a' b'
  | _, _ => false
  end.

Definition subset (a b : list string) : bool := forallb (fun x => existsb (String.eqb x) b) a.

(** WriteDeclarations orders CREATE TABLE declarations by the qualified Go name of the struct: compare as sets keyed by name *)
Definition tables_equiv (ms os : list table_ir) : bool :=
  Nat.eqb (List.length ms) (List.length os)
  && forallb (fun m => existsb (table_eqb m) os) ms.

Definition chk (c : c8_case) : bool :=
  match tables_of (c8_prog c) (c8_enums c) (c8_ana c), c8_obs c with
  | Ok ms, SqlOk os comps =>
      tables_equiv ms os
      && let want := flat_map t_composites ms in subset want comps && subset comps want
  | Diag _, SqlDiag => true
  | _, _ => false
  end.

Fixpoint mism_from (n : N) (cases : list c8_case) : list N :=
  match cases with
  | [] => []
  | c :: r => if AnaCross.ana_cross_e (c8_prog c) (c8_enums c) (c8_ana c) && chk c then mism_from (N.succ n) r else n :: mism_from (N.succ n) r
  end.
Definition mismatches := mism_from 0%N.
