(** Cross-check shared by the checks whose models take the observed analysis ([ana_obs]) as input: the
    observed node graph must be the one the analysis model (Model/Classify.v, with the enum and union
    detection models of C10 / C11) builds from the go/types facts of the program - node by node, kinds,
    members, children and source order (Corr/Check_C12.v:chk_model). Without it a defect of the analysis
    would make the observed graph the reference of the dependent property and go unnoticed there. *)
From Coq Require Import List String ZArith Bool NArith.
From GM Require Import Base.Result Facts.GoFacts Facts.Ana Model.Enums Model.Unions Model.Classify Model.Fields Model.Dart Corr.Check_C10 Corr.Check_C12.
Import ListNotations.

Definition ana_cross (pr : prog) (a : ana_obs) : bool :=
  Check_C12.chk_model {| c12_prog := pr; c12_source := ao_source a; c12_ana := a |}.

(** ... and the enum table handed to the dependent models must be the one the enum detection model (C10) computes
    from the facts: same enums, same members (exported or not) with their values and comments, same iota flags *)
Definition enums_cross (pr : prog) (obs : list enum) : bool :=
  match fetch_enums pr with
  | Ok l => Check_C10.enums_equiv l obs
  | _ => true
  end.

(** ... and what the analysis says of every field (StructField.Exported, StructField.JSONName) must be what the model
    of C09 (Model/Fields.v) computes from its name and tag *)
Definition fields_cross (a : ana_obs) : bool :=
  forallb (fun n => forallb (fun f => contains "\" (af_tag f)     (* escapes in a tag: outside the byte-level model of StructTag.Get *)
                                      || (Bool.eqb (exported (sfield_of f)) (af_exported f)
                                          && String.eqb (json_name (sfield_of f)) (af_json f))) (nr_fields n)) (ao_nodes a).

Definition ana_cross_e (pr : prog) (obs : list enum) (a : ana_obs) : bool := ana_cross pr a && enums_cross pr obs && fields_cross a.

(** stand-alone use: one case per module (program facts, observed enum table, observed analysis) *)
Fixpoint mism_from (n : N) (cases : list (prog * list enum * ana_obs)) : list N :=
  match cases with
  | [] => []
  | (pr, en, a) :: r => if ana_cross_e pr en a then mism_from (N.succ n) r else n :: mism_from (N.succ n) r
  end.
Definition mismatches := mism_from 0%N.
