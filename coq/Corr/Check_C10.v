(** Correspondence and executable property check for C10. *)
From Coq Require Import List String ZArith Bool Arith NArith.
From GM Require Import Base.Result Facts.GoFacts Model.Enums.
Import ListNotations.
Local Open Scope string_scope.

Inductive obs_enums := ObsOk (l : list enum) | ObsDiag | ObsCrash.

Definition cval_eqb (a b : cval) : bool :=
  match a, b with
  | CInt x, CInt y => Z.eqb x y
  | CBigInt x, CBigInt y | CStr x, CStr y | CFloat x, CFloat y | COtherVal x, COtherVal y => String.eqb x y
  | CBool x, CBool y => Bool.eqb x y
  | _, _ => false
  end.

Definition emember_eqb (a b : emember) : bool :=
  String.eqb (em_name a) (em_name b) && cval_eqb (em_val a) (em_val b) && String.eqb (em_exact a) (em_exact b)
  && Bool.eqb (em_exported a) (em_exported b) && String.eqb (em_comment a) (em_comment b).

Fixpoint list_eqb {A} (eqb : A -> A -> bool) (a b : list A) : bool :=
  match a, b with
  | [], [] => true
  | x :: a', y :: b' => eqb x y && list_eqb eqb a' b'
  | _, _ => false
  end.

Definition enum_eqb (a b : enum) : bool :=
  String.eqb (en_id a) (en_id b) && list_eqb emember_eqb (en_members a) (en_members b) && Bool.eqb (en_is_iota a) (en_is_iota b).

Definition find_enum (id : string) (l : list enum) : option enum := find (fun e => String.eqb (en_id e) id) l.

Definition enums_equiv (a b : list enum) : bool :=
  Nat.eqb (List.length a) (List.length b)
  && forallb (fun e => match find_enum (en_id e) b with Some e' => enum_eqb e e' | None => false end) a.

(** hypothesis of the theorems, checked on every case *)
Definition const_wfb (c : cdecl) : bool := existsb (fun v => nkind_eqb (cd_kind v) NValueSpec) (c_cands c).
Definition facts_wf (pr : prog) : bool := forallb (fun p => forallb const_wfb (p_consts p)) (pr_pkgs pr).

Definition chk_model (c : prog * obs_enums) : bool :=
  facts_wf (fst c) &&
  match fetch_enums (fst c), snd c with
  | Ok l, ObsOk l' => enums_equiv l l'
  | Diag _, ObsDiag => true
  | Crash _, ObsCrash => true
  | _, _ => false
  end.

(** * The property, stated directly on the facts and the observed table *)

Definition opted_out (c : cdecl) : bool := contains ignore_decl_comment (c_comment c).

(** the constants the statement calls the members of type [id] in package [p] *)
Definition spec_members (p : gpkg) (id : string) : list cdecl :=
  filter (fun c => match c_type c with Some t => String.eqb t id && negb (opted_out c) | None => false end) (p_consts p).

Definition member_matches (c : cdecl) (m : emember) : bool :=
  String.eqb (c_name c) (em_name m) && cval_eqb (c_val c) (em_val m) && String.eqb (c_exact c) (em_exact m)
  && Bool.eqb (c_exported c) (em_exported m) && String.eqb (c_comment c) (em_comment m).

(** [ms] lists exactly the constants [cs], each once (names are unique in a package scope) *)
Definition same_members (cs : list cdecl) (ms : list emember) : bool :=
  Nat.eqb (List.length cs) (List.length ms)
  && forallb (fun c => existsb (member_matches c) ms) cs
  && forallb (fun m => existsb (fun c => member_matches c m) cs) ms.


Definition exported_values (ms : list emember) : list (option Z) :=
  map (fun m => int64_of (em_val m)) (filter em_exported ms).

Definition iota_sound (is_int : bool) (e : enum) : bool :=
  negb (en_is_iota e) ||
  (is_int && list_eqb (fun a b => match a, b with Some x, Some y => Z.eqb x y | _, _ => false end)
                      (exported_values (en_members e)) (map Some (zseq 0 (List.length (filter em_exported (en_members e)))))).

(** a plain iota block of non-negative constants: every member exported, integer-backed, and the
    values are 0..n-1 in some order *)
Definition plain_iota (is_int : bool) (cs : list cdecl) : bool :=
  is_int && forallb c_exported cs
  && forallb (fun v => existsb (fun c => match c_val c with CInt z => Z.eqb z v | _ => false end) cs) (zseq 0 (List.length cs))
  && forallb (fun c => match c_val c with CInt z => Z.leb 0 z && Z.ltb z (Z.of_nat (List.length cs)) | _ => false end) cs.

Definition user_pkgs (pr : prog) : list gpkg :=
  filter (fun p => existsb (String.eqb (p_path p)) (selected_pkgs pr)) (pr_pkgs pr).

(** the defined types of package [p] of which [p] itself declares typed constants ("its package declares ...": a
    constant of the type declared in another package is not a member) *)
Definition own_type (pr : prog) (p : gpkg) (id : string) : bool :=
  match find_type id (pr_types pr) with Some d => String.eqb (n_pkg d) (p_path p) | None => false end.

Definition all_const_type_ids (pr : prog) (p : gpkg) : list string :=
  filter (own_type pr p) (dedup_str (flat_map (fun c => match c_type c with Some t => [t] | None => [] end) (p_consts p))).

Definition check_pkg (pr : prog) (obs : list enum) (p : gpkg) : bool :=
  forallb (fun id =>
    let cs := spec_members p id in
    let is_int := type_is_integer (pr_types pr) id in
    match find_enum id obs, cs with
    | None, [] => true                                  (* not an enum: no member *)
    | Some e, _ :: _ =>
        same_members cs (en_members e) && iota_sound is_int e
        && (negb (plain_iota is_int cs) || en_is_iota e)
    | _, _ => false
    end) (all_const_type_ids pr p).

(** every observed enum belongs to a selected package's constants *)
Definition check_C10 (pr : prog) (obs : list enum) : bool :=
  forallb (check_pkg pr obs) (user_pkgs pr)
  && forallb (fun e => existsb (fun p => existsb (String.eqb (en_id e)) (all_const_type_ids pr p)) (user_pkgs pr)) obs.

Definition chk_prop (c : prog * obs_enums) : bool :=
  match snd c with
  | ObsOk l => check_C10 (fst c) l
  | ObsDiag => false   (* no well-typed constant declaration is unsupported *)
  | ObsCrash => false
  end.

Section Generic.
  Context {A : Type} (chk : A -> bool).
  Fixpoint mism_from (n : N) (cases : list A) : list N :=
    match cases with
    | [] => []
    | c :: r => if chk c then mism_from (N.succ n) r else n :: mism_from (N.succ n) r
    end.
End Generic.

Definition mismatches := mism_from chk_model 0%N.
Definition prop_failures := mism_from chk_prop 0%N.
