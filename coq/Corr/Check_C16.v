(** Correspondence for C16. *)
From Coq Require Import List String Ascii Bool Arith NArith.
From GM Require Corr.AnaCross.
From GM Require Import Base.Result Facts.GoFacts Facts.Ana Model.Enums Model.SqlTypes Model.Comments Corr.Check_C08.
Import ListNotations.
Local Open Scope string_scope.

Record c16_case := {
  c16_prog : prog; c16_enums : list enum; c16_ana : ana_obs;
  c16_constraints : option (list string);                          (* lines of the constraint section; None = the SQL generator refused *)
  c16_queries : option (list (string * list string * string));     (* custom query functions of the CRUD file *)
  c16_crud_refused_elsewhere : bool   (* the CRUD generator refused the file for a reason unrelated to the directives *)
}.

Definition q_eqb (x y : string * list string * string) : bool :=
  let '(n, vs, t) := x in let '(n', vs', t') := y in String.eqb n n' && strs_eqb vs vs' && String.eqb t t'.

Fixpoint qs_eqb (a b : list (string * list string * string)) : bool :=
  match a, b with
  | [], [] => true
  | x :: a', y :: b' => q_eqb x y && qs_eqb a' b'
  | _, _ => false
  end.

Definition chk (c : c16_case) : bool :=
  (match script_constraints (c16_prog c) (c16_enums c) (c16_ana c), c16_constraints c with
   | Ok ms, Some os => strs_eqb (map norm_ws ms) os
   | Diag _, None => true
   | _, _ => false
   end)
  &&
  (match script_queries (c16_prog c) (c16_enums c) (c16_ana c), c16_queries c with
   | Ok ms, Some os =>
       (* the functions are assembled by declaration ID (C19), not in source order: compared as sets of equal size *)
       let ms' := map (fun q => let '(n, vs, t) := q in (n, vs, norm_ws t)) ms in
       Nat.eqb (List.length ms') (List.length os)
       && forallb (fun m => existsb (q_eqb m) os) ms' && forallb (fun o => existsb (fun m => q_eqb m o) ms') os
   | Diag _, None => true
   | Ok _, None => c16_crud_refused_elsewhere c
   | _, _ => false
   end).

(** a $name$ token left in a query text *)
Fixpoint has_unreplaced (fuel : nat) (s : string) : bool :=
  match fuel with
  | O => false
  | S f =>
      match s with
      | EmptyString => false
      | String c r =>
          (Ascii.eqb c "$"%char &&
           (let '(w, r2) := take_word r in
            match w, r2 with
            | String _ _, String d _ => Ascii.eqb d "$"%char && negb (forallb is_digit (list_ascii_of_string w))
            | _, _ => false end))
          || has_unreplaced f r
      end
  end.

(** no internal directive and no placeholder survives in what is printed *)
Definition chk_prop (c : c16_case) : bool :=
  (match c16_constraints c with
   | Some os => forallb (fun l => negb (contains "_SELECT KEY" l) && negb (contains "#[" l)) os
   | None => true end)
  && (match c16_queries c with
      | Some qs => forallb (fun q => let '(_, vs, t) := q in negb (contains "#[" t) && negb (has_unreplaced (S (String.length t)) t)) qs
      | None => true end).

Section Generic.
  Context {A : Type} (f : A -> bool).
  Fixpoint mism_from (n : N) (cases : list A) : list N :=
    match cases with
    | [] => []
    | c :: r => if f c then mism_from (N.succ n) r else n :: mism_from (N.succ n) r
    end.
End Generic.
Definition mismatches := mism_from (fun c => AnaCross.ana_cross_e (c16_prog c) (c16_enums c) (c16_ana c) && chk c) 0%N.
Definition prop_failures := mism_from chk_prop 0%N.
