(** Correspondence and property check for C12. *)
From Coq Require Import List String ZArith Bool Arith NArith.
From GM Require Import Base.Result Base.StrOrd Facts.GoFacts Facts.Ana Model.Enums Model.Unions Model.Classify.
Import ListNotations.
Local Open Scope string_scope.

Record c12_case := { c12_prog : prog; c12_source : list gty; c12_ana : ana_obs }.

Fixpoint gtys_eqb (a b : list gty) : bool :=
  match a, b with
  | [], [] => true
  | x :: a', y :: b' => gty_eqb x y && gtys_eqb a' b'
  | _, _ => false
  end.

Definition obk_eqb (a b : option bkind) : bool :=
  match a, b with Some x, Some y => bkind_eqb x y | None, None => true | _, _ => false end.

Definition node_matches (sh : shape) (n : nrec) : bool :=
  akind_eqb (sh_kind sh) (nr_kind n) && gty_eqb (sh_self sh) (nr_self n) && Z.eqb (sh_len sh) (nr_len n)
  && obk_eqb (sh_bkind sh) (nr_bkind n) && Bool.eqb (sh_is_date sh) (nr_is_date n)
  && gtys_eqb (sh_children sh) (nr_children n).

Definition is_synthetic (t : gty) : bool := match t with GStructLit s => String.prefix time_pos_prefix s | _ => false end.

Definition mem_gty (t : gty) (l : list gty) : bool := existsb (gty_eqb t) l.

Definition model_enums (pr : prog) : list enum := match fetch_enums pr with Ok l => l | _ => [] end.

(** the fuel of theorem C12_terminates: one more than the bound computed from the program *)
Definition fuel_for (pr : prog) (source : list gty) : nat :=
  S (closure_bound pr (model_enums pr) (fetch_unions pr) source).

(** the premise of that theorem: the declarations of the file are positions of the universe *)
Definition source_in_universe (pr : prog) (source : list gty) : bool :=
  forallb (fun t => mem_gty t (universe pr (model_enums pr) (fetch_unions pr))) source.

(** the real analysis also analyses (and registers) the struct type of an embedded field before it merges its
    fields into the embedding struct: such a position is not linked from any node, but it is in Types *)
Definition embedded_struct_ids (pr : prog) : list gty :=
  flat_map (fun d => match n_under d with
                     | UStruct fs => flat_map (fun f => if f_embedded f then match f_type f with GNamed id => [GNamed id] | _ => [] end else []) fs
                     | _ => [] end) (pr_types pr).

Definition chk_model (c : c12_case) : bool :=
  let pr := c12_prog c in let a := c12_ana c in
  match analyse_closure pr (model_enums pr) (fetch_unions pr) (c12_source c) (fuel_for pr (c12_source c)), ao_outcome a with
  | Ok cl, OutOk =>
      (* every position of the model closure was reached, with the same node description *)
      forallb (fun ts => existsb (fun n => gty_eqb (nr_at n) (fst ts) && node_matches (snd ts) n) (ao_nodes a)) cl
      (* nothing else was reached *)
      && forallb (fun n => mem_gty (nr_at n) (map fst cl) || mem_gty (nr_at n) (embedded_struct_ids pr)) (ao_nodes a)
      (* every node at one position has the same description *)
      && forallb (fun n => match find (fun ts => gty_eqb (fst ts) (nr_at n)) cl with
                           | Some ts => node_matches (snd ts) n
                           | None => match classify pr (model_enums pr) (fetch_unions pr) (nr_at n) with Ok sh => node_matches sh n | _ => false end
                           end) (ao_nodes a)
      (* Types holds exactly the (real) positions of the closure *)
      && forallb (fun ts => is_synthetic (fst ts) || mem_gty (fst ts) (ao_types_keys a)) cl
      && forallb (fun k => mem_gty k (map fst cl) || mem_gty k (embedded_struct_ids pr)) (ao_types_keys a)
      && gtys_eqb (ao_source a) (c12_source c)
      && source_in_universe pr (c12_source c)
  | Diag _, OutDiag _ => true
  | Crash _, OutCrash _ => true
  | _, _ => false
  end.

(** * the property on the observation and the facts, without the model's closure *)

(** the node at a position describes the go/types type at that position *)
Definition faithful (pr : prog) (n : nrec) : bool :=
  match nr_at n, nr_kind n with
  | GBasic k, KdBasic => obk_eqb (nr_bkind n) (Some k) && gty_eqb (nr_self n) (GBasic k)
  | GPointer e, KdPointer => gty_eqb (nr_self n) (predef (GPointer e)) && gtys_eqb (nr_children n) [e]
  | GArray len e, KdArray => Z.eqb (nr_len n) len && gty_eqb (nr_self n) (predef (GArray len e)) && gtys_eqb (nr_children n) [e]
  | GSlice e, KdArray => Z.eqb (nr_len n) (-1) && gty_eqb (nr_self n) (predef (GSlice e)) && gtys_eqb (nr_children n) [e]
  | GMap k e, KdMap => gty_eqb (nr_self n) (predef (GMap k e)) && gtys_eqb (nr_children n) [k; e]
  | GNamed id, KdTime =>   (* time.Time itself: reported as predefined *)
      match find_type id (pr_types pr) with
      | Some d => n_is_time d && String.eqb (n_pkg d) "time" && gty_eqb (nr_self n) (time_self (nr_is_date n))
      | None => false
      end
  | GStructLit s, KdTime => String.prefix time_pos_prefix s && gty_eqb (nr_self n) (time_self (nr_is_date n))
  | GNamed id, (KdNamed | KdEnum | KdStruct | KdUnion) =>
      gty_eqb (nr_self n) (GNamed id) &&
      match find_type id (pr_types pr) with
      | Some d =>
          match nr_kind n, n_under d with
          | KdStruct, UStruct _ => negb (n_is_time d)
          | KdUnion, UInterface _ => true
          | KdEnum, UBasic _ => true
          | KdNamed, UStruct _ => n_is_time d
          | KdNamed, (UBasic _ | UArray _ _ | USlice _ | UMap _ _) => gtys_eqb (nr_children n) [under_gty d]
          | _, _ => false
          end
      | None => false
      end
  | _, _ => false
  end.

Definition chk_prop (c : c12_case) : bool :=
  let pr := c12_prog c in let a := c12_ana c in
  match ao_outcome a with
  | OutOk =>
      forallb (faithful pr) (ao_nodes a)
      (* closed: every linked position has a node, and every declaration of the file is a root *)
      && forallb (fun n => forallb (fun ch => existsb (fun m => gty_eqb (nr_at m) ch) (ao_nodes a)) (nr_children n)) (ao_nodes a)
      && forallb (fun s => existsb (fun m => gty_eqb (nr_at m) s) (ao_nodes a)) (c12_source c)
      (* present in the result *)
      && forallb (fun n => is_synthetic (nr_at n) || mem_gty (nr_at n) (ao_types_keys a)) (ao_nodes a)
      && gtys_eqb (ao_source a) (c12_source c)
  | OutDiag _ => true
  | OutCrash _ => false
  end.

Section Generic.
  Context {A : Type} (chk : A -> bool).
  Fixpoint mism_from (n : N) (cases : list A) : list N :=
    match cases with
    | [] => []
    | c :: r => if chk c then mism_from (N.succ n) r else n :: mism_from (N.succ n) r
    end.
End Generic.
Definition mismatches := mism_from chk_model 0%N.
Definition prop_failures := mism_from chk_prop 0%N.
