From Coq Require Import List String Bool Arith NArith.
From GM Require Import Model.Http.
Import ListNotations.
Local Open Scope string_scope.

Inductive http_obs := HttpOk (eps : list endpoint) | HttpDiag | HttpCrash.
Record c13_case := { c13_regs : list registration; c13_prefix : string; c13_obs : http_obs }.

Fixpoint strs_eqb (a b : list string) : bool :=
  match a, b with [], [] => true | x :: a', y :: b' => String.eqb x y && strs_eqb a' b' | _, _ => false end.
Fixpoint pairs_eqb (a b : list (string * string)) : bool :=
  match a, b with
  | [], [] => true
  | (x1, x2) :: a', (y1, y2) :: b' => String.eqb x1 y1 && String.eqb x2 y2 && pairs_eqb a' b'
  | _, _ => false
  end.

(** function literals are named after their position: only the prefix is compared *)
Definition name_eqb (kind model obs : string) : bool :=
  if String.eqb model "" then String.prefix "Anonymous" obs else String.eqb model obs.

Definition ep_eqb (m o : endpoint) : bool :=
  String.eqb (ep_url m) (ep_url o) && String.eqb (ep_method m) (ep_method o) && name_eqb "" (ep_name m) (ep_name o)
  && String.eqb (ep_input m) (ep_input o) && String.eqb (ep_return m) (ep_return o) && Bool.eqb (ep_blob m) (ep_blob o)
  && pairs_eqb (ep_query m) (ep_query o) && strs_eqb (ep_form_values m) (ep_form_values o) && String.eqb (ep_file m) (ep_file o)
  && String.eqb (fst (ep_json m)) (fst (ep_json o)) && String.eqb (snd (ep_json m)) (snd (ep_json o)).

Fixpoint eps_eqb (a b : list endpoint) : bool :=
  match a, b with [], [] => true | x :: a', y :: b' => ep_eqb x y && eps_eqb a' b' | _, _ => false end.

Definition chk (c : c13_case) : bool :=
  match c13_obs c with
  | HttpOk eps => eps_eqb (extract (c13_prefix c) (c13_regs c)) eps
  | _ => false
  end.

Fixpoint mism_from (n : N) (cases : list c13_case) : list N :=
  match cases with [] => [] | c :: r => if chk c then mism_from (N.succ n) r else n :: mism_from (N.succ n) r end.
Definition mismatches := mism_from 0%N.
