(** C15: the termination predicted by the model for each analysed type equals what the real generated
    function does in the test binary (returns / does not return within the time limit). *)
From Coq Require Import List String ZArith Bool Arith NArith.
From GM Require Import Base.Result Facts.GoFacts Facts.Ana Model.Enums Model.Fields Model.Classify Model.RandData.
Import ListNotations.

Record c15_case := { c15_ana : ana_obs; c15_runs : list (gty * bool) (* type, the real function returned *) }.

Definition chk (c : c15_case) : bool :=
  let nodes := ao_nodes (c15_ana c) in
  (* [returns] evaluated level by level (Properties/C15.v: C15_levels_compute_returns), under its two premises *)
  calls_closed nodes
  && forallb (fun tb => existsb (gty_eqb (fst tb)) (positions nodes)
                        && Bool.eqb (returns_level nodes (S (List.length nodes)) (fst tb)) (snd tb)) (c15_runs c).

(** the property itself: every function returned *)
Definition chk_prop (c : c15_case) : bool := forallb snd (c15_runs c).

Section Generic.
  Context {A : Type} (f : A -> bool).
  Fixpoint mism_from (n : N) (cases : list A) : list N :=
    match cases with [] => [] | c :: r => if f c then mism_from (N.succ n) r else n :: mism_from (N.succ n) r end.
End Generic.
Definition mismatches := mism_from chk 0%N.
Definition prop_failures := mism_from chk_prop 0%N.
