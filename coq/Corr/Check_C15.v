(** C15: the termination predicted by the model for each analysed type equals what the real generated
    function does in the test binary (returns / does not return within the time limit); and the model
    of the generated functions (Sem/RandSem.v), replayed on the calls to math/rand each real call made,
    rebuilds the very value the real function returned, which is well-formed. *)
From Coq Require Import List String ZArith Bool Arith NArith.
From GM Require Corr.AnaCross.
From GM Require Import Base.Result Facts.GoFacts Facts.Ana Model.Enums Model.Fields Model.Classify Model.RandData Sem.GoJson Sem.GoVal Sem.RandSem.
Import ListNotations.

Record c15_case := { c15_prog : prog; c15_enums : list enum; c15_ana : ana_obs;
                     c15_runs : list (gty * bool) (* type, the real function returned *);
                     c15_vals : list (gty * list rcall * value) (* type, recorded calls to math/rand, value returned *) }.

Definition depth_fuel (c : c15_case) : nat := S (S (List.length (ao_nodes (c15_ana c)))).

(** the generator model replayed on one real call: every recorded draw is consumed, in order, with the
    expected function and argument, and the value is the one the real function returned *)
Definition replay_ok (c : c15_case) (e : gty * list rcall * value) : bool :=
  let '(t, calls, v) := e in
  match gen (c15_prog c) (ao_nodes (c15_ana c)) (c15_enums c) (depth_fuel c) t calls with
  | Some (m, []) => agree m v
  | _ => false
  end.

(** which components are enum-typed is decided by the enum detection (C10): the node kinds observed must be those
    the model of the detection gives on the facts of the program *)
Definition enum_kinds_agree (c : c15_case) : bool :=
  let model_enums := match fetch_enums (c15_prog c) with Ok l => l | _ => [] end in
  forallb (fun n => match nr_at n with
                    | GNamed id => Bool.eqb (akind_eqb (nr_kind n) KdEnum) (existsb (fun e => String.eqb (en_id e) id) model_enums)
                    | _ => true end) (ao_nodes (c15_ana c)).

Definition chk (c : c15_case) : bool :=
  let nodes := ao_nodes (c15_ana c) in
  AnaCross.ana_cross_e (c15_prog c) (c15_enums c) (c15_ana c) && enum_kinds_agree c &&
  (* [returns] evaluated level by level (Properties/C15.v: C15_levels_compute_returns), under its two premises *)
  calls_closed nodes
  && forallb (fun tb => existsb (gty_eqb (fst tb)) (positions nodes)
                        && (Bool.eqb (returns_level nodes (S (List.length nodes)) (fst tb)) (snd tb)
                            (* a function that returns in theory after more calls than can be made within the time
                               limit of the harness may be observed not to return *)
                            || (returns_level nodes (S (List.length nodes)) (fst tb) && negb (snd tb)
                                && match max_calls nodes (S (List.length nodes)) (fst tb) with
                                   | Some c => N.leb 2000000 c | None => true end))) (c15_runs c)
  && forallb (replay_ok c) (c15_vals c).

(** the observed nodes, with the enum-typed positions being those the enum detection model (C10) finds in the facts *)
Definition model_enums (c : c15_case) : list enum := match fetch_enums (c15_prog c) with Ok l => l | _ => [] end.
Definition nodes_by_model (c : c15_case) : list nrec :=
  map (fun n => match nr_at n, nr_kind n with
                | GNamed id, (KdNamed | KdEnum) =>
                    if existsb (fun e => String.eqb (en_id e) id) (model_enums c)
                    then {| nr_at := nr_at n; nr_kind := KdEnum; nr_self := nr_self n; nr_len := nr_len n; nr_bkind := nr_bkind n;
                            nr_is_date := nr_is_date n; nr_children := nr_children n; nr_fields := nr_fields n; nr_comments := nr_comments n;
                            nr_implements := nr_implements n; nr_members := nr_members n; nr_in_types := nr_in_types n |}
                    else n
                | _, _ => n end) (ao_nodes (c15_ana c)).

(** the property itself: every function returned, and every value returned is well-formed - for the enums of the
    observed analysis and for those of the facts *)
Definition chk_prop (c : c15_case) : bool :=
  forallb snd (c15_runs c)
  && forallb (fun e : gty * list rcall * value => let '(t, _, v) := e in
                wf (c15_prog c) (ao_nodes (c15_ana c)) (c15_enums c) (depth_fuel c) t v
                && wf (c15_prog c) (nodes_by_model c) (model_enums c) (depth_fuel c) t v) (c15_vals c).

(** replay detail: the values on which the model and the real function disagree, with what the model rebuilt *)
Definition details (cases : list c15_case) : list (list (gty * option value * nat * bool)) :=
  map (fun c => flat_map (fun e : gty * list rcall * value =>
         let '(t, calls, v) := e in
         let wfv := wf (c15_prog c) (ao_nodes (c15_ana c)) (c15_enums c) (depth_fuel c) t v in
         if replay_ok c e && wfv then [] else
           match gen (c15_prog c) (ao_nodes (c15_ana c)) (c15_enums c) (depth_fuel c) t calls with
           | Some (m, rest) => [(t, Some m, List.length rest, wfv)]
           | None => [(t, None, 0, wfv)] end) (c15_vals c)) cases.

Section Generic.
  Context {A : Type} (f : A -> bool).
  Fixpoint mism_from (n : N) (cases : list A) : list N :=
    match cases with [] => [] | c :: r => if f c then mism_from (N.succ n) r else n :: mism_from (N.succ n) r end.
End Generic.
Definition mismatches := mism_from chk 0%N.
Definition prop_failures := mism_from chk_prop 0%N.
