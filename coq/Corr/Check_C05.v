(** Correspondence and executable property check for C05 (statement level). *)
From Coq Require Import List String Ascii ZArith Bool Arith NArith.
From GM Require Corr.AnaCross.
From GM Require Import Base.Result Facts.GoFacts Facts.Ana Model.Enums Model.Fields Model.Classify Model.SqlTypes Model.Names Model.Dart Model.Crud.
Import ListNotations.
Local Open Scope string_scope.

(** a column of a CREATE TABLE statement of the real script *)
Record schema_col := { sc_name : string; sc_serial : bool; sc_notnull : bool; sc_default : bool }.
Record schema_tbl := { st_name : string; st_cols : list schema_col; st_uniques : list (list string) (* UNIQUE / PRIMARY KEY groups of the script *) }.

Record c5_case := {
  c5_prog : prog; c5_enums : list enum; c5_ana : ana_obs;
  c5_tables : list tbl_obs;                 (* analysis/sql, through its exported API *)
  c5_funs : list gfun;                      (* read from the real generated Go file *)
  c5_scans : list (string * list string);   (* Go table type, destinations of scanOne<T> *)
  c5_schema : list schema_tbl;              (* read from the real SQL script *)
  c5_mode : nat    (* 0: every defect counts; 1: the defects of the recorded findings are left out; 2: only they count
                      (a file aimed at a recorded finding is evaluated twice, so that the finding hides nothing else) *)
}.

Fixpoint list_eqb {A} (f : A -> A -> bool) (a b : list A) : bool :=
  match a, b with [], [] => true | x :: a', y :: b' => f x y && list_eqb f a' b' | _, _ => false end.

Definition cond_eqb (a b : cond) : bool :=
  match a, b with
  | CEq c p, CEq c' p' | CAny c p, CAny c' p' | CNullEq c p, CNullEq c' p' => String.eqb c c' && Nat.eqb p p'
  | _, _ => false
  end.

Definition sstmt_eqb (a b : sstmt) : bool :=
  match a, b with
  | SInsert t c p r, SInsert t' c' p' r' => String.eqb t t' && list_eqb String.eqb c c' && list_eqb Nat.eqb p p' && list_eqb String.eqb r r'
  | SUpdate t c p w wp r, SUpdate t' c' p' w' wp' r' =>
      String.eqb t t' && list_eqb String.eqb c c' && list_eqb Nat.eqb p p' && String.eqb w w' && Nat.eqb wp wp' && list_eqb String.eqb r r'
  | SDelete t c r, SDelete t' c' r' => String.eqb t t' && list_eqb cond_eqb c c' && list_eqb String.eqb r r'
  | SSelect c t w, SSelect c' t' w' => list_eqb String.eqb c c' && String.eqb t t' && list_eqb cond_eqb w w'
  | SCopyIn t c, SCopyIn t' c' => String.eqb t t' && list_eqb String.eqb c c'
  | _, _ => false
  end.

Definition gfun_eqb (a b : gfun) : bool :=
  String.eqb (gf_name a) (gf_name b) && sstmt_eqb (gf_stmt a) (gf_stmt b) && list_eqb String.eqb (gf_args a) (gf_args b) && String.eqb (gf_scan a) (gf_scan b).

(** * model side *)
Definition model_funs (c : c5_case) : list gfun := flat_map crud_funs (c5_tables c).

(** the observed table facts are the ones the analysis-level models compute (C08) *)
Definition table_agrees (c : c5_case) (t : tbl_obs) : bool :=
  existsb (fun s =>
    match find_node s (ao_nodes (c5_ana c)), s with
    | Some n, GNamed id =>
        String.eqb (local_name_of (c5_prog c) id) (to_go t)
        && akind_eqb (nr_kind n) KdStruct
        && let cs := table_columns n in
           list_eqb String.eqb (map af_name cs) (map co_field (to_cols t))
           && list_eqb Bool.eqb (map is_guard cs) (map co_guard (to_cols t))
           && match primary_index cs 0, to_primary t with Some a, Some b => Nat.eqb a b | None, None => true | _, _ => false end
           && match foreign_keys (c5_prog c) (ao_nodes (c5_ana c)) (to_go t) cs with
              | Ok ks => list_eqb String.eqb (map (fun k => fst (fst k)) ks) (map fk_field (to_fks t))
              | _ => false end
    | _, _ => false
    end) (ao_source (c5_ana c)).

Definition chk_model (c : c5_case) : bool :=
  let mf := model_funs c in
  forallb (table_agrees c) (c5_tables c)
  && forallb (fun f => existsb (gfun_eqb f) mf) (c5_funs c)
  && forallb (fun f => existsb (gfun_eqb f) (c5_funs c)) mf
  && forallb (fun t => match find (fun s => String.eqb (fst s) (to_go t)) (c5_scans c) with
                       | Some s => list_eqb String.eqb (snd s) (scan_fields t) | None => false end) (c5_tables c).

(** * the property, statement by statement, on what was read from the generated files *)
Definition stmt_table (s : sstmt) : string :=
  match s with SInsert t _ _ _ | SUpdate t _ _ _ _ _ | SDelete t _ _ | SSelect _ t _ | SCopyIn t _ => t end.

Definition stmt_cols (s : sstmt) : list string :=
  match s with
  | SInsert _ c _ r => c ++ r
  | SUpdate _ c _ w _ r => c ++ w :: r
  | SDelete _ w r => map cond_col w ++ r
  | SSelect c _ w => c ++ map cond_col w
  | SCopyIn _ c => c
  end.

Definition stmt_result (s : sstmt) : list string :=
  match s with SInsert _ _ _ r | SUpdate _ _ _ _ _ r | SDelete _ _ r => r | SSelect c _ _ => c | SCopyIn _ _ => [] end.

Definition mem_ci (x : string) (l : list string) : bool := existsb (fun y => String.eqb (lower x) (lower y)) l.

(** the i-th written column receives item.<the field of that column> *)
Definition args_aligned (cols : list string) (phs : list nat) (args : list string) : bool :=
  Nat.eqb (List.length cols) (List.length phs)
  && forallb (fun cp => match nth_error args (snd cp - 1) with
                        | Some a => match a with
                                    | String "i" (String "t" (String "e" (String "m" (String "." f)))) => String.eqb (lower f) (lower (fst cp))
                                    | _ => false end
                        | None => false end) (combine cols phs).

Definition scan_target (c : c5_case) (scan : string) : option (list string) :=
  match find (fun s => String.eqb ("Scan" ++ fst s) scan || String.eqb ("Scan" ++ fst s ++ "s") scan) (c5_scans c) with
  | Some s => Some (snd s)
  | None => if String.prefix "Scan" scan && has_suffix "Array" scan then Some ["id"] else None
  end.

Inductive defect :=
| DNoTable | DUnknownColumn | DPlaceholders | DArgsNotAligned | DScanNotAligned | DColumnWithoutValue
| DEmptyColumnList | DEmptyWhere | DSingleColumnRow | DDuplicateColumn | DSingleRowWithoutUnique.

Fixpoint nodup_ci (l : list string) : bool :=
  match l with [] => true | x :: r => negb (mem_ci x r) && nodup_ci r end.

Definition stmt_defects (c : c5_case) (f : gfun) : list defect :=
  let s := gf_stmt f in
  match find (fun t => String.eqb (st_name t) (stmt_table s)) (c5_schema c) with
  | None => [DNoTable]
  | Some tb =>
      let names := map sc_name (st_cols tb) in
      (if forallb (fun x => mem_ci x names) (stmt_cols s) then [] else [DUnknownColumn])
      ++ (if placeholders_ok (stmt_phs s) (List.length (gf_args f)) then [] else [DPlaceholders])
      ++ (match s with
          | SInsert _ cs ps _ | SUpdate _ cs ps _ _ _ => if args_aligned cs ps (gf_args f) then [] else [DArgsNotAligned]
          | SCopyIn _ cs => if args_aligned cs (seq 1 (List.length cs)) (gf_args f) then [] else [DArgsNotAligned]
          | _ => [] end)
      ++ (match s with
          | SInsert _ cs _ _ | SCopyIn _ cs =>
              (* a column which is not written needs a value: serial, default or nullable *)
              if forallb (fun col => mem_ci (sc_name col) cs || sc_serial col || sc_default col || negb (sc_notnull col)) (st_cols tb) then [] else [DColumnWithoutValue]
          | _ => [] end)
      ++ (match s with
          | SInsert _ cs _ _ | SUpdate _ cs _ _ _ _ | SCopyIn _ cs => (if nodup_ci cs then [] else [DDuplicateColumn]) ++ (match cs with [] => [DEmptyColumnList] | _ => [] end)
          | _ => [] end)
      ++ (match s with SUpdate _ [_] _ _ _ _ => [DSingleColumnRow] | _ => [] end)
      ++ (match s with SDelete _ [] _ => [DEmptyWhere] | _ => [] end)
      ++ (* a function scanning one row (QueryRow) selects or deletes by columns the schema declares unique *)
         (match (match s with SSelect _ _ w | SDelete _ w _ => w | _ => [] end) with
          | [] => []
          | w =>
              if existsb (fun sc => String.eqb ("Scan" ++ fst sc) (gf_scan f)) (c5_scans c)
              then (if existsb (fun u => forallb (fun x => mem_ci x (map cond_col w)) u)
                               (st_uniques tb ++ map (fun col => [sc_name col]) (filter sc_serial (st_cols tb)))
                    then [] else [DSingleRowWithoutUnique])
              else []
          end)
      ++ (match stmt_result s, gf_scan f with
          | [], "" => []
          | r, scan => match scan_target c scan with
                       | Some fields => if list_eqb (fun a b => String.eqb (lower a) (lower b)) r fields then [] else [DScanNotAligned]
                       | None => [DScanNotAligned] end
          end)
  end.

(** the premises of the theorems of Properties/C05.v, for every table of the file *)
Definition table_premises (t : tbl_obs) : bool :=
  nodup_ci (cols t)
  && match to_primary t with
     | Some _ => match primary_in_crud t with
                 | Some p => match nth_error (cols t) p with Some c => String.eqb c "id" | None => false end
                 | None => false end
     | None => true
     end.

Definition recorded (d : defect) : bool := match d with DSingleColumnRow | DEmptyWhere => true | _ => false end.

Definition counted (c : c5_case) (d : defect) : bool :=
  match c5_mode c with 0 => true | 1 => negb (recorded d) | _ => recorded d end.

Definition chk_prop (c : c5_case) : bool :=
  (Nat.eqb (c5_mode c) 2 || forallb table_premises (c5_tables c))
  && forallb (fun f => match filter (counted c) (stmt_defects c f) with [] => true | _ => false end) (c5_funs c).

Section Generic.
  Context {A : Type} (f : A -> bool).
  Fixpoint mism_from (n : N) (cases : list A) : list N :=
    match cases with [] => [] | c :: r => if f c then mism_from (N.succ n) r else n :: mism_from (N.succ n) r end.
End Generic.
Definition mismatches := mism_from (fun c => AnaCross.ana_cross_e (c5_prog c) (c5_enums c) (c5_ana c) && chk_model c) 0%N.
Definition prop_failures := mism_from chk_prop 0%N.

(** for the replays: the functions the model and the file disagree on, and the defective statements *)
Definition details (cases : list c5_case) : list (list string * list string * list (string * list defect)) :=
  map (fun c => (map gf_name (filter (fun f => negb (existsb (gfun_eqb f) (model_funs c))) (c5_funs c)),
                 map gf_name (filter (fun f => negb (existsb (gfun_eqb f) (c5_funs c))) (model_funs c)),
                 flat_map (fun f => match stmt_defects c f with [] => [] | d => [(gf_name f, d)] end) (c5_funs c))) cases.
