(** Correspondence for C01: identifiers read back from the generated Go files. *)
From Coq Require Import List String Bool Arith NArith.
From GM Require Import Base.Result Facts.GoFacts Model.Enums Model.Names Model.GoScope.
Import ListNotations.
Local Open Scope string_scope.

Record c01_case := {
  c1_prog : prog;
  c1_enums : list enum;                          (* hook table *)
  c1_choices : list (string * list string);      (* randdata: enum id -> elements of its choix literal *)
  c1_receivers : list (string * string);         (* (generator, receiver type local name) of every method declared *)
  c1_declared : list (string * list string)      (* generator -> top-level identifiers declared by the file *)
}.

Fixpoint strs_eqb (a b : list string) : bool :=
  match a, b with
  | [], [] => true
  | x :: a', y :: b' => String.eqb x y && strs_eqb a' b'
  | _, _ => false
  end.

Definition root_pkg (pr : prog) : option gpkg := find_pkg (pr_root pr) (pr_pkgs pr).

Definition chk_model (c : c01_case) : bool :=
  forallb (fun ec => match find (fun e => String.eqb (en_id e) (fst ec)) (c1_enums c) with
                     | Some e => strs_eqb (snd ec) (enum_choices (en_members e))
                     | None => false end) (c1_choices c).

Definition chk_prop (c : c01_case) : bool :=
  forallb (fun ec => valid_expr_list (snd ec)) (c1_choices c)
  && forallb (fun gr =>
       (* a type declared by the generated file itself, or a defined non-interface type of the target package *)
       existsb (fun gd => String.eqb (fst gd) (fst gr) && existsb (String.eqb (snd gr)) (snd gd)) (c1_declared c)
       || receiver_ok (pr_types (c1_prog c)) (pr_root (c1_prog c)) (pr_root (c1_prog c) ++ "." ++ snd gr)) (c1_receivers c)
  && forallb (fun gd => match root_pkg (c1_prog c) with
                        | Some p => no_redeclaration (p_scope p) (snd gd)
                        | None => false end) (c1_declared c).

Section Generic.
  Context {A : Type} (chk : A -> bool).
  Fixpoint mism_from (n : N) (cases : list A) : list N :=
    match cases with
    | [] => []
    | c :: r => if chk c then mism_from (N.succ n) r else n :: mism_from (N.succ n) r
    end.
End Generic.
Definition mismatches := mism_from chk_model 0%N.
Definition prop_failures := mism_from chk_prop 0%N.
