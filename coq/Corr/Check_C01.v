(** Correspondence for C01: identifiers read back from the generated Go files. *)
From Coq Require Import List String Ascii Bool Arith NArith.
From GM Require Import Base.Result Base.StrOrd Facts.GoFacts Facts.Ana Model.Enums Model.Names Model.GoScope Model.GoUnionsGen Model.RandGen.
Import ListNotations.
Local Open Scope string_scope.

(** the gounions declarations read back one by one (harness/c01g.go) *)
Record gobs := {
  go_id : string; go_types : list string; go_consts : list string;
  go_methods : list (string * string);
  go_wrappers : list string                     (* wrapper types mentioned, sorted, without repetition *)
}.
Inductive gu_obs := GuOk (l : list gobs) | GuDiag | GuCrash | GuSkip.

(** the randdata declarations (harness/c01g.go): the function each one defines and those its text calls *)
Record robs := { ro_id : string; ro_defines : bool; ro_calls : list string }.
Inductive rd_obs := RdOk (l : list robs) | RdDiag | RdCrash | RdSkip.

Record c01_case := {
  c1_ana : ana_obs;
  c1_gu : gu_obs;
  c1_rd : rd_obs;
  c1_prog : prog;
  c1_enums : list enum;                          (* hook table *)
  c1_choices : list (string * list string);      (* randdata: enum id -> elements of its choix literal *)
  c1_receivers : list (string * string);         (* (generator, receiver type local name) of every method declared *)
  c1_declared : list (string * list string)      (* generator -> top-level identifiers declared by the file *)
}.

Definition root_pkg (pr : prog) : option gpkg := find_pkg (pr_root pr) (pr_pkgs pr).

Fixpoint strs_eqb (a b : list string) : bool :=
  match a, b with
  | [], [] => true
  | x :: a', y :: b' => String.eqb x y && strs_eqb a' b'
  | _, _ => false
  end.

Fixpoint pairs_eqb (a b : list (string * string)) : bool :=
  match a, b with
  | [], [] => true
  | (x1, x2) :: a', (y1, y2) :: b' => String.eqb x1 y1 && String.eqb x2 y2 && pairs_eqb a' b'
  | _, _ => false
  end.

Definition project (d : gdecl) : gobs :=
  {| go_id := gd_id d; go_types := gd_types d; go_consts := gd_consts d; go_methods := gd_methods d;
     go_wrappers := sort_str (dedup_str (map wr_text (gd_wrappers d))) |}.

Definition gobs_eqb (a b : gobs) : bool :=
  String.eqb (go_id a) (go_id b) && strs_eqb (go_types a) (go_types b) && strs_eqb (go_consts a) (go_consts b)
  && pairs_eqb (go_methods a) (go_methods b) && strs_eqb (go_wrappers a) (go_wrappers b).

Fixpoint gobs_list_eqb (a b : list gobs) : bool :=
  match a, b with
  | [], [] => true
  | x :: a', y :: b' => gobs_eqb x y && gobs_list_eqb a' b'
  | _, _ => false
  end.

Definition gu_model (c : c01_case) : result (list gdecl) :=
  gounions (c1_prog c) (ao_nodes (c1_ana c)) true (ao_source (c1_ana c)).

(** the traversal model reproduces the declaration list of the real generator, refusals included *)
Definition gu_model_ok (c : c01_case) : bool :=
  match c1_gu c, gu_model c with
  | GuSkip, _ => true
  | GuOk l, Ok ds => gobs_list_eqb (map project ds) l
  | GuDiag, Diag _ => true
  | GuCrash, Crash _ => true
  | _, _ => false
  end.

Fixpoint has_dot (s : string) : bool :=
  match s with EmptyString => false | String c r => Ascii.eqb c "."%char || has_dot r end.

(** the conclusion of the closure theorem on the observed list, under its premise: every wrapper mentioned
    without a package is a type declared by the list *)
Definition gu_prop_ok (c : c01_case) : bool :=
  match c1_gu c with
  | GuOk l =>
      negb (structs_with_unions_local (c1_prog c) (ao_nodes (c1_ana c)))
      || forallb (fun d => forallb (fun w => has_dot w || existsb (String.eqb w) (flat_map go_types l)) (go_wrappers d)) l
  | _ => true
  end.

Definition rd_model (c : c01_case) : result (list rdecl) :=
  randdata (c1_prog c) (ao_nodes (c1_ana c)) (c1_enums c) 64 (ao_source (c1_ana c)).

Fixpoint robs_list_eqb (a : list rdecl) (b : list robs) : bool :=
  match a, b with
  | [], [] => true
  | x :: a', y :: b' => String.eqb (rd_id x) (ro_id y) && ro_defines y && strs_eqb (rd_calls x) (ro_calls y) && robs_list_eqb a' b'
  | _, _ => false
  end.

(** the traversal model reproduces the declaration list of randdata: same functions, same order, same calls *)
Definition rd_model_ok (c : c01_case) : bool :=
  match c1_rd c, rd_model c with
  | RdSkip, _ => true
  | RdOk l, Ok ds => robs_list_eqb ds l
  | RdDiag, Diag _ => true
  | RdCrash, Crash _ => true
  | _, _ => false
  end.

(** the conclusion of the closure theorem on the observed list: every function called is defined by the list *)
Definition rd_prop_ok (c : c01_case) : bool :=
  match c1_rd c with
  | RdOk l => forallb (fun d => forallb (fun f => existsb (fun d' => String.eqb f (ro_id d') && ro_defines d') l) (ro_calls d)) l
  | _ => true
  end.

Definition chk_model0 (c : c01_case) : bool :=
  forallb (fun ec => match find (fun e => String.eqb (en_id e) (fst ec)) (c1_enums c) with
                     | Some e => strs_eqb (snd ec) (enum_choices (en_members e))
                     | None => false end) (c1_choices c).

Definition chk_model (c : c01_case) : bool := chk_model0 c && gu_model_ok c && rd_model_ok c.

Definition chk_prop0 (c : c01_case) : bool :=
  forallb (fun ec => valid_expr_list (snd ec)) (c1_choices c)
  && forallb (fun gr =>
       (* a type declared by the generated file itself, or a defined non-interface type of the target package *)
       existsb (fun gd => String.eqb (fst gd) (fst gr) && existsb (String.eqb (snd gr)) (snd gd)) (c1_declared c)
       || receiver_ok (pr_types (c1_prog c)) (pr_root (c1_prog c)) (pr_root (c1_prog c) ++ "." ++ snd gr)) (c1_receivers c)
  && forallb (fun gd => match root_pkg (c1_prog c) with
                        | Some p => no_redeclaration (p_scope p) (snd gd)
                        | None => false end) (c1_declared c).

Definition chk_prop (c : c01_case) : bool := chk_prop0 c && gu_prop_ok c && rd_prop_ok c.

Section Generic.
  Context {A : Type} (chk : A -> bool).
  Fixpoint mism_from (n : N) (cases : list A) : list N :=
    match cases with
    | [] => []
    | c :: r => if chk c then mism_from (N.succ n) r else n :: mism_from (N.succ n) r
    end.
End Generic.
Definition mismatches := mism_from chk_model 0%N.
Definition prop_failures := mism_from chk_prop 0%N.
