From Coq Require Import List String Ascii ZArith Bool Arith NArith.
From GM Require Corr.AnaCross.
From GM Require Import Base.Result Facts.GoFacts Facts.Ana Model.Enums Model.Fields Model.Classify Model.SqlTypes Sem.GoJson Sem.TsSem Sem.PgSem Sem.PgSim Sem.TsSim Model.TsTypes Model.TsGen Base.StrOrd.
Import ListNotations.
Local Open Scope string_scope.

(** the declaration list of the real TypeScript generator, read declaration by declaration *)
Record tobs := { to_id : string; to_decls : list (string * tdecl) }.
Inductive ts_obs := TsOk (l : list tobs) | TsDiag | TsCrash | TsSkip.

Record c3_case := {
  c3_tsl : ts_obs;
  c3_prog : prog; c3_enums : list enum; c3_ana : ana_obs;
  c3_env : tenv;                       (* parsed from the real TypeScript file *)
  c3_docs : list (gty * json)          (* documents written by the real Go encoder *)
}.

Definition tdecl_eqb (a b : tdecl) : bool :=
  match a, b with
  | TDAlias x, TDAlias y | TDBrand x, TDBrand y => texpr_eqb x y
  | TDTuple n x, TDTuple m y => Nat.eqb n m && (Nat.eqb n 0 || texpr_eqb x y)   (* the element type of an empty tuple is not printed *)
  | TDEnum x, TDEnum y => list_eqb json_eqb x y
  | TDInterface x, TDInterface y | TDUnion x, TDUnion y => list_eqb (fun p q => String.eqb (fst p) (fst q) && texpr_eqb (snd p) (snd q)) x y
  | TDEmptyRecord, TDEmptyRecord => true
  | _, _ => false
  end.

(** the declarations the model emits for the nodes of the analysis, one per position *)
Definition model_decls (c : c3_case) : list (string * tdecl) :=
  flat_map (fun n => match ts_decl (c3_prog c) (ao_nodes (c3_ana c)) (c3_enums c) (nr_at n) with
                     | Ok (Some d) => [d] | _ => [] end) (ao_nodes (c3_ana c)).

(** every parsed declaration is the model's declaration of some node (same name, same content); names
    carried by nodes of two packages are skipped (the text cannot tell them apart) *)
Definition chk_model (c : c3_case) : bool :=
  let md := model_decls c in
  forallb (fun d =>
    let same_name := filter (fun m => String.eqb (fst m) (fst d)) md in
    match same_name with
    | [] => String.eqb (fst d) "Int"   (* intDecl may come from a brand of a named int *)
    | m :: r => negb (forallb (fun m' => tdecl_eqb (snd m) (snd m')) r) || tdecl_eqb (snd m) (snd d)
    end) (c3_env c)
  (* and every source declaration of the file is declared *)
  && forallb (fun s => match ts_decl (c3_prog c) (ao_nodes (c3_ana c)) (c3_enums c) s with
                       | Ok (Some d) => negb (Nat.eqb (count_decl (fst d) (c3_env c)) 0)
                       | _ => true end) (ao_source (c3_ana c)).

(** the premise of the global theorem of Properties/C03.v, for every type a document was written for: the pairs
    (TypeScript expression, wire shape) reached from the type form a closed table of agreeing pairs *)
Fixpoint dedup_gty (l : list gty) : list gty :=
  match l with [] => [] | x :: r => if existsb (gty_eqb x) r then dedup_gty r else x :: dedup_gty r end.

Definition type_table (c : c3_case) (t : gty) : option (ttable * texpr * jshape) :=
  match ts_ref (c3_prog c) (ao_nodes (c3_ana c)) 12 t with
  | Ok te => let sh := shape_of (c3_prog c) (ao_nodes (c3_ana c)) (c3_enums c) 12 false t in
             Some (tclose (c3_env c) (env_of (c3_prog c) (ao_nodes (c3_ana c)) (c3_enums c)) 5000 [(te, sh)] [], te, sh)
  | _ => None
  end.

Definition sim_types (c : c3_case) : bool :=
  forallb (fun t => match type_table c t with
                    | Some (tb, te, sh) => tsim_ok (c3_env c) (env_of (c3_prog c) (ao_nodes (c3_ana c)) (c3_enums c)) tb && tmemb tb te sh
                    | None => false end) (dedup_gty (map fst (c3_docs c))).

(** the property on the parsed file and the real documents *)
Definition chk_prop (c : c3_case) : bool :=
  well_formed (c3_env c) && sim_types c
  && forallb (fun tj => match ts_ref (c3_prog c) (ao_nodes (c3_ana c)) 12 (fst tj) with
                        | Ok t => inhabitsb (c3_env c) (2 * json_depth (snd tj) + 8) t (snd tj)
                        | _ => false end) (c3_docs c).

(** * The traversal model (Model/TsGen.v) against the list of the real generator *)
Fixpoint trefs (t : texpr) : list string :=
  match t with
  | TRef n => [n]
  | TNullable t' | TArr t' => trefs t'
  | TRecord k v => (trefs k ++ trefs v)%list
  | _ => []
  end.

Definition decl_refs (d : tdecl) : list string :=
  match d with
  | TDAlias t | TDTuple _ t => trefs t
  | TDBrand _ | TDEnum _ | TDEmptyRecord => []
  | TDInterface fields => flat_map (fun f => trefs (snd f)) fields
  | TDUnion alts => flat_map (fun a => trefs (snd a)) alts
  end.

Definition canon_strs (l : list string) : list string := Base.StrOrd.sort_str (Model.Enums.dedup_str l).

Fixpoint strs_eqb (a b : list string) : bool :=
  match a, b with
  | [], [] => true
  | x :: a', y :: b' => String.eqb x y && strs_eqb a' b'
  | _, _ => false
  end.

Definition ts_model (c : c3_case) : result (list tsdecl) :=
  ts_types (c3_prog c) (ao_nodes (c3_ana c)) 16 (ao_source (c3_ana c)).

Fixpoint tobs_list_eqb (a : list tsdecl) (b : list tobs) : bool :=
  match a, b with
  | [], [] => true
  | x :: a', y :: b' =>
      String.eqb (td_id x) (to_id y)
      && strs_eqb [td_name x] (map fst (to_decls y))
      && strs_eqb (canon_strs (filter (fun m => negb (ts_builtin m)) (td_mentions x))) (canon_strs (flat_map (fun d => decl_refs (snd d)) (to_decls y)))
      && tobs_list_eqb a' b'
  | _, _ => false
  end.

(** same declarations, same order, same identifiers, same names mentioned; refusals included *)
Definition ts_model_ok (c : c3_case) : bool :=
  match c3_tsl c, ts_model c with
  | TsSkip, _ => true
  | TsOk l, Ok ds => tobs_list_eqb ds l
  | TsDiag, Diag _ => true
  | TsCrash, Crash _ => true
  | _, _ => false
  end.

(** the conclusion of the closure theorem on the observed list, under its premises *)
Definition ts_prop_ok (c : c3_case) : bool :=
  match c3_tsl c with
  | TsOk l =>
      negb (shapes_ok (ao_nodes (c3_ana c)) && no_self_alias (c3_prog c) (ao_nodes (c3_ana c)) 16)
      || let names := flat_map (fun o => map fst (to_decls o)) l in
         forallb (fun o => forallb (fun m => existsb (String.eqb m) names) (flat_map (fun d => decl_refs (snd d)) (to_decls o))) l
  | _ => true
  end.

Section Generic.
  Context {A : Type} (f : A -> bool).
  Fixpoint mism_from (n : N) (cases : list A) : list N :=
    match cases with [] => [] | c :: r => if f c then mism_from (N.succ n) r else n :: mism_from (N.succ n) r end.
End Generic.
Definition mismatches := mism_from (fun c => AnaCross.ana_cross_e (c3_prog c) (c3_enums c) (c3_ana c) && chk_model c && ts_model_ok c) 0%N.
Definition prop_failures := mism_from (fun c => chk_prop c && ts_prop_ok c) 0%N.
