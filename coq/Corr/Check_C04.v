(** Correspondence and executable property check for C04. *)
From Coq Require Import List String Ascii ZArith Bool Arith NArith.
From GM Require Corr.AnaCross.
From GM Require Import Base.Result Facts.GoFacts Facts.Ana Model.Enums Model.Fields Model.Classify Model.SqlTypes Sem.GoJson Sem.PgSem Sem.Corrupt Sem.PgSim Model.SqlJson.
Import ListNotations.
Local Open Scope string_scope.

Record c4_case := {
  c4_prog : prog; c4_enums : list enum; c4_ana : ana_obs;
  c4_funs : venv;                                  (* parsed from the real script, in script order *)
  c4_checks : list (string * string * string);     (* parsed ALTER TABLE ... CHECK lines: table, column, function *)
  c4_docs : list (string * string * json)          (* table, column, document written by the real Go encoder for the column *)
}.

Definition pair_eqb (p q : string * string) : bool := String.eqb (fst p) (fst q) && String.eqb (snd p) (snd q).

Definition vfun_eqb (a b : vfun) : bool :=
  match a, b with
  | VBasic x, VBasic y => String.eqb x y
  | VEnum k i v, VEnum k' i' v' => String.eqb k k' && Bool.eqb i i' && list_eqb json_eqb v v'
  | VArray g z l e, VArray g' z' l' e' =>
      Bool.eqb g g' && Bool.eqb z z' && String.eqb e e'
      && match l, l' with None, None => true | Some n, Some m => Nat.eqb n m | _, _ => false end
  | VMap e, VMap e' => String.eqb e e'
  | VStruct k c, VStruct k' c' =>
      match k, k' with None, None => true | Some x, Some y => list_eqb String.eqb x y | _, _ => false end
      && list_eqb pair_eqb c c'
  | VUnion s c, VUnion s' c' => Bool.eqb s s' && list_eqb pair_eqb c c'
  | _, _ => false
  end.

Definition triple_eqb (p q : string * string * string) : bool :=
  String.eqb (fst (fst p)) (fst (fst q)) && String.eqb (snd (fst p)) (snd (fst q)) && String.eqb (snd p) (snd q).

(** * model side *)
Definition model_columns (c : c4_case) : list (string * string * gty * gty) :=
  match json_columns (c4_prog c) (c4_enums c) (c4_ana c) with Ok l => l | _ => [] end.

Definition model_funs (c : c4_case) : list (string * vfun) :=
  flat_map (fun col => let '(_, _, t, _) := col in
     flat_map (fun p => match validator_of (c4_prog c) (ao_nodes (c4_ana c)) (c4_enums c) p with
                        | Ok (Some d) => [d] | _ => [] end) (reach (ao_nodes (c4_ana c)) 14 t)) (model_columns c).

Definition model_checks (c : c4_case) : list (string * string * string) :=
  flat_map (fun col => let '(tb, cn, t, _) := col in
     match fn_name (c4_prog c) (ao_nodes (c4_ana c)) t with Ok f => [(tb, cn, f)] | _ => [] end) (model_columns c).

Definition chk_model (c : c4_case) : bool :=
  let mf := model_funs c in
  (* the CHECK lines are the model's *)
  forallb (fun k => existsb (triple_eqb k) (c4_checks c)) (model_checks c)
  && forallb (fun k => existsb (triple_eqb k) (model_checks c)) (c4_checks c)
  (* every function of the script is the model's function of that name, and every model function is in the script *)
  && forallb (fun d => match filter (fun m => String.eqb (fst m) (fst d)) mf with
                       | [] => false
                       | m :: _ => vfun_eqb (snd m) (snd d) end) (c4_funs c)
  && forallb (fun m => match lookup_fun (fst m) (c4_funs c) with Some _ => true | None => false end) mf.

(** * the property, on the parsed script and the real documents *)

Definition defined (env : venv) (f : string) : bool := match lookup_fun f env with Some _ => true | None => false end.

(** every validation function called by a body or a CHECK constraint is defined in the script, once *)
Definition closedb (c : c4_case) : bool :=
  forallb (fun d => forallb (defined (c4_funs c)) (callees (snd d))) (c4_funs c)
  && forallb (fun k => defined (c4_funs c) (snd k)) (c4_checks c).

(** one function name, one body: two shapes sharing a name would make one of them unvalidated *)
Definition no_collision (c : c4_case) : bool :=
  let mf := model_funs c in
  forallb (fun m => forallb (fun m' => negb (String.eqb (fst m) (fst m')) || vfun_eqb (snd m) (snd m')) mf) mf.

Definition shape_env (c : c4_case) : jenv := env_of (c4_prog c) (ao_nodes (c4_ana c)) (c4_enums c).

Definition column_shape (c : c4_case) (tb cn : string) : option jshape :=
  match find (fun col => let '(tb', cn', _, _) := col in String.eqb tb tb' && String.eqb cn cn') (model_columns c) with
  | Some (_, _, _, goty) => Some (shape_of (c4_prog c) (ao_nodes (c4_ana c)) (c4_enums c) 12 false goty)
  | None => None
  end.

Definition column_fun (c : c4_case) (tb cn : string) : option string :=
  match find (fun k => String.eqb (fst (fst k)) tb && String.eqb (snd (fst k)) cn) (c4_checks c) with
  | Some k => Some (snd k) | None => None end.

Definition is_false (t : tri) : bool := match t with TFalse => true | _ => false end.

(** what goes wrong for one document: 0 = admitted and every corruption refused *)
Inductive verdict := VOk | VNoCheck | VRefused (t : tri) | VNotConforming | VCorruptionAdmitted (cl : cclass) (doc : json) (t : tri).

Definition judge (c : c4_case) (d : string * string * json) : verdict :=
  let '(tb, cn, j) := d in
  match column_fun c tb cn, column_shape c tb cn with
  | Some fn, Some sh =>
      let fuel := 2 * json_depth j + 8 in
      if negb (conformsb (shape_env c) fuel sh j) then VNotConforming
      else
        let r := eval (c4_funs c) fuel fn (Some j) in
        if negb (check_passes r) then VRefused r
        else match find (fun cj => negb (is_false (eval (c4_funs c) (fuel + 4) fn (Some (snd cj))))) (corruptions (shape_env c) fuel sh j) with
             | Some cj => VCorruptionAdmitted (fst cj) (snd cj) (eval (c4_funs c) (fuel + 4) fn (Some (snd cj)))
             | None => VOk
             end
  | _, _ => VNoCheck
  end.

Definition verdict_ok (v : verdict) : bool := match v with VOk => true | _ => false end.

(** the hypothesis of the theorems of Properties/C04.v, for every jsonb column: the pairs (validator, wire shape)
    reached from the CHECK of the column form a closed table of agreeing pairs *)
Definition column_table (c : c4_case) (k : string * string * string) : option (table * string * jshape) :=
  let '(tb, cn, fn) := k in
  match column_shape c tb cn with
  | Some sh => Some (build_table (c4_funs c) (shape_env c) 14 fn sh, fn, sh)
  | None => None
  end.

Definition sim_columns (c : c4_case) : bool :=
  forallb (fun k => match column_table c k with
                    | Some (t, fn, sh) => sim_ok (c4_funs c) (shape_env c) t && memb t fn sh
                    | None => false end) (c4_checks c).

Definition chk_prop (c : c4_case) : bool :=
  closedb c && no_collision c && sim_columns c && forallb (fun d => verdict_ok (judge c d)) (c4_docs c).

Definition count_corruptions (c : c4_case) : nat :=
  fold_left (fun acc d => let '(tb, cn, j) := d in
     match column_shape c tb cn with
     | Some sh => acc + List.length (corruptions (shape_env c) (2 * json_depth j + 8) sh j)
     | None => acc end) (c4_docs c) 0.

Section Generic.
  Context {A : Type} (f : A -> bool).
  Fixpoint mism_from (n : N) (cases : list A) : list N :=
    match cases with [] => [] | c :: r => if f c then mism_from (N.succ n) r else n :: mism_from (N.succ n) r end.
End Generic.
Definition mismatches := mism_from (fun c => AnaCross.ana_cross_e (c4_prog c) (c4_enums c) (c4_ana c) && chk_model c) 0%N.
Definition prop_failures := mism_from chk_prop 0%N.

(** for the replay: the first failing document of each case *)
Definition first_failure (c : c4_case) : list (string * string * json * verdict) :=
  (if closedb c then [] else [("<script>", "a called validation function is not defined", JNull, VNoCheck)])
  ++ (if no_collision c then [] else [("<script>", "two JSON shapes share one function name", JNull, VNoCheck)])
  ++ flat_map (fun k => match column_table c k with
                        | Some (t, fn, sh) => if sim_ok (c4_funs c) (shape_env c) t && memb t fn sh then []
                                              else [(fst (fst k), "validators and wire shapes do not agree below column " ++ snd (fst k), JNull, VNoCheck)]
                        | None => [(fst (fst k), "no wire shape for column " ++ snd (fst k), JNull, VNoCheck)] end) (c4_checks c)
  ++ firstn 1 (flat_map (fun d => let v := judge c d in if verdict_ok v then [] else [(fst (fst d), snd (fst d), snd d, v)]) (c4_docs c)).
Definition details (cases : list c4_case) := map first_failure cases.
Definition corruption_counts (cases : list c4_case) := map (fun c => N.of_nat (count_corruptions c)) cases.
