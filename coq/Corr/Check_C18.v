(** Correspondence for C18: outcome class of the analysis stage, and the names produced by the
    fixed-width slicing functions as read back from the generated texts. *)
From Coq Require Import List String ZArith Bool Arith NArith.
From GM Require Import Base.Result Facts.GoFacts Facts.Ana Model.Enums Model.Unions Model.Classify Model.Names Corr.Check_C12.
Import ListNotations.
Local Open Scope string_scope.

(** (function, arguments, name observed in the output) *)
Inductive name_obs :=
| NKindVar (member union : string) (observed : list string)     (* constants declared with the value [member] *)
| NRandForeign (pkg local : string) (observed : list string)    (* rand<id> functions of the file *)
| NSqlId (pkg name : string) (observed : list string)           (* validator names of the script *)
| NDartEnum (const : string) (observed : list string).          (* members of the Dart enum *)

Definition res_is (r : result string) (l : list string) : bool := match r with Ok x => existsb (String.eqb x) l | _ => false end.

Definition chk_name (o : name_obs) : bool :=
  match o with
  | NKindVar m u obs => res_is (kind_var_name m u) obs
  | NRandForeign p l obs => res_is (rand_foreign_id p l) obs
  | NSqlId p n obs => res_is (id_from_named p n) obs
  | NDartEnum c obs => res_is (dart_enum_member c) obs
  end.

Record c18_case := { c18_graph : c12_case; c18_names : list name_obs }.

Definition chk_outcome (c : c12_case) : bool :=
  let pr := c12_prog c in let a := c12_ana c in
  match analyse_closure pr (model_enums pr) (fetch_unions pr) (c12_source c) (fuel_for pr (c12_source c)), ao_outcome a with
  | Ok _, OutOk => true
  | Diag _, OutDiag _ => true
  | Ok _, OutDiag m => String.prefix "unknown special comment" m   (* comment kinds are not part of this model *)
  | _, _ => false
  end.

Definition chk_model (c : c18_case) : bool := chk_outcome (c18_graph c) && forallb chk_name (c18_names c).

Definition chk_prop (c : c18_case) : bool :=
  match ao_outcome (c12_ana (c18_graph c)) with OutCrash _ => false | _ => true end.

Definition mismatches := mism_from chk_model 0%N.
Definition prop_failures := mism_from chk_prop 0%N.
