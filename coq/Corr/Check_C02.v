(** C02: every document written by the real encoder (source package + generated wrappers) for a value
    of an analysed type conforms to the wire-format shape of that type; and the codec model of
    Sem/GoVal.v, run on the very values the test binary marshalled, writes the same document and reads
    back the same value as encoding/json did. *)
From Coq Require Import List String ZArith Bool Arith NArith.
From GM Require Import Base.Result Facts.GoFacts Facts.Ana Model.Enums Model.Fields Model.Classify Model.SqlTypes Sem.GoJson Sem.GoVal Corr.AnaCross.
Import ListNotations.
Local Open Scope string_scope.

Record c2_case := { c2_prog : prog; c2_enums : list enum; c2_ana : ana_obs; c2_docs : list (gty * json);
                    c2_vals : list (gty * value * json * value) (* type, value, document written, value read back *) }.

Definition doc_ok (c : c2_case) (tj : gty * json) : bool :=
  let nodes := ao_nodes (c2_ana c) in
  conformsb (env_of (c2_prog c) nodes (c2_enums c)) (2 * json_depth (snd tj) + 6)
            (shape_of (c2_prog c) nodes (c2_enums c) 12 false (fst tj)) (snd tj).

(** the codec model against the real encoder and decoder, on one value *)
Definition val_ok (c : c2_case) (e : gty * value * json * value) : bool :=
  let '(t, v, doc, back) := e in
  let nodes := ao_nodes (c2_ana c) in
  let env := env_of (c2_prog c) nodes (c2_enums c) in
  let sh := shape_of (c2_prog c) nodes (c2_enums c) 12 false t in
  let fuel := 2 * json_depth doc + 6 in
  has_shape env fuel sh v   (* the premise of C02_typed_values_round_trip *)
  && match encode env fuel sh v with
  | Some j => json_eqb j doc
  | None => false end
  && match decode env fuel sh doc with
     | Some w => value_eqb w back
     | None => false end.

(** the premise of the round-trip theorem, computed on the environment of the module *)
Definition env_ok (c : c2_case) : bool :=
  match c2_vals c with [] => true | _ => env_wf (env_of (c2_prog c) (ao_nodes (c2_ana c)) (c2_enums c)) end.

Definition chk (c : c2_case) : bool :=
  ana_cross_e (c2_prog c) (c2_enums c) (c2_ana c) && forallb (doc_ok c) (c2_docs c) && env_ok c && forallb (val_ok c) (c2_vals c).

Fixpoint mism_from (n : N) (cases : list c2_case) : list N :=
  match cases with [] => [] | c :: r => if chk c then mism_from (N.succ n) r else n :: mism_from (N.succ n) r end.
Definition mismatches := mism_from 0%N.

(** the property on the artefacts themselves: the value the real decoder built equals the value marshalled,
    a nil and an empty slice or map counting as equal *)
Definition rt_ok (c : c2_case) : bool :=
  forallb (fun e : gty * value * json * value => let '(_, v, _, back) := e in value_eqb (canon back) (canon v)) (c2_vals c).

Fixpoint rt_from (n : N) (cases : list c2_case) : list N :=
  match cases with [] => [] | c :: r => if rt_ok c then rt_from (N.succ n) r else n :: rt_from (N.succ n) r end.
Definition roundtrip_failures := rt_from 0%N.

(** which values of a case the model and the implementation disagree on (replay detail) *)
Definition details (cases : list c2_case) : list (list (gty * bool * bool)) :=
  map (fun c => flat_map (fun e : gty * value * json * value =>
                  let '(t, v, doc, back) := e in
                  if val_ok c e then [] else
                    let nodes := ao_nodes (c2_ana c) in
                    let env := env_of (c2_prog c) nodes (c2_enums c) in
                    let sh := shape_of (c2_prog c) nodes (c2_enums c) 12 false t in
                    let fuel := 2 * json_depth doc + 6 in
                    [(t, match encode env fuel sh v with Some j => json_eqb j doc | None => false end,
                         match decode env fuel sh doc with Some w => value_eqb w back | None => false end)]) (c2_vals c)) cases.
