(** C02: every document written by the real encoder (source package + generated wrappers) for a value
    of an analysed type conforms to the wire-format shape of that type. *)
From Coq Require Import List String ZArith Bool Arith NArith.
From GM Require Import Base.Result Facts.GoFacts Facts.Ana Model.Enums Model.Fields Model.Classify Model.SqlTypes Sem.GoJson.
Import ListNotations.
Local Open Scope string_scope.

Record c2_case := { c2_prog : prog; c2_enums : list enum; c2_ana : ana_obs; c2_docs : list (gty * json) }.

Definition doc_ok (c : c2_case) (tj : gty * json) : bool :=
  let nodes := ao_nodes (c2_ana c) in
  conformsb (env_of (c2_prog c) nodes (c2_enums c)) (2 * json_depth (snd tj) + 6)
            (shape_of (c2_prog c) nodes (c2_enums c) 12 false (fst tj)) (snd tj).

Definition chk (c : c2_case) : bool := forallb (doc_ok c) (c2_docs c).

Fixpoint mism_from (n : N) (cases : list c2_case) : list N :=
  match cases with [] => [] | c :: r => if chk c then mism_from (N.succ n) r else n :: mism_from (N.succ n) r end.
Definition mismatches := mism_from 0%N.
