(** Correspondence and property check for C09. *)
From Coq Require Import List String Bool Arith NArith.
From GM Require Import Model.Fields.
Import ListNotations.
Local Open Scope string_scope.

Record c9_case := {
  c9_fields : list (sfield * bool * string);   (* field, observed Exported(), observed JSONName() *)
  c9_std : option (list string);               (* real encoding/json keys of the Go struct *)
  c9_std_kept : option (list string);          (* same, gomacro:"ignore" fields removed first *)
  c9_ts : option (list string);                (* keys of the TypeScript interface, in order *)
  c9_dart_from : option (list string);
  c9_dart_to : option (list string);
  c9_sql_keys : option (list string);          (* key IN (...) of the validator *)
  c9_sql_checks : option (list string)         (* data->'key' checks of the validator *)
}.

Fixpoint strs_eqb (a b : list string) : bool :=
  match a, b with
  | [], [] => true
  | x :: a', y :: b' => String.eqb x y && strs_eqb a' b'
  | _, _ => false
  end.

Definition opt_is (o : option (list string)) (l : list string) : bool :=
  match o with Some l' => strs_eqb l l' | None => true end.

Definition fields_of (c : c9_case) : list sfield := map (fun x => fst (fst x)) (c9_fields c).

(** model = implementation *)
Definition chk_model (c : c9_case) : bool :=
  forallb (fun x => let '(f, ex, js) := x in Bool.eqb (exported f) ex && String.eqb (json_name f) js) (c9_fields c)
  && let ks := selected_keys (fields_of c) in
     opt_is (c9_ts c) ks && opt_is (c9_dart_from c) ks && opt_is (c9_dart_to c) ks
     && opt_is (c9_sql_keys c) ks && opt_is (c9_sql_checks c) ks.

Fixpoint nodupb (l : list string) : bool :=
  match l with [] => true | x :: r => negb (existsb (String.eqb x) r) && nodupb r end.

(** the class the statement is claimed on (see Model/Fields.v) *)
Definition supported (c : c9_case) : bool :=
  forallb tag_supported (fields_of c) && nodupb (std_keys (fields_of c)).

(** the property on the observed artefacts: the keys of each target are the keys the real
    encoding/json writes for the struct without its gomacro-ignored fields; and the Coq reading of
    encoding/json's rules agrees with the real library *)
Definition chk_prop (c : c9_case) : bool :=
  match c9_std_kept c with
  | None => true
  | Some real =>
      negb (supported c) ||
      (opt_is (c9_ts c) real && opt_is (c9_dart_from c) real && opt_is (c9_dart_to c) real
       && opt_is (c9_sql_keys c) real && opt_is (c9_sql_checks c) real
       && strs_eqb real (std_keys (filter (fun f => negb (gomacro_ignored f)) (fields_of c))))
  end.

Section Generic.
  Context {A : Type} (chk : A -> bool).
  Fixpoint mism_from (n : N) (cases : list A) : list N :=
    match cases with
    | [] => []
    | c :: r => if chk c then mism_from (N.succ n) r else n :: mism_from (N.succ n) r
    end.
End Generic.
Definition mismatches := mism_from chk_model 0%N.
Definition prop_failures := mism_from chk_prop 0%N.
