(** Correspondence and property check for C11. *)
From Coq Require Import List String ZArith Bool Arith NArith.
From GM Require Import Base.Result Base.StrOrd Facts.GoFacts Facts.Ana Model.Enums Model.Unions.
Import ListNotations.
Local Open Scope string_scope.

Record c11_case := { c11_prog : prog; c11_unions : list (string * list string); c11_ana : ana_obs }.

Fixpoint strs_eqb (a b : list string) : bool :=
  match a, b with
  | [], [] => true
  | x :: a', y :: b' => String.eqb x y && strs_eqb a' b'
  | _, _ => false
  end.

Definition table_equiv (a b : list (string * list string)) : bool :=
  Nat.eqb (List.length a) (List.length b)
  && forallb (fun u => match find (fun v => String.eqb (fst v) (fst u)) b with
                       | Some v => strs_eqb (snd u) (snd v) | None => false end) a.

Definition analysed_in (a : ana_obs) (id : string) : bool :=
  existsb (fun n => gty_eqb (nr_at n) (GNamed id) && akind_eqb (nr_kind n) KdUnion && nr_in_types n) (ao_nodes a).

Definition struct_id (n : nrec) : string := match nr_at n with GNamed id => id | _ => "" end.

(** hypotheses of the theorems, checked on every case: candidate ids unique and sorted per package *)
Fixpoint sortedb (l : list string) : bool :=
  match l with x :: ((y :: _) as r) => sleb x y && sortedb r | _ => true end.

Fixpoint nodupb (l : list string) : bool :=
  match l with [] => true | x :: r => negb (existsb (String.eqb x) r) && nodupb r end.

Definition facts_wf (pr : prog) : bool :=
  forallb (fun p => let ids := map n_id (candidates (pr_types pr) p) in nodupb ids && sortedb ids) (pr_pkgs pr).

(** model = implementation: the union table of the walk, and every struct node's Implements *)
Definition chk_model (c : c11_case) : bool :=
  let a := c11_ana c in
  facts_wf (c11_prog c)
  && table_equiv (fetch_unions (c11_prog c)) (c11_unions c)
  && forallb (fun n => negb (akind_eqb (nr_kind n) KdStruct)
                       || strs_eqb (nr_implements n)
                            (set_implements (fetch_unions (c11_prog c)) (analysed_in a) (struct_id n)))
             (ao_nodes a).

(** the property on the observed graph alone: every union node lists members; every struct node reached
    (registered in Types or not) reports exactly the analysed unions listing it, sorted *)
Definition obs_unions (a : ana_obs) : list (string * list string) :=
  flat_map (fun n => if akind_eqb (nr_kind n) KdUnion && nr_in_types n then [(struct_id n, nr_members n)] else []) (ao_nodes a).

Definition chk_prop (c : c11_case) : bool :=
  let a := c11_ana c in
  match ao_outcome a with
  | OutOk =>
      forallb (fun n => negb (akind_eqb (nr_kind n) KdStruct)
                        || strs_eqb (nr_implements n) (set_implements (obs_unions a) (fun _ => true) (struct_id n)))
              (ao_nodes a)
      (* union nodes: members as in the table of the walk, however the union was reached *)
      && forallb (fun n => negb (akind_eqb (nr_kind n) KdUnion)
                           || match find (fun u => String.eqb (fst u) (struct_id n)) (c11_unions c) with
                              | Some u => strs_eqb (snd u) (nr_members n)
                              | None => false end)
                 (ao_nodes a)
  | _ => true   (* refusals are C18's business *)
  end.

Section Generic.
  Context {A : Type} (chk : A -> bool).
  Fixpoint mism_from (n : N) (cases : list A) : list N :=
    match cases with
    | [] => []
    | c :: r => if chk c then mism_from (N.succ n) r else n :: mism_from (N.succ n) r
    end.
End Generic.
Definition mismatches := mism_from chk_model 0%N.
Definition prop_failures := mism_from chk_prop 0%N.
