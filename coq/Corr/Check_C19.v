(** Correspondence for C19: the output observed from generator.WriteDeclarations on each
    list must be the model's (and the spec's) output; for inconsistent lists, an admissible one. *)
From Coq Require Import List String NArith.
From GM Require Import Model.WriteDecls.
Import ListNotations.

Fixpoint mismatches_from (n : N) (cases : list (list decl * string)) : list N :=
  match cases with
  | [] => []
  | (l, out) :: r =>
      if check_output l out then mismatches_from (N.succ n) r
      else n :: mismatches_from (N.succ n) r
  end.

Definition mismatches := mismatches_from 0%N.

(** The premise of the order-independence theorem, evaluated on the declaration lists the real
    generators hand to WriteDeclarations: equal IDs carry equal content. *)
Fixpoint inconsistent_from (n : N) (cases : list (list decl * string)) : list N :=
  match cases with
  | [] => []
  | (l, _) :: r =>
      if consistentb l then inconsistent_from (N.succ n) r
      else n :: inconsistent_from (N.succ n) r
  end.

Definition inconsistent_lists := inconsistent_from 0%N.
