From Coq Require Import List String Bool Arith NArith.
From GM Require Import Model.Http Model.Classify Model.Axios Corr.Check_C13.
Import ListNotations.
Local Open Scope string_scope.

Record c14_case := {
  c14_endpoints : list aendpoint;          (* as extracted by ParseEcho (observed), with the kinds of the query parameters *)
  c14_methods : option (list method_ir);   (* parsed from the real client text; None = generation refused *)
  c14_mentioned : list string;             (* type names mentioned by the method signatures *)
  c14_declared : list string;              (* type names declared in the file *)
  c14_mode : nat   (* 0: every endpoint counts; 1: the endpoints of the recorded finding (data with GET / DELETE) are left
                      out; 2: only they count (a file showing the finding is evaluated twice: it hides nothing else) *)
}.

Definition conv_eqb (a b : conv) : bool :=
  match a, b with CString, CString | CBoolOk, CBoolOk | CIdentity, CIdentity => true | _, _ => false end.
Definition src_eqb (a b : form_src) : bool :=
  match a, b with FFile, FFile | FJson, FJson => true | FParam x, FParam y => String.eqb x y | _, _ => false end.
Definition second_eqb (a b : second_arg) : bool :=
  match a, b with AFormData, AFormData | AParams, AParams | ANull, ANull | ANone, ANone => true | _, _ => false end.
Definition ret_eqb (a b : ret_kind) : bool :=
  match a, b with RData, RData | RBlob, RBlob | RTrue, RTrue => true | _, _ => false end.

Fixpoint list_eqb {A} (f : A -> A -> bool) (a b : list A) : bool :=
  match a, b with [], [] => true | x :: a', y :: b' => f x y && list_eqb f a' b' | _, _ => false end.

Definition method_eqb (m o : method_ir) : bool :=
  name_eqb "" (mi_name m) (mi_name o) && strs_eqb (mi_args m) (mi_args o) && String.eqb (mi_verb m) (mi_verb o)
  && String.eqb (mi_url m) (mi_url o) && second_eqb (mi_second m) (mi_second o)
  && list_eqb (fun x y => String.eqb (fst x) (fst y) && src_eqb (snd x) (snd y)) (mi_form m) (mi_form o)
  && list_eqb (fun x y => String.eqb (fst x) (fst y) && conv_eqb (snd x) (snd y)) (mi_query m) (mi_query o)
  && Bool.eqb (mi_arraybuffer m) (mi_arraybuffer o) && ret_eqb (mi_return m) (mi_return o).

Definition chk (c : c14_case) : bool :=
  match c14_methods c with
  | Some ms => list_eqb method_eqb (map gen_method (c14_endpoints c)) ms
  | None => false
  end.

Definition body_eqb (a b : body) : bool :=
  match a, b with
  | BNone, BNone | BNull, BNull | BJson, BJson | BMisplaced, BMisplaced => true
  | BForm x, BForm y => list_eqb (fun p q => String.eqb (fst p) (fst q) && src_eqb (snd p) (snd q)) x y
  | _, _ => false
  end.
Definition request_eqb (a b : request) : bool :=
  String.eqb (rq_verb a) (rq_verb b) && String.eqb (rq_url a) (rq_url b) && body_eqb (rq_body a) (rq_body b)
  && list_eqb (fun x y => String.eqb (fst x) (fst y) && conv_eqb (snd x) (snd y)) (rq_query a) (rq_query b)
  && Bool.eqb (rq_headers a) (rq_headers b) && Bool.eqb (rq_arraybuffer a) (rq_arraybuffer b) && ret_eqb (rq_result a) (rq_result b).

Definition builtin_ts (n : string) : bool :=
  existsb (String.eqb n) ["string"; "number"; "boolean"; "unknown"; "null"; "File"; "Blob"; "never"; "Record"].

Definition get_with_data (a : aendpoint) : bool :=
  let e := ae a in
  (String.eqb (ep_method e) "GET" || String.eqb (ep_method e) "DELETE")
  && negb (String.eqb (ep_input e) "" && String.eqb (ep_file e) "" && match ep_form_values e with [] => true | _ => false end && String.eqb (fst (ep_json e)) "").

Definition counted (c : c14_case) (a : aendpoint) : bool :=
  match c14_mode c with 0 => true | 1 => negb (get_with_data a) | _ => get_with_data a end.

(** the property on the parsed client alone: each method issues the request specified for its endpoint,
    and every type its signature mentions is declared exactly once (or built in) *)
Definition chk_prop (c : c14_case) : bool :=
  match c14_methods c with
  | Some ms =>
      Nat.eqb (List.length ms) (List.length (c14_endpoints c))
      && forallb (fun am => negb (counted c (fst am)) || request_eqb (call (snd am)) (request_of (fst am))) (combine (c14_endpoints c) ms)
      && forallb (fun n => builtin_ts n || Nat.eqb (List.length (filter (String.eqb n) (c14_declared c))) 1) (c14_mentioned c)
  | None => false
  end.

Section Generic.
  Context {A : Type} (f : A -> bool).
  Fixpoint mism_from' (n : N) (cases : list A) : list N :=
    match cases with [] => [] | c :: r => if f c then mism_from' (N.succ n) r else n :: mism_from' (N.succ n) r end.
End Generic.
Definition mismatches := mism_from' chk 0%N.
Definition prop_failures := mism_from' chk_prop 0%N.
