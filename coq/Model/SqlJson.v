(** Model of generator/sql/json.go: typeID / functionName and the validator emitted for the node at a
    position (one per JSON shape). *)
From Coq Require Import List String Ascii ZArith Bool Arith.
From GM Require Import Base.Result Facts.GoFacts Facts.Ana Model.Enums Model.Fields Model.Classify Model.SqlTypes Model.Names Model.Dart Sem.GoJson Sem.PgSem.
Import ListNotations.
Local Open Scope string_scope.

Section V.
  Variable pr : prog.
  Variable nodes : list nrec.
  Variable enums : list enum.

  Definition name_from_kind (k : bkind) : result string :=
    match class_of_kind k with
    | Some BKBool => Ok "boolean" | Some BKInt | Some BKFloat => Ok "number" | Some BKString => Ok "string"
    | None => Diag "unsupported basic kind"
    end.

  Definition id_from_named_id (id : string) : string :=
    match find_type id (pr_types pr) with
    | Some d => match id_from_named (n_pkg_name d) (n_name d) with Ok s => s | _ => id end
    | None => id
    end.

  Fixpoint type_id (fuel : nat) (t : gty) : result string :=
    match fuel with
    | O => Diag "fuel"
    | S f =>
        match find_node t nodes with
        | None => Diag "not analysed"
        | Some n =>
            match nr_kind n with
            | KdPointer => Diag "pointers not handled by the SQL generator"
            | KdBasic => match nr_bkind n with Some k => name_from_kind k | None => Diag "basic" end
            | KdTime => Ok "string"
            | KdArray => match nr_children n with
                         | [e] => do ei <- type_id f e;
                                  Ok ("array_" ++ (if Z.leb 0 (nr_len n) then z_dec (nr_len n) ++ "_" else "") ++ ei)
                         | _ => Diag "array" end
            | KdMap => match nr_children n with [_; e] => do ei <- type_id f e; Ok ("map_" ++ ei) | _ => Diag "map" end
            | KdNamed => match nr_children n with [u] => type_id f u | _ => Diag "named" end
            | KdStruct | KdEnum | KdUnion => match nr_at n with GNamed id => Ok (id_from_named_id id) | _ => Diag "named" end
            end
        end
    end.

  Definition fn_name (t : gty) : result string := do i <- type_id 12 t; Ok ("gomacro_validate_json_" ++ i).

  (** the validator emitted for the node at [t] (Named nodes share the function of their underlying type) *)
  Definition validator_of (t : gty) : result (option (string * vfun)) :=
    match find_node t nodes with
    | None => Diag "not analysed"
    | Some n =>
        do name <- fn_name t;
        match nr_kind n with
        | KdBasic => match nr_bkind n with Some k => do kn <- name_from_kind k; Ok (Some (name, VBasic kn)) | None => Diag "basic" end
        | KdTime => Ok (Some (name, VBasic "string"))
        | KdNamed => Ok None
        | KdPointer => Diag "pointer"
        | KdEnum =>
            match nr_at n with
            | GNamed id =>
                match find (fun e => String.eqb (en_id e) id) enums, basic_of pr (GNamed id) with
                | Some e, Some k => do kn <- name_from_kind k;
                                    Ok (Some (name, VEnum kn (kind_is_integer k) (map enum_json (en_members e))))
                | _, _ => Diag "enum" end
            | _ => Diag "enum" end
        | KdArray =>
            match nr_children n with
            | [e] => do en <- fn_name e;
                     Ok (Some (name, VArray (Z.eqb (nr_len n) (-1)) (Z.ltb (nr_len n) 0) (if Z.leb 0 (nr_len n) then Some (Z.to_nat (nr_len n)) else None) en))
            | _ => Diag "array" end
        | KdMap => match nr_children n with [_; e] => do en <- fn_name e; Ok (Some (name, VMap en)) | _ => Diag "map" end
        | KdStruct =>
            do fields <- mapM (fun f => do fnm <- fn_name (af_type f); Ok (json_name (sfield_of f), fnm))
                              (filter (fun f => exported (sfield_of f)) (nr_fields n));
            Ok (Some (name, VStruct (Some (map fst fields)) fields))
        | KdUnion =>
            do cases <- mapM (fun m => do fnm <- fn_name (GNamed m); Ok (local_name_of pr m, fnm)) (nr_members n);
            Ok (Some (name, VUnion true cases))
        end
    end.
End V.

(** the jsonb columns of the tables of the file: SQL table, column, position stored as jsonb, Go type of the column *)
Definition json_columns (pr : prog) (enums : list enum) (a : ana_obs) : result (list (string * string * gty * gty)) :=
  do per_table <- mapM (fun n =>
       match nr_at n with
       | GNamed id =>
           let cols := table_columns n in
           do tys <- mapM (fun c => new_type pr (ao_nodes a) 4 (af_type c)) cols;
           Ok (flat_map (fun ct => match snd ct with
                                   | SJson t => [(sql_table_name (local_name_of pr id), af_name (fst ct), t, af_type (fst ct))]
                                   | _ => [] end) (combine cols tys))
       | _ => Diag "table" end)
     (flat_map (fun s => match find_node s (ao_nodes a) with
                         | Some n => if akind_eqb (nr_kind n) KdStruct then [n] else []
                         | None => [] end) (ao_source a));
  Ok (List.concat per_table).

(** the positions whose validators a jsonb column needs: the closure of the links (codeFor's recursion) *)
Fixpoint reach (nodes : list nrec) (fuel : nat) (t : gty) : list gty :=
  match fuel with
  | O => []
  | S f =>
      match find_node t nodes with
      | None => []
      | Some n =>
          t :: match nr_kind n with
               | KdStruct => flat_map (fun fd => reach nodes f (af_type fd)) (filter (fun fd => exported (sfield_of fd)) (nr_fields n))
               | KdUnion => flat_map (fun m => reach nodes f (GNamed m)) (nr_members n)
               | KdArray | KdNamed => flat_map (reach nodes f) (nr_children n)
               | KdMap => match nr_children n with [_; e] => reach nodes f e | _ => [] end
               | _ => []
               end
      end
  end.
