(** Model of generator/formatters.go (Formatters.has*, FormatFile) and of the goroutine-per-file
    use in cmd/gomacro.go:saveOutputs.

    The translator in the harness turns the Go source into the instruction lists below, one
    statement per instruction.  [compile] accepts a program only if every probing procedure has the
    mutex-guarded lazy-probe shape; for accepted programs the interleaving semantics [step] executes
    one instruction of one thread at a time (the threads are the concurrent FormatFile requests). *)
From Coq Require Import List String Bool Arith.
Import ListNotations.
Local Open Scope string_scope.

(** * Source-level instructions (written by the translator) *)
Inductive instr :=
| ILock (m : string)                       (* fmts.m.Lock() *)
| IUnlock (m : string)                     (* fmts.m.Unlock() *)
| IDeferUnlock (m : string)                (* defer fmts.m.Unlock() *)
| IIfNil (f : string) (body : list instr)  (* if fmts.f == nil { body } *)
| IProbe (tool : string) (args : list string) (* err := exec.Command(tool, args...).Run() *)
| ILog                                     (* if err != nil { log.Printf(...) } *)
| IAlloc (f : string)                      (* fmts.f = new(bool) *)
| IStoreOk (f : string)                    (* *fmts.f = err == nil *)
| IReturnLoad (f : string)                 (* return *fmts.f *)
| IUnknown (src : string).                 (* anything else *)

(** one arm of the switch in FormatFile:  case fmt: if fr.has() { return exec.Command(tool, args...).Run() } *)
Record fcase := { fc_format : string; fc_has : string; fc_tool : string; fc_args : list string }.

Record cprog := {
  cp_procs : list (string * list instr);   (* method name, body *)
  cp_dispatch : list fcase;                (* FormatFile *)
  cp_default_nil : bool;                   (* FormatFile ends with `return nil` and has no other statement *)
  cp_spawn_per_output : bool               (* saveOutputs: one `go` statement per output file, calling FormatFile once on the shared cache *)
}.

(** * The accepted shape *)
Record proc_desc := { pd_field : string; pd_tool : string; pd_args : list string; pd_log : bool }.

Definition compile_proc (body : list instr) : option proc_desc :=
  match body with
  | [ILock m; IDeferUnlock m'; IIfNil f inner; IReturnLoad f'] =>
      if String.eqb m m' && String.eqb f f' then
        match inner with
        | [IProbe tool args; ILog; IAlloc f1; IStoreOk f2] =>
            if String.eqb f f1 && String.eqb f f2 then Some {| pd_field := f; pd_tool := tool; pd_args := args; pd_log := true |} else None
        | [IProbe tool args; IAlloc f1; IStoreOk f2] =>
            if String.eqb f f1 && String.eqb f f2 then Some {| pd_field := f; pd_tool := tool; pd_args := args; pd_log := false |} else None
        | _ => None
        end
      else None
  | _ => None
  end.

(** all procedures use one and the same mutex *)
Definition proc_mutex (body : list instr) : option string :=
  match body with ILock m :: _ => Some m | _ => None end.

Fixpoint lookup {A} (k : string) (l : list (string * A)) : option A :=
  match l with [] => None | (k', v) :: r => if String.eqb k k' then Some v else lookup k r end.

Fixpoint nodupb (l : list string) : bool :=
  match l with [] => true | x :: r => negb (existsb (String.eqb x) r) && nodupb r end.

(** a compiled tool slot: the format constant, the cache field, the probe and the run command *)
Record slot := { sl_format : string; sl_desc : proc_desc; sl_run_tool : string; sl_run_args : list string }.

Fixpoint compile_dispatch (procs : list (string * list instr)) (d : list fcase) : option (list slot) :=
  match d with
  | [] => Some []
  | c :: r =>
      match lookup (fc_has c) procs with
      | None => None
      | Some body =>
          match compile_proc body, compile_dispatch procs r with
          | Some pd, Some sl => Some ({| sl_format := fc_format c; sl_desc := pd; sl_run_tool := fc_tool c; sl_run_args := fc_args c |} :: sl)
          | _, _ => None
          end
      end
  end.

Definition same_mutex (procs : list (string * list instr)) : bool :=
  match procs with
  | [] => true
  | (_, b) :: _ =>
      match proc_mutex b with
      | None => false
      | Some m => forallb (fun p => match proc_mutex (snd p) with Some m' => String.eqb m m' | None => false end) procs
      end
  end.

(** [compile]: every procedure has the guarded shape, all on one mutex, every cache field belongs to exactly one
    procedure, every format constant has one arm, every procedure is used by exactly one arm,
    FormatFile falls through to nil, and requests are spawned one per output on the shared cache. *)
Definition compile (p : cprog) : option (list slot) :=
  match compile_dispatch (cp_procs p) (cp_dispatch p) with
  | None => None
  | Some sl =>
      if same_mutex (cp_procs p)
         && nodupb (map (fun s => pd_field (sl_desc s)) sl)
         && nodupb (map sl_format sl)
         && nodupb (map fc_has (cp_dispatch p))
         && Nat.eqb (List.length (cp_procs p)) (List.length (cp_dispatch p))
         && cp_default_nil p && cp_spawn_per_output p
      then Some sl else None
  end.

Definition well_locked (p : cprog) : bool := match compile p with Some _ => true | None => false end.

(** * Interleaving semantics of N concurrent requests over a compiled program *)

(** environment: for each slot, is the tool installed (probe succeeds) and does a run fail *)
Record tool_env := { present : nat -> bool; failing : nat -> bool }.

(** control points of one request (one goroutine calling FormatFile); [k] is the slot index.
    Thread-local instructions that touch no shared state (the switch in FormatFile, registering the
    deferred Unlock, the log call) are folded into the next shared step; every shared action
    (mutex, cache field, external command) is a step of its own. *)
Inductive pc :=
| PLock (k : nat)             (* about to Lock (and register the deferred Unlock) *)
| PTest (k : nat)             (* about to read the cache field: if fmts.f == nil *)
| PProbe (k : nat)            (* about to run the probe command *)
| PAlloc (k : nat) (ok : bool)  (* fmts.f = new(bool) *)
| PStore (k : nat) (ok : bool)  (* *fmts.f = err == nil *)
| PLoad (k : nat)             (* return *fmts.f *)
| PUnlock (k : nat) (res : bool) (* the deferred Unlock *)
| PRun (k : nat)              (* about to run the formatter on the request's file *)
| PDone (err : bool)          (* FormatFile returned; err = a non-nil error *)
| PNilDeref.                  (* would be a Go runtime panic *)

Inductive event :=
| EProbe (t k : nat)          (* the probe command of slot k was executed by thread t *)
| ERun (t k : nat)            (* the formatter of slot k was run by thread t (on t's file) *)
| ERead (t k : nat) (locked : bool)
| EWrite (t k : nat) (locked : bool).

Record state := {
  st_lock : option nat;                 (* holder *)
  st_fields : list (option bool);       (* per slot: nil pointer or the cached value *)
  st_pcs : list pc;                     (* per thread *)
  st_trace : list event                 (* most recent first *)
}.

(** request of a thread: Some k = a format with an arm (slot k); None = NoFormat / unknown format *)
Definition requests := list (option nat).

Definition start_pc (r : option nat) : pc := match r with Some k => PLock k | None => PDone false end.

Definition init (nslots : nat) (reqs : requests) : state :=
  {| st_lock := None; st_fields := repeat None nslots; st_pcs := map start_pc reqs; st_trace := [] |}.

Fixpoint set_nth {A} (n : nat) (x : A) (l : list A) : list A :=
  match l, n with
  | [], _ => []
  | _ :: r, O => x :: r
  | y :: r, S n' => y :: set_nth n' x r
  end.

Definition field (s : state) (k : nat) : option bool := nth k (st_fields s) None.
Definition pc_of (s : state) (t : nat) : pc := nth t (st_pcs s) (PDone false).

Definition holds (s : state) (t : nat) : bool :=
  match st_lock s with Some h => Nat.eqb h t | None => false end.

(** the effect of one step: new lock, field update, new event, new pc *)
Definition upd (s : state) (t : nat) (lock : option nat) (fld : option (nat * option bool)) (ev : list event) (p : pc) : state :=
  {| st_lock := lock;
     st_fields := match fld with Some (k, v) => set_nth k v (st_fields s) | None => st_fields s end;
     st_pcs := set_nth t p (st_pcs s);
     st_trace := ev ++ st_trace s |}.

(** one instruction of thread [t]; [None] = not enabled (blocked on the mutex, finished, or no such thread) *)
Definition step (env : tool_env) (s : state) (t : nat) : option state :=
  if negb (Nat.ltb t (List.length (st_pcs s))) then None else
  let l := st_lock s in
  match pc_of s t with
  | PLock k =>
      match l with
      | None => Some (upd s t (Some t) None [] (PTest k))
      | Some _ => None
      end
  | PTest k =>
      Some (upd s t l None [ERead t k (holds s t)] (match field s k with None => PProbe k | Some _ => PLoad k end))
  | PProbe k => Some (upd s t l None [EProbe t k] (PAlloc k (present env k)))
  | PAlloc k ok => Some (upd s t l (Some (k, Some false)) [EWrite t k (holds s t)] (PStore k ok))
  | PStore k ok =>
      match field s k with
      | None => Some (upd s t l None [] PNilDeref)
      | Some _ => Some (upd s t l (Some (k, Some ok)) [EWrite t k (holds s t)] (PLoad k))
      end
  | PLoad k =>
      Some (upd s t l None [ERead t k (holds s t)] (match field s k with None => PNilDeref | Some b => PUnlock k b end))
  | PUnlock k b => Some (upd s t None None [] (if b then PRun k else PDone false))
  | PRun k => Some (upd s t l None [ERun t k] (PDone (failing env k)))
  | PDone _ => None
  | PNilDeref => None
  end.

(** a schedule is any list of thread numbers; a non-enabled choice is a stutter *)
Fixpoint run (env : tool_env) (sched : list nat) (s : state) : state :=
  match sched with
  | [] => s
  | t :: r => match step env s t with
              | Some s' => run env r s'
              | None => run env r s
              end
  end.

(** * Observables *)
Definition count_probe (k : nat) (tr : list event) : nat :=
  List.length (filter (fun e => match e with EProbe _ k' => Nat.eqb k k' | _ => false end) tr).
Definition count_run (t k : nat) (tr : list event) : nat :=
  List.length (filter (fun e => match e with ERun t' k' => Nat.eqb t t' && Nat.eqb k k' | _ => false end) tr).
Definition count_run_slot (k : nat) (tr : list event) : nat :=
  List.length (filter (fun e => match e with ERun _ k' => Nat.eqb k k' | _ => false end) tr).

(** the next instruction of thread [t] accesses cache field [k]; [true] = write *)
Definition access (p : pc) : option (nat * bool) :=
  match p with
  | PTest k => Some (k, false)
  | PAlloc k _ => Some (k, true)
  | PStore k _ => Some (k, true)
  | PLoad k => Some (k, false)
  | _ => None
  end.

(** a data race: two distinct threads whose next instructions touch the same field, one writing *)
Definition racy (s : state) : Prop :=
  exists t u k wt wu, t <> u /\ t < List.length (st_pcs s) /\ u < List.length (st_pcs s) /\
    access (pc_of s t) = Some (k, wt) /\ access (pc_of s u) = Some (k, wu) /\ (wt || wu = true).

Definition all_done (s : state) : Prop := forall t, t < List.length (st_pcs s) -> exists e, pc_of s t = PDone e.
Definition all_doneb (s : state) : bool := forallb (fun p => match p with PDone _ => true | _ => false end) (st_pcs s).

(** a fair-enough executable schedule for the correspondence: round robin, [n] rounds *)
Fixpoint round_robin (nthreads rounds : nat) : list nat :=
  match rounds with O => [] | S r => seq 0 nthreads ++ round_robin nthreads r end.

(** one thread after the other, each run to completion (at most 8 steps per request) *)
Definition seq_schedule (nthreads : nat) : list nat := flat_map (fun t => repeat t 8) (seq 0 nthreads).
