(** Model of analysis/sql (NewTable, newType, IsNullXXX, isComposite, isBinary, isTableID,
    newForeignKey, Primary), generator.ToSnakeCase / SQLTableName and of the DDL printed by
    generator/sql/tables.go (createStmt, typeConstraint, enumTuple, compositeDecl, constraints).
    Input: the go/types facts and the observed analysis nodes. *)
From Coq Require Import List String Ascii ZArith Bool Arith.
From GM Require Import Base.Result Facts.GoFacts Facts.Ana Model.Enums Model.Fields Model.Classify.
Import ListNotations.
Local Open Scope string_scope.

(** * snake case *)
Definition is_upper (c : ascii) : bool := let n := nat_of_ascii c in Nat.leb 65 n && Nat.leb n 90.
Definition is_lower (c : ascii) : bool := let n := nat_of_ascii c in Nat.leb 97 n && Nat.leb n 122.
Definition is_digit (c : ascii) : bool := let n := nat_of_ascii c in Nat.leb 48 n && Nat.leb n 57.
Definition newline : ascii := ascii_of_nat 10.

(** take the maximal run of lower-case letters *)
Fixpoint take_lower (s : string) : string * string :=
  match s with
  | String c r => if is_lower c then let '(a, b) := take_lower r in (String c a, b) else (EmptyString, s)
  | EmptyString => (EmptyString, EmptyString)
  end.

(** regexp "(.)([A-Z][a-z]+)" -> "${1}_${2}", leftmost non-overlapping matches *)
Fixpoint first_cap (fuel : nat) (s : string) : string :=
  match fuel with
  | O => s
  | S f =>
      match s with
      | String a (String b rest) =>
          if negb (Ascii.eqb a newline) && is_upper b then
            let '(low, rest') := take_lower rest in
            match low with
            | EmptyString => String a (first_cap f (String b rest))
            | _ => String a (String "_"%char (String b low)) ++ first_cap f rest'
            end
          else String a (first_cap f (String b rest))
      | _ => s
      end
  end.

(** regexp "([a-z0-9])([A-Z])" -> "${1}_${2}" *)
Fixpoint all_cap (fuel : nat) (s : string) : string :=
  match fuel with
  | O => s
  | S f =>
      match s with
      | String a (String b rest) =>
          if (is_lower a || is_digit a) && is_upper b
          then String a (String "_"%char (String b EmptyString)) ++ all_cap f rest
          else String a (all_cap f (String b rest))
      | _ => s
      end
  end.

Definition to_snake_case (s : string) : string :=
  let s1 := first_cap (S (String.length s)) s in
  lower (all_cap (S (String.length s1)) s1).

Definition sql_table_name (go_name : string) : string := to_snake_case go_name ++ "s".

(** * SQL types *)
Inductive sqlty :=
| SBuiltin (name : string) (nullable : bool)
| SEnum (id : string)
| SArray (elem_name : string) (len : Z)        (* elem SQL name, Go length (-1 = slice) *)
| SComposite (id : string)
| SJson (t : gty).                              (* the Go type stored as jsonb *)

Definition basic_type_name (k : bkind) : string :=
  match class_of_kind k with
  | Some BKBool => "boolean"
  | Some BKInt => match k with KInt16 | KUint8 => "smallint" | _ => "integer" end
  | Some BKFloat => "real"
  | Some BKString => "text"
  | None => "text"      (* basicTypeName ignores the ok flag: complex kinds fall in the first class, BKString *)
  end.

Section Types.
  Variable pr : prog.
  Variable nodes : list nrec.
  Variable enums : list enum.

  (** the basic kind behind a type, through defined types *)
  Definition basic_of (t : gty) : option bkind :=
    match t with
    | GBasic k => Some k
    | GNamed id => match find_type id (pr_types pr) with Some d => match n_under d with UBasic k => Some k | _ => None end | None => None end
    | _ => None
    end.

  (** IsNullXXX: a struct of exactly two fields, one of them Valid of an exactly-boolean basic type; returns the other field *)
  Definition field_is_valid (f : gfield) : bool :=
    String.eqb (f_name f) "Valid" && match basic_of (f_type f) with Some KBool => true | _ => false end.

  Definition is_null_xxx (id : string) : option gfield :=
    match find_type id (pr_types pr) with
    | Some d =>
        match n_under d with
        | UStruct [a; b] => if field_is_valid a then Some b else if field_is_valid b then Some a else None
        | _ => None
        end
    | None => None
    end.

  Definition type_is_time (t : gty) : option bool :=   (* Some is_date *)
    match t with
    | GNamed id => match find_type id (pr_types pr) with
                   | Some d => if n_is_time d then Some (contains "date" (lower (n_name d))) else None
                   | None => None end
    | _ => None
    end.

  Definition enum_is_integer (id : string) : bool := type_is_integer (pr_types pr) id.

  Definition node_at (t : gty) : option nrec := find_node t nodes.

  (** isComposite: every (flattened) field is an integer basic or an integer enum *)
  Definition is_composite (n : nrec) : bool :=
    forallb (fun f => match node_at (af_type f) with
                      | Some m => match nr_kind m with
                                  | KdEnum => match nr_at m with GNamed id => enum_is_integer id | _ => false end
                                  | KdBasic => match nr_bkind m with Some k => kind_is_integer k | None => false end
                                  | _ => false end
                      | None => false end) (nr_fields n).

  Definition time_sql (is_date : bool) : string := if is_date then "date" else "timestamp (0) with time zone".

  (** newType; fuel for Named -> Underlying chains (at most one step by construction) *)
  Fixpoint new_type (fuel : nat) (t : gty) : result sqlty :=
    match fuel with
    | O => Diag "fuel"
    | S f =>
        match node_at t with
        | None => Diag "type not analysed"
        | Some n =>
            match nr_kind n with
            | KdBasic => match nr_bkind n with Some k => Ok (SBuiltin (basic_type_name k) false) | None => Diag "basic" end
            | KdTime => Ok (SBuiltin (time_sql (nr_is_date n)) false)
            | KdArray =>
                match nr_children n with
                | [e] =>
                    match node_at e with
                    | Some m =>
                        match nr_kind m, nr_bkind m with
                        | KdBasic, Some KUint8 => Ok (SBuiltin "bytea" false)
                        | KdBasic, Some k => Ok (SArray (basic_type_name k) (nr_len n))
                        | KdEnum, _ =>
                            match nr_at m with
                            | GNamed id => if enum_is_integer id
                                           then Ok (SArray (match basic_of (GNamed id) with Some k => basic_type_name k | None => "integer" end) (nr_len n))
                                           else Ok (SJson t)
                            | _ => Ok (SJson t) end
                        | _, _ => Ok (SJson t)
                        end
                    | None => Diag "elem" end
                | _ => Diag "array" end
            | KdEnum => match nr_at n with GNamed id => Ok (SEnum id) | _ => Diag "enum" end
            | KdMap | KdUnion => Ok (SJson t)
            | KdStruct =>
                match nr_at n with
                | GNamed id =>
                    match is_null_xxx id with
                    | Some elem =>
                        match basic_of (f_type elem) with
                        | Some k => match class_of_kind k with
                                    | Some _ => Ok (SBuiltin (basic_type_name k) true)
                                    | None => Ok (SJson t) end
                        | None => match type_is_time (f_type elem) with
                                  | Some d => Ok (SBuiltin (time_sql d) true)
                                  | None => Ok (SJson t) end
                        end
                    | None => if is_composite n then Ok (SComposite id) else Ok (SJson t)
                    end
                | _ => Diag "struct" end
            | KdPointer => Diag "Pointer types not supported in SQL generator"
            | KdNamed => match nr_children n with [u] => new_type f u | _ => Diag "named" end
            end
        end
    end.

  (** * Tables *)
  Definition guard_of (f : afield) : string := tag_lookup "gomacro-sql-guard" (af_tag f).
  Definition is_guard (f : afield) : bool := negb (String.eqb (guard_of f) "").

  (** NewTable: the exported Go fields and the guards *)
  Definition table_columns (n : nrec) : list afield := filter (fun f => is_guard f || af_go_exported f) (nr_fields n).

  (** Primary: the first column called id (any case) *)
  Fixpoint primary_index (cols : list afield) (i : nat) : option nat :=
    match cols with
    | [] => None
    | c :: r => if String.eqb (lower (af_name c)) "id" then Some i else primary_index r (S i)
    end.

  Definition local_name_of (id : string) : string :=
    match find_type id (pr_types pr) with Some d => n_name d | None => id end.

  (** enumTuple *)
  Fixpoint replace_dq (s : string) : string :=
    match s with
    | EmptyString => EmptyString
    | String c r => String (if Ascii.eqb c dquote then "'"%char else c) (replace_dq r)
    end.

  (** generator.SQLLiteral: numbers as written, strings between single quotes, inner quotes doubled *)
  Fixpoint double_quotes (s : string) : string :=
    match s with
    | EmptyString => EmptyString
    | String c r => if Ascii.eqb c "'"%char then String c (String c (double_quotes r)) else String c (double_quotes r)
    end.
  Definition sql_literal (m : emember) : string :=
    match em_val m with
    | CStr v => "'" ++ double_quotes v ++ "'"
    | _ => em_exact m
    end.

  Definition enum_values (id : string) : list string :=
    match find (fun e => String.eqb (en_id e) id) enums with
    | Some e => map sql_literal (en_members e)
    | None => []
    end.

  Definition enum_tuple (id : string) : string := "(" ++ String.concat ", " (enum_values id) ++ ")".

  (** Z to decimal *)
  Fixpoint nat_dec (fuel n : nat) (acc : string) : string :=
    match fuel with
    | O => acc
    | S f => let d := Nat.modulo n 10 in let q := Nat.div n 10 in
             let acc' := String (ascii_of_nat (48 + d)) acc in
             if Nat.eqb q 0 then acc' else nat_dec f q acc'
    end.
  Definition z_dec (z : Z) : string :=
    match z with
    | Z0 => "0"
    | Zpos p => nat_dec (S (Pos.to_nat p)) (Pos.to_nat p) ""
    | Zneg p => "-" ++ nat_dec (S (Pos.to_nat p)) (Pos.to_nat p) ""
    end.

  Definition sql_name (ty : sqlty) : string :=
    match ty with
    | SBuiltin n _ => n
    | SEnum id => match basic_of (GNamed id) with Some k => basic_type_name k | None => "integer" end
    | SArray e _ => e ++ "[]"
    | SComposite id => local_name_of id
    | SJson _ => "jsonb"
    end.

  (** typeConstraint, first as a structure ... *)
  Inductive colcheck := NoCheck | EnumIn (values : list string) | ArrayLen (n : Z).
  Record colspec := { cs_check : colcheck; cs_notnull : bool }.

  Definition col_spec (ty : sqlty) : colspec :=
    match ty with
    | SBuiltin _ nullable => {| cs_check := NoCheck; cs_notnull := negb nullable |}
    | SEnum id => {| cs_check := EnumIn (enum_values id); cs_notnull := true |}
    | SArray _ len => if Z.leb 0 len then {| cs_check := ArrayLen len; cs_notnull := true |}
                      else {| cs_check := NoCheck; cs_notnull := false |}
    | SComposite _ => {| cs_check := NoCheck; cs_notnull := true |}
    | SJson _ => {| cs_check := NoCheck; cs_notnull := true |}
    end.

  (** ... then as the text of the column declaration *)
  Definition print_spec (col : string) (sp : colspec) : string :=
    (match cs_check sp with
     | NoCheck => ""
     | EnumIn vs => " CHECK (" ++ col ++ " IN (" ++ String.concat ", " vs ++ "))" ++ " "
     | ArrayLen n => " CHECK (array_length(" ++ col ++ ", 1) = " ++ z_dec n ++ ")" ++ " "
     end) ++ (if cs_notnull sp then "NOT NULL" else "").

  Definition type_constraint (col : string) (ty : sqlty) : string := print_spec col (col_spec ty).

  (** createStmt: "<col> <type decl>" *)
  Definition column_decl (f : afield) (is_primary : bool) : result string :=
    if is_primary then Ok (af_name f ++ " serial PRIMARY KEY")
    else do ty <- new_type 4 (af_type f); Ok (af_name f ++ " " ++ sql_name ty ++ " " ++ type_constraint (af_name f) ty).

  Fixpoint column_decls (cols : list afield) (prim : option nat) (i : nat) : result (list string) :=
    match cols with
    | [] => Ok []
    | c :: r =>
        do d <- column_decl c (match prim with Some p => Nat.eqb p i | None => false end);
        do ds <- column_decls r prim (S i); Ok (d :: ds)
    end.

  (** * Foreign keys *)
  Definition drop_last2 (s : string) : string := String.substring 0 (String.length s - 2) s.
  Fixpoint has_suffix (suf s : string) : bool :=
    String.eqb suf s || match s with String _ r => has_suffix suf r | EmptyString => false end.

  (** isTableID: a Named node over int64 whose local name starts or ends with "id" (any case), longer than 2 *)
  Definition is_table_id (t : gty) : string :=
    match node_at t with
    | Some n =>
        match nr_kind n, nr_at n, nr_children n with
        | KdNamed, GNamed id, [u] =>
            match node_at u with
            | Some m =>
                match nr_bkind m with
                | Some KInt64 =>
                    let name := local_name_of id in
                    if Nat.ltb 2 (String.length name) && String.prefix "id" (lower name) then drop 2 name
                    else if Nat.ltb 2 (String.length name) && has_suffix "id" (lower name) then drop_last2 name
                    else ""
                | _ => ""
                end
            | None => ""
            end
        | _, _, _ => ""
        end
    | None => ""
    end.

  Definition is_int64_type (t : gty) : bool := match basic_of t with Some KInt64 => true | _ => false end.
  Definition is_null_int64 (t : gty) : bool :=
    match t with GNamed id => match is_null_xxx id with Some e => is_int64_type (f_type e) | None => false end | _ => false end.

  (** (column, target table Go name, ON DELETE action) *)
  Definition foreign_key (table_go_name : string) (f : afield) : result (option (string * string * string)) :=
    let by_type := is_table_id (af_type f) in
    if negb (String.eqb by_type "") && negb (String.eqb by_type table_go_name)
    then Ok (Some (af_name f, by_type, tag_lookup "gomacro-sql-on-delete" (af_tag f)))
    else
      let tagged := tag_lookup "gomacro-sql-foreign" (af_tag f) in
      if String.eqb tagged "" then Ok None
      else if is_int64_type (af_type f) || is_null_int64 (af_type f)
           then Ok (Some (af_name f, tagged, tag_lookup "gomacro-sql-on-delete" (af_tag f)))
           else Diag ("invalid type for foreign key " ++ af_name f).

  Fixpoint foreign_keys (table_go_name : string) (cols : list afield) : result (list (string * string * string)) :=
    match cols with
    | [] => Ok []
    | c :: r => do k <- foreign_key table_go_name c; do ks <- foreign_keys table_go_name r;
                Ok (match k with Some x => x :: ks | None => ks end)
    end.

  (** * One table of the script *)
  Record table_ir := {
    t_name : string;                       (* SQL name *)
    t_columns : list string;               (* "<col> <type decl>", whitespace-normalised by the reader *)
    t_fks : list (string * string * string);   (* column, target SQL table, action *)
    t_json_checks : list string;           (* columns carrying a validator CHECK *)
    t_composites : list string             (* local composite types declared for it *)
  }.

  Definition table_of (n : nrec) : result table_ir :=
    match nr_at n with
    | GNamed id =>
        let go_name := local_name_of id in
        let cols := table_columns n in
        do decls <- column_decls cols (primary_index cols 0) 0;
        do fks <- foreign_keys go_name cols;
        do tys <- mapM (fun c => new_type 4 (af_type c)) cols;
        Ok {| t_name := sql_table_name go_name;
              t_columns := decls;
              t_fks := map (fun k => let '(c, tgt, act) := k in (c, sql_table_name tgt, act)) fks;
              t_json_checks := flat_map (fun ct => match snd ct with SJson _ => [af_name (fst ct)] | _ => [] end) (combine cols tys);
              t_composites := flat_map (fun ct => match snd ct with
                                                  | SComposite cid =>
                                                      match find_type cid (pr_types pr), find_type id (pr_types pr) with
                                                      | Some cd, Some td => if String.eqb (n_pkg cd) (n_pkg td) then [n_name cd] else []
                                                      | _, _ => [] end
                                                  | _ => [] end) (combine cols tys) |}
    | _ => Diag "table"
    end.
End Types.

(** SelectTables: the structs among the source declarations, in order *)
Definition tables_of (pr : prog) (enums : list enum) (a : ana_obs) : result (list table_ir) :=
  mapM (table_of pr (ao_nodes a) enums)
       (flat_map (fun s => match find_node s (ao_nodes a) with
                           | Some n => if akind_eqb (nr_kind n) KdStruct then [n] else []
                           | None => [] end) (ao_source a)).
