(** Model of analysis/enums.go (fetchPkgEnums, fetchConstComment, Enum.setIsIota) and of the
    package walk of analysis/analysis.go (PkgSelector, fetchEnumsAndUnions), over the facts of
    Facts/GoFacts.v. *)
From Coq Require Import List String ZArith Bool Arith.
From GM Require Import Base.Result Facts.GoFacts Model.Loader.
Import ListNotations.
Local Open Scope string_scope.

(** * nodeAt / nodeAtFile on the candidate list of a position *)

(** first candidate starting exactly at [pos]; else the candidate with the smallest range
    (first one wins among equals, ranges below MaxInt32) *)
Fixpoint first_at (pos : Z) (cs : list cand) : option cand :=
  match cs with
  | [] => None
  | c :: r => if Z.eqb (cd_pos c) pos then Some c else first_at pos r
  end.

Fixpoint smallest (best : option cand) (bestRange : Z) (cs : list cand) : option cand :=
  match cs with
  | [] => best
  | c :: r =>
      let ra := (cd_end c - cd_pos c)%Z in
      if Z.ltb ra bestRange then smallest (Some c) ra r else smallest best bestRange r
  end.

Definition node_at_file (pos : Z) (cs : list cand) : option cand :=
  match first_at pos cs with
  | Some c => Some c
  | None => smallest None 2147483647%Z cs
  end.

(** nodeAt panics (a deliberate message) when nothing is found *)
Definition node_at (pos : Z) (cs : list cand) : result cand :=
  match node_at_file pos cs with
  | Some c => Ok c
  | None => Diag "node not found in ast.File"
  end.

(** the spec enclosing a node: the fix walks from the found node to its ValueSpec *)
Definition enclosing_value_spec (cs : list cand) : option cand :=
  find (fun c => nkind_eqb (cd_kind c) NValueSpec) (rev cs).

(** fetchConstComment as pinned: the conversion of the node found at the constant's position to a
    ValueSpec pointer is an unchecked type assertion. *)
Definition fetch_const_comment_pinned (c : cdecl) : result string :=
  do n <- node_at (c_pos c) (c_cands c);
  if nkind_eqb (cd_kind n) NValueSpec then Ok (c_comment c)
  else Crash "interface conversion: ast.Node is not ast.ValueSpec".

(** fetchConstComment as fixed: the innermost ValueSpec containing the position; no comment if none *)
Definition fetch_const_comment (c : cdecl) : result string :=
  match enclosing_value_spec (c_cands c) with
  | Some _ => Ok (c_comment c)
  | None => Ok ""
  end.

(** * strings.Contains *)
Fixpoint contains (needle s : string) : bool :=
  String.prefix needle s ||
  match s with EmptyString => false | String _ r => contains needle r end.

Definition ignore_decl_comment : string := "gomacro:no-enum".

(** * Enums *)
Record emember := { em_name : string; em_val : cval; em_exact : string; em_exported : bool; em_comment : string }.
Record enum := { en_id : string; en_members : list emember; en_is_iota : bool }.

Definition member_of (c : cdecl) (comment : string) : emember :=
  {| em_name := c_name c; em_val := c_val c; em_exact := c_exact c; em_exported := c_exported c; em_comment := comment |}.

(** association list keyed by type id, members appended in scope order *)
Fixpoint add_member (id : string) (m : emember) (tbl : list (string * list emember)) : list (string * list emember) :=
  match tbl with
  | [] => [(id, [m])]
  | (k, ms) :: r => if String.eqb k id then (k, (ms ++ [m])%list) :: r else (k, ms) :: add_member id m r
  end.

Fixpoint collect (cs : list cdecl) (tbl : list (string * list emember)) : result (list (string * list emember)) :=
  match cs with
  | [] => Ok tbl
  | c :: r =>
      match c_type c with
      | None => collect r tbl
      | Some id =>
          do comment <- fetch_const_comment c;
          if contains ignore_decl_comment comment then collect r tbl
          else collect r (add_member id (member_of c comment) tbl)
      end
  end.

(** 0, 1, ..., n-1 from [start] *)
Fixpoint zseq (start : Z) (n : nat) : list Z := match n with O => [] | S n' => start :: zseq (start + 1) n' end.

Definition int64_of (v : cval) : option Z := match v with CInt z => Some z | _ => None end.

(** insertion sort by value, stable *)
Fixpoint insert_by_val (x : emember * Z) (l : list (emember * Z)) : list (emember * Z) :=
  match l with
  | [] => [x]
  | y :: r => if Z.ltb (snd x) (snd y) then x :: l else y :: insert_by_val x r
  end.
Definition sort_by_val (l : list (emember * Z)) : list (emember * Z) := fold_right insert_by_val [] (rev l).

Fixpoint all_values (ms : list emember) : option (list Z) :=
  match ms with
  | [] => Some []
  | m :: r =>
      match int64_of (em_val m), all_values r with
      | Some v, Some vs => if Z.ltb v 0 then None else Some (v :: vs)
      | _, _ => None
      end
  end.

Fixpoint dedupZ (l : list Z) : list Z :=
  match l with [] => [] | x :: r => if existsb (Z.eqb x) r then dedupZ r else x :: dedupZ r end.

Definition zmax (l : list Z) : Z := fold_left Z.max l (-1)%Z.

(** setIsIota, as fixed: the exported values must be exactly 0..max, each once *)
Definition set_is_iota (is_int : bool) (ms : list emember) : list emember * bool :=
  if negb is_int then (ms, false) else
  match all_values ms with
  | None => (ms, false)
  | Some vs =>
      let ex := map snd (filter (fun mv => em_exported (fst mv)) (combine ms vs)) in
      let seen := dedupZ ex in
      if Z.eqb (Z.of_nat (List.length seen)) (zmax ex + 1) && Nat.eqb (List.length ex) (List.length seen)
      then (map fst (sort_by_val (combine ms vs)), true)
      else (ms, false)
  end.

(** the pinned version: duplicates among exported values are not noticed *)
Definition set_is_iota_pinned (is_int : bool) (ms : list emember) : list emember * bool :=
  if negb is_int then (ms, false) else
  match all_values ms with
  | None => (ms, false)
  | Some vs =>
      let ex := map snd (filter (fun mv => em_exported (fst mv)) (combine ms vs)) in
      let seen := dedupZ ex in
      if Z.eqb (Z.of_nat (List.length seen)) (zmax ex + 1)
      then (map fst (sort_by_val (combine ms vs)), true)
      else (ms, false)
  end.

Definition type_is_integer (types : list ndecl) (id : string) : bool :=
  match find_type id types with
  | Some d => match n_under d with UBasic k => kind_is_integer k | _ => false end
  | None => false
  end.

Definition fetch_pkg_enums_raw (types : list ndecl) (p : gpkg) : result (list enum) :=
  do tbl <- collect (p_consts p) [];
  Ok (map (fun kv => let '(ms, iota) := set_is_iota (type_is_integer types (fst kv)) (snd kv) in
                     {| en_id := fst kv; en_members := ms; en_is_iota := iota |}) tbl).

(** * Package walk *)
Definition selector_prefix (root_path : string) : string :=
  match split root_path with
  | [_] => root_path
  | a :: b :: _ => a ++ "/" ++ b
  | [] => ""
  end.

Definition ignore_path (prefix path : string) : bool :=
  negb (String.eqb prefix "") && negb (String.prefix prefix path).

(** packages reached from the root through imports that are not ignored (fuel = number of packages;
    the import graph of a loaded program is acyclic) *)
Fixpoint walk (fuel : nat) (pkgs : list gpkg) (prefix : string) (path : string) : list string :=
  match fuel with
  | O => []
  | S f =>
      match find_pkg path pkgs with
      | None => []
      | Some p => path :: flat_map (fun i => if ignore_path prefix i then [] else walk f pkgs prefix i) (p_imports p)
      end
  end.

Fixpoint dedup_str (l : list string) : list string :=
  match l with [] => [] | x :: r => if existsb (String.eqb x) r then dedup_str r else x :: dedup_str r end.

Definition selected_pkgs (pr : prog) : list string :=
  dedup_str (walk (S (List.length (pr_pkgs pr))) (pr_pkgs pr) (selector_prefix (pr_root pr)) (pr_root pr)).

Fixpoint concat_results {A} (l : list (result (list A))) : result (list A) :=
  match l with
  | [] => Ok []
  | r :: rest => do a <- r; do b <- concat_results rest; Ok (a ++ b)%list
  end.

(** fetchEnumsAndUnions, enum half: the per-package maps merged in walk order *)
(** fetchPkgEnums only keeps the constants whose type is declared in the package itself (as fixed: a constant
    declared in another package is not a member) *)
Definition own_const (types : list ndecl) (p : gpkg) (c : cdecl) : bool :=
  match c_type c with
  | Some id => match find_type id types with Some d => String.eqb (n_pkg d) (p_path p) | None => false end
  | None => true
  end.

Definition own_pkg (types : list ndecl) (p : gpkg) : gpkg :=
  {| p_path := p_path p; p_name := p_name p; p_imports := p_imports p;
     p_consts := filter (own_const types p) (p_consts p);
     p_type_names := p_type_names p; p_scope := p_scope p |}.

Definition fetch_pkg_enums (types : list ndecl) (p : gpkg) : result (list enum) :=
  fetch_pkg_enums_raw types (own_pkg types p).

(** outEnums[k] = v: the package handled last wins (the tables are now disjoint). A package declaring constants of a type imports the
    package of the type, which is therefore handled after it: when the defining package declares
    constants itself, its table is the one kept. *)
Definition merge_enums (acc new : list enum) : list enum :=
  (filter (fun e => negb (existsb (fun n => String.eqb (en_id n) (en_id e)) new)) acc ++ new)%list.

Fixpoint merge_all (l : list (result (list enum))) (acc : list enum) : result (list enum) :=
  match l with
  | [] => Ok acc
  | r :: rest => do a <- r; merge_all rest (merge_enums acc a)
  end.

Definition fetch_enums (pr : prog) : result (list enum) :=
  merge_all (map (fun path => match find_pkg path (pr_pkgs pr) with
                              | Some p => fetch_pkg_enums (pr_types pr) p
                              | None => Ok []
                              end) (selected_pkgs pr)) [].
