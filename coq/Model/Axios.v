(** Model of generator/typescript/axios_api.go (typeIn, generateAxiosCall, generateMethod): the
    generated method as a small IR, the meaning of that IR as the HTTP request it issues (AxiosSem),
    and the request the property specifies for an endpoint. *)
From Coq Require Import List String Ascii Bool Arith.
From GM Require Import Model.Http Model.Classify.
Import ListNotations.
Local Open Scope string_scope.

(** how a query value is turned into a string *)
Inductive conv := CString (* String(x) *) | CBoolOk (* x ? 'ok' : '' *) | CIdentity.
(** where a form entry comes from *)
Inductive form_src := FFile | FParam (key : string) | FJson.

Inductive second_arg := AFormData | AParams | ANull | ANone.
Inductive ret_kind := RData | RBlob | RTrue.

Record method_ir := {
  mi_name : string;
  mi_args : list string;                       (* parameter names, in order *)
  mi_verb : string;                            (* axios method: get | post | put | delete *)
  mi_url : string;                             (* appended to baseUrl *)
  mi_second : second_arg;
  mi_form : list (string * form_src);          (* formData.append calls, in order *)
  mi_query : list (string * conv);             (* config.params *)
  mi_arraybuffer : bool;
  mi_return : ret_kind
}.

(** endpoint + the basic kind of every query parameter (string | number | bool) *)
Record aendpoint := { ae : endpoint; ae_kinds : list string }.

Definition has_body (e : endpoint) : bool := negb (String.eqb (ep_input e) "").
Definition with_form (e : endpoint) : bool :=
  negb (String.eqb (ep_file e) "" && (match ep_form_values e with [] => true | _ => false end) && String.eqb (fst (ep_json e)) "").
Definition expects_body (e : endpoint) : bool := String.eqb (ep_method e) "POST" || String.eqb (ep_method e) "PUT".
Definition no_return (e : endpoint) : bool := String.eqb (ep_return e) "".

Definition conv_of (kind : string) : conv :=
  if String.eqb kind "number" then CString else if String.eqb kind "bool" then CBoolOk else CIdentity.

(** typeIn: the parameters of the method *)
Definition args_of (e : endpoint) : list string :=
  if has_body e then ["params"] else
  (if with_form e then
     (match ep_form_values e with [] => [] | _ => ["formParams"] end)
     ++ (if String.eqb (ep_file e) "" then [] else ["file"])
     ++ (if String.eqb (fst (ep_json e)) "" then [] else ["formValue"])
   else [])
  ++ (match ep_query e with [] => [] | _ => ["params"] end).

Definition gen_method (a : aendpoint) : method_ir :=
  let e := ae a in
  {| mi_name := ep_name e;
     mi_args := args_of e;
     mi_verb := lower (ep_method e);
     mi_url := ep_url e;
     mi_second := if with_form e then AFormData else if has_body e then AParams else if expects_body e then ANull else ANone;
     mi_form := if with_form e then
                  (if String.eqb (ep_file e) "" then [] else [(ep_file e, FFile)])
                  ++ map (fun v => (v, FParam v)) (ep_form_values e)
                  ++ (if String.eqb (fst (ep_json e)) "" then [] else [(fst (ep_json e), FJson)])
                else [];
     mi_query := map (fun qk => (fst (fst qk), conv_of (snd qk))) (combine (ep_query e) (ae_kinds a));
     mi_arraybuffer := ep_blob e;
     mi_return := if no_return e then RTrue else if ep_blob e then RBlob else RData |}.

(** * AxiosSem: the request a method issues. Axios.get / Axios.delete take (url, config); Axios.post /
    Axios.put take (url, data, config). *)
Inductive body := BNone | BNull | BJson (* the params argument *) | BForm (entries : list (string * form_src))
                | BMisplaced.  (* a data argument given to get/delete: axios reads it as the config *)

Record request := {
  rq_verb : string; rq_url : string; rq_body : body;
  rq_query : list (string * conv); rq_headers : bool; rq_arraybuffer : bool; rq_result : ret_kind
}.

Definition takes_data (verb : string) : bool := String.eqb verb "post" || String.eqb verb "put".

Definition call (m : method_ir) : request :=
  let misplaced := negb (takes_data (mi_verb m)) && match mi_second m with ANone => false | _ => true end in
  {| rq_verb := mi_verb m; rq_url := mi_url m;
     rq_body := if misplaced then BMisplaced else
                match mi_second m with AFormData => BForm (mi_form m) | AParams => BJson | ANull => BNull | ANone => BNone end;
     rq_query := if misplaced then [] else mi_query m;
     rq_headers := negb misplaced;
     rq_arraybuffer := if misplaced then false else mi_arraybuffer m;
     rq_result := mi_return m |}.

(** * the request the statement specifies *)
Definition request_of (a : aendpoint) : request :=
  let e := ae a in
  {| rq_verb := lower (ep_method e); rq_url := ep_url e;
     rq_body := if with_form e then
                  BForm ((if String.eqb (ep_file e) "" then [] else [(ep_file e, FFile)])
                         ++ map (fun v => (v, FParam v)) (ep_form_values e)
                         ++ (if String.eqb (fst (ep_json e)) "" then [] else [(fst (ep_json e), FJson)]))
                else if has_body e then BJson
                else if expects_body e then BNull else BNone;
     rq_query := map (fun qk => (fst (fst qk), conv_of (snd qk))) (combine (ep_query e) (ae_kinds a));
     rq_headers := true;
     rq_arraybuffer := ep_blob e;
     rq_result := if no_return e then RTrue else if ep_blob e then RBlob else RData |}.

(** the class on which the generated call is right: a data argument only with POST / PUT *)
Definition body_verb_ok (e : endpoint) : bool := expects_body e || negb (with_form e || has_body e).
