(** Model of generator/typescript as a traversal (Generate, generateTypes, generate and the codeFor functions): which type
    declarations are emitted, in which order, under which name, and which type names each one mentions. Like
    randdata, every kind of type follows one scheme: visit the children, then emit the declaration of the type (if it
    has one), which mentions the names of its children. *)
From Coq Require Import List String Ascii ZArith Bool Arith.
From GM Require Import Base.Result Facts.GoFacts Facts.Ana Model.Enums Model.Fields Model.Classify Model.Names Model.SqlTypes Model.Dart.
Import ListNotations.
Local Open Scope string_scope.

Record tsdecl := { td_id : string; td_name : string; td_mentions : list string }.

Definition ts_builtin (s : string) : bool :=
  String.eqb s "number" || String.eqb s "string" || String.eqb s "boolean" || String.eqb s "unknown".

Definition ts_basic (k : bkind) : result string :=
  match class_of_kind k with
  | Some BKInt => Ok "Int" | Some BKFloat => Ok "number" | Some BKString => Ok "string" | Some BKBool => Ok "boolean"
  | None => Diag "basic kind not supported"
  end.

Section Gen.
  Variable pr : prog.
  Variable nodes : list nrec.

  (** the key of a node in generator.Cache (as in Model/RandGen.v) *)
  Definition node_key (n : nrec) : option string :=
    match nr_kind n with
    | KdTime => Some (if nr_is_date n then "#Date" else "#Time")
    | KdNamed | KdEnum | KdStruct | KdUnion => match nr_self n with GNamed id => Some id | _ => None end
    | _ => None
    end.

  (** typeName of a defined type: the local name followed by the type arguments (the model uses this form for enums
      and unions too: they are never generic) *)
  Definition key_name (k : string) : string :=
    if String.eqb k "#Date" then "Date_" else if String.eqb k "#Time" then "Time" else inst_name pr k.

  (** typeName, where it is a single name *)
  Fixpoint tname (fuel : nat) (t : gty) : result string :=
    match fuel with
    | O => Crash "out of fuel"
    | S f =>
      match find_node t nodes with
      | None => Crash "no node at this position"
      | Some n =>
          match node_key n with
          | Some k => Ok (key_name k)
          | None =>
              match nr_kind n, nr_children n with
              | KdBasic, _ => match nr_bkind n with Some k => ts_basic k | None => Crash "basic node without kind" end
              | KdArray, c :: _ =>
                  if Z.leb 0 (nr_len n) then
                    match find_node c nodes with
                    | Some cn =>
                        match nr_kind cn with
                        | KdArray => if Z.eqb (nr_len cn) (-1) then Diag "Fixed array of slices not supported"
                                     else do e <- tname f c; Ok ("Ar" ++ z_dec (nr_len n) ++ "_" ++ e)
                        | KdMap => Diag "Fixed array of maps not supported"
                        | _ => do e <- tname f c; Ok ("Ar" ++ z_dec (nr_len n) ++ "_" ++ e)
                        end
                    | None => Crash "no node at the element position"
                    end
                  else Diag "a slice has no name"
              | KdPointer, _ => Diag "pointers not handled by Typescript generator"
              | _, _ => Diag "not a single name"
              end
          end
      end
    end.

  Variable F : nat.   (* fuel of tname: the nesting depth of fixed arrays *)

  (** the names the rendering of a type mentions: those of the elements for the anonymous slices and maps, which have
      no declaration of their own *)
  Fixpoint names_in (t : gty) : result (list string) :=
    match t with
    | GSlice e => names_in e
    | GMap k v => do a <- names_in k; do b <- names_in v; Ok (a ++ b)%list
    | GPointer _ => Diag "pointers not handled by Typescript generator"
    | _ => do s <- tname F t; Ok [s]
    end.

  Definition is_int_basic (t : gty) : bool :=
    match find_node t nodes with
    | Some n => akind_eqb (nr_kind n) KdBasic && match nr_bkind n with Some k => kind_is_integer k | None => false end
    | None => false
    end.

  Definition ts_fields (n : nrec) : list afield :=
    filter (fun f => exported (sfield_of f) && negb (is_opaque_for "typescript" (sfield_of f))) (nr_fields n).

  (** codeForNamed does not declare a named type whose name is the name of its underlying type (type Time time.Time) *)
  Definition same_as_target (n : nrec) (u : gty) : bool :=
    match node_key n, tname F u with Some k, Ok s => String.eqb (key_name k) s | _, _ => false end.

  (** the positions visited below a node *)
  Definition kids (n : nrec) : result (list gty) :=
    match nr_kind n with
    | KdBasic | KdTime | KdEnum => Ok []
    | KdPointer => Diag "pointers not handled by Typescript generator"
    | KdArray => match nr_children n with c :: _ => Ok [c] | [] => Crash "array without element" end
    | KdMap => match nr_children n with k :: c :: _ => Ok [k; c] | _ => Crash "map without links" end
    | KdNamed => match nr_children n with u :: _ => if is_int_basic u then Ok [] else Ok [u] | [] => Crash "named type without underlying type" end
    | KdStruct => Ok (map af_type (ts_fields n))
    | KdUnion => Ok (nr_children n)
    end.

  Definition self_id (n : nrec) : string := match nr_self n with GNamed id => id | _ => "" end.

  (** the declaration of the type itself, if any *)
  Definition own_decl (t : gty) (n : nrec) : result (list tsdecl) :=
    match nr_kind n with
    | KdBasic => match nr_bkind n with
                 | Some k => if kind_is_integer k then Ok [{| td_id := "__int_def"; td_name := "Int"; td_mentions := [] |}] else Ok []
                 | None => Crash "basic node without kind" end
    | KdTime => if nr_is_date n then Ok [{| td_id := "__date_def"; td_name := "Date_"; td_mentions := [] |}]
                else Ok [{| td_id := "__time_def"; td_name := "Time"; td_mentions := [] |}]
    | KdPointer => Diag "pointers not handled by Typescript generator"
    | KdArray =>
        if Z.leb 0 (nr_len n) then
          do name <- tname F t;
          match nr_children n with
          | c :: _ => do e <- tname F c; Ok [{| td_id := name; td_name := name; td_mentions := if Z.eqb (nr_len n) 0 then [] else [e] |}]
          | [] => Crash "array without element" end
        else Ok []
    | KdMap => Ok []
    | KdNamed =>
        match nr_children n with
        | u :: _ =>
            do name <- tname F t;
            if is_int_basic u then Ok [{| td_id := self_id n; td_name := name; td_mentions := [] |}]
            else if same_as_target n u then Ok []
            else do ms <- names_in u; Ok [{| td_id := self_id n; td_name := name; td_mentions := ms |}]
        | [] => Crash "named type without underlying type" end
    | KdEnum => do name <- tname F t; Ok [{| td_id := self_id n; td_name := name; td_mentions := [] |}]
    | KdStruct =>
        do name <- tname F t;
        do ms <- mapM (fun f => names_in (af_type f)) (ts_fields n);
        Ok [{| td_id := self_id n; td_name := name; td_mentions := List.concat ms |}]
    | KdUnion =>
        do name <- tname F t;
        do ms <- mapM (tname F) (nr_children n);
        Ok [{| td_id := self_id n; td_name := name; td_mentions := ms |}]
    end.

  Fixpoint gen_list (g : list string -> gty -> result (list string * list tsdecl)) (ts : list gty) (cache : list string)
    : result (list string * list tsdecl) :=
    match ts with
    | [] => Ok (cache, [])
    | t :: r => do x <- g cache t; do y <- gen_list g r (fst x); Ok (fst y, (snd x ++ snd y)%list)
    end.

  Fixpoint generate (fuel : nat) (cache : list string) (t : gty) {struct fuel} : result (list string * list tsdecl) :=
    match fuel with
    | O => Crash "out of fuel"
    | S f =>
      match find_node t nodes with
      | None => Crash "no node at this position"
      | Some n =>
          let hit := match node_key n with Some k => existsb (String.eqb k) cache | None => false end in
          if hit then Ok (cache, []) else
          let cache1 := match node_key n with Some k => k :: cache | None => cache end in
          do ks <- kids n;
          do r <- gen_list (generate f) ks cache1;
          do ds <- own_decl t n;
          Ok (fst r, (snd r ++ ds)%list)
      end
    end.

  Definition ts_fuel : nat := 2 * List.length nodes + 2.

  (** generateTypes, without the header *)
  Definition ts_types (source : list gty) : result (list tsdecl) :=
    do r <- gen_list (generate ts_fuel) source []; Ok (snd r).

  Definition declared (ds : list tsdecl) : list string := map td_name ds.

  (** every name mentioned is built in or declared by the output *)
  Definition closed (ds : list tsdecl) : bool :=
    forallb (fun d => forallb (fun m => ts_builtin m || existsb (String.eqb m) (declared ds)) (td_mentions d)) ds.

  (** premise of the closure theorem: the node found at a slice, map or pointer position is of that kind and links to
      the element positions (part of the faithfulness C12 checks on every observed analysis) *)
  Definition shape_ok (n : nrec) : bool :=
    match nr_at n with
    | GSlice e => akind_eqb (nr_kind n) KdArray && Z.eqb (nr_len n) (-1) && match nr_children n with [c] => gty_eqb c e | _ => false end
    | GMap k v => akind_eqb (nr_kind n) KdMap && match nr_children n with [a; b] => gty_eqb a k && gty_eqb b v | _ => false end
    | GPointer _ => akind_eqb (nr_kind n) KdPointer
    | _ => negb (akind_eqb (nr_kind n) KdMap) && negb (akind_eqb (nr_kind n) KdPointer)
           && (negb (akind_eqb (nr_kind n) KdArray) || Z.leb 0 (nr_len n))
    end.
  Definition shapes_ok : bool := forallb shape_ok nodes.

  (** premise of the closure theorem: no named type is called like its underlying type (then it has no declaration) *)
  Definition no_self_alias : bool :=
    forallb (fun n => match nr_kind n, nr_children n with
                      | KdNamed, u :: _ => is_int_basic u || negb (same_as_target n u)
                      | _, _ => true end) nodes.
End Gen.
