(** Model of generator/dart as a traversal (Generate, buffer.generate and the codeFor functions): which declarations
    are appended to which output file, in which order, under which identifier, which declarations each one refers to
    (the class / typedef and the JSON helpers of the types it uses live in the declaration of that type), and which
    import edges are recorded. Every kind of type follows one scheme: visit the children, which return the file they
    were emitted in, then append the declaration of the type to its own file together with those files as imports.
    Anonymous slices, arrays and maps are emitted in the file of their user. *)
From Coq Require Import List String Ascii ZArith Bool Arith.
From GM Require Import Base.Result Base.StrOrd Facts.GoFacts Facts.Ana Model.Enums Model.Fields Model.Classify Model.Names Model.SqlTypes Model.Dart Model.TsGen.
Import ListNotations.
Local Open Scope string_scope.

Record ddecl := { dd_file : string; dd_id : string; dd_mentions : list string; dd_impl : list string }.
Record dstate := { ds_cache : list string; ds_decls : list ddecl; ds_imps : list (string * string) }.

Definition predefined_file : string := "predefined.dart".

Definition dart_basic (k : bkind) : result string :=
  match class_of_kind k with
  | Some BKInt => Ok "int" | Some BKFloat => Ok "double" | Some BKString => Ok "String" | Some BKBool => Ok "bool"
  | None => Crash "basic kind not supported"
  end.

Section Gen.
  Variable root : string.
  Variable pr : prog.
  Variable nodes : list nrec.

  (** typeName of a defined type *)
  Definition dart_name (id : string) : string := title (inst_name pr id).

  (** Linker.GetOutput of a defined type *)
  Definition file_of_named (id : string) : string :=
    match find_type id (pr_types pr) with
    | Some d => dart_out_file root (n_pkg d)
    | None => ".dart"
    end.

  (** jsonID: the prefix of the JSON helpers of a type. The identifier of the declaration of an anonymous slice or
      map is this prefix; the other declarations are identified by the name of the type *)
  Fixpoint json_id (fuel : nat) (t : gty) : result string :=
    match fuel with
    | O => Crash "out of fuel"
    | S f =>
      match find_node t nodes with
      | None => Crash "no node at this position"
      | Some n =>
          match nr_kind n with
          | KdPointer => Crash "pointers not handled by the Dart generator"
          | KdBasic => match nr_bkind n with Some k => do s <- dart_basic k; Ok (lower_first_ok s) | None => Crash "basic node without kind" end
          | KdTime => Ok "dateTime"
          | KdArray => match nr_children n with
                       | c :: _ => do e <- json_id f c; Ok ("list" ++ title e)
                       | [] => Crash "array without element" end
          | KdMap => match nr_children n with
                     | k :: c :: _ => do a <- json_id f k; do b <- json_id f c; Ok ("dict" ++ title a ++ "To" ++ title b)
                     | _ => Crash "map without links" end
          | KdNamed | KdEnum | KdStruct | KdUnion =>
              match nr_self n with GNamed id => Ok (lower_first_ok (dart_name id)) | _ => Crash "defined type without name" end
          end
      end
    end.

  Variable F : nat.   (* fuel of json_id: the nesting depth of anonymous containers *)

  (** identifier and file of the declaration of a cached type (key of generator.Cache, see TsGen.node_key) *)
  Definition is_time_key (k : string) : bool := String.eqb k "#Date" || String.eqb k "#Time".
  Definition key_id (k : string) : string := if is_time_key k then "__DateTime_json" else dart_name k.
  Definition key_file (k : string) : string := if is_time_key k then predefined_file else file_of_named k.

  (** the identifier of the declaration emitted for a type *)
  Definition decl_id (t : gty) : result string :=
    match find_node t nodes with
    | None => Crash "no node at this position"
    | Some n =>
        match node_key n with
        | Some k => Ok (key_id k)
        | None =>
            match nr_kind n with
            | KdPointer => Crash "pointers not handled by the Dart generator"
            | KdBasic => match nr_bkind n with Some k => do s <- dart_basic k; Ok (s ++ "_json") | None => Crash "basic node without kind" end
            | KdArray | KdMap => json_id F t
            | _ => Crash "defined type without name"
            end
        end
    end.

  Definition dart_fields (n : nrec) : list afield :=
    filter (fun f => exported (sfield_of f) && negb (is_opaque_for "dart" (sfield_of f))) (nr_fields n).

  (** the positions visited below a node, in visit order *)
  Definition dkids (n : nrec) : result (list gty) :=
    match nr_kind n with
    | KdBasic | KdTime | KdEnum => Ok []
    | KdPointer => Crash "pointers not handled by the Dart generator"
    | KdArray | KdNamed => match nr_children n with c :: _ => Ok [c] | [] => Crash "node without link" end
    | KdMap => match nr_children n with k :: c :: _ => Ok [k; c] | _ => Crash "map without links" end
    | KdStruct => Ok (map af_type (dart_fields n))
    | KdUnion => Ok (nr_children n)
    end.

  (** the file a node is emitted in: its own for a cached type, the file of the user for an anonymous slice, array
      or map, predefined.dart otherwise; it is also the file handed to the children as their parent *)
  Definition out_file (n : nrec) (parent : string) : string :=
    match node_key n with
    | Some k => key_file k
    | None => match nr_kind n with KdArray | KdMap => parent | _ => predefined_file end
    end.

  Definition union_is_exported (id : string) : bool :=
    match find_type id (pr_types pr) with Some d => n_exported d | None => false end.

  Definition implements_mentions (n : nrec) : list string :=
    match nr_kind n with
    | KdStruct => map (local_name_of pr) (filter union_is_exported (nr_implements n))
    | _ => []
    end.

  Fixpoint dgen_list (g : dstate -> gty -> result (dstate * string)) (ts : list gty) (st : dstate)
    : result (dstate * list string) :=
    match ts with
    | [] => Ok (st, [])
    | t :: r => do x <- g st t; do y <- dgen_list g r (fst x); Ok (fst y, snd x :: snd y)
    end.

  (** what follows the cache test: the children, then the declaration of the type itself with the files of the children
      as imports *)
  Definition dtail (g : dstate -> gty -> result (dstate * string)) (outfile : string) (n : nrec) (t : gty) (st1 : dstate)
    : result (dstate * string) :=
    do ks <- dkids n;
    do r <- dgen_list g ks st1;
    do id <- decl_id t;
    do ms <- mapM decl_id ks;
    Ok ({| ds_cache := ds_cache (fst r);
           ds_decls := (ds_decls (fst r) ++ [{| dd_file := outfile; dd_id := id; dd_mentions := ms; dd_impl := implements_mentions n |}])%list;
           ds_imps := (ds_imps (fst r) ++ map (fun f => (outfile, f)) (snd r))%list |}, outfile).

  Fixpoint dgenerate (fuel : nat) (parent : string) (st : dstate) (t : gty) {struct fuel} : result (dstate * string) :=
    match fuel with
    | O => Crash "out of fuel"
    | S f =>
      match find_node t nodes with
      | None => Crash "no node at this position"
      | Some n =>
          let outfile := out_file n parent in
          match node_key n with
          | Some k =>
              if existsb (String.eqb k) (ds_cache st) then Ok (st, outfile)
              else dtail (dgenerate f outfile) outfile n t {| ds_cache := k :: ds_cache st; ds_decls := ds_decls st; ds_imps := ds_imps st |}
          | None => dtail (dgenerate f outfile) outfile n t st
          end
      end
    end.

  Definition dart_fuel : nat := 2 * List.length nodes + 2.

  Definition source_file (t : gty) : string :=
    match t with GNamed id => file_of_named id | _ => predefined_file end.

  Fixpoint dart_sources (ts : list gty) (st : dstate) : result dstate :=
    match ts with
    | [] => Ok st
    | t :: r => do x <- dgenerate dart_fuel (source_file t) st t; dart_sources r (fst x)
    end.

  Definition dart_run (source : list gty) : result dstate :=
    dart_sources source {| ds_cache := []; ds_decls := []; ds_imps := [] |}.
End Gen.

(** * Assembling one file (the end of Generate): the imports recorded for the file, without the file itself, each once,
      sorted; then the declarations of the file in the order they were appended *)
Definition imports_of (file : string) (imps : list (string * string)) : list string :=
  sort_nodup (map snd (filter (fun e => String.eqb (fst e) file && negb (String.eqb (snd e) file)) imps)).

Definition decl_ids_of (file : string) (ds : list ddecl) : list string :=
  map dd_id (filter (fun d => String.eqb (dd_file d) file) ds).

(** WriteDeclarations keeps the first declaration of every identifier *)
Fixpoint dedup_ids (seen l : list string) : list string :=
  match l with
  | [] => []
  | x :: r => if existsb (String.eqb x) seen then dedup_ids seen r else x :: dedup_ids (x :: seen) r
  end.

(** * The link condition on the model's output: every identifier a declaration refers to is declared in its file or
      in a file its file imports *)
Definition visible_from (st : dstate) (file : string) : list string :=
  file :: imports_of file (ds_imps st).

Definition links_closed (st : dstate) : bool :=
  forallb (fun d =>
    forallb (fun m => existsb (fun d' => String.eqb (dd_id d') m && existsb (String.eqb (dd_file d')) (visible_from st (dd_file d))) (ds_decls st))
            (dd_mentions d ++ dd_impl d))
    (ds_decls st).
