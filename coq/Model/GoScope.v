(** C01: the obligations the Go templates put on their holes, for the parts of the three Go generators
    that decide identifiers: the enum choice list of randdata.codeForEnum, the constant names of
    gounions.jsonForUnion, the receiver of the Scan/Value methods of sqlcrud (canImplementValuer).
    Go's type checker itself is not modelled: the decisive check of C01 is go/types on the real output. *)
From Coq Require Import List String Bool Arith.
From GM Require Import Base.Result Facts.GoFacts Model.Enums Model.Names.
Import ListNotations.
Local Open Scope string_scope.

(** randdata.codeForEnum as fixed: the exported members, appended *)
Definition enum_choices (ms : list emember) : list string := map em_name (filter em_exported ms).

(** as pinned: a slot per member, left empty for the unexported ones *)
Definition enum_choices_pinned (ms : list emember) : list string :=
  map (fun m => if em_exported m then em_name m else "") ms.

(** `choix := [...]E{a, b, c}` is a valid composite literal iff no element is empty *)
Definition valid_expr_list (l : list string) : bool := forallb (fun s => negb (String.eqb s "")) l.

(** sqlcrud.canImplementValuer: a method can only be declared on a defined, non-interface type of the target package *)
Definition receiver_ok (types : list ndecl) (target_pkg : string) (id : string) : bool :=
  match find_type id types with
  | Some d => String.eqb (n_pkg d) target_pkg && negb (match n_under d with UInterface _ => true | UPointer _ => true | _ => false end)
  | None => false
  end.

Fixpoint nodup_strs (l : list string) : bool :=
  match l with [] => true | x :: r => negb (existsb (String.eqb x) r) && nodup_strs r end.

(** no identifier declared twice in the generated file, none already declared by the package *)
Definition no_redeclaration (scope declared : list string) : bool :=
  nodup_strs declared && forallb (fun d => negb (existsb (String.eqb d) scope)) declared.
