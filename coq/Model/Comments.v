(** Model of the SQL comment directives: analysis/compounds.go (isSpecialComment), analysis/sql
    (processComments, isSelectKey, newCustomQuery), generator/generator.go (TableNameReplacer.Replace,
    ReplaceEnums) and generator/sql/tables.go (generateCustomConstraint, generateQuardConstraint),
    generator/go/sqlcrud (generateCustomQueries). The regular expressions are written as scanners. *)
From Coq Require Import List String Ascii ZArith Bool Arith.
From GM Require Import Base.Result Facts.GoFacts Facts.Ana Model.Enums Model.Fields Model.Classify Model.SqlTypes.
Import ListNotations.
Local Open Scope string_scope.

(** the word class of the regular expressions: letters, digits, underscore *)
Definition is_word (c : ascii) : bool := is_upper c || is_lower c || is_digit c || Ascii.eqb c "_"%char.

(** * tokens: maximal runs of word characters and maximal runs of other characters *)
Fixpoint tokens_aux (s : string) (cur : string) (cur_word : bool) : list string :=
  match s with
  | EmptyString => match cur with EmptyString => [] | _ => [cur] end
  | String c r =>
      let w := is_word c in
      match cur with
      | EmptyString => tokens_aux r (String c EmptyString) w
      | _ => if Bool.eqb w cur_word then tokens_aux r (cur ++ String c EmptyString) cur_word
             else cur :: tokens_aux r (String c EmptyString) w
      end
  end.
Definition tokens (s : string) : list string := tokens_aux s EmptyString false.

Definition token_is_word (t : string) : bool := match t with String c _ => is_word c | EmptyString => false end.

(** TableNameReplacer.Replace: every maximal word found in the table is substituted, nothing else changes *)
Fixpoint lookup_str (k : string) (tbl : list (string * string)) : option string :=
  match tbl with [] => None | (k', v) :: r => if String.eqb k k' then Some v else lookup_str k r end.

Definition subst_word (tbl : list (string * string)) (t : string) : string :=
  if token_is_word t then match lookup_str t tbl with Some v => v | None => t end else t.

Definition replace_words (tbl : list (string * string)) (s : string) : string :=
  String.concat "" (map (subst_word tbl) (tokens s)).

(** NewTableNameReplacer: Go struct name -> SQL table name, for the tables of the file *)
Definition name_replacer (table_go_names : list string) : list (string * string) :=
  map (fun n => (n, sql_table_name n)) table_go_names.

(** * enum placeholders  #[Type.Const] *)
Fixpoint take_word (s : string) : string * string :=
  match s with
  | String c r => if is_word c then let '(a, b) := take_word r in (String c a, b) else (EmptyString, s)
  | EmptyString => (EmptyString, EmptyString)
  end.

(** at the head of [s]: "#[" word "." word "]" *)
Definition placeholder_at (s : string) : option (string * string * string) :=
  match s with
  | String h (String b r) =>
      if Ascii.eqb h "#"%char && Ascii.eqb b "["%char then
        let '(ty, r1) := take_word r in
        match ty, r1 with
        | String _ _, String d r2 =>
            if Ascii.eqb d "."%char then
              let '(cn, r3) := take_word r2 in
              match cn, r3 with
              | String _ _, String e r4 => if Ascii.eqb e "]"%char then Some (ty, cn, r4) else None
              | _, _ => None
              end
            else None
        | _, _ => None
        end
      else None
  | _ => None
  end.

Section Enums.
  Variable pr : prog.
  Variable enums : list enum.

  (** GetByName(type) as an Enum, then Get(const): the type is looked up in the scope of the analysed package *)
  Definition enum_literal (ty cn : string) : result string :=
    match find (fun e => String.eqb (en_id e) (pr_root pr ++ "." ++ ty)) enums with
    | None => Diag ("invalid enum placeholder: " ++ ty ++ " is not an enum type")
    | Some e =>
        match find (fun m => String.eqb (em_name m) cn) (en_members e) with
        | Some m => Ok (sql_literal m ++ " /* " ++ ty ++ "." ++ cn ++ " */")
        | None => Diag ("enum value " ++ cn ++ " not found")
        end
    end.

  Fixpoint replace_enums (fuel : nat) (s : string) : result string :=
    match fuel with
    | O => Ok s
    | S f =>
        match s with
        | EmptyString => Ok EmptyString
        | String c r =>
            match placeholder_at s with
            | Some (ty, cn, rest) => do lit <- enum_literal ty cn; do tail <- replace_enums f rest; Ok (lit ++ tail)
            | None => do tail <- replace_enums f r; Ok (String c tail)
            end
        end
    end.
  Definition replace_enums_all (s : string) : result string := replace_enums (S (String.length s)) s.
End Enums.

(** * REFERENCES <word>  ->  REFERENCES <sql table name> *)
Definition references_kw : string := "REFERENCES ".

Fixpoint rewrite_references (fuel : nat) (s : string) : string :=
  match fuel with
  | O => s
  | S f =>
      match s with
      | EmptyString => EmptyString
      | String c r =>
          if String.prefix references_kw s then
            let after := drop (String.length references_kw) s in
            let '(w, rest) := take_word after in
            match w with
            | EmptyString => String c (rewrite_references f r)
            | _ => references_kw ++ sql_table_name w ++ rewrite_references f rest
            end
          else String c (rewrite_references f r)
      end
  end.

(** * _SELECT KEY: internal directive, never printed. Case-insensitive keyword, one optional blank, an opening parenthesis and a closing one somewhere after *)
Definition is_space_re (c : ascii) : bool :=
  let n := nat_of_ascii c in Nat.eqb n 32 || Nat.eqb n 9 || Nat.eqb n 10 || Nat.eqb n 12 || Nat.eqb n 13.

Fixpoint has_char (x : ascii) (s : string) : bool :=
  match s with EmptyString => false | String c r => Ascii.eqb c x || has_char x r end.

Definition select_key_kw : string := "_select key".

Fixpoint is_select_key (s : string) : bool :=
  (String.prefix select_key_kw (lower s) &&
   (let after := drop (String.length select_key_kw) s in
    let after := match after with String c r => if is_space_re c then r else after | _ => after end in
    match after with
    | String c r => Ascii.eqb c "("%char && has_char ")"%char r
    | _ => false end))
  || match s with EmptyString => false | String _ r => is_select_key r end.

(** * constraints of one table *)
Section Constraints.
  Variable pr : prog.
  Variable enums : list enum.
  Variable replacer : list (string * string).

  (** generateCustomConstraint *)
  Definition custom_constraint (table_sql : string) (content : string) : result string :=
    let c1 := rewrite_references (S (String.length content)) content in
    let c2 := replace_words replacer c1 in
    do c3 <- replace_enums_all pr enums c2;
    if String.prefix "ADD" c3 then Ok ("ALTER TABLE " ++ table_sql ++ " " ++ c3 ++ ";")
    else Ok (c3 ++ ";").

  (** generateQuardConstraint: two statements *)
  Definition guard_constraints (table_sql col value : string) : result (list string) :=
    do v <- replace_enums_all pr enums value;
    Ok ["ALTER TABLE " ++ table_sql ++ " ALTER COLUMN " ++ col ++ " SET DEFAULT " ++ v ++ ";";
        "ALTER TABLE " ++ table_sql ++ " ADD CHECK(" ++ col ++ " = " ++ v ++ ");"].

  Definition fk_constraint (table_sql : string) (k : string * string * string) : string :=
    let '(col, target, action) := k in
    "ALTER TABLE " ++ table_sql ++ " ADD FOREIGN KEY(" ++ col ++ ") REFERENCES " ++ target ++ " "
      ++ (if String.eqb action "" then "" else "ON DELETE " ++ action) ++ ";".
End Constraints.

(** * custom queries: word, blanks, equal sign, blanks, dollar, word, dollar *)
Fixpoint skip_ws (s : string) : string :=
  match s with String c r => if is_space_re c then skip_ws r else s | EmptyString => s end.

(** a match starting at the head of [s]: field word, blanks, '=', blanks, '$', name word, '$' *)
Definition field_eq_at (s : string) : option (string * string * string) :=
  let '(fld, r1) := take_word s in
  match fld with
  | EmptyString => None
  | _ =>
      match skip_ws r1 with
      | String e r2 =>
          if Ascii.eqb e "="%char then
            match skip_ws r2 with
            | String d r3 =>
                if Ascii.eqb d "$"%char then
                  let '(nm, r4) := take_word r3 in
                  match nm, r4 with
                  | String _ _, String d2 r5 => if Ascii.eqb d2 "$"%char then Some (fld, nm, r5) else None
                  | _, _ => None
                  end
                else None
            | _ => None end
          else None
      | _ => None end
  end.

(** FindAllStringSubmatch: leftmost matches, non overlapping. The regexp engine backtracks on the field
    word: at a position inside a word, a shorter suffix of the word can start a match. Leftmost wins,
    so a match always starts at the first character of a maximal word or ... at the earliest position
    from which the pattern matches, which is what trying every position in turn computes. *)
Fixpoint find_field_eqs (fuel : nat) (s : string) : list (string * string) :=
  match fuel with
  | O => []
  | S f =>
      match s with
      | EmptyString => []
      | String _ r =>
          match field_eq_at s with
          | Some (fld, nm, rest) => (fld, nm) :: find_field_eqs f rest
          | None => find_field_eqs f r
          end
      end
  end.

(** first-seen numbering *)
Fixpoint number_names (ms : list (string * string)) (seen : list (string * string)) : list (string * string) :=
  match ms with
  | [] => rev seen
  | (fld, nm) :: r => if existsb (fun p => String.eqb (snd p) nm) seen then number_names r seen
                      else number_names r ((fld, nm) :: seen)
  end.

(** strings.NewReplacer over the tokens $name$ -> $k (no token is a prefix of another) *)
Fixpoint index_of_name (nm : string) (inputs : list (string * string)) (k : nat) : option nat :=
  match inputs with
  | [] => None
  | (_, n) :: r => if String.eqb n nm then Some k else index_of_name nm r (S k)
  end.

Fixpoint replace_placeholders (fuel : nat) (inputs : list (string * string)) (s : string) : string :=
  match fuel with
  | O => s
  | S f =>
      match s with
      | EmptyString => EmptyString
      | String c r =>
          if Ascii.eqb c "$"%char then
            let '(nm, r2) := take_word r in
            match nm, r2 with
            | String _ _, String d r3 =>
                if Ascii.eqb d "$"%char then
                  match index_of_name nm inputs 1 with
                  | Some k => "$" ++ nat_dec (S k) k "" ++ replace_placeholders f inputs r3
                  | None => String c (replace_placeholders f inputs r)
                  end
                else String c (replace_placeholders f inputs r)
            | _, _ => String c (replace_placeholders f inputs r)
            end
          else String c (replace_placeholders f inputs r)
      end
  end.

(** strings.Cut(comment, " ") *)
Fixpoint cut_space (s : string) : string * string :=
  match s with
  | EmptyString => (EmptyString, EmptyString)
  | String c r => if Ascii.eqb c " "%char then (EmptyString, r) else let '(a, b) := cut_space r in (String c a, b)
  end.

Record custom_query := { cq_name : string; cq_query : string; cq_inputs : list (string * string) (* (go field, variable) *) }.

(** newCustomQuery: [cols] = Go names of the columns of the table *)
Definition new_custom_query (cols : list string) (comment : string) : result custom_query :=
  let '(name, query) := cut_space comment in
  let inputs := number_names (find_field_eqs (S (String.length comment)) comment) [] in
  match find (fun p => negb (existsb (String.eqb (fst p)) cols)) inputs with
  | Some p => Diag ("unknown field " ++ fst p)
  | None => Ok {| cq_name := name; cq_query := replace_placeholders (S (String.length query)) inputs query; cq_inputs := inputs |}
  end.

(** * the whole constraint section of a script, and the custom queries of the CRUD file *)
Section Script.
  Variable pr : prog.
  Variable enums : list enum.
  Variable a : ana_obs.

  Definition table_nodes : list nrec :=
    flat_map (fun s => match find_node s (ao_nodes a) with
                       | Some n => if akind_eqb (nr_kind n) KdStruct then [n] else []
                       | None => [] end) (ao_source a).

  Definition go_name_of (n : nrec) : string :=
    match nr_at n with GNamed id => local_name_of pr id | _ => "" end.

  Definition replacer : list (string * string) := name_replacer (map go_name_of table_nodes).

  Definition table_constraints (n : nrec) : result (list string) :=
    let tsql := sql_table_name (go_name_of n) in
    let cols := table_columns n in
    (* NewTable parses the QUERY directives first: an unknown field refuses the whole file *)
    do _ <- mapM (new_custom_query (map af_name cols))
                 (flat_map (fun c => if Nat.eqb (fst c) 2 then [snd c] else []) (nr_comments n));
    do customs <- mapM (custom_constraint pr enums replacer tsql)
                       (flat_map (fun c => if Nat.eqb (fst c) 1 && negb (is_select_key (snd c)) then [snd c] else []) (nr_comments n));
    do fks <- foreign_keys pr (ao_nodes a) (go_name_of n) cols;
    do guards <- mapM (fun c => guard_constraints pr enums tsql (af_name c) (guard_of c)) (filter is_guard cols);
    Ok (customs ++ map (fun k => let '(c, tgt, act) := k in fk_constraint tsql (c, sql_table_name tgt, act)) fks ++ List.concat guards)%list.

  Definition script_constraints : result (list string) :=
    do per <- mapM table_constraints table_nodes; Ok (List.concat per).

  (** sqlcrud.generateCustomQueries: (function name, variables in order, query text given to Exec) *)
  Definition table_queries (n : nrec) : result (list (string * list string * string)) :=
    mapM (fun c =>
            do q <- new_custom_query (map af_name (table_columns n)) c;
            do text <- replace_enums_all pr enums (replace_words replacer (cq_query q));
            Ok (cq_name q, map snd (cq_inputs q), text))
         (flat_map (fun c => if Nat.eqb (fst c) 2 then [snd c] else []) (nr_comments n)).

  Definition script_queries : result (list (string * list string * string)) :=
    do per <- mapM table_queries table_nodes; Ok (List.concat per).
End Script.
