(** C07: the places where gomacro ranges over a Go map, and why each of them is independent of the
    iteration order. A Go map is a finite set of bindings with distinct keys; ranging over it visits
    some permutation of the bindings. Each site of the table is of one of the kinds below; the
    order-independence lemma of every kind is proved in Proofs/C07.v. *)
From Coq Require Import List String Bool.
Import ListNotations.
Local Open Scope string_scope.

Inductive site_kind :=
| MergeDistinctKeys     (* out[k] = v for every binding: the resulting map does not depend on the order *)
| ForEachIndependent    (* an update of each value that reads no other binding *)
| CollectThenSort       (* append the keys (or a projection) to a list, sort the list afterwards *)
| FirstHitUnique        (* return the first binding satisfying a predicate that at most one satisfies *)
| SetOfFiles.           (* dart.Generate: the list of outputs is a set (one entry per file name), its order is not part of the result *)

(** (package, function, type of the ranged map) -> kind *)
Definition site_table : list (string * string * string * site_kind) := [
  ("analysis", "Analysis.populateTypes", "map[types.Type]analysis.Type", ForEachIndependent);
  ("analysis", "Linker.OutputFiles", "map[*types.Named]string", CollectThenSort);
  ("analysis", "Linker.OutputFiles", "map[string]bool", CollectThenSort);
  ("analysis", "NewLinker", "map[types.Type]analysis.Type", MergeDistinctKeys);
  ("analysis", "PkgSelector.findPackage", "map[string]*packages.Package", FirstHitUnique);
  ("analysis", "Struct.setImplements", "analysis.unionsMap", CollectThenSort);
  ("analysis", "fetchEnumsAndUnions", "analysis.enumsMap", MergeDistinctKeys);
  ("analysis", "fetchEnumsAndUnions", "map[string]*packages.Package", MergeDistinctKeys);
  ("analysis", "fetchEnumsAndUnions", "analysis.unionsMap", MergeDistinctKeys);
  ("analysis", "fetchPkgEnums", "analysis.enumsMap", ForEachIndependent);
  ("analysis/httpapi", "selectFileByPos", "map[string]*packages.Package", FirstHitUnique);
  ("analysis/httpapi", "selectPackage", "map[string]*packages.Package", FirstHitUnique);
  ("cmd", "Config.run", "main.Config", CollectThenSort);
  ("generator", "Cache.ImportsFor", "generator.Cache", CollectThenSort);
  ("generator", "Cache.ImportsFor", "map[string]bool", CollectThenSort);
  ("generator/dart", "Generate", "map[string]*dart.outFile", SetOfFiles);
  ("generator/dart", "Generate", "map[string]bool", CollectThenSort)
].

(** sources of nondeterminism other than map order that the generators are allowed to contain: none *)
Definition allowed_others : list string := [].
