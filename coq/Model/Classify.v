(** Model of analysis/analysis.go: createType (one level), the closure of handleType over the
    declarations of the source file, and the Type() reconstruction of every node kind. *)
From Coq Require Import List String ZArith Bool Arith Ascii.
From GM Require Import Base.Result Base.StrOrd Facts.GoFacts Facts.Ana Model.Enums Model.Unions Model.Fields.
Import ListNotations.
Local Open Scope string_scope.

Definition time_struct_string : string := "struct{wall uint64; ext int64; loc *time.Location}".

(** strings.ToLower on ASCII, enough for the "date" heuristic on identifiers *)
Definition lower_ascii (c : ascii) : ascii :=
  let n := nat_of_ascii c in
  if (Nat.leb 65 n && Nat.leb n 90)%bool then ascii_of_nat (n + 32) else c.
Fixpoint lower (s : string) : string :=
  match s with EmptyString => EmptyString | String c r => String (lower_ascii c) (lower r) end.

(** the Time node below a user-defined time type sits at the position of that type's underlying
    struct; the harness names this position after the defined type *)
Definition time_pos_prefix : string := "time struct of ".

Fixpoint drop (n : nat) (s : string) : string :=
  match n, s with O, _ => s | S n', String _ r => drop n' r | S _, EmptyString => EmptyString end.

(** the go/types type at the position of a defined type's underlying type *)
Definition under_gty (d : ndecl) : gty :=
  match n_under d with
  | UBasic k => GBasic k
  | UStruct _ => if n_is_time d then GStructLit (time_pos_prefix ++ n_id d) else GStructLit ("struct of " ++ n_id d)
  | UInterface _ => GOther ("interface of " ++ n_id d)
  | UPointer t => GPointer t
  | UArray n t => GArray n t
  | USlice t => GSlice t
  | UMap k v => GMap k v
  | UOther s => GOther s
  end.

(** one level of createType: the node kind and the positions it links to *)
Record shape := {
  sh_kind : akind;
  sh_self : gty;              (* what Type() of the node returns, time/date as predefined *)
  sh_len : Z;
  sh_bkind : option bkind;
  sh_is_date : bool;
  sh_children : list gty
}.

Definition mk_shape k self len bk date ch : shape :=
  {| sh_kind := k; sh_self := self; sh_len := len; sh_bkind := bk; sh_is_date := date; sh_children := ch |}.

Definition time_self (is_date : bool) : gty := GNamed (if is_date then "Date" else "Time").

(** Type() rebuilds composite types from the Type() of their elements, so time.Time shows up as the
    predefined Time inside slices, arrays, maps and pointers too *)
Fixpoint predef (t : gty) : gty :=
  match t with
  | GNamed id => if String.eqb id "time.Time" then GNamed "Time" else t
  | GPointer e => GPointer (predef e)
  | GArray n e => GArray n (predef e)
  | GSlice e => GSlice (predef e)
  | GMap k e => GMap (predef k) (predef e)
  | _ => t
  end.

(** the structural components of a position *)
Fixpoint subterms (t : gty) : list gty :=
  t :: match t with
       | GPointer e | GArray _ e | GSlice e => subterms e
       | GMap k e => subterms k ++ subterms e
       | _ => []
       end.

Fixpoint dedup_gty (l : list gty) : list gty :=
  match l with [] => [] | x :: r => if existsb (gty_eqb x) r then dedup_gty r else x :: dedup_gty r end.

Section Classify.
  Variable pr : prog.
  Variable enums : list enum.
  Variable unions : list (string * list string).

  Definition is_enum (id : string) : bool := existsb (fun e => String.eqb (en_id e) id) enums.
  Definition union_members (id : string) : option (list string) :=
    match find (fun u => String.eqb (fst u) id) unions with Some u => Some (snd u) | None => None end.

  (** embedded struct fields are flattened: the children of a struct are the positions of its
      (flattened) fields; flattening needs the struct of the embedded field, hence the fuel *)
  Fixpoint flat_fields (fuel : nat) (fs : list gfield) : list gfield :=
    match fuel with
    | O => fs
    | S f =>
        flat_map (fun fd =>
          (* an embedded struct is merged unless its json tag carries a name (as encoding/json) *)
          if f_embedded fd && String.eqb (before_comma (tag_lookup "json" (f_tag fd))) "" then
            match f_type fd with
            | GNamed id =>
                match find_type id (pr_types pr) with
                | Some d =>
                    match n_under d with
                    | UStruct fs' =>
                        if n_is_time d || is_enum id || (match union_members id with Some _ => true | None => false end)
                        then [fd] else flat_fields f fs'
                    | _ => [fd]
                    end
                | None => [fd]
                end
            | _ => [fd]
            end
          else [fd]) fs
    end.

  Definition classify (t : gty) : result shape :=
    match t with
    | GBasic k => Ok (mk_shape KdBasic (GBasic k) 0 (Some k) false [])
    | GPointer e => Ok (mk_shape KdPointer (predef (GPointer e)) 0 None false [e])
    | GArray n e => Ok (mk_shape KdArray (predef (GArray n e)) n None false [e])
    | GSlice e => Ok (mk_shape KdArray (predef (GSlice e)) (-1) None false [e])
    | GMap k e => Ok (mk_shape KdMap (predef (GMap k e)) 0 None false [k; e])
    | GStructLit s =>
        if String.prefix time_pos_prefix s then
          match find_type (drop (String.length time_pos_prefix) s) (pr_types pr) with
          | Some d => let is_date := contains "date" (lower (n_name d)) in
                      Ok (mk_shape KdTime (time_self is_date) 0 None is_date [])
          | None => Diag "anonymous structs are not supported"
          end
        else Diag "anonymous structs are not supported"
    | GOther s => Diag ("unsupported type " ++ s)
    | GNamed id =>
        match find_type id (pr_types pr) with
        | None => Diag ("unknown type " ++ id)
        | Some d =>
            if n_is_time d then
              let is_date := contains "date" (lower (n_name d)) in
              if String.eqb (n_pkg d) "time"
              then Ok (mk_shape KdTime (time_self is_date) 0 None is_date [])
              else Ok (mk_shape KdNamed (GNamed id) 0 None false [under_gty d])
            else if is_enum id then Ok (mk_shape KdEnum (GNamed id) 0 None false [])
            else match union_members id with
            | Some ms => Ok (mk_shape KdUnion (GNamed id) 0 None false (map GNamed ms))
            | None =>
                match n_under d with
                | UStruct fs =>
                    Ok (mk_shape KdStruct (GNamed id) 0 None false
                          (map f_type (flat_fields (List.length (pr_types pr)) fs)))
                | UPointer _ => Diag ("named pointer types are not supported: " ++ id)
                | UInterface _ | UOther _ => Diag ("unsupported type " ++ id)
                | _ => Ok (mk_shape KdNamed (GNamed id) 0 None false [under_gty d])
                end
            end
        end
    end.

  (** closure: worklist over positions, [seen] = positions already classified *)
  Definition seen_mem (t : gty) (seen : list (gty * shape)) : bool := existsb (fun p => gty_eqb (fst p) t) seen.

  Fixpoint closure (fuel : nat) (work : list gty) (seen : list (gty * shape)) : result (list (gty * shape)) :=
    match fuel with
    | O => Crash "out of fuel (unbounded recursion)"
    | S f =>
        match work with
        | [] => Ok (rev seen)
        | t :: rest =>
            if seen_mem t seen then closure f rest seen
            else
              do sh <- classify t;
              closure f (sh_children sh ++ rest) ((t, sh) :: seen)
        end
    end.

  (** * the finite universe of the positions of a program, and the bound it gives on the fuel *)
  Definition cost (t : gty) : nat := match classify t with Ok sh => List.length (sh_children sh) | _ => 0 end.
  Definition unseen (U : list gty) (seen : list (gty * shape)) : list gty := filter (fun t => negb (seen_mem t seen)) U.
  Definition pot (U : list gty) (seen : list (gty * shape)) : nat := list_sum (map cost (unseen U seen)).

  Definition struct_children (d : ndecl) : list gty :=
    match n_under d with UStruct fs => map f_type (flat_fields (List.length (pr_types pr)) fs) | _ => [] end.

  (** what a named position can link to: the underlying type, the field types, the members of an union *)
  Definition roots : list gty :=
    flat_map (fun d => GNamed (n_id d) :: under_gty d :: struct_children d) (pr_types pr)
    ++ flat_map (fun u : string * list string => map GNamed (snd u)) unions.

  Definition universe : list gty := dedup_gty (flat_map subterms roots).

  (** the length of the initial worklist plus everything the universe can ever push *)
  Definition closure_bound (source : list gty) : nat := List.length source + pot universe [].
End Classify.

(** the source declarations: type names of the analysed file, by position *)
Definition analyse_closure (pr : prog) (enums : list enum) (unions : list (string * list string)) (source : list gty) (fuel : nat) :=
  closure pr enums unions fuel source [].
