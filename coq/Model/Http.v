(** Model of analysis/httpapi: echoExtractor.extract, newContractFromEchoBody (parseAssignments,
    parseReturnStmt), resolveTypes and the prefix filter, over an abstract description of a route file:
    the registrations in source order, each with its verb, its constant-folded URL, the kind and name
    of its handler and the statements of the handler body that carry a contract call. *)
From Coq Require Import List String Bool Arith.
Import ListNotations.
Local Open Scope string_scope.

Record stmt := {
  st_form : string;   (* assign | var | return *)
  st_call : string;   (* Bind | QueryParam | QueryParamBool | QueryParamInt | QueryParamInt64 | FormValue | FormFile | FormValueJSON | JSON | JSONPretty | Blob | nil *)
  st_name : string;   (* the constant string argument *)
  st_type : string    (* the Go type involved *)
}.

Record registration := { rg_verb : string; rg_url : string; rg_kind : string; rg_name : string; rg_body : list stmt }.

Record endpoint := {
  ep_url : string; ep_method : string; ep_name : string;
  ep_input : string; ep_return : string; ep_blob : bool;
  ep_query : list (string * string);
  ep_form_values : list string; ep_file : string;
  ep_json : string * string
}.

Definition empty_contract (name : string) : endpoint :=
  {| ep_url := ""; ep_method := ""; ep_name := name; ep_input := ""; ep_return := ""; ep_blob := false;
     ep_query := []; ep_form_values := []; ep_file := ""; ep_json := ("", "") |}.

Definition is_query_call (c : string) : bool :=
  String.eqb c "QueryParam" || String.eqb c "QueryParamBool" || String.eqb c "QueryParamInt" || String.eqb c "QueryParamInt64".

(** one statement; assignments and variable declarations with an initial value are scanned, and the
    return statement *)
Definition step_contract (e : endpoint) (s : stmt) : endpoint :=
  let scanned := String.eqb (st_form s) "assign" || String.eqb (st_form s) "var" in
  if scanned && String.eqb (st_call s) "Bind" then
    {| ep_url := ep_url e; ep_method := ep_method e; ep_name := ep_name e; ep_input := st_type s; ep_return := ep_return e; ep_blob := ep_blob e;
       ep_query := ep_query e; ep_form_values := ep_form_values e; ep_file := ep_file e; ep_json := ep_json e |}
  else if scanned && is_query_call (st_call s) then
    {| ep_url := ep_url e; ep_method := ep_method e; ep_name := ep_name e; ep_input := ep_input e; ep_return := ep_return e; ep_blob := ep_blob e;
       ep_query := ep_query e ++ [(st_name s, st_type s)]; ep_form_values := ep_form_values e; ep_file := ep_file e; ep_json := ep_json e |}
  else if scanned && String.eqb (st_call s) "FormValue" then
    {| ep_url := ep_url e; ep_method := ep_method e; ep_name := ep_name e; ep_input := ep_input e; ep_return := ep_return e; ep_blob := ep_blob e;
       ep_query := ep_query e; ep_form_values := ep_form_values e ++ [st_name s]; ep_file := ep_file e; ep_json := ep_json e |}
  else if scanned && String.eqb (st_call s) "FormFile" then
    {| ep_url := ep_url e; ep_method := ep_method e; ep_name := ep_name e; ep_input := ep_input e; ep_return := ep_return e; ep_blob := ep_blob e;
       ep_query := ep_query e; ep_form_values := ep_form_values e; ep_file := st_name s; ep_json := ep_json e |}
  else if scanned && String.eqb (st_call s) "FormValueJSON" then
    {| ep_url := ep_url e; ep_method := ep_method e; ep_name := ep_name e; ep_input := ep_input e; ep_return := ep_return e; ep_blob := ep_blob e;
       ep_query := ep_query e; ep_form_values := ep_form_values e; ep_file := ep_file e; ep_json := (st_name s, st_type s) |}
  else if String.eqb (st_form s) "return" && (String.eqb (st_call s) "JSON" || String.eqb (st_call s) "JSONPretty") then
    {| ep_url := ep_url e; ep_method := ep_method e; ep_name := ep_name e; ep_input := ep_input e; ep_return := st_type s; ep_blob := ep_blob e;
       ep_query := ep_query e; ep_form_values := ep_form_values e; ep_file := ep_file e; ep_json := ep_json e |}
  else if String.eqb (st_form s) "return" && String.eqb (st_call s) "Blob" then
    {| ep_url := ep_url e; ep_method := ep_method e; ep_name := ep_name e; ep_input := ep_input e; ep_return := st_type s; ep_blob := true;
       ep_query := ep_query e; ep_form_values := ep_form_values e; ep_file := ep_file e; ep_json := ep_json e |}
  else e.

Definition contract_of (name : string) (body : list stmt) : endpoint := fold_left step_contract body (empty_contract name).

Definition endpoint_of (r : registration) : endpoint :=
  let c := contract_of (rg_name r) (rg_body r) in
  {| ep_url := rg_url r; ep_method := rg_verb r; ep_name := ep_name c; ep_input := ep_input c; ep_return := ep_return c; ep_blob := ep_blob c;
     ep_query := ep_query c; ep_form_values := ep_form_values c; ep_file := ep_file c; ep_json := ep_json c |}.

Definition keeps (prefix : string) (r : registration) : bool := String.eqb prefix "" || String.prefix prefix (rg_url r).

(** ParseEcho(pkg, file, prefix) *)
Definition extract (prefix : string) (regs : list registration) : list endpoint :=
  map endpoint_of (filter (keeps prefix) regs).
