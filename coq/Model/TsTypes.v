(** Model of generator/typescript/types.go: the reference printed for a type (typeName) and the
    declaration emitted for the node at a position (the codeFor functions). *)
From Coq Require Import List String Ascii ZArith Bool Arith.
From GM Require Import Base.Result Facts.GoFacts Facts.Ana Model.Enums Model.Fields Model.Classify Model.SqlTypes Model.Dart Sem.GoJson Sem.TsSem.
Import ListNotations.
Local Open Scope string_scope.

Section Ts.
  Variable pr : prog.
  Variable nodes : list nrec.
  Variable enums : list enum.

  Definition ts_name_str (t : texpr) : option string :=
    match t with
    | TRef n => Some n | TString => Some "string" | TNumber => Some "number" | TBoolean => Some "boolean" | TUnknown => Some "unknown"
    | _ => None
    end.

  (** the local name of a struct with its type arguments: S_A_B *)
  Definition struct_ts_name (id : string) : string := inst_name pr id.

  (** typeName *)
  Fixpoint ts_ref (fuel : nat) (t : gty) : result texpr :=
    match fuel with
    | O => Diag "fuel"
    | S f =>
        match find_node t nodes with
        | None => Diag "not analysed"
        | Some n =>
            match nr_kind n with
            | KdPointer => Diag "pointers not handled by Typescript generator"
            | KdBasic => match nr_bkind n with
                         | Some k => match class_of_kind k with
                                     | Some BKString => Ok TString | Some BKInt => Ok (TRef "Int") | Some BKFloat => Ok TNumber | Some BKBool => Ok TBoolean
                                     | None => Diag "unsupported basic kind" end
                         | None => Diag "basic" end
            | KdTime => Ok (TRef (if nr_is_date n then "Date_" else "Time"))
            | KdMap => match nr_children n with
                       | [k; e] => do kt <- ts_ref f k; do et <- ts_ref f e; Ok (TNullable (TRecord kt et))
                       | _ => Diag "map" end
            | KdArray =>
                match nr_children n with
                | [e] =>
                    if Z.leb 0 (nr_len n) then
                      match find_node e nodes with
                      | Some m =>
                          if (akind_eqb (nr_kind m) KdArray && Z.eqb (nr_len m) (-1)) then Diag "Fixed array of slices not supported"
                          else if akind_eqb (nr_kind m) KdMap then Diag "Fixed array of maps not supported"
                          else do et <- ts_ref f e;
                               match ts_name_str et with
                               | Some s => Ok (TRef ("Ar" ++ z_dec (nr_len n) ++ "_" ++ s))
                               | None => Diag "array element name" end
                      | None => Diag "elem" end
                    else do et <- ts_ref f e; Ok (TNullable (TArr et))
                | _ => Diag "array" end
            | KdNamed => match nr_at n with GNamed id => Ok (TRef (inst_name pr id)) | _ => Diag "named" end
            | KdEnum | KdUnion => match nr_at n with GNamed id => Ok (TRef (local_name_of pr id)) | _ => Diag "named" end
            | KdStruct => match nr_at n with GNamed id => Ok (TRef (struct_ts_name id)) | _ => Diag "struct" end
            end
        end
    end.

  (** Const.Val().String() of an enum member, as the JSON literal TypeScript reads *)
  Definition ts_enum_value (m : emember) : json := enum_json m.

  (** the declaration emitted for the node at [t], if any: (declared name, declaration) *)
  Definition ts_decl (t : gty) : result (option (string * tdecl)) :=
    match find_node t nodes with
    | None => Diag "not analysed"
    | Some n =>
        match nr_kind n with
        | KdBasic => match nr_bkind n with
                     | Some k => if kind_is_integer k then Ok (Some ("Int", TDBrand TNumber)) else Ok None
                     | None => Ok None end
        | KdTime => Ok (Some (if nr_is_date n then "Date_" else "Time", TDBrand TString))
        | KdPointer => Diag "pointers not handled by Typescript generator"
        | KdMap => Ok None
        | KdArray =>
            if Z.leb 0 (nr_len n) then
              match nr_children n with
              | [e] => do self <- ts_ref 12 t; do et <- ts_ref 12 e;
                       match self with TRef name => Ok (Some (name, TDTuple (Z.to_nat (nr_len n)) et)) | _ => Diag "tuple name" end
              | _ => Diag "array" end
            else Ok None
        | KdNamed =>
            match nr_at n, nr_children n with
            | GNamed id, [u] =>
                let name := inst_name pr id in   (* the instantiations of a generic slice or map are distinct types *)
                match find_node u nodes with
                | Some m =>
                    if akind_eqb (nr_kind m) KdBasic && (match nr_bkind m with Some k => kind_is_integer k | None => false end)
                    then Ok (Some (name, TDBrand TNumber))
                    else do target <- ts_ref 12 u;
                         if match ts_name_str target with Some s => String.eqb s name | None => false end then Ok None
                         else Ok (Some (name, TDAlias target))
                | None => Diag "underlying" end
            | _, _ => Diag "named" end
        | KdEnum =>
            match nr_at n with
            | GNamed id => match find (fun e => String.eqb (en_id e) id) enums with
                           | Some e => Ok (Some (local_name_of pr id, TDEnum (map ts_enum_value (en_members e))))
                           | None => Diag "enum" end
            | _ => Diag "enum" end
        | KdStruct =>
            match nr_at n with
            | GNamed id =>
                do fields <- mapM (fun f => if is_opaque_for "typescript" (sfield_of f) then Ok (json_name (sfield_of f), TUnknown)
                                            else do ty <- ts_ref 12 (af_type f); Ok (json_name (sfield_of f), ty))
                                  (filter (fun f => exported (sfield_of f)) (nr_fields n));
                Ok (Some (struct_ts_name id, match fields with [] => TDEmptyRecord | _ => TDInterface fields end))
            | _ => Diag "struct" end
        | KdUnion =>
            match nr_at n with
            | GNamed id =>
                do alts <- mapM (fun m => do ty <- ts_ref 12 (GNamed m); Ok (local_name_of pr m, ty)) (nr_members n);
                Ok (Some (local_name_of pr id, TDUnion alts))
            | _ => Diag "union" end
        end
    end.
End Ts.
