(** Model of generator/go/sqlcrud: the statements of the generated CRUD functions as a small SQL AST,
    with the Go expressions passed as arguments and the scan function receiving the result.
    Input: what analysis/sql exposes of a table (columns, guards, primary, foreign keys, unique
    groups, select keys), observed through its exported API. *)
From Coq Require Import List String Ascii ZArith Bool Arith.
From GM Require Import Base.Result Model.Classify Model.SqlTypes Model.Names Model.Dart.
Import ListNotations.
Local Open Scope string_scope.

Record col_obs := { co_field : string; co_guard : bool }.
Record fk_obs := { fk_field : string; fk_nullable : bool; fk_unique : bool; fk_idtype : string }.
Record tbl_obs := {
  to_go : string;                     (* Go name of the table struct *)
  to_cols : list col_obs;             (* Table.Columns, in order *)
  to_primary : option nat;            (* Table.Primary() *)
  to_idtype : string;                 (* Go type of the primary column *)
  to_fks : list fk_obs;               (* Table.ForeignKeys() *)
  to_uniques : list (list string);    (* Table.AdditionalUniqueCols(), Go field names *)
  to_keys : list (list string)        (* Table.SelectKeys() *)
}.

(** a comparison of the WHERE clause *)
Inductive cond :=
| CEq (col : string) (ph : nat)        (* col = $n *)
| CAny (col : string) (ph : nat)       (* col = ANY($n) *)
| CNullEq (col : string) (ph : nat).   (* ((col IS NULL AND $n IS NULL) OR col = $n) *)

Inductive sstmt :=
| SInsert (table : string) (cols : list string) (phs : list nat) (returning : list string)
| SUpdate (table : string) (cols : list string) (phs : list nat) (wcol : string) (wph : nat) (returning : list string)
| SDelete (table : string) (conds : list cond) (returning : list string)
| SSelect (cols : list string) (table : string) (conds : list cond)
| SCopyIn (table : string) (cols : list string).

Record gfun := {
  gf_name : string;          (* function name, or Type.Method *)
  gf_stmt : sstmt;
  gf_args : list string;     (* the Go expressions bound to $1, $2, ... *)
  gf_scan : string           (* the Scan function receiving the rows, empty if none *)
}.

Definition lf (s : string) : string := lower_first_ok s.

Fixpoint remove_nth {A} (n : nat) (l : list A) : list A :=
  match l, n with
  | [], _ => []
  | _ :: r, O => r
  | x :: r, S m => x :: remove_nth m r
  end.

Section Table.
  Variable t : tbl_obs.

  Definition tname := to_go t.
  Definition sname := sql_table_name (to_go t).
  Definition idt := to_idtype t.

  (** newColumnsCode: the guards are left out *)
  Definition crud_fields : list string := map co_field (filter (fun c => negb (co_guard c)) (to_cols t)).
  Definition cols : list string := map lower crud_fields.
  Definition vals : list string := map (fun f => "item." ++ f) crud_fields.
  Definition phs_upto (n : nat) : list nat := seq 1 n.

  (** position of the primary column among the non-guard columns *)
  Definition primary_in_crud : option nat :=
    match to_primary t with
    | None => None
    | Some p => if match nth_error (to_cols t) p with Some c => co_guard c | None => true end then None
                else Some (List.length (filter (fun c => negb (co_guard c)) (firstn p (to_cols t))))
    end.

  Definition primary_field : string :=
    match to_primary t with Some p => match nth_error (to_cols t) p with Some c => co_field c | None => "" end | None => "" end.

  Definition np {A} (l : list A) : list A := match primary_in_crud with Some p => remove_nth p l | None => l end.

  Definition conds_eq (names : list string) : list cond := map (fun ix => CEq (snd ix) (S (fst ix))) (combine (seq 0 (List.length names)) names).
  Definition title_of (names : list string) : string := String.concat "And" names.

  Definition fk_funs (is_primary : bool) (k : fk_obs) : list gfun :=
    let F := fk_field k in
    let col := lower F in
    let var := lf F in
    let arr := fk_idtype k ++ "ArrayToPQ(" ++ var ++ "s_)" in
    (if fk_unique k then
       [{| gf_name := "Select" ++ tname ++ "By" ++ F; gf_stmt := SSelect cols sname [CEq col 1]; gf_args := [var]; gf_scan := "Scan" ++ tname |}]
     else []) ++
    [{| gf_name := "Select" ++ tname ++ "sBy" ++ F ++ "s"; gf_stmt := SSelect cols sname [CAny col 1]; gf_args := [arr]; gf_scan := "Scan" ++ tname ++ "s" |};
     if is_primary
     then {| gf_name := "Delete" ++ tname ++ "sBy" ++ F ++ "s"; gf_stmt := SDelete sname [CAny col 1] ["id"]; gf_args := [arr]; gf_scan := "Scan" ++ idt ++ "Array" |}
     else {| gf_name := "Delete" ++ tname ++ "sBy" ++ F ++ "s"; gf_stmt := SDelete sname [CAny col 1] cols; gf_args := [arr]; gf_scan := "Scan" ++ tname ++ "s" |}].

  Definition primary_funs : list gfun :=
    let ids := idt ++ "ArrayToPQ(ids)" in
    [{| gf_name := "SelectAll" ++ tname ++ "s"; gf_stmt := SSelect cols sname []; gf_args := []; gf_scan := "Scan" ++ tname ++ "s" |};
     {| gf_name := "Select" ++ tname; gf_stmt := SSelect cols sname [CEq "id" 1]; gf_args := ["id"]; gf_scan := "Scan" ++ tname |};
     {| gf_name := "Select" ++ tname ++ "s"; gf_stmt := SSelect cols sname [CAny "id" 1]; gf_args := [ids]; gf_scan := "Scan" ++ tname ++ "s" |};
     {| gf_name   := tname ++ ".Insert"; gf_stmt := SInsert sname (np cols) (phs_upto (List.length (np cols))) cols; gf_args := np vals; gf_scan := "Scan" ++ tname |};
     {| gf_name   := tname ++ ".Update"; gf_stmt := SUpdate sname (np cols) (phs_upto (List.length (np cols))) "id" (List.length cols) cols;
        gf_args := List.app (np vals) [String.append "item." primary_field]; gf_scan := "Scan" ++ tname |};
     {| gf_name := "Delete" ++ tname ++ "ById"; gf_stmt := SDelete sname [CEq "id" 1] cols; gf_args := ["id"]; gf_scan := "Scan" ++ tname |};
     {| gf_name := "Delete" ++ tname ++ "sByIDs"; gf_stmt := SDelete sname [CAny "id" 1] ["id"]; gf_args := [ids]; gf_scan := "Scan" ++ idt ++ "Array" |}]
    ++ flat_map (fk_funs true) (to_fks t).

  Definition link_delete_conds : list cond :=
    map (fun ik => let '(i, k) := ik in if fk_nullable k then CNullEq (fk_field k) (S i) else CEq (fk_field k) (S i))
        (combine (seq 0 (List.length (to_fks t))) (to_fks t)).

  Definition link_funs : list gfun :=
    [{| gf_name := "SelectAll" ++ tname ++ "s"; gf_stmt := SSelect cols sname []; gf_args := []; gf_scan := "Scan" ++ tname ++ "s" |};
     {| gf_name   := tname ++ ".Insert"; gf_stmt := SInsert sname cols (phs_upto (List.length cols)) []; gf_args := vals; gf_scan := "" |};
     {| gf_name := "InsertMany" ++ tname ++ "s"; gf_stmt := SCopyIn sname cols; gf_args := vals; gf_scan := "" |};
     {| gf_name   := tname ++ ".Delete"; gf_stmt := SDelete sname link_delete_conds []; gf_args := map (fun k => "item." ++ fk_field k) (to_fks t); gf_scan := "" |}]
    ++ flat_map (fk_funs false) (to_fks t).

  Definition unique_funs : list gfun :=
    map (fun names => {| gf_name := "Select" ++ tname ++ "By" ++ title_of names; gf_stmt := SSelect cols sname (conds_eq names);
                         gf_args := map lf names; gf_scan := "Scan" ++ tname |}) (to_uniques t).

  Definition key_funs : list gfun :=
    flat_map (fun names =>
      [{| gf_name := "Select" ++ tname ++ "sBy" ++ title_of names; gf_stmt := SSelect cols sname (conds_eq names); gf_args := map lf names; gf_scan := "Scan" ++ tname ++ "s" |};
       {| gf_name := "Delete" ++ tname ++ "sBy" ++ title_of names; gf_stmt := SDelete sname (conds_eq names) cols; gf_args := map lf names; gf_scan := "Scan" ++ tname ++ "s" |}]) (to_keys t).

  Definition crud_funs : list gfun :=
    (match to_primary t with Some _ => primary_funs | None => link_funs end) ++ unique_funs ++ key_funs.

  (** scanOne<T>: the destinations, in order *)
  Definition scan_fields : list string := crud_fields.
End Table.

(** * placeholders *)
Definition cond_col (c : cond) : string := match c with CEq x _ | CAny x _ | CNullEq x _ => x end.
Definition cond_ph (c : cond) : nat := match c with CEq _ p | CAny _ p | CNullEq _ p => p end.

Definition stmt_phs (s : sstmt) : list nat :=
  match s with
  | SInsert _ _ p _ => p
  | SUpdate _ _ p _ wp _ => p ++ [wp]
  | SDelete _ w _ | SSelect _ _ w => map cond_ph w
  | SCopyIn _ c => seq 1 (List.length c)     (* the values of one row, in column order *)
  end.

(** $1..$n, n = number of arguments, each used *)
Definition placeholders_ok (phs : list nat) (nargs : nat) : bool :=
  forallb (fun p => Nat.leb 1 p && Nat.leb p nargs) phs && forallb (fun i => existsb (Nat.eqb i) phs) (seq 1 nargs).
