(** Model of the tables decided by generator/dart: constructor arguments and JSON keys of a class,
    union dispatch tables, implements lists, enum member / value tables, and the file assigned to a
    named type by analysis.Linker. DartSem for enums: member <-> wire value conversions. *)
From Coq Require Import List String Ascii ZArith Bool Arith.
From GM Require Import Base.Result Facts.GoFacts Facts.Ana Model.Enums Model.Fields Model.Classify Model.Names Model.SqlTypes.
Import ListNotations.
Local Open Scope string_scope.

(** strings.Title on an identifier: first letter upper-cased *)
Definition upper_ascii (c : ascii) : ascii :=
  let n := nat_of_ascii c in if (Nat.leb 97 n && Nat.leb n 122)%bool then ascii_of_nat (n - 32) else c.
Definition title (s : string) : string := match s with String c r => String (upper_ascii c) r | EmptyString => EmptyString end.

Definition lower_first_ok (s : string) : string := match lower_first s with Ok x => x | _ => s end.

(** fields of the Dart class of a struct node: lowerFirst(JSONName) of the selected fields *)
Definition sfield_of (f : afield) : sfield :=
  {| sf_name := af_name f; sf_tag := af_tag f; sf_go_exported := af_go_exported f; sf_embedded_struct := false |}.

Definition dart_ctor_args (n : nrec) : list string :=
  map lower_first_ok (selected_keys (map sfield_of (nr_fields n))).

(** the JSON keys the struct routines read and write (jsonForStruct): those of the same fields, in the same order *)
Definition dart_json_keys (n : nrec) : list string := selected_keys (map sfield_of (nr_fields n)).

Section Tables.
  Variable pr : prog.
  Variable a : ana_obs.

  Definition local_of (id : string) : string := local_name_of pr id.

  (** the local name of a struct followed by its type arguments (S_A_B): the instantiations of a generic
      struct are distinct declarations, in TypeScript and in Dart *)
  Definition inst_name (id : string) : string :=
    match find_type id (pr_types pr) with
    | Some d => fold_left (fun acc a => acc ++ "_" ++ match a with
                                                       | GNamed aid => local_name_of pr aid
                                                       | GBasic k => match k with
                                                                     | KBool => "bool" | KInt => "int" | KInt8 => "int8" | KInt16 => "int16" | KInt32 => "int32" | KInt64 => "int64"
                                                                     | KUint => "uint" | KUint8 => "uint8" | KUint16 => "uint16" | KUint32 => "uint32" | KUint64 => "uint64"
                                                                     | KFloat32 => "float32" | KFloat64 => "float64" | KString => "string" | _ => "?" end
                                                       | _ => "?" end) (n_targs d) (n_name d)
    | None => id
    end.

  (** the name of the Dart class of a struct node *)
  Definition dart_class_name (n : nrec) : string :=
    match nr_at n with GNamed id => title (inst_name id) | _ => "" end.

  (** the union is exported iff its Go name is *)
  Definition union_exported (id : string) : bool :=
    match find_type id (pr_types pr) with Some d => n_exported d | None => false end.

  Definition dart_implements (n : nrec) : list string :=
    map local_of (filter union_exported (nr_implements n)).

  (** dispatch tags of a union node: the local names of its members *)
  Definition dart_union_tags (n : nrec) : list string := map local_of (nr_members n).

  (** enum: exported members, their Dart names and wire values *)
  Definition dart_enum_names (e : enum) : list string :=
    map (fun m => match dart_enum_member (em_name m) with Ok x => x | _ => "" end) (filter em_exported (en_members e)).

  (** Const.Val().String(): numbers as written, strings with Go quotes *)
  Definition go_val_string (m : emember) : string :=
    match em_val m with CStr v => String dquote (v ++ String dquote EmptyString) | CFloat d => d | _ => em_exact m end.

  Definition dart_enum_values (e : enum) : list string := map go_val_string (filter em_exported (en_members e)).
End Tables.

(** * DartSem for enums. A Dart enum value is its index. *)
Fixpoint index_of_str (v : string) (l : list string) (i : nat) : option nat :=
  match l with [] => None | x :: r => if String.eqb x v then Some i else index_of_str v r (S i) end.

(** non-iota: fromValue(v) = values.indexOf(v) ; toValue(i) = values[i] *)
Definition from_value (values : list string) (v : string) : option nat := index_of_str v values 0.
Definition to_value (values : list string) (i : nat) : option string := nth_error values i.

(** * analysis.NewLinker / Linker.GetOutput: the file a named type is emitted in, from the path of its package
      relative to the source root (what follows "go/src/" in the root directory; nothing when the root is not under a
      GOPATH, in which case every package is treated like the standard library) *)
Fixpoint cut_after (sep s : string) : option string :=
  if String.prefix sep s then Some (drop (String.length sep) s)
  else match s with EmptyString => None | String _ r => cut_after sep r end.

(** path.Dir on a clean path without trailing slash *)
Fixpoint last_slash (s : string) (i cur : nat) : option nat :=
  match s with
  | EmptyString => None
  | String c r => match last_slash r (S i) cur with
                  | Some j => Some j
                  | None => if Ascii.eqb c "/"%char then Some i else None end
  end.
Definition path_dir (s : string) : string :=
  match last_slash s 0 0 with
  | None => "."
  | Some O => "/"
  | Some i => substring 0 i s
  end.

Fixpoint replace_slash (s : string) : string :=
  match s with
  | EmptyString => EmptyString
  | String c r => String (if Ascii.eqb c "/"%char then "_"%char else c) (replace_slash r)
  end.

Definition linker_prefix (root : string) : string :=
  path_dir (match cut_after "go/src/" root with Some r => r | None => "" end) ++ "/".

Definition dart_out_file (root pkg_path : string) : string :=
  let prefix := linker_prefix root in
  replace_slash (if String.prefix prefix pkg_path then drop (String.length prefix) pkg_path else "stdlib/" ++ pkg_path) ++ ".dart".
