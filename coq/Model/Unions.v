(** Model of analysis/unions.go (allNamedTypes, fetchPkgUnions) and of Struct.setImplements
    (analysis/compounds.go). *)
From Coq Require Import List String Bool Arith.
From GM Require Import Base.Result Base.StrOrd Facts.GoFacts Model.Enums.
Import ListNotations.
Local Open Scope string_scope.

Definition is_interface (d : ndecl) : bool := match n_under d with UInterface _ => true | _ => false end.

Definition msig_eqb (a b : msig) : bool := String.eqb (ms_id a) (ms_id b) && String.eqb (ms_sig a) (ms_sig b).

(** types.Implements(T, I) for a method-only interface: every method of I is in the method set of T *)
Definition implements (d : ndecl) (itf : list msig) : bool :=
  forallb (fun m => existsb (msig_eqb m) (n_mset d)) itf.

(** allNamedTypes: the defined types found through the scope names, in scope order *)
Definition candidates (types : list ndecl) (p : gpkg) : list ndecl :=
  flat_map (fun id => match find_type id types with Some d => [d] | None => [] end) (p_type_names p).

(** fetchPkgUnions: for each interface among the candidates, the non-interface candidates implementing
    it; interfaces without member are dropped *)
Definition members_of (cands : list ndecl) (itf : list msig) : list string :=
  map n_id (filter (fun m => negb (is_interface m) && implements m itf) cands).

Definition fetch_pkg_unions (types : list ndecl) (p : gpkg) : list (string * list string) :=
  let cands := candidates types p in
  flat_map (fun c => match n_under c with
                     | UInterface itf =>
                         match members_of cands itf with
                         | [] => []
                         | ms => [(n_id c, ms)]
                         end
                     | _ => []
                     end) cands.

Definition fetch_unions (pr : prog) : list (string * list string) :=
  flat_map (fun path => match find_pkg path (pr_pkgs pr) with
                        | Some p => fetch_pkg_unions (pr_types pr) p
                        | None => []
                        end) (selected_pkgs pr).

(** setImplements: among the unions that were analysed, those listing the struct as a member, sorted by
    qualified name. The iteration order over the union map is arbitrary: [order] is any permutation. *)
Definition set_implements (unions : list (string * list string)) (analysed : string -> bool) (sid : string) : list string :=
  sort_str (map fst (filter (fun u => analysed (fst u) && existsb (String.eqb sid) (snd u)) unions)).
