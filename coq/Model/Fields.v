(** Model of analysis/compounds.go: StructField.JSONName / Exported / IsOpaqueFor, of
    reflect.StructTag.Get (for tags without backslash escapes), of the flattening of embedded
    structs in analysis.go:handleStructFields, and the specification of encoding/json's field table. *)
From Coq Require Import List String Ascii Bool Arith.
From GM Require Import Base.Result Facts.GoFacts Model.Loader Model.Enums.
Import ListNotations.
Local Open Scope string_scope.

Definition sp : ascii := " "%char.
Definition colon : ascii := ":"%char.
Definition dquote : ascii := """"%char.
Definition bslash : ascii := "\"%char.
Definition comma : ascii := ","%char.

Fixpoint skip_spaces (s : string) : string :=
  match s with String c r => if Ascii.eqb c sp then skip_spaces r else s | EmptyString => s end.

(** scan a tag key: bytes above space other than colon, double quote and DEL; returns (key, rest starting at the stop byte) *)
Fixpoint scan_key (s : string) : string * string :=
  match s with
  | EmptyString => (EmptyString, EmptyString)
  | String c r =>
      let n := nat_of_ascii c in
      if Nat.ltb 32 n && negb (Ascii.eqb c colon) && negb (Ascii.eqb c dquote) && negb (Nat.eqb n 127)
      then let '(k, rest) := scan_key r in (String c k, rest)
      else (EmptyString, s)
  end.

(** scan the quoted value after the opening quote; no backslash supported: returns None on a backslash
    (outside the modelled class) or an unterminated string *)
Fixpoint scan_value (s : string) : option (string * string) :=
  match s with
  | EmptyString => None
  | String c r =>
      if Ascii.eqb c dquote then Some (EmptyString, r)
      else if Ascii.eqb c bslash then None
      else match scan_value r with Some (v, rest) => Some (String c v, rest) | None => None end
  end.

(** reflect.StructTag.Get(key) *)
Fixpoint tag_get (fuel : nat) (key : string) (tag : string) : string :=
  match fuel with
  | O => ""
  | S f =>
      let tag := skip_spaces tag in
      match tag with
      | EmptyString => ""
      | _ =>
          let '(name, rest) := scan_key tag in
          match name, rest with
          | EmptyString, _ => ""
          | _, String c1 (String c2 rest') =>
              if Ascii.eqb c1 colon && Ascii.eqb c2 dquote then
                match scan_value rest' with
                | None => ""
                | Some (v, rest'') => if String.eqb name key then v else tag_get f key rest''
                end
              else ""
          | _, _ => ""
          end
      end
  end.

Definition tag_lookup (key tag : string) : string := tag_get (S (String.length tag)) key tag.

(** strings.Cut(s, ",") first component *)
Fixpoint before_comma (s : string) : string :=
  match s with
  | EmptyString => EmptyString
  | String c r => if Ascii.eqb c comma then EmptyString else String c (before_comma r)
  end.

Record sfield := { sf_name : string; sf_tag : string; sf_go_exported : bool; sf_embedded_struct : bool }.

(** JSONName as pinned: the whole tag value *)
Definition json_name_pinned (f : sfield) : string :=
  let t := tag_lookup "json" (sf_tag f) in
  if String.eqb t "" then sf_name f else t.

(** JSONName as fixed: the name part of the tag, the Go name when it is empty *)
Definition json_name (f : sfield) : string :=
  let n := before_comma (tag_lookup "json" (sf_tag f)) in
  if String.eqb n "" then sf_name f else n.

Definition exported (f : sfield) : bool :=
  if String.eqb (tag_lookup "json" (sf_tag f)) "-" then false
  else if String.eqb (tag_lookup "gomacro" (sf_tag f)) "ignore" then false
  else sf_go_exported f.

Definition is_opaque_for (target : string) (f : sfield) : bool :=
  let t := tag_lookup "gomacro-opaque" (sf_tag f) in
  negb (String.eqb t "") && contains target t.

(** what every generator does with the fields of a struct node *)
Definition selected_keys (fs : list sfield) : list string := map json_name (filter exported fs).

(** * encoding/json's rules for one (already flattened, conflict-free) field list *)

(** isValidTag: non-empty, letters digits and a fixed punctuation set; we model the ASCII part *)
Definition valid_tag_char (c : ascii) : bool :=
  let n := nat_of_ascii c in
  (Nat.leb 48 n && Nat.leb n 57) || (Nat.leb 65 n && Nat.leb n 90) || (Nat.leb 97 n && Nat.leb n 122)
  || Nat.leb 128 n  (* bytes of non-ASCII letters: accepted when they form letters; the harness only emits letters *)
  || existsb (Ascii.eqb c) (list_ascii_of_string "!#$%&()*+-./:;<=>?@[]^_{|}~ ").

Fixpoint valid_tag (s : string) : bool :=
  match s with EmptyString => true | String c r => valid_tag_char c && valid_tag r end.

Definition std_key (f : sfield) : string :=
  let n := before_comma (tag_lookup "json" (sf_tag f)) in
  if negb (String.eqb n "") && valid_tag n then n else sf_name f.

Definition std_serialised (f : sfield) : bool :=
  sf_go_exported f && negb (String.eqb (tag_lookup "json" (sf_tag f)) "-").

(** the keys encoding/json writes, in order, for a value whose fields are all non-empty *)
Definition std_keys (fs : list sfield) : list string := map std_key (filter std_serialised fs).

Definition gomacro_ignored (f : sfield) : bool := String.eqb (tag_lookup "gomacro" (sf_tag f)) "ignore".

(** the class on which the statement is claimed: tag names are valid, nothing embedded carries a tag
    name (flattening is then what encoding/json does), keys are pairwise distinct *)
Definition tag_supported (f : sfield) : bool :=
  let n := before_comma (tag_lookup "json" (sf_tag f)) in
  (String.eqb n "" || valid_tag n).
