(** Model of generator/go/randdata as a traversal (generateWithTarget, context.generate, functionID): which
    functions rand<ID> are declared, in which order, and which functions each one calls. Every kind of type
    follows one scheme: visit the children (the cache of named types cuts the recursion), then declare the
    function of the type, which calls the functions of its children. *)
From Coq Require Import List String Ascii ZArith Bool Arith.
From GM Require Import Base.Result Facts.GoFacts Facts.Ana Model.Enums Model.Fields Model.Classify Model.Names Model.SqlTypes.
Import ListNotations.
Local Open Scope string_scope.

Record rdecl := { rd_id : string; rd_calls : list string }.   (* declares func rand<id>(), which calls rand<c>() *)

Definition basic_name (k : bkind) : string :=
  match k with
  | KBool => "bool" | KInt => "int" | KInt8 => "int8" | KInt16 => "int16" | KInt32 => "int32" | KInt64 => "int64"
  | KUint => "uint" | KUint8 => "uint8" | KUint16 => "uint16" | KUint32 => "uint32" | KUint64 => "uint64" | KUintptr => "uintptr"
  | KFloat32 => "float32" | KFloat64 => "float64" | KComplex64 => "complex64" | KComplex128 => "complex128"
  | KString => "string" | KUnsafePointer => "Pointer" | KUntyped => "untyped nil"
  end.

(** codeForBasic *)
Definition rand_basic_supported (k : bkind) : bool :=
  match k with
  | KBool | KInt | KInt32 | KInt64 | KUint8 | KInt8 | KInt16 | KUint16 | KFloat64 | KString => true
  | _ => false
  end.

Section Gen.
  Variable pr : prog.
  Variable nodes : list nrec.
  Variable enums : list enum.

  (** functionIDBasicOrNamed: the local name, prefixed by at most three letters of the package name for a type of
      another package, followed by the type arguments *)
  Fixpoint named_fid (fuel : nat) (id : string) : result string :=
    match fuel with
    | O => Crash "out of fuel"
    | S f =>
      match find_type id (pr_types pr) with
      | None => Crash "unknown defined type"
      | Some d =>
          do base <- (if String.eqb (n_pkg d) (pr_root pr) then Ok (n_name d) else rand_foreign_id (n_pkg_name d) (n_name d));
          do args <- mapM (fun a => match a with
                                    | GBasic k => Ok (basic_name k)
                                    | GNamed aid => named_fid f aid
                                    | _ => Diag "not supported"
                                    end) (n_targs d);
          Ok (fold_left (fun acc a => acc ++ "_" ++ a) args base)
      end
    end.

  (** the key of a node in generator.Cache: its named type; the two predefined time types are named types too *)
  Definition node_key (n : nrec) : option string :=
    match nr_kind n with
    | KdTime => Some (if nr_is_date n then "#Date" else "#Time")
    | KdNamed | KdEnum | KdStruct | KdUnion => match nr_self n with GNamed id => Some id | _ => None end
    | _ => None
    end.

  Definition key_fid (fuel : nat) (k : string) : result string :=
    if String.eqb k "#Date" then Ok "tDate" else if String.eqb k "#Time" then Ok "tTime" else named_fid fuel k.

  (** functionID *)
  Fixpoint fid (fuel : nat) (t : gty) : result string :=
    match fuel with
    | O => Crash "out of fuel"
    | S f =>
      match find_node t nodes with
      | None => Crash "no node at this position"
      | Some n =>
          match node_key n with
          | Some k => key_fid (S f) k
          | None =>
              match nr_kind n, nr_children n with
              | KdBasic, _ => match nr_bkind n with Some k => Ok (basic_name k) | None => Crash "basic node without kind" end
              | KdPointer, c :: _ => do e <- fid f c; Ok (e ++ "Ptr")
              | KdArray, c :: _ => do e <- fid f c;
                                   if Z.eqb (nr_len n) (-1) then Ok ("Slice" ++ e) else Ok ("Ar" ++ z_dec (nr_len n) ++ "_" ++ e)
              | KdMap, k :: c :: _ => do a <- fid f k; do b <- fid f c; Ok ("Map" ++ a ++ b)
              | _, _ => Crash "node without the expected links"
              end
          end
      end
    end.

  Definition data_ignored (f : afield) : bool := String.eqb (tag_lookup "gomacro-data" (af_tag f)) "ignore".

  (** the positions visited below a node, which are also the functions its function calls *)
  Definition kids (n : nrec) : result (list gty) :=
    match nr_kind n with
    | KdBasic => match nr_bkind n with
                 | Some k => if rand_basic_supported k then Ok [] else Diag "basic type not supported"
                 | None => Crash "basic node without kind" end
    | KdTime => Ok []
    | KdEnum => match nr_self n with
                | GNamed id => match find (fun e => String.eqb (en_id e) id) enums with
                               | Some e => if existsb em_exported (en_members e) then Ok [] else Diag "enum has no exported value : random data can't be generated"
                               | None => Crash "enum not in the table" end
                | _ => Crash "enum without name" end
    | KdPointer | KdArray | KdNamed => match nr_children n with c :: _ => Ok [c] | [] => Crash "node without link" end
    | KdMap => match nr_children n with k :: c :: _ => Ok [k; c] | _ => Crash "map without links" end
    | KdStruct => Ok (map af_type (filter (fun f => af_go_exported f && negb (data_ignored f)) (nr_fields n)))
    | KdUnion => Ok (nr_children n)
    end.

  (** typeName: the generated package can not name the unexported types of another package (refused since fix "randdata:
      refuse the unexported types of another package") *)
  Definition nameable (n : nrec) : bool :=
    match nr_kind n with
    | KdNamed | KdEnum | KdStruct | KdUnion =>
        match nr_self n with
        | GNamed id => match find_type id (pr_types pr) with
                       | Some d => String.eqb (n_pkg d) (pr_root pr) || n_exported d
                       | None => true end
        | _ => true end
    | _ => true
    end.

  Fixpoint gen_list (g : list string -> gty -> result (list string * list rdecl)) (ts : list gty) (cache : list string)
    : result (list string * list rdecl) :=
    match ts with
    | [] => Ok (cache, [])
    | t :: r => do x <- g cache t; do y <- gen_list g r (fst x); Ok (fst y, (snd x ++ snd y)%list)
    end.

  Variable fid_fuel : nat.

  Fixpoint generate (fuel : nat) (cache : list string) (t : gty) {struct fuel} : result (list string * list rdecl) :=
    match fuel with
    | O => Crash "out of fuel"
    | S f =>
      match find_node t nodes with
      | None => Crash "no node at this position"
      | Some n =>
          let hit := match node_key n with Some k => existsb (String.eqb k) cache | None => false end in
          if hit then Ok (cache, []) else
          let cache1 := match node_key n with Some k => k :: cache | None => cache end in
          if negb (nameable n) then Diag "type is not exported : random data can't be generated" else
          do ks <- kids n;
          do r <- gen_list (generate f) ks cache1;
          do id <- fid fid_fuel t;
          do calls <- mapM (fid fid_fuel) ks;
          Ok (fst r, (snd r ++ [{| rd_id := id; rd_calls := calls |}])%list)
      end
    end.

  Definition randdata_fuel : nat := 2 * List.length nodes + 2.

  (** generateWithTarget, without the header *)
  Definition randdata (source : list gty) : result (list rdecl) :=
    do r <- gen_list (generate randdata_fuel) source []; Ok (snd r).

  Definition ids (ds : list rdecl) : list string := map rd_id ds.

  (** every function called is declared *)
  Definition closed (ds : list rdecl) : bool :=
    forallb (fun d => forallb (fun c => existsb (String.eqb c) (ids ds)) (rd_calls d)) ds.
End Gen.
