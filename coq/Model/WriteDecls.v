(** Model of generator.WriteDeclarations (generator/generator.go).
    No proofs here: the definitions stay executable when a proof breaks. *)
From Coq Require Import List String Bool Sorting.Permutation Sorting.Sorted.
From GM Require Import Base.StrOrd.
Import ListNotations.
Local Open Scope string_scope.

Record decl := mkDecl { d_id : string; d_content : string; d_prio : bool }.

(** [sort.Slice(decls, ID <)] is an unstable sort: any permutation of the input
    that is non-decreasing in ID may come out of it. *)
Definition id_sorted (s l : list decl) : Prop :=
  Permutation s l /\ ssorted (map d_id s).

(** An executable instance (insertion sort), used by the correspondence. *)
Fixpoint insert_by_id (d : decl) (l : list decl) : list decl :=
  match l with
  | [] => [d]
  | x :: r => if sleb (d_id d) (d_id x) then d :: l else x :: insert_by_id d r
  end.
Definition isort (l : list decl) : list decl := fold_right insert_by_id [] l.

(** [sort.SliceStable(decls, prio i && !prio j)]: priority declarations first,
    each group keeping its relative order. *)
Definition partition_prio (l : list decl) : list decl :=
  filter d_prio l ++ filter (fun d => negb (d_prio d)) l.

(** the [keys] map + loop: first occurrence of each ID wins *)
Fixpoint dedupe (seen : list string) (l : list decl) : list decl :=
  match l with
  | [] => []
  | d :: r =>
      if existsb (String.eqb (d_id d)) seen then dedupe seen r
      else d :: dedupe (d_id d :: seen) r
  end.

Definition nl : string := String (Ascii.ascii_of_nat 10) EmptyString.

Definition emit (l : list decl) : string :=
  String.concat "" (map (fun d => d_content d ++ nl) l).

Definition write_sorted (s : list decl) : string := emit (dedupe [] (partition_prio s)).

Definition write (l : list decl) : string := write_sorted (isort l).

(** * Specification, written independently of the algorithm *)

Definition has_prio (l : list decl) (id : string) : bool :=
  existsb (fun d => String.eqb (d_id d) id && d_prio d) l.

(** IDs in output order: those with a priority instance, increasing, then the others, increasing. *)
Definition canon_ids (l : list decl) : list string :=
  let ids := sort_nodup (map d_id l) in
  filter (has_prio l) ids ++ filter (fun i => negb (has_prio l i)) ids.

Definition content_of (l : list decl) (id : string) : string :=
  match find (fun d => String.eqb (d_id d) id) l with
  | Some d => d_content d
  | None => ""
  end.

Definition spec (l : list decl) : string :=
  String.concat "" (map (fun id => content_of l id ++ nl) (canon_ids l)).

(** equal IDs carry equal content *)
Definition consistent (l : list decl) : Prop :=
  forall a b, In a l -> In b l -> d_id a = d_id b -> d_content a = d_content b.

Definition consistentb (l : list decl) : bool :=
  forallb (fun a => forallb (fun b => negb (String.eqb (d_id a) (d_id b)) || String.eqb (d_content a) (d_content b)) l) l.

(** * Admissible outputs for inconsistent lists (correspondence only):
    each ID once, in canonical order, with the content of one of its instances of
    the winning priority class. *)
Definition candidates (l : list decl) (id : string) : list string :=
  let p := has_prio l id in
  map d_content (filter (fun d => String.eqb (d_id d) id && Bool.eqb (d_prio d) p) l).

Fixpoint products (choices : list (list string)) : list string :=
  match choices with
  | [] => [""]
  | c :: r => flat_map (fun x => map (fun rest => x ++ nl ++ rest) (products r)) c
  end.

Definition admissible (l : list decl) : list string :=
  products (map (candidates l) (canon_ids l)).

Definition check_output (l : list decl) (out : string) : bool :=
  if consistentb l then String.eqb out (write l) && String.eqb out (spec l)
  else existsb (String.eqb out) (admissible l).
