(** Model of analysis.commonPrefix / selectByFile (analysis/analysis.go, LoadSources). *)
From Coq Require Import List String Ascii Bool.
From GM Require Import Base.Result.
Import ListNotations.
Local Open Scope string_scope.

Definition sepc : ascii := "/"%char.

(** strings.Split(s, "/") *)
Fixpoint split (s : string) : list string :=
  match s with
  | EmptyString => [EmptyString]
  | String c r =>
      if Ascii.eqb c sepc then EmptyString :: split r
      else match split r with
           | [] => [String c EmptyString]
           | h :: t => String c h :: t
           end
  end.

(** strings.Join(l, "/") *)
Fixpoint join (l : list string) : string :=
  match l with
  | [] => ""
  | [x] => x
  | x :: r => x ++ String sepc (join r)
  end.

(** longest common prefix of two element lists: the truncation + comparison loop *)
Fixpoint lcp2 (a b : list string) : list string :=
  match a, b with
  | x :: a', y :: b' => if String.eqb x y then x :: lcp2 a' b' else []
  | _, _ => []
  end.

Definition has_prefix_sep (s : string) : bool :=
  match s with String c _ => Ascii.eqb c sepc | EmptyString => false end.

Definition common_elems (p0 : string) (others : list string) : list string :=
  fold_left (fun acc o => lcp2 acc (split o)) others (split p0).

(** commonPrefix as fixed: element-wise; the empty list is answered with "" (LoadSources then
    returns its "invalid source directories" error) *)
Definition common_prefix (paths : list string) : result string :=
  match paths with
  | [] => Ok ""
  | p0 :: others =>
      let out := join (common_elems p0 others) in
      if String.eqb out "" && has_prefix_sep p0 then Ok (String sepc EmptyString) else Ok out
  end.

(** The pinned, byte-wise version (kept for the refutation lemma). *)
Fixpoint bytes_lcp2 (a b : string) : string :=
  match a, b with
  | String x a', String y b' => if Ascii.eqb x y then String x (bytes_lcp2 a' b') else EmptyString
  | _, _ => EmptyString
  end.
Definition common_prefix_bytes (paths : list string) : result string :=
  match paths with
  | [] => Crash "index out of range [0] with length 0"
  | p0 :: others => Ok (fold_left bytes_lcp2 others p0)
  end.

(** selectByFile: first package (in packages.Load order) listing the file *)
Definition pkg := (string * list string)%type. (* ID, GoFiles *)
Definition select_by_file (pkgs : list pkg) (file : string) : option string :=
  match find (fun p => existsb (String.eqb file) (snd p)) pkgs with
  | Some p => Some (fst p)
  | None => None
  end.

(** the matching loop of LoadSources: one entry per input file, in order; first miss is an error *)
Fixpoint match_back (pkgs : list pkg) (files : list string) : result (list string) :=
  match files with
  | [] => Ok []
  | f :: r =>
      match select_by_file pkgs f with
      | None => Diag ("file not found in packages sources: " ++ f)
      | Some k => do ks <- match_back pkgs r; Ok (k :: ks)
      end
  end.

(** * Vocabulary of the specification: absolute, cleaned directories as element lists *)
Fixpoint no_sep (s : string) : bool :=
  match s with EmptyString => true | String c r => negb (Ascii.eqb c sepc) && no_sep r end.
Definition valid_elem (s : string) : bool := negb (String.eqb s "") && no_sep s.

(** "/" for the root, "/a/b" otherwise *)
Definition render (cs : list string) : string :=
  match cs with [] => String sepc EmptyString | _ => join (EmptyString :: cs) end.

Fixpoint lcp_all (first : list string) (others : list (list string)) : list string :=
  match others with [] => first | o :: r => lcp_all (lcp2 first o) r end.

Fixpoint is_prefix (a b : list string) : bool :=
  match a, b with
  | [], _ => true
  | x :: a', y :: b' => String.eqb x y && is_prefix a' b'
  | _, [] => false
  end.
