(** Model of generator/go/gounions (Generate, context.generate, codeForUnion, codeForNamed, codeForStruct):
    which declarations the traversal of the analysed types emits, in which order, and for each one the
    top-level names it declares (types, constants, methods with their receiver) and the wrapper types
    (<Union>Wrapper) its text mentions. The cache of the real code holds the named types only
    (generator.Cache.Check): the model keeps their ids. *)
From Coq Require Import List String Ascii ZArith Bool Arith.
From GM Require Import Base.Result Base.StrOrd Facts.GoFacts Facts.Ana Model.Enums Model.Fields Model.Classify Model.Names Model.SqlTypes Model.Dart.
Import ListNotations.
Local Open Scope string_scope.

(** a mention of a wrapper type: its text, and whether the union lives in the package of the type whose
    routines mention it (the name is then unqualified and must be declared next to them) *)
Record wref := { wr_text : string; wr_same_pkg : bool }.

Record gdecl := {
  gd_id : string;                        (* Declaration.ID *)
  gd_types : list string;                (* type names declared at top level *)
  gd_consts : list string;               (* constant names declared at top level *)
  gd_methods : list (string * string);   (* receiver type name, method name, in text order *)
  gd_wrappers : list wref                (* wrapper types mentioned, besides its own *)
}.

Section Gen.
  Variable pr : prog.
  Variable nodes : list nrec.
  (** codeForStruct before fix 247447e did not visit the union of a field tagged gomacro:"ignore" *)
  Variable visit_ignored_unions : bool.

  Definition decl_of (t : gty) : option ndecl :=
    match t with GNamed id => find_type id (pr_types pr) | _ => None end.
  Definition is_local (t : gty) : bool :=
    match decl_of t with Some d => String.eqb (n_pkg d) (pr_root pr) | None => false end.
  Definition lname (t : gty) : string := match decl_of t with Some d => n_name d | None => "" end.
  Definition is_union_at (t : gty) : bool :=
    match find_node t nodes with Some n => akind_eqb (nr_kind n) KdUnion | None => false end.
  Definition same_pkg (a b : gty) : bool :=
    match decl_of a, decl_of b with Some da, Some db => String.eqb (n_pkg da) (n_pkg db) | _, _ => false end.

  Definition wrapper_of (t : gty) : string := lname t ++ "Wrapper".

  (** types.TypeString(union, NameRelativeTo(package of from)) + "Wrapper" *)
  Definition wrapper_ref (from t : gty) : wref :=
    if same_pkg from t then {| wr_text := wrapper_of t; wr_same_pkg := true |}
    else {| wr_text := (match decl_of t with Some d => n_pkg_name d | None => "" end) ++ "." ++ wrapper_of t; wr_same_pkg := false |}.

  (** codeForUnion (jsonForUnion): nothing for the unions of other packages *)
  Definition union_decl (n : nrec) : result (list gdecl) :=
    if negb (is_local (nr_at n)) then Ok [] else
    let name := lname (nr_at n) in
    do consts <- mapM (fun m => kind_var_name (lname (GNamed m)) name) (nr_members n);
    Ok [{| gd_id := name; gd_types := [name ++ "Wrapper"]; gd_consts := consts;
           gd_methods := [(name ++ "Wrapper", "UnmarshalJSON"); (name ++ "Wrapper", "MarshalJSON")];
           gd_wrappers := [] |}].

  (** jsonForArray / jsonForMap *)
  Definition container_decl (t elem : gty) : gdecl :=
    {| gd_id := lname t; gd_types := []; gd_consts := [];
       gd_methods := [(lname t, "MarshalJSON"); (lname t, "UnmarshalJSON")];
       gd_wrappers := [wrapper_ref t elem] |}.

  Definition struct_decl (t : gty) (n : nrec) : gdecl :=
    {| gd_id := lname t ++ "_json"; gd_types := []; gd_consts := [];
       gd_methods := [(lname t, "MarshalJSON"); (lname t, "UnmarshalJSON")];
       gd_wrappers := map (fun fd => wrapper_ref t (af_type fd)) (filter (fun fd => is_union_at (af_type fd)) (nr_fields n)) |}.

  (** Cache.Check: named types only *)
  Definition check (cache : list string) (t : gty) : bool * list string :=
    match t with
    | GNamed id => if existsb (String.eqb id) cache then (true, cache) else (false, id :: cache)
    | _ => (false, cache)
    end.

  Definition visited (fd : afield) : bool :=
    negb (gomacro_ignored (sfield_of fd)) || (visit_ignored_unions && is_union_at (af_type fd)).

  Fixpoint fold_fields (g : list string -> gty -> result (list string * list gdecl)) (fs : list afield) (cache : list string)
    : result (list string * list gdecl) :=
    match fs with
    | [] => Ok (cache, [])
    | fd :: r =>
        do x <- (if visited fd then g cache (af_type fd) else Ok (cache, []));
        do y <- fold_fields g r (fst x);
        Ok (fst y, (snd x ++ snd y)%list)
    end.

  Definition union_decl_at (c : gty) : result (list gdecl) :=
    match find_node c nodes with Some cn => union_decl cn | None => Crash "no node at the element position" end.

  Fixpoint generate (fuel : nat) (cache : list string) (t : gty) {struct fuel} : result (list string * list gdecl) :=
    match fuel with
    | O => Crash "out of fuel"
    | S f =>
      match find_node t nodes with
      | None => Crash "no node at this position"
      | Some n =>
        if fst (check cache t) then Ok (cache, []) else
        let cache1 := snd (check cache t) in
        match nr_kind n with
        | KdBasic | KdTime | KdEnum => Ok (cache1, [])
        | KdPointer =>
            match nr_children n with c :: _ => generate f cache1 c | [] => Crash "pointer without element" end
        | KdArray =>
            match nr_children n with
            | c :: _ => if is_union_at c then Diag "anonymous arrays containing unions are not supported" else generate f cache1 c
            | [] => Crash "array without element"
            end
        | KdMap =>
            match nr_children n with
            | _ :: c :: _ => if is_union_at c then Diag "anonymous maps containing unions are not supported" else generate f cache1 c
            | _ => Crash "map without element"
            end
        | KdNamed =>
            if negb (is_local t) then Ok (cache1, []) else
            match nr_children n with
            | u :: _ =>
                match find_node u nodes with
                | None => Crash "no node at the underlying position"
                | Some un =>
                    match nr_kind un, nr_children un with
                    | KdArray, c :: _ =>
                        if is_union_at c then do ud <- union_decl_at c; Ok (cache1, (ud ++ [container_decl t c])%list)
                        else generate f cache1 c
                    | KdMap, _ :: c :: _ =>
                        if is_union_at c then do ud <- union_decl_at c; Ok (cache1, (ud ++ [container_decl t c])%list)
                        else generate f cache1 c
                    | KdBasic, _ | KdTime, _ => Ok (cache1, [])
                    | _, _ => Diag "unsupported underlying type of a named type"
                    end
                end
            | [] => Crash "named type without underlying type"
            end
        | KdUnion => do ds <- union_decl n; Ok (cache1, ds)
        | KdStruct =>
            do r <- fold_fields (generate f) (nr_fields n) cache1;
            if existsb (fun fd => is_union_at (af_type fd)) (nr_fields n)
            then Ok (fst r, (snd r ++ [struct_decl t n])%list) else Ok r
        end
      end
    end.

  Fixpoint gen_all (fuel : nat) (src : list gty) (cache : list string) : result (list gdecl) :=
    match src with
    | [] => Ok []
    | t :: r => do x <- generate fuel cache t; do ys <- gen_all fuel r (fst x); Ok (snd x ++ ys)%list
    end.

  (** every call descends one link; a path repeats no named type, and anonymous types shrink between two of them *)
  Definition gounions_fuel : nat := 2 * List.length nodes + 2.

  Definition gounions (source : list gty) : result (list gdecl) := gen_all gounions_fuel source [].

  (** * What the properties need of an output *)
  Definition declared_types (ds : list gdecl) : list string := flat_map gd_types ds.

  (** every wrapper mentioned without a package is declared by the output *)
  Definition closed (ds : list gdecl) : bool :=
    forallb (fun d => forallb (fun w => negb (wr_same_pkg w) || existsb (String.eqb (wr_text w)) (declared_types ds)) (gd_wrappers d)) ds.

  (** the struct types whose routines are written: they must belong to the analysed package (no check in the
      code: open finding "struct of an imported package") *)
  Definition structs_with_unions_local : bool :=
    forallb (fun n => match nr_kind n with
                      | KdStruct => negb (existsb (fun fd => is_union_at (af_type fd)) (nr_fields n)) || is_local (nr_at n)
                      | _ => true end) nodes.
End Gen.
