(** Model of the fixed-width name slicing done by the generators:
    gounions.jsonForUnion (constant names), randdata.functionIDBasicOrNamed (imported package prefix),
    sql.idFromNamed (validator names), dart.lowerFirst / codeForEnum (enum member names).
    Go's s[:n] panics when n > len(s): [slice_to] makes that explicit. *)
From Coq Require Import List String Ascii Bool Arith.
From GM Require Import Base.Result Model.Classify.
Import ListNotations.
Local Open Scope string_scope.

Definition slice_to (s : string) (n : nat) : result string :=
  if Nat.leb n (String.length s) then Ok (String.substring 0 n s)
  else Crash "slice bounds out of range".

(** the guarded form used after the fixes: if len(s) > n { s = s[:n] } *)
Definition short_name (s : string) (n : nat) : result string :=
  if Nat.ltb n (String.length s) then slice_to s n else Ok s.

(** gounions: <Member><Un>Kind *)
Definition kind_var_name_pinned (member union : string) : result string :=
  do p <- slice_to union 2; Ok (member ++ p ++ "Kind").
Definition kind_var_name (member union : string) : result string :=
  do p <- short_name union 2; Ok (member ++ p ++ "Kind").

(** randdata: <pkg>_<Local> for a type of another package *)
Definition rand_foreign_id_pinned (pkg local : string) : result string :=
  do p <- slice_to pkg 3; Ok (p ++ "_" ++ local).
Definition rand_foreign_id (pkg local : string) : result string :=
  do p <- short_name pkg 3; Ok (p ++ "_" ++ local).

(** sql: idFromNamed *)
Definition id_from_named (pkg name : string) : result string :=
  do p <- short_name pkg 4; Ok (p ++ "_" ++ name).

(** dart *)
Definition lower_first_pinned (s : string) : result string :=
  match s with
  | EmptyString => Crash "slice bounds out of range [:1] with length 0"
  | String c r => Ok (String (lower_ascii c) r)
  end.
Definition lower_first (s : string) : result string :=
  match s with
  | EmptyString => Ok EmptyString
  | String c r => Ok (String (lower_ascii c) r)
  end.

(** strings.Cut(s, "_"): what follows the first underscore, if any *)
Fixpoint after_underscore (s : string) : option string :=
  match s with
  | EmptyString => None
  | String c r => if Ascii.eqb c "_"%char then Some r else after_underscore r
  end.

Definition dart_enum_member_pinned (const_name : string) : result string :=
  do v <- lower_first_pinned const_name;
  let v := match after_underscore v with Some a => a | None => v end in
  lower_first_pinned v.

Definition dart_enum_member (const_name : string) : result string :=
  do v <- lower_first const_name;
  let v := match after_underscore v with Some a => if String.eqb a "" then v else a | None => v end in
  lower_first v.
