(** What the harness observes of a real [analysis.Analysis] (E2): one record per node reached by
    following links from [Source] and from every entry of [Types], carrying the go/types type found
    at that position by the harness itself. *)
From Coq Require Import List String ZArith Bool.
From GM Require Import Facts.GoFacts.
Import ListNotations.
Local Open Scope string_scope.

Inductive akind := KdBasic | KdTime | KdArray | KdMap | KdNamed | KdEnum | KdStruct | KdUnion | KdPointer.

Definition akind_eqb (a b : akind) : bool :=
  match a, b with
  | KdBasic, KdBasic | KdTime, KdTime | KdArray, KdArray | KdMap, KdMap | KdNamed, KdNamed
  | KdEnum, KdEnum | KdStruct, KdStruct | KdUnion, KdUnion | KdPointer, KdPointer => true
  | _, _ => false
  end.

Record afield := {
  af_name : string;        (* Field.Name() *)
  af_type : gty;           (* Field.Type(), unaliased *)
  af_tag : string;         (* the struct tag kept by the analysis *)
  af_go_exported : bool;   (* Field.Exported() *)
  af_exported : bool;      (* StructField.Exported() *)
  af_json : string         (* StructField.JSONName() *)
}.

Record nrec := {
  nr_at : gty;             (* the go/types type at this position (aliases resolved) *)
  nr_kind : akind;
  nr_self : gty;           (* node.Type(), with the two predefined time types rendered as GNamed "Time" / "Date" *)
  nr_len : Z;              (* Array.Len (-1 for slices), 0 otherwise *)
  nr_bkind : option bkind; (* Basic.B.Kind() *)
  nr_is_date : bool;
  nr_children : list gty;  (* go/types types at the linked positions, in link order *)
  nr_fields : list afield;
  nr_comments : list (nat * string);  (* struct: kind (1 = SQL, 2 = QUERY), content *)
  nr_implements : list string;        (* struct: ids of the unions in Implements *)
  nr_members : list string;           (* enum: member names ; union: member ids *)
  nr_in_types : bool       (* this node object is the one registered in Analysis.Types under its own type *)
}.

Inductive outcome := OutOk | OutDiag (msg : string) | OutCrash (msg : string).

Record ana_obs := {
  ao_outcome : outcome;
  ao_source : list gty;      (* Analysis.Source, in order *)
  ao_types_keys : list gty;  (* keys of Analysis.Types (aliases resolved), sorted *)
  ao_nodes : list nrec       (* every position reached *)
}.

Fixpoint find_node (t : gty) (l : list nrec) : option nrec :=
  match l with [] => None | n :: r => if gty_eqb (nr_at n) t then Some n else find_node t r end.
