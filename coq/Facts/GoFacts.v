(** First-order facts about a loaded Go program, as extracted from go/packages + go/types +
    go/ast by the harness (E1), without going through gomacro. This is what "for all programs"
    ranges over in the analysis-level theorems. *)
From Coq Require Import List String ZArith Bool.
Import ListNotations.
Local Open Scope string_scope.

Inductive bkind :=
| KBool | KInt | KInt8 | KInt16 | KInt32 | KInt64
| KUint | KUint8 | KUint16 | KUint32 | KUint64 | KUintptr
| KFloat32 | KFloat64 | KComplex64 | KComplex128 | KString | KUnsafePointer | KUntyped.

Definition bkind_eqb (a b : bkind) : bool :=
  match a, b with
  | KBool, KBool | KInt, KInt | KInt8, KInt8 | KInt16, KInt16 | KInt32, KInt32 | KInt64, KInt64
  | KUint, KUint | KUint8, KUint8 | KUint16, KUint16 | KUint32, KUint32 | KUint64, KUint64 | KUintptr, KUintptr
  | KFloat32, KFloat32 | KFloat64, KFloat64 | KComplex64, KComplex64 | KComplex128, KComplex128
  | KString, KString | KUnsafePointer, KUnsafePointer | KUntyped, KUntyped => true
  | _, _ => false
  end.

(** analysis.BasicKind / NewBasicKind(info) *)
Inductive bclass := BKString | BKInt | BKFloat | BKBool.
Definition bclass_eqb (a b : bclass) : bool :=
  match a, b with BKString, BKString | BKInt, BKInt | BKFloat, BKFloat | BKBool, BKBool => true | _, _ => false end.

Definition class_of_kind (k : bkind) : option bclass :=
  match k with
  | KBool => Some BKBool
  | KInt | KInt8 | KInt16 | KInt32 | KInt64 | KUint | KUint8 | KUint16 | KUint32 | KUint64 | KUintptr => Some BKInt
  | KFloat32 | KFloat64 => Some BKFloat
  | KString => Some BKString
  | _ => None   (* complex, unsafe pointer, untyped nil *)
  end.

(** Types as structural terms. Named (defined) types are references: [GNamed id] with
    [id] = the type string with full package paths, type arguments included. Aliases are
    already resolved (types.Unalias). *)
Inductive gty :=
| GBasic (k : bkind)
| GNamed (id : string)
| GPointer (t : gty)
| GArray (n : Z) (t : gty)
| GSlice (t : gty)
| GMap (k v : gty)
| GStructLit (descr : string)     (* anonymous struct *)
| GOther (descr : string).        (* chan, func, interface literal, type parameter, tuple, ... *)

Fixpoint gty_eqb (a b : gty) : bool :=
  match a, b with
  | GBasic x, GBasic y => bkind_eqb x y
  | GNamed x, GNamed y => String.eqb x y
  | GPointer x, GPointer y => gty_eqb x y
  | GArray n x, GArray m y => Z.eqb n m && gty_eqb x y
  | GSlice x, GSlice y => gty_eqb x y
  | GMap k x, GMap l y => gty_eqb k l && gty_eqb x y
  | GStructLit x, GStructLit y => String.eqb x y
  | GOther x, GOther y => String.eqb x y
  | _, _ => false
  end.

Record gfield := {
  f_name : string;
  f_type : gty;
  f_tag : string;          (* raw struct tag *)
  f_embedded : bool;
  f_exported : bool
}.

(** a method of a method set: name (qualified by package path when unexported) and full signature string *)
Record msig := { ms_id : string; ms_sig : string }.

Inductive gunder :=
| UBasic (k : bkind)
| UStruct (fields : list gfield)
| UInterface (methods : list msig)   (* full method set of the interface *)
| UPointer (t : gty)
| UArray (n : Z) (t : gty)
| USlice (t : gty)
| UMap (k v : gty)
| UOther (descr : string).

(** a defined type *)
Record ndecl := {
  n_id : string;             (* = the [GNamed] reference *)
  n_pkg : string;            (* package path ("" for universe) *)
  n_pkg_name : string;
  n_name : string;           (* Obj().Name() *)
  n_targs : list gty;        (* type arguments of an instantiation *)
  n_under : gunder;
  n_exported : bool;
  n_is_time : bool;          (* underlying struct text = time.Time's *)
  n_mset : list msig;        (* method set of the value type T *)
  n_in_scope : bool          (* is a package-level declaration found by scope lookup *)
}.

(** constant values *)
Inductive cval :=
| CInt (z : Z)             (* representable as int64 *)
| CBigInt (s : string)     (* integer outside int64: exact string *)
| CStr (s : string)
| CBool (b : bool)
| CFloat (s : string)
| COtherVal (s : string).

(** syntax node kinds that matter to nodeAt *)
Inductive nkind := NFile | NGenDecl | NValueSpec | NTypeSpec | NIdent | NOtherNode.
Definition nkind_eqb (a b : nkind) : bool :=
  match a, b with
  | NFile, NFile | NGenDecl, NGenDecl | NValueSpec, NValueSpec | NTypeSpec, NTypeSpec | NIdent, NIdent | NOtherNode, NOtherNode => true
  | _, _ => false
  end.

(** a syntax node containing a position, in the pre-order in which ast.Inspect meets it *)
Record cand := { cd_kind : nkind; cd_pos : Z; cd_end : Z }.

(** a package-level constant *)
Record cdecl := {
  c_name : string;
  c_type : option string;    (* Some id when the constant's type is a defined type *)
  c_val : cval;
  c_exact : string;          (* Val().ExactString() *)
  c_exported : bool;
  c_comment : string;        (* trailing comment of its ValueSpec, trimmed *)
  c_pos : Z;
  c_cands : list cand        (* nodes containing c_pos, pre-order *)
}.

Record gpkg := {
  p_path : string;
  p_name : string;
  p_imports : list string;   (* import paths *)
  p_consts : list cdecl;     (* in scope-name (sorted) order *)
  p_type_names : list string; (* ids of the defined types found through scope names, in scope order *)
  p_scope : list string       (* every package-level identifier (types, constants, variables, functions), sorted *)
}.

Record prog := {
  pr_root : string;            (* path of the analysed package *)
  pr_pkgs : list gpkg;         (* root first, then imports transitively (all of them) *)
  pr_types : list ndecl        (* every defined type mentioned anywhere *)
}.

Fixpoint find_pkg (path : string) (l : list gpkg) : option gpkg :=
  match l with [] => None | p :: r => if String.eqb (p_path p) path then Some p else find_pkg path r end.

Fixpoint find_type (id : string) (l : list ndecl) : option ndecl :=
  match l with [] => None | d :: r => if String.eqb (n_id d) id then Some d else find_type id r end.

Definition kind_is_integer (k : bkind) : bool :=
  match class_of_kind k with Some BKInt => true | _ => false end.
