(** The TypeScript declarations gomacro emits, as a small type environment, and structural
    inhabitation of a type by a JSON document (exact object keys, null only where the type allows it,
    tuples by length, enums as literal sets, brands erased). *)
From Coq Require Import List String Ascii ZArith Bool Arith.
From GM Require Import Sem.GoJson.
Import ListNotations.
Local Open Scope string_scope.

Inductive texpr :=
| TString | TNumber | TBoolean | TUnknown
| TRef (name : string)
| TNullable (t : texpr)         (* ( T | null ) *)
| TArr (t : texpr)              (* T[] *)
| TRecord (k v : texpr).        (* Record<K, V> *)

Inductive tdecl :=
| TDAlias (t : texpr)                         (* export type X = T *)
| TDBrand (base : texpr)                      (* export type X = number & { __opaque__: 'X' } *)
| TDTuple (n : nat) (t : texpr)               (* export type ArN_T = [T,T,...] *)
| TDEnum (values : list json)                 (* const object + literal union *)
| TDInterface (fields : list (string * texpr))
| TDEmptyRecord                               (* Record<string, never> *)
| TDUnion (alts : list (string * texpr)).     (* | { Kind : "A", Data: A } ... *)

Definition tenv := list (string * tdecl).

Fixpoint lookup_decl (n : string) (env : tenv) : option tdecl :=
  match env with [] => None | (k, d) :: r => if String.eqb k n then Some d else lookup_decl n r end.

Section Inhabits.
  Variable env : tenv.

  Fixpoint inhabitsb (fuel : nat) (t : texpr) (j : json) : bool :=
    match fuel with
    | O => false
    | S f =>
        match t with
        | TUnknown => true
        | TString => match j with JStr _ => true | _ => false end
        | TNumber => match j with JNum _ => true | _ => false end
        | TBoolean => match j with JBool _ => true | _ => false end
        | TNullable t' => match j with JNull => true | _ => inhabitsb f t' j end
        | TArr t' => match j with JArr l => forallb (inhabitsb f t') l | _ => false end
        | TRecord _ v => match j with JObj l => forallb (fun kv => inhabitsb f v (snd kv)) l | _ => false end
        | TRef n =>
            match lookup_decl n env with
            | None => false
            | Some (TDAlias t') => inhabitsb f t' j
            | Some (TDBrand b) => inhabitsb f b j
            | Some (TDTuple n t') => match j with JArr l => Nat.eqb (List.length l) n && forallb (inhabitsb f t') l | _ => false end
            | Some (TDEnum vs) => existsb (json_eqb j) vs
            | Some TDEmptyRecord => match j with JObj [] => true | _ => false end
            | Some (TDInterface fields) =>
                match j with
                | JObj l =>
                    nodup_keys l
                    && forallb (fun kv => existsb (fun fd => String.eqb (fst fd) (fst kv)) fields) l
                    && forallb (fun fd => match assoc_json (fst fd) l with Some v => inhabitsb f (snd fd) v | None => false end) fields
                | _ => false end
            | Some (TDUnion alts) =>
                match j with
                | JObj l =>
                    Nat.eqb (List.length l) 2 &&
                    match assoc_json "Kind" l, assoc_json "Data" l with
                    | Some (JStr k), Some d =>
                        match find (fun a => String.eqb (fst a) k) alts with
                        | Some a => inhabitsb f (snd a) d
                        | None => false end
                    | _, _ => false end
                | _ => false end
            end
        end
    end.
End Inhabits.

(** every name mentioned is declared, and declared once *)
Fixpoint refs_of (t : texpr) : list string :=
  match t with
  | TRef n => [n]
  | TNullable t' | TArr t' => refs_of t'
  | TRecord k v => refs_of k ++ refs_of v
  | _ => []
  end.

Definition decl_refs (d : tdecl) : list string :=
  match d with
  | TDAlias t | TDBrand t | TDTuple _ t => refs_of t
  | TDInterface fs => flat_map (fun f => refs_of (snd f)) fs
  | TDUnion alts => flat_map (fun a => refs_of (snd a)) alts
  | _ => []
  end.

Definition count_decl (n : string) (env : tenv) : nat := List.length (filter (fun d => String.eqb (fst d) n) env).

Definition well_formed (env : tenv) : bool :=
  forallb (fun d => forallb (fun r => Nat.eqb (count_decl r env) 1) (decl_refs (snd d))) env
  && forallb (fun d => Nat.eqb (count_decl (fst d) env) 1) env.
