(** JSON documents, and the shape of the documents Go's encoding/json (with the generated union
    wrappers compiled in) writes for a value of an analysed type. The shape is the statement of the
    wire format; it is validated on every run against the real encoder (every document written by the
    test binary must conform to the shape of its type). *)
From Coq Require Import List String Ascii ZArith Bool Arith.
From GM Require Import Base.Result Facts.GoFacts Facts.Ana Model.Enums Model.Fields Model.Classify Model.SqlTypes Model.Dart.
Import ListNotations.
Local Open Scope string_scope.

Inductive json :=
| JNull | JBool (b : bool) | JNum (lit : string) | JStr (s : string)
| JArr (l : list json) | JObj (l : list (string * json)).

Inductive jshape :=
| ShBool | ShNumber | ShString
| ShNullable (s : jshape)                 (* null, or s: nil slices, maps *)
| ShArrayOf (s : jshape)
| ShTuple (n : nat) (s : jshape)          (* fixed-size array *)
| ShMapOf (s : jshape)
| ShEnum (values : list json)
| ShRef (id : string)                     (* struct or union, through the environment *)
| ShAny.                                  (* opaque *)

(** definitions of the named shapes *)
Inductive jdef :=
| DObject (fields : list (string * jshape * bool))   (* key, shape, may be omitted (omitempty) *)
| DUnion (members : list (string * jshape)).         (* Kind -> shape of Data *)

Definition jenv := list (string * jdef).

Fixpoint lookup_def (id : string) (env : jenv) : option jdef :=
  match env with [] => None | (k, d) :: r => if String.eqb k id then Some d else lookup_def id r end.

Fixpoint json_eqb (a b : json) : bool :=
  match a, b with
  | JNull, JNull => true
  | JBool x, JBool y => Bool.eqb x y
  | JNum x, JNum y => String.eqb x y
  | JStr x, JStr y => String.eqb x y
  | JArr x, JArr y => (fix go (x y : list json) := match x, y with [], [] => true | p :: x', q :: y' => json_eqb p q && go x' y' | _, _ => false end) x y
  | JObj x, JObj y => (fix go (x y : list (string * json)) := match x, y with
                          | [], [] => true
                          | (k, p) :: x', (l, q) :: y' => String.eqb k l && json_eqb p q && go x' y'
                          | _, _ => false end) x y
  | _, _ => false
  end.

Fixpoint assoc_json (k : string) (l : list (string * json)) : option json :=
  match l with [] => None | (k', v) :: r => if String.eqb k k' then Some v else assoc_json k r end.

Fixpoint nodup_keys (l : list (string * json)) : bool :=
  match l with [] => true | (k, _) :: r => negb (existsb (fun p => String.eqb (fst p) k) r) && nodup_keys r end.

(** * conformance of a document to a shape (boolean, fuel = bound on the nesting of the document) *)
Section Conforms.
  Variable env : jenv.

  Fixpoint conformsb (fuel : nat) (s : jshape) (j : json) : bool :=
    match fuel with
    | O => false
    | S f =>
        match s with
        | ShAny => true
        | ShBool => match j with JBool _ => true | _ => false end
        | ShNumber => match j with JNum _ => true | _ => false end
        | ShString => match j with JStr _ => true | _ => false end
        | ShNullable s' => match j with JNull => true | _ => conformsb f s' j end
        | ShArrayOf s' => match j with JArr l => forallb (conformsb f s') l | _ => false end
        | ShTuple n s' => match j with JArr l => Nat.eqb (List.length l) n && forallb (conformsb f s') l | _ => false end
        | ShMapOf s' => match j with JObj l => nodup_keys l && forallb (fun kv => conformsb f s' (snd kv)) l | _ => false end
        | ShEnum vs => existsb (json_eqb j) vs
        | ShRef id =>
            match lookup_def id env, j with
            | Some (DObject fields), JObj l =>
                nodup_keys l
                && forallb (fun kv => existsb (fun fd => String.eqb (fst (fst fd)) (fst kv)) fields) l      (* no extra key *)
                && forallb (fun fd => let '(k, sh, opt) := fd in
                                      match assoc_json k l with
                                      | Some v => conformsb f sh v
                                      | None => opt end) fields                                             (* no missing key *)
            | Some (DUnion members), JObj l =>
                Nat.eqb (List.length l) 2 &&
                match assoc_json "Kind" l, assoc_json "Data" l with
                | Some (JStr k), Some d =>
                    match find (fun m => String.eqb (fst m) k) members with
                    | Some m => conformsb f (snd m) d
                    | None => false end
                | _, _ => false end
            | _, _ => false
            end
        end
    end.
End Conforms.

(** * the shape of the documents Go writes for the type at a position of the analysis *)
Section Shape.
  Variable pr : prog.
  Variable nodes : list nrec.
  Variable enums : list enum.

  Definition node_of (t : gty) : option nrec := find_node t nodes.

  Definition is_union_node (t : gty) : bool :=
    match node_of t with Some n => akind_eqb (nr_kind n) KdUnion | None => false end.

  (** the wire value of an enum member *)
  Definition enum_json (m : emember) : json :=
    match em_val m with
    | CStr s => JStr s
    | CBool b => JBool b
    | CFloat s => JNum s          (* the decimal form of the float64 value *)
    | _ => JNum (em_exact m)
    end.

  (** [named]: the position is the underlying type of a defined slice / map type (the generated
      MarshalJSON of a named container of unions never writes null) *)
  Fixpoint shape_of (fuel : nat) (named : bool) (t : gty) : jshape :=
    match fuel with
    | O => ShAny
    | S f =>
        match node_of t with
        | None => ShAny
        | Some n =>
            match nr_kind n with
            | KdBasic =>
                match nr_bkind n with
                | Some k => match class_of_kind k with
                            | Some BKBool => ShBool | Some BKString => ShString | Some _ => ShNumber | None => ShAny end
                | None => ShAny end
            | KdTime => ShString
            | KdEnum => match nr_at n with
                        | GNamed id => match find (fun e => String.eqb (en_id e) id) enums with
                                       | Some e => ShEnum (map enum_json (en_members e)) | None => ShAny end
                        | _ => ShAny end
            | KdStruct | KdUnion => match nr_at n with GNamed id => ShRef id | _ => ShAny end
            | KdPointer => match nr_children n with [e] => ShNullable (shape_of f false e) | _ => ShAny end
            | KdArray =>
                match nr_children n with
                | [e] =>
                    if Z.leb 0 (nr_len n) then
                      (* [n]byte is an array of numbers; only []byte is base64 *)
                      ShTuple (Z.to_nat (nr_len n)) (shape_of f false e)
                    else
                      (* a slice whose element kind is uint8 (byte, or any defined type over it) is base64 text *)
                      match node_of e with
                      | Some m => match basic_of pr e with
                                  | Some KUint8 => ShNullable ShString
                                  | _ => if named && is_union_node e then ShArrayOf (shape_of f false e) else ShNullable (ShArrayOf (shape_of f false e))
                                  end
                      | None => ShAny end
                | _ => ShAny end
            | KdMap =>
                match nr_children n with
                | [_; e] => if named && is_union_node e then ShMapOf (shape_of f false e) else ShNullable (ShMapOf (shape_of f false e))
                | _ => ShAny end
            | KdNamed =>
                match nr_children n with
                | [u] => match node_of u with
                         | Some m => if akind_eqb (nr_kind m) KdTime then ShRef "<named time>" else shape_of f true u
                         | None => ShAny end
                | _ => ShAny end
            end
        end
    end.

  (** omitempty never omits a struct (time.Time, the wrapper of an union field included) *)
  Fixpoint never_empty (fuel : nat) (t : gty) : bool :=
    match fuel with
    | O => false
    | S f =>
        match node_of t with
        | Some n =>
            match nr_kind n with
            | KdStruct | KdUnion | KdTime => true
            | KdArray => Z.ltb 0 (nr_len n)          (* a fixed size array of positive length is never empty *)
            | KdNamed => match nr_children n with [u] => never_empty f u | _ => false end
            | _ => false
            end
        | None => false
        end
    end.

  Definition has_omitempty (f : afield) : bool :=
    contains ",omitempty" (tag_lookup "json" (af_tag f)) && negb (never_empty 3 (af_type f)).

  (** environment: one definition per struct and union node *)
  Definition env_of : jenv :=
    ("<named time>", DObject []) ::
    flat_map (fun n =>
      match nr_at n, nr_kind n with
      | GNamed id, KdStruct =>
          [(id, DObject (map (fun f => (std_key (sfield_of f), shape_of 12 false (af_type f), has_omitempty f))
                             (filter (fun f => std_serialised (sfield_of f)) (nr_fields n))))]
      | GNamed id, KdUnion =>
          [(id, DUnion (map (fun m => (local_name_of pr m, shape_of 12 false (GNamed m))) (nr_members n)))]
      | _, _ => []
      end) nodes.
End Shape.

Fixpoint json_depth (j : json) : nat :=
  match j with
  | JArr l => S (fold_right (fun x acc => Nat.max (json_depth x) acc) 0 l)
  | JObj l => S (fold_right (fun kv acc => Nat.max (json_depth (snd kv)) acc) 0 l)
  | _ => 1
  end.
