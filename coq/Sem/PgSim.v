(** Agreement of a set of validators with a set of wire shapes, as a finite table of pairs
    (validator name, shape) closed under "is called on the children of": the decidable hypothesis of
    the C04 theorems, computed on every run from the real script and the wire shapes of the program. *)
From Coq Require Import List String Ascii ZArith Bool Arith.
From GM Require Import Sem.GoJson Sem.PgSem.
Import ListNotations.
Local Open Scope string_scope.

Fixpoint list_eqb {A} (f : A -> A -> bool) (a b : list A) : bool :=
  match a, b with [], [] => true | x :: a', y :: b' => f x y && list_eqb f a' b' | _, _ => false end.

Fixpoint forallb2 {A B} (f : A -> B -> bool) (a : list A) (b : list B) : bool :=
  match a, b with [], [] => true | x :: a', y :: b' => f x y && forallb2 f a' b' | _, _ => false end.

Fixpoint jshape_eqb (a b : jshape) : bool :=
  match a, b with
  | ShBool, ShBool | ShNumber, ShNumber | ShString, ShString | ShAny, ShAny => true
  | ShNullable x, ShNullable y | ShArrayOf x, ShArrayOf y | ShMapOf x, ShMapOf y => jshape_eqb x y
  | ShTuple n x, ShTuple m y => Nat.eqb n m && jshape_eqb x y
  | ShEnum x, ShEnum y => list_eqb json_eqb x y
  | ShRef x, ShRef y => String.eqb x y
  | _, _ => false
  end.

Definition table := list (string * jshape).

Definition memb (t : table) (fn : string) (sh : jshape) : bool :=
  existsb (fun e => String.eqb (fst e) fn && jshape_eqb (snd e) sh) t.

Fixpoint nodupb (l : list string) : bool :=
  match l with [] => true | x :: r => negb (existsb (String.eqb x) r) && nodupb r end.

Definition int4_json (v : json) : bool := match v with JNum lit => int4_literal lit | _ => false end.

Definition enum_ok (k : string) (as_int : bool) (vs : list json) : bool :=
  (String.eqb k "number" || String.eqb k "string" || String.eqb k "boolean")
  && forallb (fun v => String.eqb (typeof v) k) vs
  && (if as_int then forallb int4_json vs else forallb is_jstr vs).

Definition callees (v : vfun) : list string :=
  match v with
  | VBasic _ | VEnum _ _ _ => []
  | VArray _ _ _ e | VMap e => [e]
  | VStruct _ c | VUnion _ c => map snd c
  end.

Section Sim.
  Variable venv : venv.
  Variable jenv : jenv.

  Definition is_union_fn (g : string) : bool := match lookup_fun g venv with Some (VUnion _ _) => true | _ => false end.

  Definition key_of (fd : string * jshape * bool) : string := fst (fst fd).
  Definition shape_of_field (fd : string * jshape * bool) : jshape := snd (fst fd).

  Definition entry_ok (t : table) (e : string * jshape) : bool :=
    match lookup_fun (fst e) venv with
    | None => false
    | Some v =>
        match snd e, v with
        | ShBool, VBasic k => String.eqb k "boolean"
        | ShNumber, VBasic k => String.eqb k "number"
        | ShString, VBasic k => String.eqb k "string"
        | ShEnum vs, VEnum k as_int vs' => list_eqb json_eqb vs vs' && enum_ok k as_int vs'
        | ShNullable (ShArrayOf s), VArray true _ None el => memb t el s
        | ShArrayOf s, VArray _ _ None el => memb t el s
        | ShTuple n s, VArray _ false (Some m) el => Nat.eqb n m && memb t el s
        | ShNullable (ShMapOf s), VMap el => memb t el s
        | ShMapOf s, VMap el => memb t el s
        | ShRef id, VStruct (Some ks) checks =>
            match lookup_def id jenv with
            | Some (DObject fields) =>
                list_eqb String.eqb ks (map key_of fields)
                && nodupb ks
                && forallb2 (fun c fd => String.eqb (fst c) (key_of fd) && memb t (snd c) (shape_of_field fd)
                                         && (negb (snd fd) || negb (is_union_fn (snd c)))) checks fields
            | _ => false
            end
        | ShRef id, VUnion true cases =>
            match lookup_def id jenv with
            | Some (DUnion members) => forallb2 (fun c m => String.eqb (fst c) (fst m) && memb t (snd c) (snd m)) cases members
            | _ => false
            end
        | _, _ => false
        end
    end.

  Definition sim_ok (t : table) : bool := forallb (entry_ok t) t.

  (** the pairs reached from a column: the validator of the CHECK with the shape of the column, then down *)
  Fixpoint build_table (fuel : nat) (fn : string) (sh : jshape) : table :=
    match fuel with
    | O => []
    | S f =>
        (fn, sh) ::
        match lookup_fun fn venv with
        | None => []
        | Some v =>
            match sh, v with
            | ShNullable (ShArrayOf s), VArray _ _ _ el | ShArrayOf s, VArray _ _ _ el | ShTuple _ s, VArray _ _ _ el
            | ShNullable (ShMapOf s), VMap el | ShMapOf s, VMap el => build_table f el s
            | ShRef id, VStruct _ checks =>
                match lookup_def id jenv with
                | Some (DObject fields) => flat_map (fun cf => build_table f (snd (fst cf)) (shape_of_field (snd cf))) (combine checks fields)
                | _ => [] end
            | ShRef id, VUnion _ cases =>
                match lookup_def id jenv with
                | Some (DUnion members) => flat_map (fun cm => build_table f (snd (fst cm)) (snd (snd cm))) (combine cases members)
                | _ => [] end
            | _, _ => []
            end
        end
    end.
End Sim.
