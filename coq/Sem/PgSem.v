(** The PL/pgSQL validators gomacro emits, as an AST of the six templates, and their evaluation over
    jsonb under PostgreSQL's three-valued logic: a missing key is SQL NULL, jsonb_typeof and the
    comparisons are strict, bool_and over zero rows is NULL, AND/OR are evaluated left to right with
    short circuit, a cast of a non-number to int raises. A CHECK constraint passes unless its
    expression is false (or raises). This is a reading of the PostgreSQL manual: no server is available
    to validate it. *)
From Coq Require Import List String Ascii ZArith Bool Arith.
From GM Require Import Sem.GoJson.
Import ListNotations.
Local Open Scope string_scope.

Inductive tri := TTrue | TFalse | TNull | TErr.

Definition tri_and (a b : tri) : tri :=   (* a AND b, a evaluated first *)
  match a with
  | TErr => TErr
  | TFalse => TFalse
  | TTrue => b
  | TNull => match b with TFalse => TFalse | TErr => TErr | _ => TNull end
  end.

Definition tri_of_bool (b : bool) : tri := if b then TTrue else TFalse.

(** bool_and over the rows of a set-returning function: NULL for no row, false if any false *)
Fixpoint bool_and (l : list tri) : tri :=
  match l with
  | [] => TNull
  | [x] => x
  | x :: r => match x, bool_and r with
              | TErr, _ | _, TErr => TErr
              | TFalse, _ | _, TFalse => TFalse
              | TNull, y => y        (* NULL inputs are ignored by aggregates *)
              | x', TNull => x'
              | TTrue, TTrue => TTrue
              end
  end.

Inductive vfun :=
| VBasic (kind : string)
| VEnum (kind : string) (as_int : bool) (values : list json)
| VArray (guard_null accept_zero : bool) (len_crit : option nat) (elem : string)
| VMap (elem : string)
| VStruct (keys : option (list string)) (checks : list (string * string))   (* key list (None = TRUE) ; key, validator *)
| VUnion (strict_keys : bool) (cases : list (string * string)).             (* Kind, validator of the member *)

Definition venv := list (string * vfun).

Fixpoint lookup_fun (n : string) (env : venv) : option vfun :=
  match env with [] => None | (k, d) :: r => if String.eqb k n then Some d else lookup_fun n r end.

(** an integer literal that fits the int type of PostgreSQL *)
Definition is_digit (c : ascii) : bool := let n := nat_of_ascii c in Nat.leb 48 n && Nat.leb n 57.
Fixpoint all_digits (s : string) : bool := match s with EmptyString => true | String c r => is_digit c && all_digits r end.
Definition int4_literal (s : string) : bool :=
  let body := match s with String "-" r => r | _ => s end in
  negb (String.eqb body "") && all_digits body && Nat.leb (String.length body) 9.
Definition is_jstr (j : json) : bool := match j with JStr _ => true | _ => false end.

(** jsonb_typeof *)
Definition typeof (j : json) : string :=
  match j with
  | JNull => "null" | JBool _ => "boolean" | JNum _ => "number" | JStr _ => "string" | JArr _ => "array" | JObj _ => "object"
  end.

Section Eval.
  Variable env : venv.

  (** [eval fuel fn data]: data = None is SQL NULL (a missing key) *)
  Fixpoint eval (fuel : nat) (fn : string) (data : option json) : tri :=
    match fuel with
    | O => TErr
    | S f =>
        match lookup_fun fn env with
        | None => TErr      (* function does not exist *)
        | Some v =>
            match data with
            | None =>
                (* every template returns NULL on SQL NULL: the guards are not taken, the final expression is NULL *)
                match v with
                | VUnion _ _ => TFalse  (* the guard is NULL (not taken), no WHEN matches a NULL Kind: ELSE RETURN FALSE *)
                | _ => TNull
                end
            | Some j =>
                match v with
                | VBasic kind => tri_of_bool (String.eqb (typeof j) kind)
                | VEnum kind as_int values =>
                    (* jsonb_typeof(data) = kind AND cast IN values ; the IN list is typed when the function is planned *)
                    if as_int then
                      (if String.eqb (typeof j) kind then
                         match j with
                         | JNum lit => if int4_literal lit then tri_of_bool (existsb (json_eqb j) values)
                                       else TErr     (* rounding cast or integer out of range: outside the modelled fragment *)
                         | _ => TErr                 (* cannot cast jsonb string / boolean to integer *)
                         end
                       else TFalse)
                    else if forallb is_jstr values then
                      (if String.eqb (typeof j) kind then
                         match j with JStr _ => tri_of_bool (existsb (json_eqb j) values) | _ => TFalse end
                       else TFalse)
                    else TErr                        (* operator does not exist: text = numeric / boolean *)
                | VArray guard_null accept_zero len_crit elem =>
                    match j with
                    | JNull => if guard_null then TTrue else TFalse
                    | JArr l =>
                        if accept_zero && match l with [] => true | _ => false end then TTrue
                        else
                          let elems := bool_and (map (fun x => eval f elem (Some x)) l) in
                          match len_crit with
                          | None => elems
                          | Some n => tri_and elems (tri_of_bool (Nat.eqb (List.length l) n))
                          end
                    | _ => TFalse
                    end
                | VMap elem =>
                    match j with
                    | JNull => TTrue
                    | JObj l => tri_and TTrue (bool_and (map (fun kv => eval f elem (Some (snd kv))) l))
                    | _ => TFalse
                    end
                | VStruct keys checks =>
                    match j with
                    | JObj l =>
                        fold_left (fun acc fd => tri_and acc (eval f (snd fd) (assoc_json (fst fd) l)))
                                  checks
                                  (bool_and (map (fun kv => match keys with
                                                            | None => TTrue
                                                            | Some ks => tri_of_bool (existsb (String.eqb (fst kv)) ks)
                                                            end) l))
                    | _ => TFalse
                    end
                | VUnion strict cases =>
                    match j with
                    | JObj l =>
                        match assoc_json "Kind" l with
                        | Some (JStr k) =>
                            if strict && negb (forallb (fun kv => String.eqb (fst kv) "Kind" || String.eqb (fst kv) "Data") l) then TFalse
                            else
                            match find (fun c => String.eqb (fst c) k) cases with
                            | Some c => eval f (snd c) (assoc_json "Data" l)
                            | None => TFalse
                            end
                        | _ => TFalse    (* Kind missing: the guard is NULL (not taken), no WHEN matches a NULL Kind: ELSE RETURN FALSE *)
                        end
                    | _ => TFalse
                    end
                end
            end
        end
    end.
End Eval.

Definition check_passes (t : tri) : bool := match t with TTrue | TNull => true | _ => false end.
