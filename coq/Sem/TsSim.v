(** Agreement of a TypeScript environment with a set of Go wire shapes, as a finite table of pairs
    (type expression, shape) closed under "is the type of the children of": the decidable premise of
    the global C03 theorem, computed on every run from the parsed TypeScript file and the wire shapes. *)
From Coq Require Import List String Ascii ZArith Bool Arith.
From GM Require Import Sem.GoJson Sem.TsSem Sem.PgSem Sem.PgSim.
Import ListNotations.
Local Open Scope string_scope.

Fixpoint texpr_eqb (a b : texpr) : bool :=
  match a, b with
  | TString, TString | TNumber, TNumber | TBoolean, TBoolean | TUnknown, TUnknown => true
  | TRef x, TRef y => String.eqb x y
  | TNullable x, TNullable y | TArr x, TArr y => texpr_eqb x y
  | TRecord k v, TRecord k' v' => texpr_eqb k k' && texpr_eqb v v'
  | _, _ => false
  end.

Definition ttable := list (texpr * jshape).

Definition tmemb (tb : ttable) (te : texpr) (sh : jshape) : bool :=
  existsb (fun e => texpr_eqb (fst e) te && jshape_eqb (snd e) sh) tb.

Section TSim.
  Variable tenv0 : tenv.
  Variable jenv0 : jenv.

  (** how many aliases / brands stand between a reference and a structural declaration *)
  Fixpoint hops (fuel : nat) (t : texpr) : nat :=
    match fuel with
    | O => 0
    | S f => match t with
             | TRef n => match lookup_decl n tenv0 with
                         | Some (TDAlias t') | Some (TDBrand t') => S (hops f t')
                         | _ => 0 end
             | _ => 0
             end
    end.

  Definition hop_fuel := 8.

  Definition tentry_ok (tb : ttable) (e : texpr * jshape) : bool :=
    match fst e, snd e with
    | TUnknown, _ => true
    | TString, ShString | TNumber, ShNumber | TBoolean, ShBool => true
    | TNullable (TArr t'), ShNullable (ShArrayOf s) | TNullable (TArr t'), ShArrayOf s => tmemb tb t' s
    | TNullable (TRecord _ v), ShNullable (ShMapOf s) | TNullable (TRecord _ v), ShMapOf s => tmemb tb v s
    | TRef n, sh =>
        match lookup_decl n tenv0 with
        | Some (TDAlias t') | Some (TDBrand t') => tmemb tb t' sh && Nat.eqb (hops hop_fuel (TRef n)) (S (hops hop_fuel t'))
        | Some (TDTuple k t') => match sh with ShTuple k' s => Nat.eqb k k' && tmemb tb t' s | _ => false end
        | Some (TDEnum vs) => match sh with ShEnum vs' => list_eqb json_eqb vs' vs | _ => false end
        | Some TDEmptyRecord => match sh with ShRef id => match lookup_def id jenv0 with Some (DObject []) => true | _ => false end | _ => false end
        | Some (TDInterface fields) =>
            match sh with
            | ShRef id => match lookup_def id jenv0 with
                          | Some (DObject gf) => forallb2 (fun tf g => String.eqb (fst tf) (key_of g) && tmemb tb (snd tf) (shape_of_field g) && negb (snd g)) fields gf
                          | _ => false end
            | _ => false end
        | Some (TDUnion alts) =>
            match sh with
            | ShRef id => match lookup_def id jenv0 with
                          | Some (DUnion members) => forallb2 (fun a m => String.eqb (fst a) (fst m) && tmemb tb (snd a) (snd m)) alts members
                          | _ => false end
            | _ => false end
        | None => false
        end
    | _, _ => false
    end.

  Definition tsim_ok (tb : ttable) : bool := forallb (tentry_ok tb) tb.

  (** the pairs reached from the type of a document *)
  Fixpoint tbuild (fuel : nat) (te : texpr) (sh : jshape) : ttable :=
    match fuel with
    | O => []
    | S f =>
        (te, sh) ::
        match te, sh with
        | TNullable (TArr t'), ShNullable (ShArrayOf s) | TNullable (TArr t'), ShArrayOf s => tbuild f t' s
        | TNullable (TRecord _ v), ShNullable (ShMapOf s) | TNullable (TRecord _ v), ShMapOf s => tbuild f v s
        | TRef n, _ =>
            match lookup_decl n tenv0 with
            | Some (TDAlias t') | Some (TDBrand t') => tbuild f t' sh
            | Some (TDTuple _ t') => match sh with ShTuple _ s => tbuild f t' s | _ => [] end
            | Some (TDInterface fields) =>
                match sh with
                | ShRef id => match lookup_def id jenv0 with
                              | Some (DObject gf) => flat_map (fun tg => tbuild f (snd (fst tg)) (shape_of_field (snd tg))) (combine fields gf)
                              | _ => [] end
                | _ => [] end
            | Some (TDUnion alts) =>
                match sh with
                | ShRef id => match lookup_def id jenv0 with
                              | Some (DUnion members) => flat_map (fun am => tbuild f (snd (fst am)) (snd (snd am))) (combine alts members)
                              | _ => [] end
                | _ => [] end
            | _ => []
            end
        | _, _ => []
        end
    end.
  (** the same pairs by a worklist with a visited set: [tbuild] re-explores shared sub-types and needs a fuel of the
      nesting depth, which deep synthesised types exceed; the theorems hold for any table that passes [tsim_ok] *)
  Definition tkids (te : texpr) (sh : jshape) : ttable :=
    match te, sh with
    | TNullable (TArr t'), ShNullable (ShArrayOf s) | TNullable (TArr t'), ShArrayOf s => [(t', s)]
    | TNullable (TRecord _ v), ShNullable (ShMapOf s) | TNullable (TRecord _ v), ShMapOf s => [(v, s)]
    | TRef n, _ =>
        match lookup_decl n tenv0 with
        | Some (TDAlias t') | Some (TDBrand t') => [(t', sh)]
        | Some (TDTuple _ t') => match sh with ShTuple _ s => [(t', s)] | _ => [] end
        | Some (TDInterface fields) =>
            match sh with
            | ShRef id => match lookup_def id jenv0 with
                          | Some (DObject gf) => map (fun tg => (snd (fst tg), shape_of_field (snd tg))) (combine fields gf)
                          | _ => [] end
            | _ => [] end
        | Some (TDUnion alts) =>
            match sh with
            | ShRef id => match lookup_def id jenv0 with
                          | Some (DUnion members) => map (fun am => (snd (fst am), snd (snd am))) (combine alts members)
                          | _ => [] end
            | _ => [] end
        | _ => []
        end
    | _, _ => []
    end.

  Fixpoint tclose (fuel : nat) (todo acc : ttable) : ttable :=
    match fuel with
    | O => acc
    | S f =>
        match todo with
        | [] => acc
        | (te, sh) :: r => if tmemb acc te sh then tclose f r acc else tclose f (tkids te sh ++ r)%list ((te, sh) :: acc)
        end
    end.
End TSim.
