(** Single-point corruptions of a JSON document of a given wire shape, from the five classes of C04:
    unknown object key, value of the wrong JSON kind, unknown union Kind, non-member enum value, wrong
    fixed-array length. The corrupted document is the whole document with one point changed. *)
From Coq Require Import List String Ascii ZArith Bool Arith.
From GM Require Import Sem.GoJson.
Import ListNotations.
Local Open Scope string_scope.

Inductive cclass := CUnknownKey | CWrongKind | CUnknownUnionKind | CNonMember | CWrongLength.

(** a value of another JSON kind, never null (null is what nil slices and maps write) *)
Definition wrong_kind (j : json) : json := match j with JStr _ => JNum "7" | _ => JStr "__wrong_kind__" end.

Definition non_member (vs : list json) : option json :=
  match vs with
  | JNum _ :: _ => let c := JNum "987654" in if existsb (json_eqb c) vs then None else Some c
  | JStr _ :: _ => let c := JStr "__not_a_member__" in if existsb (json_eqb c) vs then None else Some c
  | _ => None
  end.

Fixpoint replace_nth {A} (n : nat) (x : A) (l : list A) : list A :=
  match l, n with
  | [], _ => []
  | _ :: r, O => x :: r
  | y :: r, S m => y :: replace_nth m x r
  end.

(** replaces the value of the first entry of key [k] *)
Fixpoint set_key (k : string) (v : json) (l : list (string * json)) : list (string * json) :=
  match l with
  | [] => []
  | (k', v') :: r => if String.eqb k k' then (k', v) :: r else (k', v') :: set_key k v r
  end.

Definition unknown_key := "__unknown_key__".
Definition unknown_kind := "__UnknownKind__".

(** [width]: how many elements of an array / entries of a map are visited *)
Definition width := 2.

Definition indexed {A} (l : list A) : list (nat * A) := combine (seq 0 (List.length l)) l.

Section Corrupt.
  Variable env : jenv.

  Fixpoint corruptions (fuel : nat) (s : jshape) (j : json) : list (cclass * json) :=
    match fuel with
    | O => []
    | S f =>
        match s with
        | ShAny => []
        | ShBool | ShNumber | ShString => [(CWrongKind, wrong_kind j)]
        | ShNullable s' => match j with JNull => [] | _ => corruptions f s' j end
        | ShEnum vs =>
            (CWrongKind, JArr []) :: match non_member vs with Some c => [(CNonMember, c)] | None => [] end
        | ShArrayOf s' =>
            match j with
            | JArr l =>
                (CWrongKind, JStr "__wrong_kind__")
                :: flat_map (fun ix => map (fun c => (fst c, JArr (replace_nth (fst ix) (snd c) l))) (corruptions f s' (snd ix)))
                            (firstn width (indexed l))
            | _ => []
            end
        | ShTuple n s' =>
            match j with
            | JArr l =>
                (CWrongKind, JStr "__wrong_kind__")
                :: (CWrongLength, JArr (l ++ [match l with x :: _ => x | [] => JNull end])%list)
                :: (match l with [] => [] | _ => [(CWrongLength, JArr (removelast l))] end
                ++ flat_map (fun ix => map (fun c => (fst c, JArr (replace_nth (fst ix) (snd c) l))) (corruptions f s' (snd ix)))
                            (firstn width (indexed l)))%list
            | _ => []
            end
        | ShMapOf s' =>
            match j with
            | JObj l =>
                (CWrongKind, JStr "__wrong_kind__")
                :: flat_map (fun kv => map (fun c => (fst c, JObj (set_key (fst kv) (snd c) l))) (corruptions f s' (snd kv)))
                            (firstn width l)
            | _ => []
            end
        | ShRef id =>
            match lookup_def id env, j with
            | Some (DObject fields), JObj l =>
                (CWrongKind, JStr "__wrong_kind__")
                :: ((if existsb (fun fd => String.eqb (fst (fst fd)) unknown_key) fields then []
                     else [(CUnknownKey, JObj (l ++ [(unknown_key, JNum "1")])%list)])
                ++ flat_map (fun fd => match assoc_json (fst (fst fd)) l with
                                       | Some v => map (fun c => (fst c, JObj (set_key (fst (fst fd)) (snd c) l))) (corruptions f (snd (fst fd)) v)
                                       | None => [] end) fields)%list
            | Some (DUnion members), JObj l =>
                (CWrongKind, JStr "__wrong_kind__")
                :: (CUnknownKey, JObj (l ++ [(unknown_key, JNum "1")])%list)
                :: ((if existsb (fun m => String.eqb (fst m) unknown_kind) members then []
                     else [(CUnknownUnionKind, JObj (set_key "Kind" (JStr unknown_kind) l))])
                ++ match assoc_json "Kind" l, assoc_json "Data" l with
                   | Some (JStr k), Some d =>
                       match find (fun m => String.eqb (fst m) k) members with
                       | Some m => map (fun c => (fst c, JObj (set_key "Data" (snd c) l))) (corruptions f (snd m) d)
                       | None => [] end
                   | _, _ => [] end)%list
            | _, _ => []
            end
        end
    end.
End Corrupt.
