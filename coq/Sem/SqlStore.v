(** A schema-free reading of the statements the CRUD generator emits, over one table: rows are
    total maps from (folded) column names to nullable integers, the column named id is serial,
    identifiers are compared after folding to lower case (as PostgreSQL does for unquoted names),
    a comparison with NULL is not true. Enough to state that the generated functions behave like
    the obvious model on lists of items. *)
From Coq Require Import List String Ascii ZArith Bool Arith.
From GM Require Import Model.Classify Model.Crud.
Import ListNotations.
Local Open Scope string_scope.

Notation val := (option Z) (only parsing).   (* None is NULL *)
Definition row := string -> val.         (* folded column name -> value *)
Record tbl := { t_rows : list row; t_next : Z }.

Inductive arg := AV (v : val) | AL (l : list Z).    (* a scalar, or an array bound to ANY($n) *)

Definition arg_val (args : list arg) (ph : nat) : val :=
  match nth_error args (ph - 1) with Some (AV v) => v | _ => None end.
Definition arg_list (args : list arg) (ph : nat) : list Z :=
  match nth_error args (ph - 1) with Some (AL l) => l | _ => [] end.

Definition holds (r : row) (args : list arg) (c : cond) : bool :=
  match c with
  | CEq col p => match r (lower col), arg_val args p with Some a, Some b => Z.eqb a b | _, _ => false end
  | CAny col p => match r (lower col) with Some a => existsb (Z.eqb a) (arg_list args p) | None => false end
  | CNullEq col p => match r (lower col), arg_val args p with None, None => true | Some a, Some b => Z.eqb a b | _, _ => false end
  end.

(** the value a statement writes in column [c], if it lists it *)
Fixpoint written (cols : list string) (phs : list nat) (args : list arg) (c : string) : option val :=
  match cols, phs with
  | x :: cols', ph :: phs' => if String.eqb (lower x) c then Some (arg_val args ph) else written cols' phs' args c
  | _, _ => None
  end.

Definition project (ret : list string) (r : row) : list val := map (fun c => r (lower c)) ret.

Section Exec.
  Variable dflt : string -> val.     (* DEFAULT of the columns a statement does not list (guards), NULL otherwise *)

  Definition inserted (cols : list string) (phs : list nat) (args : list arg) (next : Z) : row :=
    fun c => match written cols phs args c with
             | Some v => v
             | None => if String.eqb c "id" then Some next else dflt c
             end.

  Definition updated (cols : list string) (phs : list nat) (args : list arg) (r : row) : row :=
    fun c => match written cols phs args c with Some v => v | None => r c end.

  Definition exec (s : sstmt) (args : list arg) (t : tbl) : tbl * list (list val) :=
    match s with
    | SInsert _ cols phs ret =>
        let r := inserted cols phs args (t_next t) in
        ({| t_rows := t_rows t ++ [r]; t_next := t_next t + 1 |}, match ret with [] => [] | _ => [project ret r] end)
    | SCopyIn _ cols =>
        let r := inserted cols (seq 1 (List.length cols)) args (t_next t) in
        ({| t_rows := t_rows t ++ [r]; t_next := t_next t + 1 |}, [])
    | SUpdate _ cols phs wcol wph ret =>
        let hit := fun r => holds r args (CEq wcol wph) in
        ({| t_rows := map (fun r => if hit r then updated cols phs args r else r) (t_rows t); t_next := t_next t |},
         map (fun r => project ret (updated cols phs args r)) (filter hit (t_rows t)))
    | SDelete _ conds ret =>
        let hit := fun r => forallb (holds r args) conds in
        ({| t_rows := filter (fun r => negb (hit r)) (t_rows t); t_next := t_next t |},
         match ret with [] => [] | _ => map (project ret) (filter hit (t_rows t)) end)
    | SSelect cols _ conds =>
        (t, map (project cols) (filter (fun r => forallb (holds r args) conds) (t_rows t)))
    end.
End Exec.
