(** Go values of the analysed types, and a model of what encoding/json does with them once the
    generated union wrappers are compiled in: [encode] (json.Marshal) and [decode] (json.Unmarshal
    into a fresh value), both directed by the wire shape of the type (Sem/GoJson.v).

    The value abstraction: a pointer is identified with its pointee ([VNil] for the nil pointer), a
    struct is the list of its serialised fields by JSON key in field order (fields that never reach
    the wire - unexported, json:"-" - are not part of the value), a map lists its entries in the order
    encoding/json writes them (sorted keys), a []byte is its base64 text ([VNil] when nil).
    Both functions are validated on every run against the real encoder / decoder: the test binary
    dumps each value before and after the round trip in this form (harness/testbin/driver.go.txt:dumpValue). *)
From Coq Require Import List String Ascii ZArith Bool Arith.
From GM Require Import Sem.GoJson.
Import ListNotations.
Local Open Scope string_scope.

Inductive value :=
| VBool (b : bool) | VNum (lit : string) | VStr (s : string)
| VNil                                     (* nil pointer, nil slice, nil map *)
| VList (l : list value)                   (* non-nil slice, fixed array *)
| VMap (l : list (string * value))         (* non-nil map *)
| VObj (l : list (string * value))         (* struct *)
| VUnion (kind : string) (v : value)       (* an union-typed component holding a value of the member [kind] *)
| VAny (j : json).                         (* opaque position *)

(** equality "a nil and an empty slice or map counting as equal": values are compared after [canon] *)
Fixpoint canon (v : value) : value :=
  match v with
  | VList [] => VNil
  | VList l => VList (map canon l)
  | VMap [] => VNil
  | VMap l => VMap (map (fun kv => match kv with (k, w) => (k, canon w) end) l)
  | VObj l => VObj (map (fun kv => match kv with (k, w) => (k, canon w) end) l)
  | VUnion k w => VUnion k (canon w)
  | _ => v
  end.

Fixpoint value_eqb (a b : value) : bool :=
  match a, b with
  | VBool x, VBool y => Bool.eqb x y
  | VNum x, VNum y => String.eqb x y
  | VStr x, VStr y => String.eqb x y
  | VNil, VNil => true
  | VList x, VList y => (fix go (x y : list value) := match x, y with [], [] => true | p :: x', q :: y' => value_eqb p q && go x' y' | _, _ => false end) x y
  | VMap x, VMap y | VObj x, VObj y =>
      (fix go (x y : list (string * value)) := match x, y with
         | [], [] => true
         | (k, p) :: x', (l, q) :: y' => String.eqb k l && value_eqb p q && go x' y'
         | _, _ => false end) x y
  | VUnion k p, VUnion l q => String.eqb k l && value_eqb p q
  | VAny x, VAny y => json_eqb x y
  | _, _ => false
  end.

(** reflect's isEmptyValue at a position of the given shape (what omitempty omits) *)
Definition is_empty_at (s : jshape) (v : value) : bool :=
  match s with
  | ShBool => match v with VBool b => negb b | _ => false end
  | ShNumber => match v with VNum l => String.eqb l "0" | _ => false end
  | ShString => match v with VStr x => String.eqb x "" | _ => false end
  | ShEnum _ => match v with VBool b => negb b | VNum l => String.eqb l "0" | VStr x => String.eqb x "" | _ => false end
  | ShNullable (ShArrayOf _) | ShArrayOf _ => match v with VNil | VList [] => true | _ => false end
  | ShNullable (ShMapOf _) | ShMapOf _ => match v with VNil | VMap [] => true | _ => false end
  | ShNullable _ => match v with VNil => true | _ => false end       (* a pointer is empty when nil only *)
  | ShTuple n _ => Nat.eqb n 0
  | ShRef _ => false                                                  (* a struct is never empty *)
  | ShAny => match v with VAny JNull => true | _ => false end
  end.

(** the zero value Unmarshal leaves at a field whose key is absent *)
Definition zero_of (s : jshape) : option value :=
  match s with
  | ShBool => Some (VBool false)
  | ShNumber => Some (VNum "0")
  | ShString => Some (VStr "")
  | ShEnum (JStr _ :: _) => Some (VStr "")
  | ShEnum (JBool _ :: _) => Some (VBool false)
  | ShEnum _ => Some (VNum "0")
  | ShNullable _ | ShArrayOf _ | ShMapOf _ => Some VNil
  | ShTuple 0 _ => Some (VList [])
  | ShTuple _ _ => None
  | ShRef _ => None
  | ShAny => Some (VAny JNull)
  end.

Fixpoint map_opt {A B} (f : A -> option B) (l : list A) : option (list B) :=
  match l with
  | [] => Some []
  | x :: r => match f x, map_opt f r with Some y, Some ys => Some (y :: ys) | _, _ => None end
  end.

Fixpoint vkeys_nodup (l : list (string * value)) : bool :=
  match l with [] => true | (k, _) :: r => negb (existsb (fun p => String.eqb (fst p) k) r) && vkeys_nodup r end.

Definition scalar_json (v : value) : option json :=
  match v with VBool b => Some (JBool b) | VNum l => Some (JNum l) | VStr s => Some (JStr s) | _ => None end.
Definition scalar_value (j : json) : option value :=
  match j with JBool b => Some (VBool b) | JNum l => Some (VNum l) | JStr s => Some (VStr s) | _ => None end.

(** a non-nil pointer whose pointee is written as null does not round trip (encoding/json): not a value of the model *)
Definition not_null (e : option json) : option json := match e with Some JNull => None | r => r end.

Definition same_ctor (a b : json) : bool :=
  match a, b with JBool _, JBool _ | JNum _, JNum _ | JStr _, JStr _ => true | _, _ => false end.

(** the serialised fields of a struct, in field order; an omitempty field holding an empty value is left out *)
Fixpoint encode_fields (enc : jshape -> value -> option json) (fields : list (string * jshape * bool)) (l : list (string * value))
  : option (list (string * json)) :=
  match fields, l with
  | [], [] => Some []
  | (k, sh, opt) :: fr, (k', w) :: lr =>
      if String.eqb k k' then
        match enc sh w, encode_fields enc fr lr with
        | Some j, Some rest => if opt && is_empty_at sh w then Some rest else Some ((k, j) :: rest)
        | _, _ => None end
      else None
  | _, _ => None
  end.

(** one field of a struct: its key when present, the zero value when an omitempty key is absent *)
Definition decode_field (dec : jshape -> json -> option value) (l : list (string * json)) (fd : string * jshape * bool)
  : option (string * value) :=
  match fd with (k, sh, opt) =>
    match assoc_json k l with
    | Some j' => option_map (pair k) (dec sh j')
    | None => if opt then option_map (pair k) (zero_of sh) else None
    end end.

Section Codec.
  Variable env : jenv.

  (** json.Marshal. [None]: the value is not a value of the shape (or the fuel - a bound on the nesting - is exhausted) *)
  Fixpoint encode (fuel : nat) (s : jshape) (v : value) : option json :=
    match fuel with
    | O => None
    | S f =>
        match s with
        | ShAny => match v with VAny j => Some j | _ => None end
        | ShBool => match v with VBool b => Some (JBool b) | _ => None end
        | ShNumber => match v with VNum l => Some (JNum l) | _ => None end
        | ShString => match v with VStr x => Some (JStr x) | _ => None end
        | ShEnum vs =>
            match scalar_json v with
            | Some j => if existsb (json_eqb j) vs && same_ctor (hd JNull vs) j then Some j else None
            | None => None end
        | ShNullable s' =>
            match v with
            | VNil => Some JNull
            | _ => not_null (encode f s' v)
            end
        | ShArrayOf s' =>
            match v with
            | VNil => Some (JArr [])               (* the generated MarshalJSON of a named slice of unions *)
            | VList l => option_map JArr (map_opt (encode f s') l)
            | _ => None end
        | ShTuple n s' =>
            match v with
            | VList l => if Nat.eqb (List.length l) n then option_map JArr (map_opt (encode f s') l) else None
            | _ => None end
        | ShMapOf s' =>
            match v with
            | VNil => Some (JObj [])
            | VMap l => if vkeys_nodup l
                        then option_map JObj (map_opt (fun kv : string * value => match kv with (k, w) => option_map (pair k) (encode f s' w) end) l)
                        else None
            | _ => None end
        | ShRef id =>
            match lookup_def id env, v with
            | Some (DObject fields), VObj l =>
                option_map JObj (encode_fields (encode f) fields l)
            | Some (DUnion members), VUnion k w =>
                match find (fun m => String.eqb (fst m) k) members with
                | Some m => match encode f (snd m) w with
                            | Some d => Some (JObj [("Data", d); ("Kind", JStr k)])
                            | None => None end
                | None => None end
            | _, _ => None
            end
        end
    end.

  (** json.Unmarshal into a fresh value, on the documents [encode] writes *)
  Fixpoint decode (fuel : nat) (s : jshape) (j : json) : option value :=
    match fuel with
    | O => None
    | S f =>
        match s with
        | ShAny => Some (VAny j)
        | ShBool => match j with JBool b => Some (VBool b) | _ => None end
        | ShNumber => match j with JNum l => Some (VNum l) | _ => None end
        | ShString => match j with JStr x => Some (VStr x) | _ => None end
        | ShEnum vs => if existsb (json_eqb j) vs then scalar_value j else None
        | ShNullable s' => match j with JNull => Some VNil | _ => decode f s' j end
        | ShArrayOf s' => match j with JArr l => option_map VList (map_opt (decode f s') l) | _ => None end
        | ShTuple n s' =>
            match j with
            | JArr l => if Nat.eqb (List.length l) n then option_map VList (map_opt (decode f s') l) else None
            | _ => None end
        | ShMapOf s' =>
            match j with
            | JObj l => option_map VMap (map_opt (fun kv : string * json => match kv with (k, w) => option_map (pair k) (decode f s' w) end) l)
            | _ => None end
        | ShRef id =>
            match lookup_def id env, j with
            | Some (DObject fields), JObj l =>
                option_map VObj
                  (map_opt (decode_field (decode f) l) fields)
            | Some (DUnion members), JObj l =>
                match assoc_json "Kind" l, assoc_json "Data" l with
                | Some (JStr k), Some d =>
                    match find (fun m => String.eqb (fst m) k) members with
                    | Some m => option_map (VUnion k) (decode f (snd m) d)
                    | None => None end
                | _, _ => None end
            | _, _ => None
            end
        end
    end.
End Codec.

(** well-formed environment: the JSON keys of a struct are pairwise distinct (encoding/json drops
    conflicting keys, the analysis would keep them), "Kind" <> "Data" being immediate *)
Fixpoint fkeys_nodup (l : list (string * jshape * bool)) : bool :=
  match l with [] => true | (k, _, _) :: r => negb (existsb (fun p => String.eqb (fst (fst p)) k) r) && fkeys_nodup r end.

Definition env_wf (env : jenv) : bool :=
  forallb (fun d => match snd d with DObject fields => fkeys_nodup fields | DUnion _ => true end) env.

(** * typing: "v is a value of the shape whose union-typed components hold member values" ([encode] succeeds
      exactly on those values: Proofs/C02ty.v) *)
(** the values that a position of the shape writes as null *)
Definition nullish (s : jshape) (v : value) : bool :=
  match s, v with
  | ShNullable _, VNil => true
  | ShAny, VAny JNull => true
  | _, _ => false
  end.

Section Typing.
  Variable env : jenv.

  Fixpoint fields_shape (hs : jshape -> value -> bool) (fields : list (string * jshape * bool)) (l : list (string * value)) : bool :=
    match fields, l with
    | [], [] => true
    | (k, sh, _) :: fr, (k', w) :: lr => String.eqb k k' && hs sh w && fields_shape hs fr lr
    | _, _ => false
    end.

  Fixpoint has_shape (fuel : nat) (s : jshape) (v : value) : bool :=
    match fuel with
    | O => false
    | S f =>
        match s with
        | ShAny => match v with VAny _ => true | _ => false end
        | ShBool => match v with VBool _ => true | _ => false end
        | ShNumber => match v with VNum _ => true | _ => false end
        | ShString => match v with VStr _ => true | _ => false end
        | ShEnum vs => match scalar_json v with
                       | Some j => existsb (json_eqb j) vs && same_ctor (hd JNull vs) j
                       | None => false end
        | ShNullable s' => match v with VNil => true | _ => has_shape f s' v && negb (nullish s' v) end
        | ShArrayOf s' => match v with VNil => true | VList l => forallb (has_shape f s') l | _ => false end
        | ShTuple n s' => match v with VList l => Nat.eqb (List.length l) n && forallb (has_shape f s') l | _ => false end
        | ShMapOf s' => match v with
                        | VNil => true
                        | VMap l => vkeys_nodup l && forallb (fun kv => match kv with (_, w) => has_shape f s' w end) l
                        | _ => false end
        | ShRef id =>
            match lookup_def id env, v with
            | Some (DObject fields), VObj l => fields_shape (has_shape f) fields l
            | Some (DUnion members), VUnion k w =>
                match find (fun m => String.eqb (fst m) k) members with
                | Some m => has_shape f (snd m) w
                | None => false end
            | _, _ => false
            end
        end
    end.
End Typing.

