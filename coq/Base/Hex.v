(** Decoder for hex-escaped byte strings written by the harness (non-ASCII bytes). *)
From Coq Require Import String Ascii NArith List Bool.
Local Open Scope bool_scope.
Local Open Scope N_scope.
Local Open Scope string_scope.

Definition hexval (c : ascii) : N :=
  let n := N_of_ascii c in
  if N.leb 48 n && N.leb n 57 then n - 48
  else if N.leb 97 n && N.leb n 102 then n - 87
  else if N.leb 65 n && N.leb n 70 then n - 55
  else 0.

Fixpoint hex (s : string) : string :=
  match s with
  | String a (String b r) => String (ascii_of_N (hexval a * 16 + hexval b)) (hex r)
  | _ => EmptyString
  end.
