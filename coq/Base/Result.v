(** Outcome discipline shared by all models: a Go function either returns, stops with a
    deliberate gomacro diagnostic (panic("...") / returned error), or dies with a Go
    runtime error (index/slice out of range, failed type assertion, nil dereference,
    unbounded recursion). *)
From Coq Require Import String List.
Import ListNotations.

Inductive result (A : Type) : Type :=
| Ok (a : A)
| Diag (msg : string)
| Crash (msg : string).
Arguments Ok {A} a.
Arguments Diag {A} msg.
Arguments Crash {A} msg.

Definition bind {A B} (r : result A) (f : A -> result B) : result B :=
  match r with Ok a => f a | Diag m => Diag m | Crash m => Crash m end.

Notation "'do' x <- r ; k" := (bind r (fun x => k)) (at level 200, x name, r at level 100, k at level 200).

Definition is_crash {A} (r : result A) : bool := match r with Crash _ => true | _ => false end.
Definition is_ok {A} (r : result A) : bool := match r with Ok _ => true | _ => false end.

Fixpoint mapM {A B} (f : A -> result B) (l : list A) : result (list B) :=
  match l with
  | [] => Ok []
  | x :: r => do y <- f x; do ys <- mapM f r; Ok (y :: ys)
  end.

(** outcome class, for comparison with the recovered panic class of the implementation *)
Inductive oclass := OOk | ODiag | OCrash.
Definition class_of {A} (r : result A) : oclass :=
  match r with Ok _ => OOk | Diag _ => ODiag | Crash _ => OCrash end.
