(** Byte-wise total order on strings (= Go's [<] on strings) and sorted-list facts. *)
From Coq Require Import List String Ascii Bool Arith Lia Sorting.Sorted Sorting.Permutation.
From Coq Require Import Structures.OrderedTypeEx.
Import ListNotations.
Local Open Scope string_scope.

Definition sleb := String.leb.
Definition sltb := String.ltb.

Lemma cmp_refl s : String.compare s s = Eq.
Proof. apply String_as_OT.cmp_eq. reflexivity. Qed.

Lemma sleb_refl s : sleb s s = true.
Proof. unfold sleb, String.leb. rewrite cmp_refl. reflexivity. Qed.

Lemma sleb_total a b : sleb a b = true \/ sleb b a = true.
Proof. apply String.leb_total. Qed.

Lemma sleb_antisym a b : sleb a b = true -> sleb b a = true -> a = b.
Proof. apply String.leb_antisym. Qed.

Lemma cmp_lt_trans a b c :
  String.compare a b = Lt -> String.compare b c = Lt -> String.compare a c = Lt.
Proof.
  intros H1 H2.
  apply String_as_OT.cmp_lt. apply String_as_OT.cmp_lt in H1. apply String_as_OT.cmp_lt in H2.
  eapply String_as_OT.lt_trans; eauto.
Qed.

Lemma sltb_trans a b c : sltb a b = true -> sltb b c = true -> sltb a c = true.
Proof.
  unfold sltb, String.ltb. intros H1 H2.
  destruct (String.compare a b) eqn:E1; try discriminate.
  destruct (String.compare b c) eqn:E2; try discriminate.
  rewrite (cmp_lt_trans _ _ _ E1 E2). reflexivity.
Qed.

Lemma sleb_lt_or_eq a b : sleb a b = true <-> (sltb a b = true \/ a = b).
Proof.
  unfold sleb, sltb, String.leb, String.ltb. split.
  - destruct (String.compare a b) eqn:E; intro H; try discriminate.
    + right. apply String.compare_eq_iff. exact E.
    + left. reflexivity.
  - intros [H|H].
    + destruct (String.compare a b); try discriminate; reflexivity.
    + subst. rewrite cmp_refl. reflexivity.
Qed.

Lemma sleb_trans a b c : sleb a b = true -> sleb b c = true -> sleb a c = true.
Proof.
  intros H1 H2. apply sleb_lt_or_eq in H1. apply sleb_lt_or_eq in H2.
  apply sleb_lt_or_eq.
  destruct H1 as [H1|H1], H2 as [H2|H2]; subst; auto.
  left. eapply sltb_trans; eauto.
Qed.

Lemma sltb_irrefl a : sltb a a = false.
Proof. unfold sltb, String.ltb. rewrite cmp_refl. reflexivity. Qed.

Lemma sltb_sleb a b : sltb a b = true -> sleb a b = true.
Proof. intro H. apply sleb_lt_or_eq. auto. Qed.

Lemma sltb_neq a b : sltb a b = true -> a <> b.
Proof. intros H E. subst. rewrite sltb_irrefl in H. discriminate. Qed.

Lemma sleb_neq_sltb a b : sleb a b = true -> a <> b -> sltb a b = true.
Proof. intros H N. apply sleb_lt_or_eq in H. destruct H; [assumption|contradiction]. Qed.

Lemma sltb_asym a b : sltb a b = true -> sltb b a = true -> False.
Proof. intros H1 H2. pose proof (sltb_trans _ _ _ H1 H2) as H. rewrite sltb_irrefl in H. discriminate. Qed.

Lemma sleb_false_sltb a b : sleb a b = false -> sltb b a = true.
Proof.
  intro H. destruct (sleb_total a b) as [T|T]; [congruence|].
  apply sleb_neq_sltb; [assumption|]. intro E; subst. rewrite sleb_refl in H. discriminate.
Qed.

Lemma sltb_sleb_trans a b c : sltb a b = true -> sleb b c = true -> sltb a c = true.
Proof.
  intros H1 H2. apply sleb_lt_or_eq in H2. destruct H2 as [H2|H2]; subst; auto.
  eapply sltb_trans; eauto.
Qed.

Lemma sleb_sltb_trans a b c : sleb a b = true -> sltb b c = true -> sltb a c = true.
Proof.
  intros H1 H2. apply sleb_lt_or_eq in H1. destruct H1 as [H1|H1]; subst; auto.
  eapply sltb_trans; eauto.
Qed.

(** Sortedness of string lists. *)
Definition ssorted (l : list string) : Prop := StronglySorted (fun a b => sleb a b = true) l.
Definition strict_sorted (l : list string) : Prop := StronglySorted (fun a b => sltb a b = true) l.

Lemma strict_sorted_NoDup l : strict_sorted l -> NoDup l.
Proof.
  induction 1 as [|a l Hs IH Hall]; constructor; auto.
  intro Hin. rewrite Forall_forall in Hall. specialize (Hall _ Hin).
  rewrite sltb_irrefl in Hall. discriminate.
Qed.

Lemma strict_sorted_ssorted l : strict_sorted l -> ssorted l.
Proof.
  induction 1 as [|a l Hs IH Hall]; constructor; auto.
  eapply Forall_impl; [|exact Hall]. intros; apply sltb_sleb; assumption.
Qed.

(** Two strictly sorted lists with the same members are equal. *)
Lemma strict_sorted_unique l1 : forall l2,
  strict_sorted l1 -> strict_sorted l2 -> (forall x, In x l1 <-> In x l2) -> l1 = l2.
Proof.
  induction l1 as [|a l1 IH]; intros l2 H1 H2 Hm.
  - destruct l2 as [|b l2]; auto. exfalso. apply (Hm b). left; reflexivity.
  - destruct l2 as [|b l2]. { exfalso. apply (Hm a). left; reflexivity. }
    inversion H1 as [|? ? Hs1 Ha1]; subst. inversion H2 as [|? ? Hs2 Hb2]; subst.
    rewrite Forall_forall in Ha1, Hb2.
    assert (a = b) as ->.
    { destruct (proj1 (Hm a) (or_introl eq_refl)) as [E|Hin]; [auto|].
      destruct (proj2 (Hm b) (or_introl eq_refl)) as [E|Hin']; [auto|].
      exfalso. eapply sltb_asym; [apply Hb2; exact Hin | apply Ha1; exact Hin']. }
    f_equal. apply IH; auto.
    intro x. split; intro Hx.
    + destruct (proj1 (Hm x) (or_intror Hx)) as [E|?]; auto.
      subst. specialize (Ha1 _ Hx). rewrite sltb_irrefl in Ha1. discriminate.
    + destruct (proj2 (Hm x) (or_intror Hx)) as [E|?]; auto.
      subst. specialize (Hb2 _ Hx). rewrite sltb_irrefl in Hb2. discriminate.
Qed.

Lemma strict_sorted_filter (f : string -> bool) l : strict_sorted l -> strict_sorted (filter f l).
Proof.
  induction 1 as [|a l Hs IH Hall]; simpl; [constructor|].
  destruct (f a); auto. constructor; auto.
  rewrite Forall_forall in *. intros x Hx. apply filter_In in Hx. apply Hall. tauto.
Qed.

(** Insertion sort on strings, with removal of duplicates: the canonical
    strictly sorted list of the members of [l]. *)
Fixpoint sinsert (x : string) (l : list string) : list string :=
  match l with
  | [] => [x]
  | y :: r => if String.eqb x y then l else if sleb x y then x :: l else y :: sinsert x r
  end.

Definition sort_nodup (l : list string) : list string := fold_right sinsert [] l.

Lemma sinsert_In x l y : In y (sinsert x l) <-> y = x \/ In y l.
Proof.
  induction l as [|a l IH]; simpl.
  - intuition.
  - destruct (String.eqb_spec x a).
    + subst. simpl. intuition.
    + destruct (sleb x a); simpl; rewrite ?IH; intuition.
Qed.

Lemma sinsert_sorted x l : strict_sorted l -> strict_sorted (sinsert x l).
Proof.
  induction 1 as [|a l Hs IH Hall]; simpl.
  - constructor; constructor.
  - destruct (String.eqb_spec x a).
    + constructor; auto.
    + destruct (sleb x a) eqn:E.
      * assert (sltb x a = true) by (apply sleb_neq_sltb; auto).
        constructor; [constructor; auto|].
        constructor; auto. rewrite Forall_forall in *. intros y Hy.
        eapply sltb_trans; eauto.
      * constructor; auto. rewrite Forall_forall in *. intros y Hy.
        apply sinsert_In in Hy. destruct Hy as [->|Hy]; auto.
        apply sleb_false_sltb; assumption.
Qed.

Lemma sort_nodup_sorted l : strict_sorted (sort_nodup l).
Proof. induction l; simpl; [constructor|]. apply sinsert_sorted; assumption. Qed.

Lemma sort_nodup_In l x : In x (sort_nodup l) <-> In x l.
Proof. induction l as [|a l IH]; simpl; [tauto|]. rewrite sinsert_In, IH. intuition. Qed.

Lemma sort_nodup_perm l l' : (forall x, In x l <-> In x l') -> sort_nodup l = sort_nodup l'.
Proof.
  intro H. apply strict_sorted_unique; try apply sort_nodup_sorted.
  intro x. rewrite !sort_nodup_In. apply H.
Qed.

(** ** sort.Strings / sort.Slice on distinct-or-equal string keys: insertion sort, and the fact that the
    result depends only on the multiset of its input (map iteration order does not matter). *)
Fixpoint insert_str (x : string) (l : list string) : list string :=
  match l with
  | [] => [x]
  | y :: r => if sleb x y then x :: l else y :: insert_str x r
  end.
Definition sort_str (l : list string) : list string := fold_right insert_str [] l.

Lemma insert_str_perm x l : Permutation (insert_str x l) (x :: l).
Proof.
  induction l as [|y r IH]; simpl; [reflexivity|].
  destruct (sleb x y); [reflexivity|]. rewrite IH. apply perm_swap.
Qed.

Lemma insert_str_sorted x l : ssorted l -> ssorted (insert_str x l).
Proof.
  unfold ssorted. induction 1 as [|y r Hs IH Hall]; simpl.
  - constructor; constructor.
  - destruct (sleb x y) eqn:E.
    + constructor; [constructor; assumption|]. constructor; [assumption|].
      rewrite Forall_forall in *. intros z Hz. eapply sleb_trans; eauto.
    + constructor; [assumption|]. rewrite Forall_forall in *. intros z Hz.
      apply (Permutation_in _ (insert_str_perm x r)) in Hz. destruct Hz as [<-|Hz]; [|auto].
      apply sltb_sleb. apply sleb_false_sltb. assumption.
Qed.

Lemma sort_str_perm l : Permutation (sort_str l) l.
Proof. induction l as [|x r IH]; simpl; [reflexivity|]. rewrite insert_str_perm. constructor. assumption. Qed.

Lemma sort_str_sorted l : ssorted (sort_str l).
Proof. induction l as [|x r IH]; simpl; [constructor|]. apply insert_str_sorted. assumption. Qed.

Lemma ssorted_perm_unique l1 : forall l2, ssorted l1 -> ssorted l2 -> Permutation l1 l2 -> l1 = l2.
Proof.
  unfold ssorted. induction l1 as [|a l1 IH]; intros l2 H1 H2 P.
  - apply Permutation_nil in P. subst. reflexivity.
  - destruct l2 as [|b l2]; [apply Permutation_sym, Permutation_nil in P; discriminate|].
    inversion H1 as [|? ? Hs1 Ha]; subst. inversion H2 as [|? ? Hs2 Hb]; subst.
    rewrite Forall_forall in Ha, Hb.
    assert (a = b) as ->.
    { assert (In a (b :: l2)) as Ia by (eapply Permutation_in; [exact P|left; reflexivity]).
      assert (In b (a :: l1)) as Ib by (eapply Permutation_in; [apply Permutation_sym; exact P|left; reflexivity]).
      destruct Ia as [E|Ia]; [auto|]. destruct Ib as [E|Ib]; [auto|].
      apply sleb_antisym; [apply Ha; assumption|apply Hb; assumption]. }
    f_equal. apply IH; [assumption|assumption|]. eapply Permutation_cons_inv. exact P.
Qed.

Lemma sort_str_perm_eq l l' : Permutation l l' -> sort_str l = sort_str l'.
Proof.
  intro P. apply ssorted_perm_unique; try apply sort_str_sorted.
  rewrite sort_str_perm, P. symmetry. apply sort_str_perm.
Qed.

Lemma sort_str_In l x : In x (sort_str l) <-> In x l.
Proof. split; apply Permutation_in; [apply sort_str_perm|apply Permutation_sym, sort_str_perm]. Qed.
