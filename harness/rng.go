package main

// A small deterministic PRNG (splitmix64): every random choice of the harness is
// drawn from one state seeded by VERIF_SEED, so a disagreement replays exactly.
type rng struct{ s uint64 }

func newRng(seed int64) *rng { return &rng{s: uint64(seed)*0x9E3779B97F4A7C15 + 0x1234567} }

func (r *rng) next() uint64 {
	r.s += 0x9E3779B97F4A7C15
	z := r.s
	z = (z ^ (z >> 30)) * 0xBF58476D1CE4E5B9
	z = (z ^ (z >> 27)) * 0x94D049BB133111EB
	return z ^ (z >> 31)
}

func (r *rng) intn(n int) int {
	if n <= 0 {
		return 0
	}
	return int(r.next() % uint64(n))
}

func (r *rng) bool() bool { return r.next()&1 == 1 }

func (r *rng) chance(num, den int) bool { return r.intn(den) < num }

func pick[T any](r *rng, xs []T) T { return xs[r.intn(len(xs))] }

func shuffle[T any](r *rng, xs []T) {
	for i := len(xs) - 1; i > 0; i-- {
		j := r.intn(i + 1)
		xs[i], xs[j] = xs[j], xs[i]
	}
}
