package main

import (
	"time"
	"context"
	"bytes"
	"encoding/json"
	"fmt"
	"go/ast"
	"go/parser"
	"go/printer"
	"go/token"
	"os"
	"os/exec"
	"path/filepath"
	"regexp"
	"strconv"
	"strings"
)

func init() { commands["C20"] = runC20 }

const repoDir = "/repo"

// ---------- translator: generator/formatters.go -> cprog ----------

func src(fset *token.FileSet, n ast.Node) string {
	var b bytes.Buffer
	printer.Fprint(&b, fset, n)
	return strings.Join(strings.Fields(b.String()), " ")
}

// recv.field selector on the method receiver
func selOnRecv(e ast.Expr, recv string) (string, bool) {
	s, ok := e.(*ast.SelectorExpr)
	if !ok {
		return "", false
	}
	id, ok := s.X.(*ast.Ident)
	if !ok || id.Name != recv {
		return "", false
	}
	return s.Sel.Name, true
}

// exec.Command("tool", args...).Run()
func execRun(e ast.Expr) (tool string, args []string, ok bool) {
	call, isCall := e.(*ast.CallExpr)
	if !isCall || len(call.Args) != 0 {
		return
	}
	sel, isSel := call.Fun.(*ast.SelectorExpr)
	if !isSel || sel.Sel.Name != "Run" {
		return
	}
	cmd, isCall := sel.X.(*ast.CallExpr)
	if !isCall {
		return
	}
	csel, isSel := cmd.Fun.(*ast.SelectorExpr)
	if !isSel || csel.Sel.Name != "Command" {
		return
	}
	if id, isId := csel.X.(*ast.Ident); !isId || id.Name != "exec" {
		return
	}
	for i, a := range cmd.Args {
		var v string
		switch a := a.(type) {
		case *ast.BasicLit:
			u, err := strconv.Unquote(a.Value)
			if err != nil {
				return
			}
			v = u
		case *ast.Ident:
			v = "$FILE" // the file name parameter
		default:
			return
		}
		if i == 0 {
			tool = v
		} else {
			args = append(args, v)
		}
	}
	return tool, args, len(cmd.Args) > 0
}

func translateStmt(fset *token.FileSet, st ast.Stmt, recv string) string {
	unknown := func() string { return "IUnknown " + coqStr(src(fset, st)) }
	mutexCall := func(e ast.Expr) (string, string, bool) { // recv.m.Lock()
		call, ok := e.(*ast.CallExpr)
		if !ok || len(call.Args) != 0 {
			return "", "", false
		}
		sel, ok := call.Fun.(*ast.SelectorExpr)
		if !ok {
			return "", "", false
		}
		m, ok := selOnRecv(sel.X, recv)
		return m, sel.Sel.Name, ok
	}
	switch st := st.(type) {
	case *ast.ExprStmt:
		if m, op, ok := mutexCall(st.X); ok {
			switch op {
			case "Lock":
				return "ILock " + coqStr(m)
			case "Unlock":
				return "IUnlock " + coqStr(m)
			}
		}
	case *ast.DeferStmt:
		if m, op, ok := mutexCall(st.Call); ok && op == "Unlock" {
			return "IDeferUnlock " + coqStr(m)
		}
	case *ast.IfStmt:
		if st.Init != nil || st.Else != nil {
			return unknown()
		}
		cond, ok := st.Cond.(*ast.BinaryExpr)
		if !ok {
			return unknown()
		}
		// if recv.f == nil { ... }
		if f, ok := selOnRecv(cond.X, recv); ok && cond.Op == token.EQL && src(fset, cond.Y) == "nil" {
			var body []string
			for _, b := range st.Body.List {
				body = append(body, translateStmt(fset, b, recv))
			}
			return fmt.Sprintf("IIfNil %s %s", coqStr(f), coqList(body))
		}
		// if err != nil { log.Printf(...) }
		if src(fset, cond) == "err != nil" && len(st.Body.List) == 1 {
			if es, ok := st.Body.List[0].(*ast.ExprStmt); ok {
				if call, ok := es.X.(*ast.CallExpr); ok {
					if strings.HasPrefix(src(fset, call.Fun), "log.Print") {
						return "ILog"
					}
				}
			}
		}
	case *ast.AssignStmt:
		if len(st.Lhs) == 1 && len(st.Rhs) == 1 {
			lhs := st.Lhs[0]
			// err := exec.Command(...).Run()
			if id, ok := lhs.(*ast.Ident); ok && id.Name == "err" && st.Tok == token.DEFINE {
				if tool, args, ok := execRun(st.Rhs[0]); ok {
					return fmt.Sprintf("IProbe %s %s", coqStr(tool), coqStrList(args))
				}
			}
			// recv.f = new(bool)
			if f, ok := selOnRecv(lhs, recv); ok && st.Tok == token.ASSIGN && src(fset, st.Rhs[0]) == "new(bool)" {
				return "IAlloc " + coqStr(f)
			}
			// *recv.f = err == nil
			if star, ok := lhs.(*ast.StarExpr); ok && st.Tok == token.ASSIGN && src(fset, st.Rhs[0]) == "err == nil" {
				if f, ok := selOnRecv(star.X, recv); ok {
					return "IStoreOk " + coqStr(f)
				}
			}
		}
	case *ast.ReturnStmt:
		if len(st.Results) == 1 {
			if star, ok := st.Results[0].(*ast.StarExpr); ok {
				if f, ok := selOnRecv(star.X, recv); ok {
					return "IReturnLoad " + coqStr(f)
				}
			}
		}
	}
	return unknown()
}

type c20prog struct {
	coq      string
	dispatch []string // format constants in dispatch order
	notes    []string
}

func translateFormatters() c20prog {
	fset := token.NewFileSet()
	file, err := parser.ParseFile(fset, filepath.Join(repoDir, "generator", "formatters.go"), nil, 0)
	check(err)
	var procs, dispatch []string
	var out c20prog
	defaultNil := false
	for _, d := range file.Decls {
		fd, ok := d.(*ast.FuncDecl)
		if !ok || fd.Recv == nil || len(fd.Recv.List) != 1 || fd.Body == nil {
			continue
		}
		if !strings.Contains(src(fset, fd.Recv.List[0].Type), "Formatters") {
			continue
		}
		recv := ""
		if len(fd.Recv.List[0].Names) == 1 {
			recv = fd.Recv.List[0].Names[0].Name
		}
		if fd.Name.Name == "FormatFile" {
			// switch format { case X: if recv.has() { return exec.Command(...).Run() } ... } ; return nil
			ok := len(fd.Body.List) == 2
			if ok {
				sw, isSw := fd.Body.List[0].(*ast.SwitchStmt)
				ret, isRet := fd.Body.List[1].(*ast.ReturnStmt)
				ok = isSw && isRet && sw.Init == nil && len(ret.Results) == 1 && src(fset, ret.Results[0]) == "nil"
				if ok {
					defaultNil = true
					for _, c := range sw.Body.List {
						cc := c.(*ast.CaseClause)
						entry := "IUnknownCase"
						if len(cc.List) == 1 && len(cc.Body) == 1 {
							if ifs, isIf := cc.Body[0].(*ast.IfStmt); isIf && ifs.Init == nil && ifs.Else == nil && len(ifs.Body.List) == 1 {
								if call, isCall := ifs.Cond.(*ast.CallExpr); isCall && len(call.Args) == 0 {
									if has, isHas := selOnRecv(call.Fun, recv); isHas {
										if r, isRet := ifs.Body.List[0].(*ast.ReturnStmt); isRet && len(r.Results) == 1 {
											if tool, args, isRun := execRun(r.Results[0]); isRun {
												name := src(fset, cc.List[0])
												entry = fmt.Sprintf("{| fc_format := %s; fc_has := %s; fc_tool := %s; fc_args := %s |}",
													coqStr(name), coqStr(has), coqStr(tool), coqStrList(args))
												out.dispatch = append(out.dispatch, name)
											}
										}
									}
								}
							}
						}
						if entry == "IUnknownCase" {
							defaultNil = false // makes compile fail
							out.notes = append(out.notes, "FormatFile: unrecognised case "+src(fset, cc))
							continue
						}
						dispatch = append(dispatch, entry)
					}
				}
			}
			if !ok {
				out.notes = append(out.notes, "FormatFile: unrecognised body")
			}
			continue
		}
		var ins []string
		for _, st := range fd.Body.List {
			ins = append(ins, translateStmt(fset, st, recv))
		}
		procs = append(procs, fmt.Sprintf("(%s, %s)", coqStr(fd.Name.Name), coqList(ins)))
	}
	spawn := inventorySaveOutputs(&out)
	out.coq = fmt.Sprintf("{| cp_procs := %s;\n   cp_dispatch := %s;\n   cp_default_nil := %s;\n   cp_spawn_per_output := %s |}",
		coqListNL(procs), coqListNL(dispatch), coqBool(defaultNil), coqBool(spawn))
	return out
}

// cmd/gomacro.go:saveOutputs — one `go` statement in the loop over outputs, whose body calls FormatFile
// exactly once on the package-level Formatters value.
func inventorySaveOutputs(out *c20prog) bool {
	fset := token.NewFileSet()
	file, err := parser.ParseFile(fset, filepath.Join(repoDir, "cmd", "gomacro.go"), nil, 0)
	if err != nil {
		out.notes = append(out.notes, "cmd/gomacro.go: "+err.Error())
		return false
	}
	shared := ""
	for _, d := range file.Decls {
		if gd, ok := d.(*ast.GenDecl); ok && gd.Tok == token.VAR {
			for _, sp := range gd.Specs {
				vs := sp.(*ast.ValueSpec)
				if vs.Type != nil && src(fset, vs.Type) == "generator.Formatters" && len(vs.Names) == 1 {
					shared = vs.Names[0].Name
				}
			}
		}
	}
	if shared == "" {
		out.notes = append(out.notes, "no package-level generator.Formatters value")
		return false
	}
	okAll := false
	nCalls := 0
	ast.Inspect(file, func(n ast.Node) bool {
		if call, ok := n.(*ast.CallExpr); ok {
			if sel, ok := call.Fun.(*ast.SelectorExpr); ok && sel.Sel.Name == "FormatFile" {
				nCalls++
			}
		}
		fd, ok := n.(*ast.FuncDecl)
		if !ok || fd.Name.Name != "saveOutputs" {
			return true
		}
		ast.Inspect(fd, func(m ast.Node) bool {
			rs, ok := m.(*ast.RangeStmt)
			if !ok {
				return true
			}
			gos := 0
			calls := 0
			ast.Inspect(rs.Body, func(k ast.Node) bool {
				if g, ok := k.(*ast.GoStmt); ok {
					gos++
					ast.Inspect(g, func(c ast.Node) bool {
						if call, ok := c.(*ast.CallExpr); ok {
							if sel, ok := call.Fun.(*ast.SelectorExpr); ok && sel.Sel.Name == "FormatFile" {
								if id, ok := sel.X.(*ast.Ident); ok && id.Name == shared {
									calls++
								}
							}
						}
						return true
					})
				}
				return true
			})
			if gos == 1 && calls == 1 {
				okAll = true
			}
			return true
		})
		return true
	})
	if !okAll || nCalls != 1 {
		out.notes = append(out.notes, fmt.Sprintf("saveOutputs: expected one goroutine per output calling %s.FormatFile once (FormatFile calls in file: %d)", shared, nCalls))
		return false
	}
	return true
}

// ---------- dynamic side ----------

type c20cfg struct {
	Present map[string]bool `json:"present"`
	Failing map[string]bool `json:"failing"`
	Reqs    []string        `json:"reqs"`
}
type c20res struct {
	Log     []string `json:"log"`
	Errs    []bool   `json:"errs"`
	Touched []bool   `json:"touched"`
	Panic   string   `json:"panic"`
}

var c20tools = []string{"goimports", "dart", "npx", "pg_format"}
var c20formatTool = map[string]string{"Go": "goimports", "Dart": "dart", "TypeScript": "npx", "Psql": "pg_format"}

func runC20(e *env) {
	e.m.Rule = "tool environments: each of goimports/dart/npx/pg_format installed, missing or failing (quick: 12 assignments, thorough: all 81) x request vectors of 8..64 goroutines over the 5 format constants, " +
		"run against the real generator.Formatters.FormatFile built with -race and recording stand-in tools first on PATH; non-trivial = at least two concurrent requests for one format"
	e.m.Extra = map[string]interface{}{
		"mismatch_means": "property",
		"trusted_base": []string{"translator harness/c20.go (go/ast walk of generator/formatters.go and cmd/gomacro.go, one instruction per statement; unknown statements become IUnknown and fail compile)",
			"the Go race detector and the stand-in tools as the link between the lockset discipline that is proved and the Go memory model / os/exec, which are not modelled"},
		"assumptions": []string{"sync.Mutex provides mutual exclusion and happens-before as documented; exec.Command().Run() touches no Formatters field"},
	}
	prog := translateFormatters()
	e.m.Extra["translator_notes"] = prog.notes

	// configurations
	var cfgs []c20cfg
	states := []string{"present", "missing", "failing"}
	addCfg := func(assign [4]int, nreq int) {
		c := c20cfg{Present: map[string]bool{}, Failing: map[string]bool{}}
		for i, t := range c20tools {
			c.Present[t] = assign[i] != 1
			c.Failing[t] = assign[i] == 2
		}
		names := []string{"Go", "Dart", "TypeScript", "Psql", "NoFormat"}
		for j := 0; j < nreq; j++ {
			c.Reqs = append(c.Reqs, names[e.r.intn(len(names))])
		}
		cfgs = append(cfgs, c)
	}
	if e.thorough() {
		for a := 0; a < 81; a++ {
			addCfg([4]int{a % 3, (a / 3) % 3, (a / 9) % 3, (a / 27) % 3}, 8+e.r.intn(57))
		}
		for rep := 0; rep < 30; rep++ { // repeat the all-present environment for the race detector
			addCfg([4]int{0, 0, 0, 0}, 64)
		}
	} else {
		addCfg([4]int{0, 0, 0, 0}, 64)
		addCfg([4]int{1, 1, 1, 1}, 32)
		addCfg([4]int{2, 2, 2, 2}, 32)
		for i := 0; i < 9; i++ {
			addCfg([4]int{e.r.intn(3), e.r.intn(3), e.r.intn(3), e.r.intn(3)}, 8+e.r.intn(40))
		}
	}
	_ = states

	// build and run the -race driver
	bin := filepath.Join(scratchDir("c20bin"), "c20race")
	build := exec.Command("go", "build", "-race", "-tags", "verif", "-o", bin, "./c20race")
	build.Env = os.Environ()
	if outb, err := build.CombinedOutput(); err != nil {
		e.m.fail(oracleFailure{What: "the -race driver does not build against /repo: " + string(outb), Input: "go build -race ./c20race"})
		e.writeC20(prog, nil, nil, nil)
		return
	}
	in, _ := json.Marshal(cfgs)
	// a request that never returns (a lock never released) must not hang the check
	drvCtx, drvCancel := context.WithTimeout(context.Background(), 4*time.Minute)
	defer drvCancel()
	cmd := exec.CommandContext(drvCtx, bin, scratchDir("c20run"))
	cmd.Stdin = bytes.NewReader(in)
	cmd.Env = append(os.Environ(), "GORACE=halt_on_error=0 exitcode=0")
	var stdout, stderr bytes.Buffer
	cmd.Stdout, cmd.Stderr = &stdout, &stderr
	runErr := cmd.Run()
	if drvCtx.Err() != nil {
		e.m.fail(oracleFailure{What: "the concurrent FormatFile requests did not all return within 4 minutes: some request blocks for ever (a lock that is not released?)", Input: cfgs, Got: tail(stderr.String(), 3000)})
		e.writeC20(prog, nil, nil, nil)
		return
	}
	var results []c20res
	if err := json.Unmarshal(stdout.Bytes(), &results); err != nil || runErr != nil || len(results) != len(cfgs) {
		e.m.fail(oracleFailure{What: fmt.Sprintf("the -race driver failed: %v %v", runErr, err), Input: cfgs, Got: tail(stderr.String(), 3000)})
		e.writeC20(prog, nil, nil, nil)
		return
	}
	if strings.Contains(stderr.String(), "DATA RACE") {
		e.m.fail(oracleFailure{What: "data race detected by the Go race detector in concurrent FormatFile requests", Input: cfgs[0], Got: tail(firstRace(stderr.String()), 4000)})
	}
	e.writeC20(prog, cfgs, results, nil)
	c20CLI(e)
}

// c20CLI: the command itself (cmd/gomacro.go:saveOutputs issues the formatting requests, one goroutine per output, on the
// shared cache): built with -race and run on a small package with stand-in tools first on PATH. A failing formatter run
// must reach the user (non-zero exit), a run where every tool succeeds or is absent must end normally, and the race
// detector must stay silent.
func c20CLI(e *env) {
	dir := scratchDir("c20cli")
	bin := filepath.Join(dir, "gomacro-race")
	build := exec.Command("go", "build", "-race", "-o", bin, "./cmd")
	build.Dir = repoDir
	build.Env = os.Environ()
	if outb, err := build.CombinedOutput(); err != nil {
		e.m.fail(oracleFailure{What: "the command does not build with -race: " + tail(string(outb), 1500), Input: "go build -race ./cmd", NoInput: true})
		return
	}
	mod := filepath.Join(dir, "mod")
	writeFile(filepath.Join(mod, "go.mod"), "module example.com/org/models\n\ngo 1.21\n")
	writeFile(filepath.Join(mod, "models.go"), "package models\n\ntype S struct {\n\tA int\n\tB string\n\tL []int\n}\n")
	goDir := ""
	if p, err := exec.LookPath("go"); err == nil {
		goDir = filepath.Dir(p)
	}
	type scenario struct {
		Name     string            `json:"name"`
		Tools    map[string]string `json:"tools"` // tool -> shell body ($1.. are its arguments)
		WantFail bool              `json:"a_formatter_run_fails"`
	}
	probeOK := "case \"$*\" in *-v*|*--help*) exit 0;; esac\n"
	scenarios := []scenario{
		{"go-run-fails-at-once-ts-run-succeeds-later", map[string]string{"goimports": "exit 1\n", "npx": probeOK + "sleep 0.6\nexit 0\n"}, true},
		{"ts-run-fails-later-go-run-succeeds-at-once", map[string]string{"goimports": "exit 0\n", "npx": probeOK + "sleep 0.4\nexit 3\n"}, true},
		{"every-run-succeeds", map[string]string{"goimports": "exit 0\n", "npx": probeOK + "exit 0\n"}, false},
		{"tools-absent", map[string]string{"npx": "exit 1\n"}, false},
	}
	c20Dart(e, dir, bin, mod, goDir)
	for si, sc := range scenarios {
		fake := filepath.Join(dir, fmt.Sprintf("fake%d", si))
		os.MkdirAll(fake, 0o755)
		for tool, body := range sc.Tools {
			writeFile(filepath.Join(fake, tool), "#!/bin/sh\n"+body)
			os.Chmod(filepath.Join(fake, tool), 0o755)
		}
		outDir := filepath.Join(dir, fmt.Sprintf("out%d", si))
		os.MkdirAll(outDir, 0o755)
		cliCtx, cliCancel := context.WithTimeout(context.Background(), 3*time.Minute)
		defer cliCancel()
		cmd := exec.CommandContext(cliCtx, bin, "models.go", "go/randdata:"+filepath.Join(outDir, "gen.go"), "typescript/types:"+filepath.Join(outDir, "gen.ts"))
		cmd.Dir = mod
		env := []string{"PATH=" + fake + ":" + goDir + ":/usr/bin:/bin", "HOME=" + os.Getenv("HOME"), "GORACE=halt_on_error=0 exitcode=0"}
		for _, kv := range os.Environ() {
			if strings.HasPrefix(kv, "GO") && !strings.HasPrefix(kv, "GORACE=") {
				env = append(env, kv)
			}
		}
		cmd.Env = env
		var outb bytes.Buffer
		cmd.Stdout, cmd.Stderr = &outb, &outb
		err := cmd.Run()
		if cliCtx.Err() != nil {
			e.m.fail(oracleFailure{What: "the command did not end within 3 minutes (it hangs waiting for its formatters)", Input: map[string]interface{}{"scenario": si}, Got: tail(outb.String(), 2000)})
			continue
		}
		failed := err != nil
		text := outb.String()
		e.m.Evaluations++
		e.m.OracleRuns++
		e.m.Nontrivial++
		e.m.count("cli_scenario")
		input := map[string]interface{}{"scenario": sc, "command": "gomacro models.go go/randdata:<out>/gen.go typescript/types:<out>/gen.ts"}
		if strings.Contains(text, "DATA RACE") {
			e.m.fail(oracleFailure{What: "data race detected by the Go race detector in the goroutines of saveOutputs issuing the formatting requests", Input: input, Got: tail(firstRace(text), 3000)})
		}
		if !strings.Contains(text, "Waiting for formatters") {
			e.m.fail(oracleFailure{What: "the command did not reach the formatting stage: " + tail(text, 600), Input: input, NoInput: true})
			continue
		}
		if sc.WantFail && !failed {
			e.m.fail(oracleFailure{What: "a formatter run failed and the command ended normally: the failure did not reach the user", Input: input, Got: tail(text, 800)})
		}
		if !sc.WantFail && failed {
			e.m.fail(oracleFailure{What: "no formatter run failed and the command ended with an error", Input: input, Got: tail(text, 800)})
		}
	}
}

func tail(s string, n int) string {
	if len(s) > n {
		return s[len(s)-n:]
	}
	return s
}

func firstRace(s string) string {
	i := strings.Index(s, "WARNING: DATA RACE")
	if i < 0 {
		return s
	}
	s = s[i:]
	if j := strings.Index(s[10:], "=================="); j > 0 {
		s = s[:j+10]
	}
	return s
}

var reWork = regexp.MustCompile(`\$WORK/f(\d+)\.txt`)

func (e *env) writeC20(prog c20prog, cfgs []c20cfg, results []c20res, _ interface{}) {
	// per-slot observations, slots in dispatch order
	nslots := len(prog.dispatch)
	probeCmd := make([][]string, nslots)
	runCmd := make([][]string, nslots)
	var cases []string
	var inputs []interface{}
	for ci, cfg := range cfgs {
		res := results[ci]
		probes := make([]int, nslots)
		runs := make([]int, nslots)
		errs := make([]int, nslots)
		touched := make([]int, nslots)
		slotOfReq := func(r string) int {
			for k, f := range prog.dispatch {
				if f == r {
					return k
				}
			}
			return -1
		}
		perFmt := map[string]int{}
		for i, r := range cfg.Reqs {
			perFmt[r]++
			k := slotOfReq(r)
			if k < 0 {
				if res.Errs[i] || res.Touched[i] {
					e.m.fail(oracleFailure{What: "a request whose format has no 'if has<Tool>() { return <run>.Run() }' branch in FormatFile, as read from /repo's source (the no-format request, or a branch rewritten so that its result is not returned), returned an error or modified its file", Input: cfg})
				}
				continue
			}
			if res.Errs[i] {
				errs[k]++
			}
			if res.Touched[i] {
				touched[k]++
			}
		}
		for _, line := range res.Log {
			argv := strings.Fields(line)
			isRun := reWork.MatchString(line)
			tool := argv[0]
			if tool == "which" && len(argv) > 1 {
				tool = argv[1]
			}
			k := -1
			for kk, f := range prog.dispatch {
				if c20formatTool[f] == tool {
					k = kk
				}
			}
			if k < 0 {
				continue
			}
			norm := reWork.ReplaceAllString(line, "$$FILE")
			if isRun {
				runs[k]++
				runCmd[k] = strings.Fields(norm)
			} else {
				probes[k]++
				probeCmd[k] = strings.Fields(norm)
			}
		}
		e.m.Evaluations++
		e.m.OracleRuns++
		nt := false
		for _, c := range perFmt {
			if c >= 2 {
				nt = true
			}
		}
		if nt {
			e.m.Nontrivial++
		}
		// direct oracle: the property, stated on the observation
		for k, f := range prog.dispatch {
			tool := c20formatTool[f]
			want := 0
			if cfg.Present[tool] {
				want = perFmt[f]
			}
			wantErr := 0
			if cfg.Present[tool] && cfg.Failing[tool] {
				wantErr = perFmt[f]
			}
			if probes[k] > 1 {
				e.m.fail(oracleFailure{What: fmt.Sprintf("tool %s probed %d times on one cache", tool, probes[k]), Input: cfg, Got: strings.Join(res.Log, "\n")})
			}
			if runs[k] != want || touched[k] != want {
				e.m.fail(oracleFailure{What: fmt.Sprintf("format %s: %d requests, tool present=%v, but %d formatter runs and %d files modified", f, perFmt[f], cfg.Present[tool], runs[k], touched[k]), Input: cfg})
			}
			if errs[k] != wantErr {
				e.m.fail(oracleFailure{What: fmt.Sprintf("format %s: %d errors returned, expected %d (tool present=%v failing=%v)", f, errs[k], wantErr, cfg.Present[tool], cfg.Failing[tool]), Input: cfg})
			}
		}
		if res.Panic != "" {
			e.m.fail(oracleFailure{What: "FormatFile panicked: " + res.Panic, Input: cfg})
		}
		present := make([]string, nslots)
		failing := make([]string, nslots)
		for k, f := range prog.dispatch {
			present[k] = coqBool(cfg.Present[c20formatTool[f]])
			failing[k] = coqBool(cfg.Failing[c20formatTool[f]])
		}
		nat := func(xs []int) string {
			s := make([]string, len(xs))
			for i, x := range xs {
				s[i] = strconv.Itoa(x)
			}
			return coqList(s)
		}
		cases = append(cases, fmt.Sprintf("{| cc_present := %s; cc_failing := %s; cc_reqs := %s; cc_probes := %s; cc_runs := %s; cc_errs := %s; cc_touched := %s |}",
			coqList(present), coqList(failing), coqStrList(cfg.Reqs), nat(probes), nat(runs), nat(errs), nat(touched)))
		in := map[string]interface{}{"env": cfg, "probes": probes, "runs": runs, "errors": errs, "files_modified": touched}
		inputs = append(inputs, in)
		e.m.sample(in)
		e.m.count(fmt.Sprintf("requests_%d..", (len(cfg.Reqs)/16)*16))
	}
	var cmds []string
	for k, f := range prog.dispatch {
		cmds = append(cmds, fmt.Sprintf("(%s, %s, %s)", coqStr(f), coqStrList(probeCmd[k]), coqStrList(runCmd[k])))
	}
	// Gen file: the translated program + cases
	path := filepath.Join(e.out, "cases_C20.v")
	var b strings.Builder
	b.WriteString("From Coq Require Import NArith List String.\nFrom GM Require Import Model.Formatters Corr.Check_C20.\nImport ListNotations.\nLocal Open Scope string_scope.\n\n")
	b.WriteString("(* translated from /repo/generator/formatters.go and /repo/cmd/gomacro.go on this run *)\n")
	b.WriteString("Definition formatters_prog : cprog :=\n  " + prog.coq + ".\n\n")
	b.WriteString("Definition cmds : list cmd_obs := " + coqListNL(cmds) + ".\n\n")
	b.WriteString("Definition cases : list c20_case := " + coqListNL(cases) + ".\n\n")
	b.WriteString("Definition bad := Eval vm_compute in mismatches_prog formatters_prog cmds cases.\nLocal Open Scope N_scope.\nPrint bad.\n")
	check(os.WriteFile(path, []byte(b.String()), 0o644))
	// sidecar: indices 1000000/1000001 are program-level
	side, _ := json.Marshal(inputs)
	check(os.WriteFile(filepath.Join(e.out, "cases_C20.json"), side, 0o644))
	e.m.CaseFiles = append(e.m.CaseFiles, "cases_C20")
}

// c20Dart: the Dart files are added to the outputs inside saveOutputs; their formatting requests must be waited for
// like the others: when the command ends normally every Dart file has been formatted (the stand-in tool leaves a
// mark), and a failing "dart format" run ends the command with an error.
func c20Dart(e *env, dir, bin, mod, goDir string) {
	for si, failing := range []bool{false, true} {
		fake := filepath.Join(dir, fmt.Sprintf("fakedart%d", si))
		os.MkdirAll(fake, 0o755)
		marks := filepath.Join(dir, fmt.Sprintf("dartmarks%d", si))
		os.RemoveAll(marks)
		os.MkdirAll(marks, 0o755)
		exit := "exit 0"
		if failing {
			exit = "exit 65"
		}
		writeFile(filepath.Join(fake, "dart"), "#!/bin/sh\ncase \"$*\" in *--help*) exit 0;; esac\nsleep 0.4\ntouch "+marks+"/$(basename \"$2\")\n"+exit+"\n")
		os.Chmod(filepath.Join(fake, "dart"), 0o755)
		writeFile(filepath.Join(fake, "npx"), "#!/bin/sh\nexit 1\n")
		os.Chmod(filepath.Join(fake, "npx"), 0o755)
		outDir := filepath.Join(dir, fmt.Sprintf("outdart%d", si))
		os.MkdirAll(outDir, 0o755)
		if old, _ := filepath.Glob(filepath.Join(mod, "*.dart")); len(old) > 0 {
			for _, f := range old {
				os.Remove(f)
			}
		}
		dartCtx, dartCancel := context.WithTimeout(context.Background(), 3*time.Minute)
		defer dartCancel()
		cmd := exec.CommandContext(dartCtx, bin, "models.go", "dart:"+outDir)
		cmd.Dir = mod
		env := []string{"PATH=" + fake + ":" + goDir + ":/usr/bin:/bin", "HOME=" + os.Getenv("HOME"), "GORACE=halt_on_error=0 exitcode=0"}
		for _, kv := range os.Environ() {
			if strings.HasPrefix(kv, "GO") && !strings.HasPrefix(kv, "GORACE=") {
				env = append(env, kv)
			}
		}
		cmd.Env = env
		var outb bytes.Buffer
		cmd.Stdout, cmd.Stderr = &outb, &outb
		err := cmd.Run()
		if dartCtx.Err() != nil {
			e.m.fail(oracleFailure{What: "the command (dart output) did not end within 3 minutes (it hangs waiting for its formatters)", Input: "dart scenario", Got: tail(outb.String(), 2000)})
			continue
		}
		text := outb.String()
		e.m.Evaluations++
		e.m.OracleRuns++
		e.m.Nontrivial++
		e.m.count("cli_dart_scenario")
		input := map[string]interface{}{"scenario": map[string]interface{}{"dart_format_fails": failing}, "command": "gomacro models.go dart:<out dir>"}
		if strings.Contains(text, "DATA RACE") {
			e.m.fail(oracleFailure{What: "data race detected by the Go race detector in the goroutines of saveOutputs (Dart outputs)", Input: input, Got: tail(firstRace(text), 3000)})
		}
		if !strings.Contains(text, "Waiting for formatters") {
			e.m.fail(oracleFailure{What: "the command did not reach the formatting stage with a dart action: " + tail(text, 600), Input: input, NoInput: true})
			continue
		}
		// in single-file mode the Dart files are written in the working directory
		written, _ := filepath.Glob(filepath.Join(mod, "*.dart"))
		marked, _ := filepath.Glob(filepath.Join(marks, "*.dart"))
		if failing {
			if err == nil {
				e.m.fail(oracleFailure{What: "a failing run of the Dart formatter did not reach the user: the command ended normally", Input: input, Got: tail(text, 800)})
			}
			continue
		}
		if err != nil {
			e.m.fail(oracleFailure{What: "no formatter run failed and the command ended with an error (dart action)", Input: input, Got: tail(text, 800)})
		} else if len(written) == 0 || len(marked) != len(written) {
			e.m.fail(oracleFailure{What: fmt.Sprintf("the command ended before its formatting requests were served: %d Dart files written, %d formatted", len(written), len(marked)), Input: input, Got: tail(text, 800)})
		}
	}
}
