package main

import (
	"fmt"
	"os"
)

// observe-file: debugging aid. GMV_TARGET=<file.go> GMV_WHAT=<generators> harness observe-file
// prints the outcome of the analysis and of the requested generators on a file of a module on disk.
func init() {
	commands["observe-file"] = func(e *env) {
		res := observe(os.Getenv("GMV_TARGET"), os.Getenv("GMV_WHAT"))
		fmt.Printf("load_err=%q outcome=%s msg=%q nodes=%d\n", res.LoadErr, res.Outcome, res.Msg, res.NumNodes)
		for k, g := range res.Gen {
			fmt.Printf("==== %s: %s %s\n%s\n", k, g.Outcome, g.Msg, g.Text)
		}
	}
}
