package main

import (
	"encoding/json"
	"fmt"
	"regexp"
	"strings"
	"sync"
)

func init() { commands["C03"] = runC03 }

var (
	reTSBrand     = regexp.MustCompile(`export type (\w+) = (number|string) & \{ __opaque__: '(\w+)' \};?`)
	reTSTuple     = regexp.MustCompile(`export type (\w+) = \[(.*?)\]`)
	reTSEmpty     = regexp.MustCompile(`export type (\w+) = Record<string, never>`)
	reTSEnum      = regexp.MustCompile(`(?s)export const (\w+) = \{\n(.*?)\n\s*\} as const;\s*export type (\w+) = \(typeof (\w+)\)\[keyof typeof (\w+)\];`)
	reTSUnion     = regexp.MustCompile(`(?s)export type (\w+) =\s*((?:\| \{ Kind : "\w+", Data: [^\n]*\}\s*)+)`)
	reTSUnionAlt  = regexp.MustCompile(`\| \{ Kind : "(\w+)", Data: (.*?)\}\s*(?:\n|$)`)
	reTSInterface2 = regexp.MustCompile(`(?s)export interface (\w+) \{\n(.*?)\n\s*\}`)
	reTSAlias     = regexp.MustCompile(`(?m)^\s*export type (\w+) = ([^\n]+)$`)
	reTSEnumEntry = regexp.MustCompile(`(?m)^\s*(\w+) : (.*),$`)
)

// parseTexpr parses the type expressions gomacro prints into a Coq term
func parseTexpr(s string) (string, bool) {
	s = strings.TrimSpace(s)
	switch s {
	case "string":
		return "TString", true
	case "number":
		return "TNumber", true
	case "boolean":
		return "TBoolean", true
	case "unknown":
		return "TUnknown", true
	}
	if regexp.MustCompile(`^\w+$`).MatchString(s) {
		return "(TRef " + coqStr(s) + ")", true
	}
	if strings.HasPrefix(s, "(") && strings.HasSuffix(s, ")") {
		inner := strings.TrimSpace(s[1 : len(s)-1])
		if !strings.HasSuffix(inner, "| null") {
			return "", false
		}
		body := strings.TrimSpace(strings.TrimSuffix(inner, "| null"))
		if strings.HasSuffix(body, "[]") {
			e, ok := parseTexpr(body[:len(body)-2])
			return "(TNullable (TArr " + e + "))", ok
		}
		if strings.HasPrefix(body, "Record<") && strings.HasSuffix(body, ">") {
			args := body[len("Record<") : len(body)-1]
			depth, cut := 0, -1
			for i, ch := range args {
				switch ch {
				case '(', '<':
					depth++
				case ')', '>':
					depth--
				case ',':
					if depth == 0 && cut < 0 {
						cut = i
					}
				}
			}
			if cut < 0 {
				return "", false
			}
			k, ok1 := parseTexpr(args[:cut])
			v, ok2 := parseTexpr(args[cut+1:])
			return "(TNullable (TRecord " + k + " " + v + "))", ok1 && ok2
		}
	}
	return "", false
}

func tsLiteral(s string) (string, bool) {
	s = strings.TrimSpace(s)
	j, err := coqJSON([]byte(s))
	return j, err == nil
}

// readTS parses the TypeScript file into (name, tdecl) Coq pairs; ok=false when something was not understood
func readTS(text string) (decls []string, unparsed []string) {
	claimed := map[string]bool{}
	add := func(name, d string) {
		decls = append(decls, fmt.Sprintf("(%s, %s)", coqStr(name), d))
		claimed[name] = true
	}
	// strip comment lines
	var lines []string
	for _, l := range strings.Split(text, "\n") {
		if strings.HasPrefix(strings.TrimSpace(l), "//") {
			continue
		}
		lines = append(lines, l)
	}
	text = strings.Join(lines, "\n")
	for _, m := range reTSBrand.FindAllStringSubmatch(text, -1) {
		base := "TNumber"
		if m[2] == "string" {
			base = "TString"
		}
		add(m[1], "TDBrand "+base)
	}
	for _, m := range reTSEmpty.FindAllStringSubmatch(text, -1) {
		add(m[1], "TDEmptyRecord")
	}
	for _, m := range reTSTuple.FindAllStringSubmatch(text, -1) {
		parts := strings.Split(strings.TrimSuffix(strings.TrimSpace(m[2]), ","), ",")
		n := 0
		elem := "TUnknown"
		ok := true
		if strings.TrimSpace(m[2]) != "" {
			n = len(parts)
			elem, ok = parseTexpr(parts[0])
		}
		if !ok {
			unparsed = append(unparsed, m[0])
		}
		add(m[1], fmt.Sprintf("TDTuple %d %s", n, elem))
	}
	kindConsts := map[string]bool{}
	for _, m := range reTSUnion.FindAllStringSubmatch(text, -1) {
		var alts []string
		for _, a := range reTSUnionAlt.FindAllStringSubmatch(m[2], -1) {
			t, ok := parseTexpr(a[2])
			if !ok {
				unparsed = append(unparsed, a[0])
			}
			alts = append(alts, fmt.Sprintf("(%s, %s)", coqStr(a[1]), t))
		}
		add(m[1], "TDUnion "+coqList(alts))
		kindConsts[m[1]+"Kind"] = true
	}
	for _, m := range reTSEnum.FindAllStringSubmatch(text, -1) {
		if kindConsts[m[1]] {
			claimed[m[1]] = true
			continue // the Kind constants of a union: not a type of the wire
		}
		var vals []string
		for _, e := range reTSEnumEntry.FindAllStringSubmatch(m[2], -1) {
			v, ok := tsLiteral(e[2])
			if !ok {
				unparsed = append(unparsed, e[0])
			}
			vals = append(vals, v)
		}
		add(m[1], "TDEnum "+coqList(vals))
	}
	for _, m := range reTSInterface2.FindAllStringSubmatch(text, -1) {
		var fields []string
		for _, l := range strings.Split(m[2], "\n") {
			l = strings.TrimSpace(l)
			if l == "" {
				continue
			}
			i := strings.Index(l, ": ")
			if i < 0 {
				unparsed = append(unparsed, l)
				continue
			}
			t, ok := parseTexpr(strings.TrimSuffix(l[i+2:], ","))
			if !ok {
				unparsed = append(unparsed, l)
			}
			fields = append(fields, fmt.Sprintf("(%s, %s)", coqStr(l[:i]), t))
		}
		add(m[1], "TDInterface "+coqList(fields))
	}
	for _, m := range reTSAlias.FindAllStringSubmatch(text, -1) {
		if claimed[m[1]] || strings.HasPrefix(m[2], "(typeof") || m[2] == "" {
			continue
		}
		t, ok := parseTexpr(m[2])
		if !ok {
			unparsed = append(unparsed, m[0])
			continue
		}
		add(m[1], "TDAlias "+t)
	}
	return decls, unparsed
}

func runC03(e *env) {
	e.m.Rule = "corpus + seeded synthesised modules (no pointer types): the TypeScript file is parsed into a type environment (brands, aliases, tuples, enums, interfaces, Kind/Data unions) and compared declaration by declaration with the model; " +
		"every JSON document written by the real Go encoder (test binary of C02: random values of every analysed type) must structurally inhabit the parsed declaration of its type, and the environment must be closed and duplicate-free; " +
		"one evaluation = one document; non-trivial = document holding a container or a union"
	e.m.Extra = map[string]interface{}{"mismatch_means": "model",
		"assumptions": []string{"TsSem (structural inhabitation, exact object keys) is the meaning given to the emitted TypeScript subset; no TypeScript compiler is available offline: syntactic validity = the whole file is understood by the harness reader"}}
	specs := corpusTS()
	n, samples := 8, 10
	if e.thorough() {
		n, samples = 120, 30
	}
	for i := 0; i < n; i++ {
		prof := profile{Unions: true, Structs: true, NamedBasics: true, Enums: true, Containers: true, Time: true, Embedded: true, SubPkg: true, ModShape: 0, NoNamedTime: true, NoBytes: true, TagsSafe: true, SiblingMembers: true}
		specs = append(specs, synthModule(e.r, prof, i))
	}
	obs := observeAll(specs, "gounions,ts,decls", 14)
	results := make([]*binResult, len(specs))
	var wg sync.WaitGroup
	sem := make(chan struct{}, 8)
	for i, o := range obs {
		if o.LoadErr != "" || o.Outcome != "ok" || o.Gen["gounions"].Outcome != "ok" || o.Gen["ts"].Outcome != "ok" {
			continue
		}
		wg.Add(1)
		sem <- struct{}{}
		go func(i int, o *obsResult) {
			defer wg.Done()
			defer func() { <-sem }()
			results[i] = runTestBinary(specs[i], o, e.seed+int64(i), samples, false)
		}(i, o)
	}
	wg.Wait()
	var cases []string
	var inputs []interface{}
	for i, r := range results {
		spec := specs[i]
		o := obs[i]
		if o.LoadErr == "" && o.Outcome == "ok" {
			e.m.count("ts_" + o.Gen["ts"].Outcome)
			if o.Gen["ts"].Outcome == "crash" {
				e.m.fail(oracleFailure{What: "the TypeScript generator dies: " + o.Gen["ts"].Msg, Input: spec})
			}
		}
		if o.LoadErr != "" || o.Outcome != "ok" || o.Gen["ts"].Outcome != "ok" {
			continue
		}
		// without test binary (it needs the Go generators to compile for the module) the TypeScript file is still
		// compared with the model, without documents
		var records []binRecord
		if r == nil || r.BuildErr != "" {
			e.m.count("no_test_binary")
		} else {
			records = r.Records
		}
		decls, unparsed := readTS(o.Gen["ts"].Text)
		if len(unparsed) > 0 {
			e.m.fail(oracleFailure{What: "the TypeScript file contains text the reader does not understand (not valid in the emitted subset): " + unparsed[0], Input: spec, Got: strings.Join(unparsed, "\n")})
		}
		var docs []string
		cls := ""
		for _, rec := range records {
			if rec.Kind != "roundtrip" || rec.JSON == "" {
				continue
			}
			e.m.Evaluations++
			if rec.Shape != "" {
				e.m.Nontrivial++
			}
			if j, err := coqJSON([]byte(rec.JSON)); err == nil {
				docs = append(docs, fmt.Sprintf("(%s, %s)", coqNamedRef(o.RootPkg, rec.Type), j))
			}
			if strings.Contains(rec.Shape, "bytes") {
				cls = "byte-slice-in-json"
			}
		}
		cls = spec.Class
		if len(docs) > 0 {
			e.m.sample(map[string]interface{}{"module": spec.Name, "declarations": len(decls), "documents": len(docs)})
		}
		tsl := tsListSkeleton(o)
		e.m.count("ts_list_" + strings.ToLower(strings.TrimPrefix(strings.SplitN(strings.Trim(tsl, "("), " ", 2)[0], "Ts")))
		cases = append(cases, fmt.Sprintf("{| c3_tsl := %s;\n c3_prog := %s;\n c3_enums := %s;\n c3_ana := %s;\n c3_env := %s;\n c3_docs := %s |}", tsl, o.Facts, o.Enums, o.Ana, coqListNL(decls), coqListNL(docs)))
		inputs = append(inputs, map[string]interface{}{"module": spec, "typescript": o.Gen["ts"].Text, "class": cls, "class_scope": "property-only"})
		if len(cases) == 2 {
			e.writeCases2(fmt.Sprintf("cases_C03_%d", len(e.m.CaseFiles)), anaHeader+"From GM Require Import Sem.GoJson Sem.TsSem Model.TsTypes Corr.Check_C03.\n", "mismatches", "prop_failures", cases, inputs)
			cases, inputs = nil, nil
		}
	}
	if len(cases) > 0 {
		e.writeCases2(fmt.Sprintf("cases_C03_%d", len(e.m.CaseFiles)), anaHeader+"From GM Require Import Sem.GoJson Sem.TsSem Model.TsTypes Corr.Check_C03.\n", "mismatches", "prop_failures", cases, inputs)
	}
}

func hasByteSlice(m *modSpec) bool {
	return strings.Contains(m.Files[0].Src, "[]byte") || strings.Contains(m.Files[0].Src, "[]uint8")
}

func hasOmitempty(m *modSpec) bool { return strings.Contains(m.Files[0].Src, "omitempty") }

func corpusTS() []*modSpec {
	mk := func(name, src string, extra ...modFile) *modSpec {
		return &modSpec{Name: name, ModPath: "example.com/org/models", Target: "models.go",
			Files: append([]modFile{{"models.go", src}}, extra...)}
	}
	return []*modSpec{
		mk("ts-generic-named-containers", "package models\n\ntype S struct {\n\tA Seq[int]\n\tB Seq[string]\n\tC Dict[bool]\n\tD Dict[IdX]\n\tE Pair[int]\n\tF []Seq[int]\n}\n", modFile{"other.go", "package models\n\ntype IdX int64\n\ntype Seq[T any] []T\n\ntype Dict[V any] map[string]V\n\ntype Pair[T any] [2]T\n"}),
		mk("ts-arrays-sharing-an-alias", "package models\n\ntype Small struct{ P [2]int }\ntype Wide struct{ P [2]int64 }\ntype F struct {\n\tA [3]float32\n\tB [3]float64\n\tC [2]uint8\n\tD [2]int\n\tE [2][2]int\n\tG [2][2]int16\n}\n"),
		mk("ts-embedded-struct-reached-through-its-own-union", "package models\n\ntype U interface{ isU() }\n\ntype A struct {\n\tX int\n\tV U\n}\n\nfunc (A) isU() {}\n\ntype B struct {\n\tA\n\tY int\n}\n\ntype C struct {\n\tB\n\tZ string `json:\"z\"`\n}\n"),
		mk("ts-string-enum-special-values", "package models\n\ntype Pattern string\n\nconst (\n\tDigits Pattern = \"\\\\d+\"\n\tQuote Pattern = \"say \\\"hi\\\"\"\n\tTab Pattern = \"a\\tb\"\n\tAccent Pattern = \"\u00e9t\u00e9\"\n)\n\ntype S struct {\n\tP Pattern\n\tL []Pattern\n}\n"),
		mk("ts-string-enum-long-value", "package models\n\ntype Code string\n\nconst (\n\tShort Code = \"s\"\n\tLong Code = \"xxxxxxxxxxxxxxxxxxxxxxxxxxxxxxxxxxxxxxxxxxxxxxxxxxxxxxxxxxxxxxxxxxxxxxxxxxxxxxxxxxxxxxxxxx\"\n)\n\ntype S struct{ C Code }\n"),
		mk("ts-shapes", "package models\n\nimport \"time\"\n\ntype ID int64\ntype Name string\ntype Ratio float64\ntype Flag bool\ntype Ints []int\ntype Grid [2][3]int\ntype ByName map[string]Ints\ntype ByID map[ID]Name\n\ntype E uint8\n\nconst (\n\tE1 E = 1\n\tE2 E = 2\n)\n\ntype Empty struct{}\n\ntype S struct {\n\tA ID\n\tB Name\n\tC Ratio\n\tD Flag\n\tE Ints\n\tF Grid\n\tG ByName\n\tH ByID\n\tI E\n\tJ Empty\n\tK time.Time\n\tL [0]int\n\tM map[E]bool\n\tN []Empty\n}\n"),
		mk("ts-unions", "package models\n\nimport \"time\"\n\ntype U interface{ isU() }\ntype A struct {\n\tX int `json:\"x\"`\n\tS []string\n}\ntype B struct{ T time.Time }\ntype N int\ntype L []int\n\nfunc (A) isU() {}\nfunc (B) isU() {}\nfunc (N) isU() {}\nfunc (L) isU() {}\n\ntype S struct {\n\tV U `json:\"v\"`\n\tHidden int `json:\"-\"`\n\tunexp int\n\tW U\n\tName string\n}\n\ntype List []U\ntype Dict map[string]U\ntype ByID map[int]U\n\ntype Outer struct {\n\tInner S\n\tItems List\n\tD Dict\n\tI ByID\n\tMany []S\n}\n"),
		mk("ts-generics", "package models\n\ntype IdUser int64\ntype IdGroup int64\n\ntype Holder struct {\n\tU Opt[IdUser]\n\tG Opt[IdGroup]\n\tN Opt[int]\n\tP Pair[string, IdUser]\n\tQ Pair[IdUser, string]\n\tL []Opt[IdGroup]\n}\n",
			modFile{"generic.go", "package models\n\ntype Opt[T any] struct {\n\tValid bool\n\tV T\n}\n\ntype Pair[A any, B any] struct {\n\tFirst A\n\tSecond B\n}\n"}),
		mk("ts-opaque-with-json-name", "package models\n\ntype Payload struct{ A int }\n\ntype Event struct {\n\tID int `json:\"id\"`\n\tMeta Payload `json:\"meta_data\" gomacro-opaque:\"typescript\"`\n\tRaw Payload `gomacro-opaque:\"typescript\"`\n\tBoth Payload `json:\"both,omitempty\" gomacro-opaque:\"dart, typescript\"`\n\tComment string\n}\n"),
		mk("ts-enum-with-unexported-members", "package models\n\ntype Level int\n\nconst (\n\tLow Level = iota\n\tHigh\n\tinternal\n\tTop\n)\n\ntype Mode string\n\nconst (\n\tOn Mode = \"on\"\n\toff Mode = \"off\"\n)\n\ntype S struct {\n\tName string\n\tLevel Level\n\tModes []Mode\n}\n"),
		mk("ts-empty-tag-names", "package models\n\ntype Inner struct{ A int }\n\ntype S struct {\n\tNested Inner `json:\",omitempty\"`\n\tPair [2]int `json:\",omitempty\"`\n\tEmpty Inner `json:\"\"`\n\tPlain string\n}\n"),
		withClass(mk("ts-string-option", "package models\n\ntype S struct {\n\tN int `json:\",string\"`\n\tB bool `json:\"b,string\"`\n\tPlain string\n}\n"), "json-string-option"),
		withClass(mk("ts-gomacro-ignored-on-the-wire", "package models\n\ntype Account struct {\n\tID int\n\tLogin string `json:\"login\"`\n\tCache []int `gomacro:\"ignore\"`\n\tNotes map[string]string `json:\"notes\" gomacro:\"ignore\"`\n}\n"), "gomacro-ignored-field-on-the-wire"),
		withClass(mk("ts-bytes", "package models\n\ntype S struct {\n\tData []byte\n\tFixed [4]byte\n}\n"), "byte-slice-in-json"),
		withClass(mk("ts-omitempty", "package models\n\ntype S struct {\n\tA int `json:\"a,omitempty\"`\n\tB string\n}\n"), "omitempty-field-may-be-absent"),
		withClass(mk("ts-named-time", "package models\n\nimport \"time\"\n\ntype Date time.Time\n\ntype S struct {\n\tD Date\n\tT time.Time\n}\n"), "named-time-type-without-json-methods"),
	}
}

func withClass(m *modSpec, class string) *modSpec { m.Class = class; return m }

// tsListSkeleton returns the Coq term (ts_obs) for the declaration list of the real TypeScript generator: for every
// declaration its ID and what the reader of the emitted subset finds in its text
func tsListSkeleton(o *obsResult) string {
	switch o.Gen["ts"].Outcome {
	case "diag":
		return "TsDiag"
	case "crash":
		return "TsCrash"
	case "ok":
	default:
		return "TsSkip"
	}
	d := o.Gen["decls"]
	if d.Outcome != "ok" {
		return "TsSkip"
	}
	var lists map[string][]c19decl
	if err := json.Unmarshal([]byte(d.Text), &lists); err != nil {
		return "TsSkip"
	}
	l, ok := lists["ts"]
	if !ok {
		return "TsSkip"
	}
	var out []string
	for _, decl := range l {
		if decl.ID == "__header" {
			continue
		}
		ds, unparsed := readTS(decl.Content)
		if len(unparsed) > 0 {
			return "TsSkip" // reported by the reader of the whole file
		}
		out = append(out, fmt.Sprintf("{| to_id := %s; to_decls := %s |}", coqStr(decl.ID), coqList(ds)))
	}
	return "(TsOk " + coqListNL(out) + ")"
}
