package main

import (
	"fmt"
	"go/constant"
	"go/types"
	"sort"
	"strings"

	"github.com/benoitkugler/gomacro/analysis"
	"golang.org/x/tools/go/packages"
)

func init() { commands["C10"] = runC10 }

const factsHeader = "From Coq Require Import List String ZArith.\nFrom GM Require Import Base.Hex Base.Result Facts.GoFacts.\nImport ListNotations.\nLocal Open Scope string_scope.\n"

func coqEnumTable(enums map[*types.Named]*analysis.Enum) string {
	var ids []string
	byID := map[string]*analysis.Enum{}
	for n, e := range enums {
		id := tyID(n)
		ids = append(ids, id)
		byID[id] = e
	}
	sort.Strings(ids)
	var items []string
	for _, id := range ids {
		e := byID[id]
		var ms []string
		for _, m := range e.Members {
			ms = append(ms, fmt.Sprintf("{| em_name := %s; em_val := %s; em_exact := %s; em_exported := %s; em_comment := %s |}",
				coqStr(m.Const.Name()), coqCval(m.Const.Val()), coqStr(m.Const.Val().ExactString()), coqBool(m.Const.Exported()), coqStr(m.Comment)))
		}
		items = append(items, fmt.Sprintf("{| en_id := %s; en_members := %s; en_is_iota := %s |}", coqStr(id), coqList(ms), coqBool(e.IsIota)))
	}
	return coqListNL(items)
}

func observeEnums(pkg *packages.Package) (tbl map[*types.Named]*analysis.Enum, class, msg string) {
	defer func() {
		if r := recover(); r != nil {
			class, msg = panicClass(r)
		}
	}()
	tbl, _ = analysis.VerifEnumsAndUnions(pkg)
	return tbl, "ok", ""
}

func runC10(e *env) {
	e.m.Rule = "corpus modules (known enum shapes) then seeded synthesised modules: root package + sibling file + optional sub-package, enums in every constant declaration style " +
		"(iota blocks, explicit, negative, gaps, duplicates, blanks, interleaved unexported, string/bool/float-backed, single-line, multi-name specs, opt-out comments, same type name in two packages); " +
		"one evaluation = one module (all its enums); non-trivial = the module declares at least 2 typed constants of a defined type; distinct = distinct source texts"
	e.m.Extra = map[string]interface{}{"mismatch_means": "model"}
	specs := append(append(corpusEnums(), sameNamePackages()), repoFixtures("repo-testsource-defs", "repo-subpackage-enums")...)
	// a module path of one element, and an enum declared in a package reached only through another package of the
	// module, in another second-level directory
	specs = append(specs, &modSpec{Name: "enum-one-element-module-transitive-package", ModPath: "shop", Target: "shop.go",
		Files: []modFile{{"shop.go", "package shop\n\nimport \"shop/api/model\"\n\ntype Order struct {\n\tItem model.Item\n\tN int\n}\n"},
			{"api/model/model.go", "package model\n\nimport \"shop/core/kinds\"\n\ntype Item struct {\n\tK kinds.Kind\n\tS kinds.Size\n}\n"},
			{"core/kinds/kinds.go", "package kinds\n\ntype Kind int\n\nconst (\n\tFood Kind = iota // food\n\tTool\n\tToy\n)\n\ntype Size string\n\nconst (\n\tSmall Size = \"s\"\n\tLarge Size = \"l\"\n)\n"}}})
	n := 24
	if e.thorough() {
		n = 400
	}
	prof := profile{Enums: true, Structs: true, NamedBasics: true, SubPkg: true, MultiConst: true, ModShape: 3}
	for i := 0; i < n; i++ {
		specs = append(specs, synthModule(e.r, prof, i))
	}
	loads := loadAll(specs, 12)
	var cases []string
	var inputs []interface{}
	seen := map[string]bool{}
	fileNo := 0
	flush := func() {
		if len(cases) > 0 {
			e.writeCases2(fmt.Sprintf("cases_C10_%d", fileNo), factsHeader+"From GM Require Import Model.Enums Corr.Check_C10.\n", "mismatches", "prop_failures", cases, inputs)
			fileNo++
			cases, inputs = nil, nil
		}
	}
	for _, l := range loads {
		if l.err != nil {
			e.m.count("rejected_by_type_checker")
			e.m.Extra["last_rejected"] = l.spec.Name + ": " + l.err.Error()
			continue
		}
		e.m.Evaluations++
		for _, t := range l.spec.Tags {
			if strings.HasPrefix(t, "enum:") {
				e.m.count(t)
			}
		}
		fx := newFacts(l.pkg)
		prog := fx.coqProg()
		tbl, class, msg := observeEnums(l.pkg)
		obs := "ObsCrash"
		switch class {
		case "ok":
			obs = "(ObsOk " + coqEnumTable(tbl) + ")"
		case "diag":
			obs = "ObsDiag"
		}
		e.m.count("outcome_" + class)
		// direct oracle (third opinion), independent of the Coq spec: recompute from go/types
		e.m.OracleRuns++
		input := map[string]interface{}{"module": l.spec, "outcome": class, "panic": msg}
		if class == "crash" {
			e.m.fail(oracleFailure{What: "enum detection dies with a runtime error: " + msg, Input: l.spec, Class: classifyEnumCrash(l.spec)})
			input["class"] = classifyEnumCrash(l.spec)
		} else if class == "ok" {
			for _, f := range enumOracle(l.pkg, tbl) {
				f.Input = l.spec
				e.m.fail(f)
				if f.Class != "" {
					input["class"] = f.Class
				}
			}
		}
		nConst := 0
		for _, p := range fx.pkgs {
			if strings.HasPrefix(p.PkgPath, userPrefix(l.pkg.PkgPath)) {
				sc := p.Types.Scope()
				for _, name := range sc.Names() {
					if c, ok := sc.Lookup(name).(*types.Const); ok {
						if _, ok := c.Type().(*types.Named); ok {
							nConst++
						}
					}
				}
			}
		}
		key := l.spec.Files[0].Src
		if !seen[key] {
			seen[key] = true
			if nConst >= 2 {
				e.m.Nontrivial++
			}
		}
		if nConst >= 2 {
			e.m.sample(map[string]interface{}{"module": l.spec.Name, "source": l.spec.Files[0].Src, "enums_found": len(tbl)})
		}
		cases = append(cases, fmt.Sprintf("(%s,\n %s)", prog, obs))
		inputs = append(inputs, input)
		if len(cases) == 8 {
			flush()
		}
	}
	flush()
}

func classifyEnumCrash(m *modSpec) string { return "" }

// enumOracle recomputes the property from go/types alone (no Coq, no gomacro logic).
func enumOracle(root *packages.Package, tbl map[*types.Named]*analysis.Enum) []oracleFailure {
	var out []oracleFailure
	prefix := userPrefix(root.PkgPath)
	for _, p := range allPackages(root) {
		if !strings.HasPrefix(p.PkgPath, prefix) {
			continue
		}
		// reachable through non-ignored imports only: approximate by prefix (the synthesiser's packages are all reachable)
		byType := map[*types.Named][]*types.Const{}
		sc := p.Types.Scope()
		for _, name := range sc.Names() {
			c, ok := sc.Lookup(name).(*types.Const)
			if !ok {
				continue
			}
			n, ok := c.Type().(*types.Named)
			if !ok || strings.Contains(constComment(p, c), "gomacro:no-enum") {
				continue
			}
			if n.Obj().Pkg() != p.Types {
				continue // "its package declares": a constant declared elsewhere is not a member
			}
			byType[n] = append(byType[n], c)
		}
		for n, cs := range byType {
			e := tbl[n]
			if e == nil {
				out = append(out, oracleFailure{What: "type " + tyID(n) + " has typed constants but is not an enum"})
				continue
			}
			if len(e.Members) != len(cs) {
				out = append(out, oracleFailure{What: fmt.Sprintf("enum %s: %d members reported, %d constants declared", tyID(n), len(e.Members), len(cs))})
			}
			if e.IsIota {
				want := int64(0)
				for _, m := range e.Members {
					if !m.Const.Exported() {
						continue
					}
					v, ok := constant.Int64Val(m.Const.Val())
					if !ok || v != want {
						out = append(out, oracleFailure{What: fmt.Sprintf("enum %s is flagged iota but its exported members do not have the values 0,1,2,... in order (member %s = %s at position %d)", tyID(n), m.Const.Name(), m.Const.Val(), want),
							Class: "iota-flag-with-duplicate-values"})
						break
					}
					want++
				}
			}
		}
	}
	return out
}

func observeUnionsDirect(l *loaded) (e map[*types.Named]*analysis.Enum, u map[*types.Named][]*types.Named) {
	defer func() { recover() }()
	return analysis.VerifEnumsAndUnions(l.pkg)
}
