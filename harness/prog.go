package main

import (
	"fmt"
	"os"
	"path/filepath"
	"sort"
	"strings"
	"sync"

	"github.com/benoitkugler/gomacro/analysis"
	"golang.org/x/tools/go/packages"
)

// A synthesised or corpus Go module.
type modFile struct {
	Rel string `json:"rel"`
	Src string `json:"src"`
}

type modSpec struct {
	Name    string    `json:"name"`
	ModPath string    `json:"module"`
	GoSrc   bool      `json:"gopath_layout"` // placed under <scratch>/go/src/<ModPath>
	Files   []modFile `json:"files"`
	Target  string    `json:"target"` // analysed file, relative to the module root
	Tags    []string  `json:"tags,omitempty"`
	Class   string    `json:"class,omitempty"` // known-finding class this input is aimed at, if any
}

func (m *modSpec) hasTag(t string) bool {
	for _, x := range m.Tags {
		if x == t {
			return true
		}
	}
	return false
}

var modCounter int
var modMu sync.Mutex

// materialize writes the module under the scratch root and returns (moduleRoot, absoluteTarget).
func (m *modSpec) materialize() (string, string) {
	modMu.Lock()
	modCounter++
	n := modCounter
	modMu.Unlock()
	base := scratchDir(fmt.Sprintf("m%d", n))
	root := filepath.Join(base, "mod")
	if m.GoSrc {
		root = filepath.Join(base, "go", "src", filepath.FromSlash(m.ModPath))
	}
	writeFile(filepath.Join(root, "go.mod"), "module "+m.ModPath+"\n\ngo 1.21\n")
	for _, f := range m.Files {
		writeFile(filepath.Join(root, filepath.FromSlash(f.Rel)), f.Src)
	}
	return root, filepath.Join(root, filepath.FromSlash(m.Target))
}

type loaded struct {
	spec   *modSpec
	root   string
	target string
	pkg    *packages.Package
	err    error
}

var stderrMu sync.Mutex

// loadModule type-checks the module through the real loader (analysis.LoadSource).
func loadModule(m *modSpec) *loaded {
	root, target := m.materialize()
	l := &loaded{spec: m, root: root, target: target}
	func() {
		defer func() {
			if r := recover(); r != nil {
				l.err = fmt.Errorf("LoadSource panicked: %v", r)
			}
		}()
		l.pkg, l.err = analysis.LoadSource(target)
	}()
	return l
}

// loadAll loads the modules in parallel (packages.Load shells out to `go list`).
func loadAll(specs []*modSpec, workers int) []*loaded {
	out := make([]*loaded, len(specs))
	var wg sync.WaitGroup
	sem := make(chan struct{}, workers)
	// packages.PrintErrors writes to stderr: silence it for the duration
	old := os.Stderr
	if devnull, err := os.OpenFile(os.DevNull, os.O_WRONLY, 0); err == nil {
		os.Stderr = devnull
		defer func() { os.Stderr = old; devnull.Close() }()
	}
	for i, s := range specs {
		wg.Add(1)
		sem <- struct{}{}
		go func(i int, s *modSpec) {
			defer wg.Done()
			defer func() { <-sem }()
			out[i] = loadModule(s)
		}(i, s)
	}
	wg.Wait()
	return out
}

// allPackages returns the root package and everything it imports, transitively, root first, rest sorted by path.
func allPackages(root *packages.Package) []*packages.Package {
	seen := map[string]*packages.Package{}
	var walk func(p *packages.Package)
	walk = func(p *packages.Package) {
		if seen[p.PkgPath] != nil {
			return
		}
		seen[p.PkgPath] = p
		for _, i := range p.Imports {
			walk(i)
		}
	}
	walk(root)
	var paths []string
	for k := range seen {
		if k != root.PkgPath {
			paths = append(paths, k)
		}
	}
	sort.Strings(paths)
	out := []*packages.Package{root}
	for _, k := range paths {
		out = append(out, seen[k])
	}
	return out
}

// user packages = same two-element prefix rule as documented (independent re-implementation for the oracle)
func userPrefix(rootPath string) string {
	ch := strings.Split(rootPath, "/")
	if len(ch) == 1 {
		return rootPath
	}
	return strings.Join(ch[:2], "/")
}
