// Command c20race (built with -race) drives generator.Formatters.FormatFile from many goroutines
// with recording stand-in tools first on PATH, for a list of tool environments read from stdin,
// and prints per environment what happened. Data races are reported by the race detector on stderr.
package main

import (
	"bufio"
	"encoding/json"
	"fmt"
	"os"
	"path/filepath"
	"strings"
	"sync"

	"github.com/benoitkugler/gomacro/generator"
)

type config struct {
	Present map[string]bool `json:"present"` // by tool: goimports, dart, npx, pg_format
	Failing map[string]bool `json:"failing"`
	Reqs    []string        `json:"reqs"` // format constant names
}

type result struct {
	Log     []string `json:"log"`     // argv lines written by the stand-in tools
	Errs    []bool   `json:"errs"`    // per request: non-nil error
	Touched []bool   `json:"touched"` // per request: file content changed
	Panic   string   `json:"panic,omitempty"`
}

var formats = map[string]generator.Format{
	"NoFormat": generator.NoFormat, "Go": generator.Go, "Dart": generator.Dart,
	"TypeScript": generator.TypeScript, "Psql": generator.Psql,
}

const stub = `#!/bin/sh
# recording stand-in for %[1]s
echo "%[1]s $*" >> "%[2]s/log"
if [ "%[1]s" = "which" ]; then
  [ -e "%[2]s/present_$1" ]
  exit $?
fi
# a run has the file as last argument
for last; do :; done
case "$last" in
  %[3]s/*)
    if [ -e "$last" ]; then echo "// formatted by %[1]s" >> "$last"; fi
    if [ -e "%[2]s/failing_%[1]s" ]; then exit 3; fi
    exit 0;;
esac
# anything else is a probe: it succeeds iff the tool counts as installed
[ -e "%[2]s/present_%[1]s" ]
exit $?
`

func main() {
	root := os.Args[1]
	var cfgs []config
	if err := json.NewDecoder(bufio.NewReader(os.Stdin)).Decode(&cfgs); err != nil {
		fmt.Fprintln(os.Stderr, err)
		os.Exit(2)
	}
	var out []result
	for ci, cfg := range cfgs {
		dir := filepath.Join(root, fmt.Sprintf("cfg%d", ci))
		bin := filepath.Join(dir, "bin")
		work := filepath.Join(dir, "work")
		os.MkdirAll(bin, 0o755)
		os.MkdirAll(work, 0o755)
		write := func(name string) {
			os.WriteFile(filepath.Join(bin, name), []byte(fmt.Sprintf(stub, name, dir, work)), 0o755)
		}
		write("which")
		for _, tool := range []string{"goimports", "dart", "npx", "pg_format"} {
			// a missing tool is simulated by a stand-in whose probe fails (so that the probe is still recorded);
			// a formatter run of a "missing" tool would be recorded too, and is a violation
			write(tool)
			if cfg.Present[tool] {
				os.WriteFile(filepath.Join(dir, "present_"+tool), nil, 0o644)
			}
			if cfg.Failing[tool] {
				os.WriteFile(filepath.Join(dir, "failing_"+tool), nil, 0o644)
			}
		}
		os.Setenv("PATH", bin)
		res := result{Errs: make([]bool, len(cfg.Reqs)), Touched: make([]bool, len(cfg.Reqs))}
		files := make([]string, len(cfg.Reqs))
		for i := range cfg.Reqs {
			files[i] = filepath.Join(work, fmt.Sprintf("f%d.txt", i))
			os.WriteFile(files[i], []byte("original\n"), 0o644)
		}
		var fmts generator.Formatters // one shared cache, as cmd/gomacro's package variable
		var wg sync.WaitGroup
		start := make(chan struct{})
		var mu sync.Mutex
		for i, r := range cfg.Reqs {
			wg.Add(1)
			go func(i int, f generator.Format) {
				defer wg.Done()
				defer func() {
					if p := recover(); p != nil {
						mu.Lock()
						res.Panic = fmt.Sprint(p)
						mu.Unlock()
					}
				}()
				<-start
				err := fmts.FormatFile(f, files[i])
				res.Errs[i] = err != nil
			}(i, formats[r])
		}
		close(start)
		wg.Wait()
		for i, f := range files {
			b, _ := os.ReadFile(f)
			res.Touched[i] = string(b) != "original\n"
		}
		if b, err := os.ReadFile(filepath.Join(dir, "log")); err == nil {
			for _, l := range strings.Split(strings.TrimSpace(string(b)), "\n") {
				if l != "" {
					res.Log = append(res.Log, strings.ReplaceAll(l, work+"/", "$WORK/"))
				}
			}
		}
		out = append(out, res)
	}
	json.NewEncoder(os.Stdout).Encode(out)
}
