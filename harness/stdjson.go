package main

// The real encoding/json as oracle for field selection and keys: the struct type is rebuilt with
// reflect.StructOf from the go/types description (every leaf field typed int and set to 1, embedded
// structs rebuilt recursively and embedded), marshalled, and the keys are read back in order.

import (
	"bytes"
	"encoding/json"
	"go/types"
	"reflect"
)

func buildStdType(st *types.Struct, dropIgnored bool, depth int) (t reflect.Type, ok bool) {
	defer func() {
		if recover() != nil {
			ok = false
		}
	}()
	if depth > 6 {
		return nil, false
	}
	var fields []reflect.StructField
	for i := 0; i < st.NumFields(); i++ {
		f := st.Field(i)
		tag := reflect.StructTag(st.Tag(i))
		if dropIgnored && tag.Get("gomacro") == "ignore" {
			continue
		}
		if !f.Exported() && !f.Embedded() {
			continue // never serialised, and reflect.StructOf refuses unexported fields
		}
		ft := reflect.TypeOf(int(0))
		if f.Embedded() {
			if inner, isStruct := types.Unalias(f.Type()).Underlying().(*types.Struct); isStruct && types.Unalias(f.Type()).Underlying().String() != timeStructString {
				if !f.Exported() {
					return nil, false // cannot be rebuilt by reflection
				}
				it, iok := buildStdType(inner, dropIgnored, depth+1)
				if !iok {
					return nil, false
				}
				fields = append(fields, reflect.StructField{Name: f.Name(), Type: it, Tag: tag, Anonymous: true})
				continue
			}
			if !f.Exported() {
				continue
			}
		}
		fields = append(fields, reflect.StructField{Name: f.Name(), Type: ft, Tag: tag})
	}
	return reflect.StructOf(fields), true
}

func setOnes(v reflect.Value) {
	for i := 0; i < v.NumField(); i++ {
		f := v.Field(i)
		switch f.Kind() {
		case reflect.Int:
			f.SetInt(1)
		case reflect.Struct:
			setOnes(f)
		}
	}
}

func stdJSONKeys(named *types.Named, dropIgnored bool) (keys []string, ok bool) {
	defer func() {
		if recover() != nil {
			keys, ok = nil, false
		}
	}()
	st, isStruct := named.Underlying().(*types.Struct)
	if !isStruct {
		return nil, false
	}
	t, ok := buildStdType(st, dropIgnored, 0)
	if !ok {
		return nil, false
	}
	v := reflect.New(t).Elem()
	setOnes(v)
	b, err := json.Marshal(v.Interface())
	if err != nil {
		return nil, false
	}
	dec := json.NewDecoder(bytes.NewReader(b))
	if tok, err := dec.Token(); err != nil || tok != json.Delim('{') {
		return nil, false
	}
	keys = []string{}
	for dec.More() {
		tok, err := dec.Token()
		if err != nil {
			return nil, false
		}
		k, isStr := tok.(string)
		if !isStr {
			return nil, false
		}
		keys = append(keys, k)
		var skip json.RawMessage
		if err := dec.Decode(&skip); err != nil {
			return nil, false
		}
	}
	return keys, true
}
