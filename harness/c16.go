package main

import (
	"fmt"
	"regexp"
	"strings"
)

func init() { commands["C16"] = runC16 }

var reCustomQueryFunc = regexp.MustCompile(`(?s)func (\w+) \(db DB, (.*?)\) error \{\s*_, err := db\.Exec\("(.*?)", (.*?)\)\s*return err`)

// the lines of the "-- constraints" declaration of the SQL script
func constraintLines(text string) []string {
	i := strings.Index(text, "-- constraints\n")
	if i < 0 {
		return nil
	}
	rest := text[i+len("-- constraints\n"):]
	out := []string{}
	for _, l := range strings.Split(rest, "\n") {
		if strings.TrimSpace(l) == "" || strings.Contains(l, "_gomacro CHECK (") || strings.Contains(l, "CREATE OR REPLACE FUNCTION") {
			break
		}
		out = append(out, strings.TrimSpace(reSpaces.ReplaceAllString(l, " ")))
	}
	return out
}

type crudQuery struct {
	Name  string
	Vars  []string
	Types []string
	Query string
}

func customQueryFuncs(text string) []crudQuery {
	var out []crudQuery
	for _, m := range reCustomQueryFunc.FindAllStringSubmatch(text, -1) {
		q := crudQuery{Name: m[1], Query: strings.TrimSpace(reSpaces.ReplaceAllString(m[3], " "))}
		for _, p := range strings.Split(m[2], ",") {
			p = strings.TrimSpace(p)
			if p == "" {
				continue
			}
			f := strings.SplitN(p, " ", 2)
			q.Vars = append(q.Vars, f[0])
			if len(f) > 1 {
				q.Types = append(q.Types, f[1])
			}
		}
		out = append(out, q)
	}
	return out
}

func runC16(e *env) {
	e.m.Rule = "corpus + seeded synthesised model files carrying comment directives: SQL constraints with ADD and free-standing statements, UNIQUE / PRIMARY KEY / _SELECT KEY with 1..n columns, REFERENCES, enum placeholders of int / string / uint8 enums, " +
		"QUERY directives with repeated / distinct / never-compared placeholders, names containing table names as substrings, single and grouped type declarations, comments on neighbouring structs, guard values; " +
		"one evaluation = one module: the constraint section of the SQL script and the custom query functions of the CRUD file against the model; non-trivial = module with at least 2 directives"
	e.m.Extra = map[string]interface{}{"mismatch_means": "model"}
	specs := append(corpusComments(), repoFixtures("repo-sql-models")...)
	n := 14
	if e.thorough() {
		n = 250
	}
	for i := 0; i < n; i++ {
		m, _ := synthSQL(e.r, i, true)
		specs = append(specs, m)
	}
	obs := observeAll(specs, "sql,sqlcrud", 14)
	var cases []string
	var inputs []interface{}
	for i, o := range obs {
		spec := specs[i]
		if o.LoadErr != "" {
			e.m.count("rejected_by_type_checker")
			e.m.Extra["last_rejected"] = spec.Name + ": " + o.LoadErr
			continue
		}
		e.m.count("analysis_" + o.Outcome)
		if o.Outcome != "ok" {
			continue
		}
		e.m.Evaluations++
		nDir := strings.Count(spec.Files[0].Src, "// gomacro:")
		if nDir >= 2 {
			e.m.Nontrivial++
		}
		e.m.Distribution["directives"] += nDir
		// ownership oracle: every struct keeps exactly the directives written on its own declaration
		for _, st := range o.Structs {
			e.m.OracleRuns++
			if strings.Join(st.ObsComments, "\n") != strings.Join(st.ExpComments, "\n") {
				e.m.fail(oracleFailure{What: "struct " + st.ID + " does not carry the directives written on its declaration", Input: spec,
					Expect: strings.Join(st.ExpComments, "\n"), Got: strings.Join(st.ObsComments, "\n")})
			}
		}
		gs, gc := o.Gen["sql"], o.Gen["sqlcrud"]
		e.m.count("sql_" + gs.Outcome)
		e.m.count("sqlcrud_" + gc.Outcome)
		cons, qs := "None", "None"
		var lines []string
		var queries []crudQuery
		if gs.Outcome == "ok" {
			lines = constraintLines(gs.Text)
			cons = "(Some " + coqStrList(lines) + ")"
		}
		if gc.Outcome == "ok" {
			queries = customQueryFuncs(gc.Text)
			var items []string
			for _, q := range queries {
				items = append(items, fmt.Sprintf("(%s, %s, %s)", coqStr(q.Name), coqStrList(q.Vars), coqStr(q.Query)))
			}
			qs = "(Some " + coqList(items) + ")"
			// oracle: each argument is typed like the struct field it is compared with
			e.m.OracleRuns++
			for _, f := range argTypeOracle(spec, o, queries) {
				e.m.fail(f)
			}
		}
		if nDir >= 2 {
			e.m.sample(map[string]interface{}{"module": spec.Name, "constraints": lines, "queries": queries})
		}
		elsewhere := gc.Outcome != "ok" && !strings.HasPrefix(gc.Msg, "unknown field")
		cases = append(cases, fmt.Sprintf("{| c16_prog := %s;\n c16_enums := %s;\n c16_ana := %s;\n c16_constraints := %s;\n c16_queries := %s;\n c16_crud_refused_elsewhere := %s |}", o.Facts, o.Enums, o.Ana, cons, qs, coqBool(elsewhere)))
		inputs = append(inputs, map[string]interface{}{"module": spec, "sql": gs.Outcome + " " + gs.Msg, "sqlcrud": gc.Outcome + " " + gc.Msg, "constraints": lines, "queries": queries, "class": classifyC16(spec)})
		if len(cases) == 5 {
			e.writeCases2(fmt.Sprintf("cases_C16_%d", len(e.m.CaseFiles)), anaHeader+"From GM Require Import Model.SqlTypes Model.Comments Corr.Check_C16.\n", "mismatches", "prop_failures", cases, inputs)
			cases, inputs = nil, nil
		}
	}
	if len(cases) > 0 {
		e.writeCases2(fmt.Sprintf("cases_C16_%d", len(e.m.CaseFiles)), anaHeader+"From GM Require Import Model.SqlTypes Model.Comments Corr.Check_C16.\n", "mismatches", "prop_failures", cases, inputs)
	}
}

// argument k of a custom query is typed like the field compared with placeholder k
func argTypeOracle(spec *modSpec, o *obsResult, queries []crudQuery) []oracleFailure {
	var out []oracleFailure
	src := spec.Files[0].Src
	for _, q := range queries {
		// find the directive and its struct
		i := strings.Index(src, "// gomacro:QUERY "+q.Name+" ")
		if i < 0 {
			continue
		}
		line := src[i:]
		if j := strings.Index(line, "\n"); j >= 0 {
			line = line[:j]
		}
		for k, v := range q.Vars {
			m := regexp.MustCompile(`(\w+)\s*=\s*\$` + regexp.QuoteMeta(v) + `\$`).FindStringSubmatch(line)
			if m == nil || k >= len(q.Types) {
				continue
			}
			// the field type as declared in the source: "\t<field> <type>"
			fm := regexp.MustCompile(`(?m)^\t` + m[1] + ` ([^\s` + "`" + `]+)`).FindStringSubmatch(src[i:])
			if fm != nil && fm[1] != q.Types[k] && "models."+fm[1] != q.Types[k] {
				out = append(out, oracleFailure{What: fmt.Sprintf("custom query %s: argument %s has type %s, the field %s it is compared with has type %s", q.Name, v, q.Types[k], m[1], fm[1]), Input: spec})
			}
		}
	}
	return out
}

func classifyC16(m *modSpec) string { return m.Class }

// mkWith: like mk of corpusComments, with database/sql imported and a local nullable wrapper declared in a sibling file
func mkWith(name, src string) *modSpec {
	return &modSpec{Name: name, ModPath: "example.com/org/models", Target: "models.go",
		Files: []modFile{{"models.go", "package models\n\nimport \"database/sql\"\n\nvar _ sql.NullInt64\n\ntype Kind string\n\nconst (\n\tKA Kind = \"ka\"\n)\n\n" + src},
			{"opt.go", "package models\n\ntype OptDay struct {\n\tDay int32\n\tValid bool\n}\n"}}}
}

func corpusComments() []*modSpec {
	mk := func(name, class, src string) *modSpec {
		return &modSpec{Name: name, Class: class, ModPath: "example.com/org/models", Target: "models.go",
			Files: []modFile{{"models.go", "package models\n\ntype Kind string\nconst (\n\tKA Kind = \"ka\"\n\tKQ Kind = \"it's\"\n)\ntype Num int\nconst (\n\tN0 Num = iota\n\tN7 Num = 7\n)\n\n" + src}}}
	}
	return []*modSpec{
		mk("cmt-basic", "", "// a regular comment\n// gomacro:SQL ADD UNIQUE(A)\n// gomacro:SQL ADD CHECK(K = #[Kind.KA] OR N > #[Num.N7])\ntype Item struct {\n\tId int64\n\tA string\n\tK Kind\n\tN Num\n}\n"),
		mk("cmt-quote-in-enum", "", "// gomacro:SQL ADD CHECK(K <> #[Kind.KQ])\ntype Item struct {\n\tId int64\n\tK Kind\n}\n"),
		mk("cmt-references-and-words", "", "type Owner struct{ Id int64 }\n\n// gomacro:SQL ADD FOREIGN KEY (O) REFERENCES Owner ON DELETE CASCADE\n// gomacro:SQL CREATE UNIQUE INDEX Item_idx ON Item (O) WHERE ItemX IS NULL AND xItem = 1 AND Item.O > 0\n// gomacro:SQL ADD CHECK(Owner_id = 1 OR OwnerItem = 2)\ntype Item struct {\n\tId int64\n\tO int64\n}\n"),
		mk("cmt-references-struct-plural", "", "type A struct{ Id int64 }\ntype As struct{ Id int64 }\n\n// gomacro:SQL ADD FOREIGN KEY (O) REFERENCES A\ntype Item struct {\n\tId int64\n\tO int64\n}\n"),
		mk("cmt-select-key", "", "// gomacro:SQL _SELECT KEY(A)\n// gomacro:SQL _select key (A, B)\n// gomacro:SQL ADD UNIQUE(A, B)\n// gomacro:SQL ADD PRIMARY KEY (B)\ntype Link struct {\n\tA int64\n\tB int64\n}\n"),
		mk("cmt-free-standing", "", "// gomacro:SQL CREATE INDEX idx_a ON Item (A)\n// gomacro:SQL ADDITIONAL thing\ntype Item struct {\n\tId int64\n\tA int\n}\n"),
		mk("cmt-query-numbering", "", "// gomacro:QUERY Move UPDATE Item SET B = $x$ WHERE C = $y$ AND B <> $x$ ;\n// gomacro:QUERY Purge DELETE FROM Item WHERE A = $a$ AND A=$a$ OR C =  $c$ ;\ntype Item struct {\n\tId int64\n\tA int\n\tB string\n\tC Num\n}\n"),
		mk("cmt-query-first-use-not-comparison", "query-first-use-not-comparison", "// gomacro:QUERY Q UPDATE Item SET A = A + 1 WHERE B <> $x$ AND C = $y$ AND B = $x$ ;\ntype Item struct {\n\tId int64\n\tA int\n\tB string\n\tC Num\n}\n"),
		mk("cmt-query-never-compared", "query-placeholder-never-compared", "// gomacro:QUERY Q UPDATE Item SET A = 1 WHERE B > $x$ ;\ntype Item struct {\n\tId int64\n\tA int\n\tB int\n}\n"),
		mk("cmt-query-enum-and-table", "", "// gomacro:QUERY SetKind UPDATE Item SET K = #[Kind.KA] WHERE Id = $id$ ;\ntype Item struct {\n\tId int64\n\tK Kind\n}\n"),
		mk("cmt-grouped-decl", "grouped-type-declaration-comments", "type (\n\t// gomacro:SQL ADD UNIQUE(A)\n\tG1 struct {\n\t\tId int64\n\t\tA int\n\t}\n\t// gomacro:SQL ADD UNIQUE(B)\n\tG2 struct {\n\t\tId int64\n\t\tB int\n\t}\n)\n"),
		mk("cmt-group-of-one", "", "type (\n\t// gomacro:SQL ADD UNIQUE(Name)\n\t// gomacro:SQL ADD CHECK (K = #[Kind.KA])\n\t// gomacro:SQL CREATE INDEX solo_name ON Solo (Name)\n\t// gomacro:SQL _SELECT KEY(Name, K)\n\t// gomacro:QUERY RenameSolo UPDATE Solo SET Name = $newName$ WHERE Id = $id$ OR K = $k$ ;\n\tSolo struct {\n\t\tId int64\n\t\tName string\n\t\tK Kind\n\t}\n)\n\n// not a directive of Other2\ntype (\n\tOther2 struct {\n\t\tId int64\n\t\tV int\n\t}\n)\n"),
		mkWith("cmt-query-nullable-fields", "// gomacro:QUERY MoveLessons UPDATE Lesson SET Room = $room$ WHERE Teacher = $teacher$ AND Substitute = $sub$ AND Day = $day$ ;\ntype Lesson struct {\n\tId int64\n\tRoom string\n\tTeacher IdTeacher\n\tSubstitute sql.NullInt64\n\tDay OptDay\n}\n\ntype IdTeacher int64\n"),
		mk("cmt-select-key-three-columns", "", "// gomacro:SQL _SELECT KEY(A, B, C)\n// gomacro:SQL _SELECT KEY ( A , B , C , D )\n// gomacro:SQL ADD UNIQUE(A, B, C)\ntype Item struct {\n\tId int64\n\tA int\n\tB string\n\tC int\n\tD bool\n}\n"),
		mk("cmt-forward-table-reference", "", "// gomacro:SQL CREATE INDEX author_books ON Book (IdAuthor)\n// gomacro:SQL ADD CHECK(Name <> 'Book')\n// gomacro:QUERY TouchBooks UPDATE Book SET Title = 'Book of an Author' WHERE Id = $id$ ;\ntype Author struct {\n\tId int64\n\tName string\n}\n\n// gomacro:SQL ADD FOREIGN KEY (IdAuthor) REFERENCES Author ON DELETE CASCADE\n// gomacro:SQL CREATE INDEX book_shelf ON Shelf (Id)\ntype Book struct {\n\tId int64\n\tIdAuthor int64\n\tTitle string\n}\n\ntype Shelf struct {\n\tId int64\n\tLabel string\n}\n"),
		mk("cmt-group-doc", "grouped-type-declaration-comments", "// gomacro:SQL ADD UNIQUE(Id)\ntype (\n\tH1 struct{ Id int64 }\n\tH2 struct{ Id int64 }\n)\n"),
		mk("cmt-neighbour", "", "// gomacro:SQL ADD UNIQUE(A)\ntype First struct {\n\tId int64\n\tA int\n}\n\ntype Second struct {\n\tId int64\n\tA int\n}\n\n// gomacro:SQL ADD UNIQUE(Id, A)\n\ntype Third struct {\n\tId int64\n\tA int\n}\n"),
		mk("cmt-enum-value-is-a-table-name", "", "type Role string\n\nconst (\n\tRoleAdmin Role = \"Admin\"\n\tRoleItem Role = \"Item of Admin\"\n)\n\ntype Admin struct{ Id int64 }\n\n// gomacro:SQL ADD CHECK(R = #[Role.RoleAdmin] OR R = #[Role.RoleItem])\n// gomacro:SQL ADD FOREIGN KEY (A) REFERENCES Admin\n// gomacro:QUERY Promote UPDATE Item SET R = #[Role.RoleAdmin] WHERE Id = $id$ ;\ntype Item struct {\n\tId int64\n\tR Role\n\tA int64\n}\n"),
		mk("cmt-guard-enum", "", "type T struct {\n\tId int64\n\tkind Kind `gomacro-sql-guard:\"#[Kind.KA]\"`\n\tVersion Num `gomacro-sql-guard:\"#[Num.N7]\"`\n}\n"),
	}
}
