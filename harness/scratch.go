package main

import (
	"fmt"
	"os"
	"path/filepath"
	"runtime"
)

// scratch directories live under $TMPDIR/gmverif.<pid>/ (never /repo or /verif) and are removed at exit.
var scratchRoot string

func scratchDir(name string) string {
	if scratchRoot == "" {
		scratchRoot = filepath.Join(os.TempDir(), fmt.Sprintf("gmverif.%d", os.Getpid()))
		check(os.MkdirAll(scratchRoot, 0o755))
	}
	d := filepath.Join(scratchRoot, name)
	check(os.MkdirAll(d, 0o755))
	return d
}

func cleanupScratch() {
	if scratchRoot != "" {
		os.RemoveAll(scratchRoot)
	}
}

func writeFile(path, content string) {
	check(os.MkdirAll(filepath.Dir(path), 0o755))
	check(os.WriteFile(path, []byte(content), 0o644))
}

// classify a recovered panic value: runtime errors are crashes, anything else is a diagnostic
func panicClass(v interface{}) (class string, msg string) {
	if v == nil {
		return "ok", ""
	}
	if re, ok := v.(runtime.Error); ok {
		return "crash", re.Error()
	}
	return "diag", fmt.Sprint(v)
}
