package main

import (
	"bytes"
	"encoding/json"
	"fmt"
	"strings"
)

// coqJSON converts a JSON text into a Coq term of type Sem.GoJson.json (object keys in document order).
func coqJSON(data []byte) (string, error) {
	dec := json.NewDecoder(bytes.NewReader(data))
	dec.UseNumber()
	return coqJSONValue(dec)
}

func coqJSONValue(dec *json.Decoder) (string, error) {
	tok, err := dec.Token()
	if err != nil {
		return "", err
	}
	switch t := tok.(type) {
	case nil:
		return "JNull", nil
	case bool:
		return "(JBool " + coqBool(t) + ")", nil
	case json.Number:
		return "(JNum " + coqStr(t.String()) + ")", nil
	case string:
		return "(JStr " + coqStr(t) + ")", nil
	case json.Delim:
		switch t {
		case '[':
			var items []string
			for dec.More() {
				v, err := coqJSONValue(dec)
				if err != nil {
					return "", err
				}
				items = append(items, v)
			}
			dec.Token()
			return "(JArr " + coqList(items) + ")", nil
		case '{':
			var items []string
			for dec.More() {
				k, err := dec.Token()
				if err != nil {
					return "", err
				}
				v, err := coqJSONValue(dec)
				if err != nil {
					return "", err
				}
				items = append(items, fmt.Sprintf("(%s, %s)", coqStr(k.(string)), v))
			}
			dec.Token()
			return "(JObj " + coqList(items) + ")", nil
		}
	}
	return "", fmt.Errorf("unexpected token %v", tok)
}

// the Coq position (gty) of a local named type
func coqNamedRef(rootPkg, local string) string {
	return "(GNamed " + coqStr(rootPkg+"."+local) + ")"
}

var _ = strings.TrimSpace

// coqValue renders a value tree dumped by the test binary (driver.go.txt:dumpValue) as a term of Sem/GoVal.v.
func coqValue(raw json.RawMessage) (string, error) {
	var n struct {
		T  string               `json:"t"`
		B  bool                 `json:"b"`
		S  string               `json:"s"`
		K  string               `json:"k"`
		V  json.RawMessage      `json:"v"`
		J  json.RawMessage      `json:"j"`
		L  []json.RawMessage    `json:"l"`
		KV [][2]json.RawMessage `json:"kv"`
	}
	if err := json.Unmarshal(raw, &n); err != nil {
		return "", err
	}
	kvs := func() (string, error) {
		var items []string
		for _, p := range n.KV {
			var k string
			if err := json.Unmarshal(p[0], &k); err != nil {
				return "", err
			}
			v, err := coqValue(p[1])
			if err != nil {
				return "", err
			}
			items = append(items, fmt.Sprintf("(%s, %s)", coqStr(k), v))
		}
		return coqList(items), nil
	}
	switch n.T {
	case "bool":
		return "(VBool " + coqBool(n.B) + ")", nil
	case "num":
		return "(VNum " + coqStr(n.S) + ")", nil
	case "str":
		return "(VStr " + coqStr(n.S) + ")", nil
	case "nil":
		return "VNil", nil
	case "list":
		var items []string
		for _, x := range n.L {
			v, err := coqValue(x)
			if err != nil {
				return "", err
			}
			items = append(items, v)
		}
		return "(VList " + coqList(items) + ")", nil
	case "map":
		s, err := kvs()
		return "(VMap " + s + ")", err
	case "obj":
		s, err := kvs()
		return "(VObj " + s + ")", err
	case "union":
		v, err := coqValue(n.V)
		return fmt.Sprintf("(VUnion %s %s)", coqStr(n.K), v), err
	case "any":
		j, err := coqJSON(n.J)
		return "(VAny " + j + ")", err
	}
	return "", fmt.Errorf("unknown value node %q", n.T)
}
