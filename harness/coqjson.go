package main

import (
	"bytes"
	"encoding/json"
	"fmt"
	"strings"
)

// coqJSON converts a JSON text into a Coq term of type Sem.GoJson.json (object keys in document order).
func coqJSON(data []byte) (string, error) {
	dec := json.NewDecoder(bytes.NewReader(data))
	dec.UseNumber()
	return coqJSONValue(dec)
}

func coqJSONValue(dec *json.Decoder) (string, error) {
	tok, err := dec.Token()
	if err != nil {
		return "", err
	}
	switch t := tok.(type) {
	case nil:
		return "JNull", nil
	case bool:
		return "(JBool " + coqBool(t) + ")", nil
	case json.Number:
		return "(JNum " + coqStr(t.String()) + ")", nil
	case string:
		return "(JStr " + coqStr(t) + ")", nil
	case json.Delim:
		switch t {
		case '[':
			var items []string
			for dec.More() {
				v, err := coqJSONValue(dec)
				if err != nil {
					return "", err
				}
				items = append(items, v)
			}
			dec.Token()
			return "(JArr " + coqList(items) + ")", nil
		case '{':
			var items []string
			for dec.More() {
				k, err := dec.Token()
				if err != nil {
					return "", err
				}
				v, err := coqJSONValue(dec)
				if err != nil {
					return "", err
				}
				items = append(items, fmt.Sprintf("(%s, %s)", coqStr(k.(string)), v))
			}
			dec.Token()
			return "(JObj " + coqList(items) + ")", nil
		}
	}
	return "", fmt.Errorf("unexpected token %v", tok)
}

// the Coq position (gty) of a local named type
func coqNamedRef(rootPkg, local string) string {
	return "(GNamed " + coqStr(rootPkg+"."+local) + ")"
}

var _ = strings.TrimSpace
