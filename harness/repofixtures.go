package main

// The repository's own test inputs (testutils/testsource, analysis/sql/test, analysis/httpapi/test), read from
// /repo's working tree on every run and laid out as one module with gomacro's module path, so that their imports
// resolve. They are the maintainers' realistic examples: every check that can take an arbitrary file runs on them.

import (
	"os"
	"path/filepath"
	"strings"
)

var repoFixtureDirs = []string{"testutils/testsource", "analysis/sql/test", "analysis/httpapi/test"}

// repoFixture returns the module with [target] (path relative to /repo) as analysed file, or nil when unreadable.
func repoFixture(name, target string) *modSpec {
	m := &modSpec{Name: name, ModPath: "github.com/benoitkugler/gomacro", Target: target}
	for _, dir := range repoFixtureDirs {
		root := filepath.Join(repoDir, dir)
		filepath.Walk(root, func(path string, info os.FileInfo, err error) error {
			if err != nil || info.IsDir() || !strings.HasSuffix(path, ".go") || strings.HasSuffix(path, "_test.go") {
				return nil
			}
			// generated outputs of the suite are not inputs (crud_gen.go of HEAD does not even compile)
			if strings.HasSuffix(path, "_gen.go") || strings.HasSuffix(path, "gen.go") && filepath.Base(path) != "gen.go" {
				return nil
			}
			src, rerr := os.ReadFile(path)
			if rerr != nil {
				return nil
			}
			rel, _ := filepath.Rel(repoDir, path)
			m.Files = append(m.Files, modFile{Rel: filepath.ToSlash(rel), Src: string(src)})
			return nil
		})
	}
	// the analysed file first (several readers look at Files[0])
	for i, f := range m.Files {
		if f.Rel == target {
			m.Files[0], m.Files[i] = m.Files[i], m.Files[0]
			return m
		}
	}
	return nil
}

// repoFixtures: the fixture files usable as plain type declarations files
func repoFixtures(which ...string) []*modSpec {
	all := map[string]string{
		"repo-testsource-defs":  "testutils/testsource/defs.go",
		"repo-testsource-other": "testutils/testsource/other_file.go",
		"repo-sql-models":       "analysis/sql/test/models.go",
		"repo-subpackage-enums": "testutils/testsource/subpackage/enums.go",
	}
	var out []*modSpec
	for _, w := range which {
		if m := repoFixture(w, all[w]); m != nil {
			out = append(out, m)
		}
	}
	return out
}
