package main

import (
	"crypto/sha256"
	"encoding/json"
	"fmt"
	"go/ast"
	"go/token"
	"go/types"
	"os"
	"os/exec"
	"path/filepath"
	"sort"
	"strings"

	"github.com/benoitkugler/gomacro/analysis"
	"github.com/benoitkugler/gomacro/generator"
	"github.com/benoitkugler/gomacro/generator/go/gounions"
	"github.com/benoitkugler/gomacro/generator/go/randdata"
	"github.com/benoitkugler/gomacro/generator/go/sqlcrud"
	gsql "github.com/benoitkugler/gomacro/generator/sql"
	"github.com/benoitkugler/gomacro/generator/typescript"
	"golang.org/x/tools/go/packages"
)

func init() { commands["C07"] = runC07 }

// ---- static inventory: every `range` over a map in the non-test code of /repo ----

type mapSite struct {
	Pkg, Func, MapType string
}

func inventoryMapRanges() (sites []mapSite, other []string, err error) {
	cfg := &packages.Config{Dir: repoDir, Mode: packages.NeedName | packages.NeedFiles | packages.NeedSyntax | packages.NeedTypes | packages.NeedTypesInfo | packages.NeedImports | packages.NeedDeps,
		Env: append(os.Environ(), "GOFLAGS=-mod=mod")}
	pkgs, err := packages.Load(cfg, "./analysis/...", "./generator/...", "./cmd/...")
	if err != nil {
		return nil, nil, err
	}
	for _, p := range pkgs {
		if strings.Contains(p.PkgPath, "/test") || strings.HasSuffix(p.PkgPath, "testutils") || p.TypesInfo == nil {
			continue
		}
		short := strings.TrimPrefix(p.PkgPath, "github.com/benoitkugler/gomacro/")
		for _, f := range p.Syntax {
			fname := p.Fset.File(f.Pos()).Name()
			if strings.HasSuffix(fname, "_test.go") || strings.HasSuffix(fname, "verif_hooks.go") {
				continue
			}
			for _, d := range f.Decls {
				fd, ok := d.(*ast.FuncDecl)
				if !ok || fd.Body == nil {
					continue
				}
				name := fd.Name.Name
				if fd.Recv != nil && len(fd.Recv.List) == 1 {
					name = strings.TrimPrefix(types.ExprString(fd.Recv.List[0].Type), "*") + "." + name
				}
				ast.Inspect(fd.Body, func(n ast.Node) bool {
					switch n := n.(type) {
					case *ast.RangeStmt:
						if tv, ok := p.TypesInfo.Types[n.X]; ok {
							if _, isMap := tv.Type.Underlying().(*types.Map); isMap {
								sites = append(sites, mapSite{short, name, types.TypeString(tv.Type, func(q *types.Package) string { return q.Name() })})
							}
						}
					case *ast.CallExpr:
						if sel, ok := n.Fun.(*ast.SelectorExpr); ok {
							if id, ok := sel.X.(*ast.Ident); ok {
								if obj, ok := p.TypesInfo.Uses[id].(*types.PkgName); ok {
									path := obj.Imported().Path()
									if path == "math/rand" || (path == "time" && sel.Sel.Name == "Now") || path == "math/rand/v2" {
										other = append(other, short+"."+name+": "+path+"."+sel.Sel.Name)
									}
								}
							}
						}
					case *ast.BasicLit:
						if n.Kind == token.STRING && strings.Contains(n.Value, "%p") {
							other = append(other, short+"."+name+": %p verb")
						}
					}
					return true
				})
			}
		}
	}
	sort.Slice(sites, func(i, j int) bool {
		a, b := sites[i], sites[j]
		return a.Pkg+"|"+a.Func+"|"+a.MapType < b.Pkg+"|"+b.Func+"|"+b.MapType
	})
	sort.Strings(other)
	return sites, other, nil
}

// ---- dynamic: repeated generation ----

func hashOf(s string) string { return fmt.Sprintf("%x", sha256.Sum256([]byte(s)))[:16] }

func runC07(e *env) {
	e.m.Rule = "(a) static: every range over a map-typed operand, every math/rand / time.Now call and every %p verb in the non-test code of /repo, inventoried with go/types and compared in Coq with the model's table of order-independent sites; " +
		"(b) dynamic: corpus + synthesised modules (>= 2 imported packages used by the Go targets, several unions per struct, several Dart files) x 7 targets: R in-process repetitions of analysis + generation (Go re-randomises every map range) and 3 fresh processes; " +
		"every output text and the set of Dart files must be single-valued; one evaluation = one (module, target) pair; non-trivial = modules exercising at least 2 bindings at some map site (imports, unions, packages)"
	e.m.Extra = map[string]interface{}{"mismatch_means": "property",
		"assumptions": []string{"go/packages returns the same packages for the same files in every process (observed, not proved)",
			"scheduling of the formatter goroutines is C20's concern"}}
	// static part
	sites, other, err := inventoryMapRanges()
	var siteStrs []string
	for _, s := range sites {
		siteStrs = append(siteStrs, fmt.Sprintf("(%s, %s, %s)", coqStr(s.Pkg), coqStr(s.Func), coqStr(s.MapType)))
	}
	e.m.Extra["map_range_sites"] = sites
	e.m.Extra["nondeterminism_sources"] = other
	if err != nil {
		e.m.fail(oracleFailure{What: "cannot load /repo for the static inventory: " + err.Error(), Input: "packages.Load(/repo)"})
	}
	body := fmt.Sprintf("From Coq Require Import NArith List String.\nFrom GM Require Import Model.MapOrder Corr.Check_C07.\nImport ListNotations.\nLocal Open Scope string_scope.\n\n"+
		"(* regenerated from /repo's working tree on this run *)\nDefinition sites : list (string * string * string) := %s.\nDefinition others : list string := %s.\n\n"+
		"Definition bad := Eval vm_compute in inventory_mismatches sites others.\nLocal Open Scope N_scope.\nPrint bad.\n", coqListNL(siteStrs), coqStrList(other))
	check(os.WriteFile(e.out+"/cases_C07_sites.v", []byte(body), 0o644))
	check(os.WriteFile(e.out+"/cases_C07_sites.json", []byte("[]"), 0o644))
	e.m.CaseFiles = append(e.m.CaseFiles, "cases_C07_sites")

	// dynamic part
	specs := append(corpusDeterminism(), repoFixtures("repo-testsource-defs", "repo-sql-models")...)
	n, reps := 8, 12
	if e.thorough() {
		n, reps = 120, 25
	}
	for i := 0; i < n; i++ {
		prof := fullProfile()
		prof.TagsAll = false
		prof.SQL = true
		m := synthModule(e.r, prof, i)
		specs = append(specs, m)
	}
	// cross-process: three fresh processes per module
	var procRuns [3][]*obsResult
	for k := 0; k < 3; k++ {
		procRuns[k] = observeAll(specs, "all", 14)
	}
	loads := loadAll(specs, 12)
	targets := []string{"ts", "sql", "gounions", "randdata", "sqlcrud", "sqlcrud_sets", "dart"}
	for i, l := range loads {
		spec := specs[i]
		if l.err != nil {
			e.m.count("rejected_by_type_checker")
			continue
		}
		e.m.Nontrivial++
		hashes := map[string]map[string]string{} // target -> hash -> sample text
		note := func(tgt string, g genOut) {
			if g.Outcome != "ok" {
				g.Text = "<" + g.Outcome + ">"
			}
			if hashes[tgt] == nil {
				hashes[tgt] = map[string]string{}
			}
			hashes[tgt][hashOf(g.Text)] = g.Text
		}
		for k := 0; k < 3; k++ {
			if o := procRuns[k][i]; o != nil && o.LoadErr == "" && o.Outcome == "ok" {
				for _, tgt := range targets {
					note(tgt, o.Gen[tgt])
				}
			}
		}
		for r := 0; r < reps; r++ {
			res := &obsResult{Gen: map[string]genOut{}}
			func() {
				defer func() { recover() }()
				an := analysis.NewAnalysisFromFile(l.pkg, l.target)
				observeGenerators(res, l.pkg, an, l.target, "all")
			}()
			for _, tgt := range targets {
				if g, ok := res.Gen[tgt]; ok {
					note(tgt, g)
				}
			}
		}
		for _, tgt := range targets {
			e.m.Evaluations++
			e.m.OracleRuns++
			e.m.count("target_" + tgt)
			if len(hashes[tgt]) > 1 {
				var texts []string
				for _, t := range hashes[tgt] {
					texts = append(texts, t)
				}
				sort.Strings(texts)
				e.m.fail(oracleFailure{What: fmt.Sprintf("target %s: %d different outputs for the same sources over %d in-process and 3 cross-process runs", tgt, len(hashes[tgt]), reps),
					Input: spec, Class: classifyNondeterminism(tgt, texts[0], texts[1]), Expect: firstDiff(texts[0], texts[1])})
			}
		}
		e.m.sample(map[string]interface{}{"module": spec.Name, "targets": targets, "repetitions": reps + 3})
	}
	c07CLI(e)
}

// c07CLI: the command in configuration mode (cmd/gomacro.go:Config.run ranges over the configuration map to list the
// files): several source files of different packages, each with its own outputs, generated in N fresh processes; every
// output file must have one content. The formatters are kept out of the way (stand-in tools that are absent).
func c07CLI(e *env) {
	dir := scratchDir("c07cli")
	bin := filepath.Join(dir, "gomacro")
	build := exec.Command("go", "build", "-o", bin, "./cmd")
	build.Dir = "/repo"
	build.Env = os.Environ()
	if outb, err := build.CombinedOutput(); err != nil {
		e.m.fail(oracleFailure{What: "the command does not build: " + string(outb), Input: "go build ./cmd", NoInput: true})
		return
	}
	mod := filepath.Join(dir, "mod")
	writeFile(filepath.Join(mod, "go.mod"), "module example.com/org/shop\n\ngo 1.21\n")
	pkgs := []string{"alpha", "beta", "gamma", "delta"}
	conf := map[string][]map[string]string{}
	var outputs []string
	type outSpec struct{ file, ext, mode string }
	var expected []outSpec
	for i, p := range pkgs {
		src := fmt.Sprintf("package %s\n\ntype Id%s int64\n\ntype Kind%d int\n\nconst (\n\tK%dA Kind%d = iota\n\tK%dB\n)\n\n// gomacro:SQL ADD UNIQUE(Name)\ntype %s struct {\n\tId Id%s\n\tName string\n\tKind Kind%d\n}\n",
			p, strings.Title(p), i, i, i, i, strings.Title(p), strings.Title(p), i)
		shapes := fmt.Sprintf("package %s\n\ntype Shape%d interface{ isShape%d() }\n\ntype Circle%d struct{ R int }\n\nfunc (Circle%d) isShape%d() {}\n\ntype Holder%d struct {\n\tS Shape%d\n\tN int\n}\n", p, i, i, i, i, i, i, i)
		tables := filepath.Join(mod, p, p+".go")
		unions := filepath.Join(mod, p, "shapes.go")
		writeFile(tables, src)
		writeFile(unions, shapes)
		add := func(file, mode, ext string) {
			out := filepath.Join(dir, "out", p+ext)
			conf[file] = append(conf[file], map[string]string{"Mode": mode, "Output": out})
			outputs = append(outputs, out)
			expected = append(expected, outSpec{file, ext, mode})
		}
		add(tables, "sql", ".sql")
		add(tables, "typescript/types", ".ts")
		add(tables, "go/randdata", "_rand.go")
		add(tables, "go/sqlcrud", "_crud.go")
		add(unions, "go/unions", "_unions.go")
		add(unions, "typescript/types", "_shapes.ts")
	}
	cb, _ := json.Marshal(conf)
	confFile := filepath.Join(dir, "conf.json")
	writeFile(confFile, string(cb))
	fake := filepath.Join(dir, "fakebin")
	os.MkdirAll(fake, 0o755)
	writeFile(filepath.Join(fake, "npx"), "#!/bin/sh\nexit 1\n")
	os.Chmod(filepath.Join(fake, "npx"), 0o755)
	goDir := ""
	if p, err := exec.LookPath("go"); err == nil {
		goDir = filepath.Dir(p)
	}
	runs := 8
	if e.thorough() {
		runs = 40
	}
	contents := map[string]map[string]bool{}
	for r := 0; r < runs; r++ {
		os.RemoveAll(filepath.Join(dir, "out"))
		os.MkdirAll(filepath.Join(dir, "out"), 0o755)
		cmd := exec.Command(bin, "-config", confFile)
		cmd.Dir = mod
		env := []string{"PATH=" + fake + ":" + goDir + ":/usr/bin:/bin", "HOME=" + os.Getenv("HOME")}
		for _, kv := range os.Environ() {
			if strings.HasPrefix(kv, "GO") {
				env = append(env, kv)
			}
		}
		cmd.Env = env
		outb, err := cmd.CombinedOutput()
		if err != nil {
			e.m.fail(oracleFailure{What: "the command failed in configuration mode: " + tail(string(outb), 800), Input: map[string]interface{}{"config": conf}})
			return
		}
		for _, o := range outputs {
			b, rerr := os.ReadFile(o)
			c := string(b)
			if rerr != nil {
				c = "<missing>"
			}
			if contents[o] == nil {
				contents[o] = map[string]bool{}
			}
			contents[o][c] = true
		}
	}
	// the command and the library entry points are two generations of the same targets from the same sources:
	// the files of the last run must be what the generators return in this process (the formatters are absent)
	for _, sp := range expected {
		sp := sp
		func() {
			defer func() {
				if r := recover(); r != nil {
					e.m.fail(oracleFailure{What: fmt.Sprintf("the library entry points die on %s: %v", sp.file, r), Input: sp.file, NoInput: true})
				}
			}()
			lp, _, err := analysis.LoadSources([]string{sp.file})
			if err != nil {
				e.m.fail(oracleFailure{What: "LoadSources: " + err.Error(), Input: sp.file, NoInput: true})
				return
			}
			an := analysis.NewAnalysisFromFile(lp[0], sp.file)
			var w string
			switch sp.mode {
			case "sql":
				w = generator.WriteDeclarations(gsql.Generate(an))
			case "typescript/types":
				w = generator.WriteDeclarations(typescript.Generate(an))
			case "go/randdata":
				w = generator.WriteDeclarations(randdata.Generate(an))
			case "go/sqlcrud":
				w = generator.WriteDeclarations(sqlcrud.Generate(an, false))
			case "go/unions":
				w = generator.WriteDeclarations(gounions.Generate(an))
			}
			out := filepath.Join(dir, "out", filepath.Base(filepath.Dir(sp.file))+sp.ext)
			b, _ := os.ReadFile(out)
			e.m.OracleRuns++
			e.m.count("cli_vs_library_output")
			if string(b) != w {
				e.m.fail(oracleFailure{What: "the file written by the command differs from what the generator returns for the same source: " + filepath.Base(out),
					Input: map[string]interface{}{"config": conf, "output": out}, Expect: firstDiff(w, string(b))})
			}
		}()
	}
	for _, o := range outputs {
		e.m.Evaluations++
		e.m.OracleRuns++
		e.m.Nontrivial++
		e.m.count("cli_config_output")
		if len(contents[o]) > 1 {
			var texts []string
			for t := range contents[o] {
				texts = append(texts, t)
			}
			sort.Strings(texts)
			e.m.fail(oracleFailure{What: fmt.Sprintf("configuration mode: %d different contents for %s over %d processes", len(texts), filepath.Base(o), runs),
				Input: map[string]interface{}{"config": conf, "output": o}, Expect: firstDiff(texts[0], texts[1])})
		}
	}
}

func classifyNondeterminism(tgt, a, b string) string {
	la, lb := strings.Split(a, "\n"), strings.Split(b, "\n")
	for i := 0; i < len(la) && i < len(lb); i++ {
		if la[i] != lb[i] {
			if strings.HasPrefix(strings.TrimSpace(la[i]), `"`) && strings.HasPrefix(strings.TrimSpace(lb[i]), `"`) {
				return tgt + ":import-list-order"
			}
			return tgt + ":other"
		}
	}
	return tgt + ":length"
}

func corpusDeterminism() []*modSpec {
	mk := func(name, src string, extra ...modFile) *modSpec {
		return &modSpec{Name: name, ModPath: "example.com/org/models", Target: "models.go", GoSrc: true,
			Files: append([]modFile{{"models.go", src}}, extra...)}
	}
	return []*modSpec{
		mk("det-many-imports", "package models\n\nimport (\n\t\"database/sql\"\n\t\"time\"\n\n\t\"example.com/org/models/suba\"\n\t\"example.com/org/models/subb\"\n)\n\ntype S struct {\n\tId int64\n\tA suba.T\n\tB subb.T\n\tN sql.NullInt64\n\tD time.Time\n\tW time.Weekday\n}\n",
			modFile{"suba/a.go", "package suba\n\ntype T struct{ X int }\n"}, modFile{"subb/b.go", "package subb\n\ntype T struct{ Y string }\n"}),
		mk("det-enum-constant-in-another-package", "package models\n\nimport (\n\t\"example.com/org/models/defaults\"\n\t\"example.com/org/models/kinds\"\n)\n\nvar _ = defaults.DefaultKind\n\ntype S struct {\n\tK kinds.Kind\n\tL []kinds.Kind\n}\n",
			modFile{"kinds/kinds.go", "package kinds\n\ntype Kind int\n\nconst (\n\tCircle Kind = iota\n\tSquare\n\tTriangle\n)\n"}, modFile{"defaults/defaults.go", "package defaults\n\nimport \"example.com/org/models/kinds\"\n\nconst DefaultKind = kinds.Square\n\nconst Other kinds.Kind = 7\n"}),
		mk("det-enum-constants-only-elsewhere", "package models\n\nimport (\n\t\"example.com/org/models/a\"\n\t\"example.com/org/models/b\"\n\t\"example.com/org/models/kinds\"\n)\n\nvar _ = a.A1\nvar _ = b.B1\n\ntype S struct{ K kinds.Kind }\n",
			modFile{"kinds/kinds.go", "package kinds\n\ntype Kind int\n"}, modFile{"a/a.go", "package a\n\nimport \"example.com/org/models/kinds\"\n\nconst A1 kinds.Kind = 1\n"},
			modFile{"b/b.go", "package b\n\nimport \"example.com/org/models/kinds\"\n\nconst B1 kinds.Kind = 2\nconst B2 kinds.Kind = 3\n"}),
		mk("det-many-sql-directives", "package models\n\ntype IdUser int64\ntype IdGroup int64\n\n// gomacro:SQL ADD UNIQUE(Name)\n// gomacro:SQL ADD UNIQUE(Email)\n// gomacro:SQL ADD UNIQUE(Phone)\n// gomacro:SQL ADD UNIQUE(Login, Domain)\n// gomacro:SQL ADD CHECK(Name <> '')\n// gomacro:SQL _SELECT KEY(Login)\n// gomacro:SQL _SELECT KEY(Domain, Phone)\n// gomacro:QUERY ByMail SELECT * FROM User WHERE Email = $mail$;\n// gomacro:QUERY ByPhone SELECT * FROM User WHERE Phone = $p$ AND Domain = $d$;\ntype User struct {\n\tId IdUser\n\tName string\n\tEmail string\n\tPhone string\n\tLogin string\n\tDomain string\n}\n\n// gomacro:SQL ADD UNIQUE(Label)\n// gomacro:SQL ADD UNIQUE(Code)\ntype Group struct {\n\tId IdGroup\n\tLabel string\n\tCode string\n}\n\n// gomacro:SQL ADD UNIQUE(IdUser, IdGroup)\n// gomacro:SQL ADD UNIQUE(IdUser, Rank)\n// gomacro:SQL ADD UNIQUE(IdGroup, Rank)\ntype Member struct {\n\tIdUser IdUser\n\tIdGroup IdGroup\n\tRank int\n}\n"),
		mk("det-many-unions", "package models\n\ntype U1 interface{ is1() }\ntype U2 interface{ is2() }\ntype U3 interface{ is3() }\ntype U4 interface{ is4() }\n\ntype A struct{ X int }\ntype B struct{ Y int }\n\nfunc (A) is1() {}\nfunc (A) is2() {}\nfunc (A) is3() {}\nfunc (A) is4() {}\nfunc (B) is1() {}\nfunc (B) is3() {}\n\ntype S struct {\n\tV1 U1\n\tV2 U2\n\tV3 U3\n\tV4 U4\n}\n"),
	}
}
