package main

// Running the seven generators on an analysis, each with its panic recovered and classified.

import (
	"encoding/json"
	"fmt"
	"path/filepath"
	"sort"
	"strings"

	"go/types"

	"github.com/benoitkugler/gomacro/analysis"
	asqlpkg "github.com/benoitkugler/gomacro/analysis/sql"
	"github.com/benoitkugler/gomacro/generator"
	"github.com/benoitkugler/gomacro/generator/dart"
	"github.com/benoitkugler/gomacro/generator/go/gounions"
	"github.com/benoitkugler/gomacro/generator/go/randdata"
	"github.com/benoitkugler/gomacro/generator/go/sqlcrud"
	gsql "github.com/benoitkugler/gomacro/generator/sql"
	"github.com/benoitkugler/gomacro/generator/typescript"
	"golang.org/x/tools/go/packages"
)

func runGen(f func() string) (out genOut) {
	defer func() {
		if r := recover(); r != nil {
			out.Outcome, out.Msg = panicClass(r)
		}
	}()
	out.Text = f()
	out.Outcome = "ok"
	return out
}

func init() {
	observeGenerators = func(res *obsResult, pkg *packages.Package, an *analysis.Analysis, target string, what string) {
		want := map[string]bool{}
		for _, w := range strings.Split(what, ",") {
			want[w] = true
		}
		all := want["all"]
		if all || want["ts"] {
			res.Gen["ts"] = runGen(func() string { return generator.WriteDeclarations(typescript.Generate(an)) })
		}
		if all || want["sql"] {
			res.Gen["sql"] = runGen(func() string { return generator.WriteDeclarations(gsql.Generate(an)) })
		}
		if all || want["gounions"] {
			res.Gen["gounions"] = runGen(func() string { return generator.WriteDeclarations(gounions.Generate(an)) })
		}
		if all || want["randdata"] {
			res.Gen["randdata"] = runGen(func() string { return generator.WriteDeclarations(randdata.Generate(an)) })
		}
		if all || want["sqlcrud"] {
			res.Gen["sqlcrud"] = runGen(func() string { return generator.WriteDeclarations(sqlcrud.Generate(an, false)) })
			res.Gen["sqlcrud_sets"] = runGen(func() string { return generator.WriteDeclarations(sqlcrud.Generate(an, true)) })
		}
		if want["decls"] {
			// the declaration lists as the generators hand them to WriteDeclarations (C19: equal IDs carry equal content)
			res.Gen["decls"] = runGen(func() string {
				type d struct {
					ID, Content string
					Prio        bool
				}
				lists := map[string][]d{}
				conv := func(name string, l []generator.Declaration) {
					out := make([]d, len(l))
					for i, x := range l {
						out[i] = d{x.ID, x.Content, x.Priority}
					}
					lists[name] = out
				}
				try := func(name string, f func() []generator.Declaration) {
					defer func() { recover() }() // refusals are the business of C18
					conv(name, f())
				}
				try("ts", func() []generator.Declaration { return typescript.Generate(an) })
				try("sql", func() []generator.Declaration { return gsql.Generate(an) })
				try("gounions", func() []generator.Declaration { return gounions.Generate(an) })
				try("randdata", func() []generator.Declaration { return randdata.Generate(an) })
				try("sqlcrud", func() []generator.Declaration { return sqlcrud.Generate(an, false) })
				try("sqlcrud_sets", func() []generator.Declaration { return sqlcrud.Generate(an, true) })
				func() {
					defer func() { recover() }()
					for _, o := range dart.Generate(filepath.Dir(target), []*analysis.Analysis{an}) {
						conv("dart:"+o.Filename, o.Content)
					}
				}()
				b, _ := json.Marshal(lists)
				return string(b)
			})
		}
		if want["tables"] {
			out := runGen(func() string { return coqTableFacts(pkg, an) })
			res.Gen["tables"] = out
			res.Gen["tables_json"] = runGen(func() string { return jsonTableFacts(an) })
		}
		if all || want["dart"] {
			// the root directory as LoadSources computes it for a single file
			root := filepath.Dir(target)
			res.Gen["dart_root"] = genOut{Outcome: "ok", Text: filepath.ToSlash(root)}
			res.Gen["dart"] = runGen(func() string {
				outs := dart.Generate(root, []*analysis.Analysis{an})
				sort.Slice(outs, func(i, j int) bool { return outs[i].Filename < outs[j].Filename })
				var sb strings.Builder
				for _, o := range outs {
					fmt.Fprintf(&sb, "//// FILE %s\n%s\n", o.Filename, generator.WriteDeclarations(o.Content))
				}
				return sb.String()
			})
		}
	}
}

// coqTableFacts renders what analysis/sql exposes of every table of the file (Coq: list tbl_obs)
func coqTableFacts(pkg *packages.Package, an *analysis.Analysis) string {
	qual := generator.NameRelativeTo(pkg.Types)
	var items []string
	for _, ta := range asqlpkg.SelectTables(an) {
		var cols []string
		for _, c := range ta.Columns {
			_, g := c.Field.IsSQLGuard()
			cols = append(cols, fmt.Sprintf("{| co_field := %s; co_guard := %s |}", coqStr(c.Field.Field.Name()), coqBool(g)))
		}
		prim, idt := "None", ""
		if p := ta.Primary(); p >= 0 {
			prim = fmt.Sprintf("(Some %d)", p)
			idt = types.TypeString(ta.Columns[p].Field.Type.Type(), qual)
		}
		var fks []string
		for _, k := range ta.ForeignKeys() {
			fks = append(fks, fmt.Sprintf("{| fk_field := %s; fk_nullable := %s; fk_unique := %s; fk_idtype := %s |}",
				coqStr(k.F.Field.Name()), coqBool(k.IsNullable()), coqBool(k.IsUnique), coqStr(types.TypeString(k.TargetIDType(), qual))))
		}
		group := func(gs [][]asqlpkg.Column) string {
			var out []string
			for _, g := range gs {
				var names []string
				for _, c := range g {
					names = append(names, c.Field.Field.Name())
				}
				out = append(out, coqStrList(names))
			}
			return coqList(out)
		}
		items = append(items, fmt.Sprintf("{| to_go := %s; to_cols := %s; to_primary := %s; to_idtype := %s; to_fks := %s; to_uniques := %s; to_keys := %s |}",
			coqStr(string(ta.TableName())), coqList(cols), prim, coqStr(idt), coqList(fks), group(ta.AdditionalUniqueCols()), group(ta.SelectKeys())))
	}
	return coqListNL(items)
}

// jsonTableFacts: the same facts for the C05 oracle binary
func jsonTableFacts(an *analysis.Analysis) string {
	type fk struct {
		Field    string
		Nullable bool
		Unique   bool
	}
	type tbl struct {
		Name    string
		Primary string
		Columns []string
		FKs     []fk
		Uniques [][]string
		Keys    [][]string
	}
	var out []tbl
	for _, ta := range asqlpkg.SelectTables(an) {
		t := tbl{Name: string(ta.TableName())}
		for _, c := range ta.Columns {
			if _, g := c.Field.IsSQLGuard(); !g {
				t.Columns = append(t.Columns, c.Field.Field.Name())
			}
		}
		if p := ta.Primary(); p >= 0 {
			t.Primary = ta.Columns[p].Field.Field.Name()
		}
		for _, k := range ta.ForeignKeys() {
			t.FKs = append(t.FKs, fk{k.F.Field.Name(), k.IsNullable(), k.IsUnique})
		}
		names := func(gs [][]asqlpkg.Column) [][]string {
			var o [][]string
			for _, g := range gs {
				var n []string
				for _, c := range g {
					n = append(n, c.Field.Field.Name())
				}
				o = append(o, n)
			}
			return o
		}
		t.Uniques, t.Keys = names(ta.AdditionalUniqueCols()), names(ta.SelectKeys())
		out = append(out, t)
	}
	b, _ := json.Marshal(out)
	return string(b)
}
