package main

// Running the seven generators on an analysis, each with its panic recovered and classified.

import (
	"fmt"
	"path/filepath"
	"sort"
	"strings"

	"github.com/benoitkugler/gomacro/analysis"
	"github.com/benoitkugler/gomacro/generator"
	"github.com/benoitkugler/gomacro/generator/dart"
	"github.com/benoitkugler/gomacro/generator/go/gounions"
	"github.com/benoitkugler/gomacro/generator/go/randdata"
	"github.com/benoitkugler/gomacro/generator/go/sqlcrud"
	gsql "github.com/benoitkugler/gomacro/generator/sql"
	"github.com/benoitkugler/gomacro/generator/typescript"
	"golang.org/x/tools/go/packages"
)

func runGen(f func() string) (out genOut) {
	defer func() {
		if r := recover(); r != nil {
			out.Outcome, out.Msg = panicClass(r)
		}
	}()
	out.Text = f()
	out.Outcome = "ok"
	return out
}

func init() {
	observeGenerators = func(res *obsResult, pkg *packages.Package, an *analysis.Analysis, target string, what string) {
		want := map[string]bool{}
		for _, w := range strings.Split(what, ",") {
			want[w] = true
		}
		all := want["all"]
		if all || want["ts"] {
			res.Gen["ts"] = runGen(func() string { return generator.WriteDeclarations(typescript.Generate(an)) })
		}
		if all || want["sql"] {
			res.Gen["sql"] = runGen(func() string { return generator.WriteDeclarations(gsql.Generate(an)) })
		}
		if all || want["gounions"] {
			res.Gen["gounions"] = runGen(func() string { return generator.WriteDeclarations(gounions.Generate(an)) })
		}
		if all || want["randdata"] {
			res.Gen["randdata"] = runGen(func() string { return generator.WriteDeclarations(randdata.Generate(an)) })
		}
		if all || want["sqlcrud"] {
			res.Gen["sqlcrud"] = runGen(func() string { return generator.WriteDeclarations(sqlcrud.Generate(an, false)) })
			res.Gen["sqlcrud_sets"] = runGen(func() string { return generator.WriteDeclarations(sqlcrud.Generate(an, true)) })
		}
		if all || want["dart"] {
			// the root directory as LoadSources computes it for a single file
			root := filepath.Dir(target)
			res.Gen["dart"] = runGen(func() string {
				outs := dart.Generate(root, []*analysis.Analysis{an})
				sort.Slice(outs, func(i, j int) bool { return outs[i].Filename < outs[j].Filename })
				var sb strings.Builder
				for _, o := range outs {
					fmt.Fprintf(&sb, "//// FILE %s\n%s\n", o.Filename, generator.WriteDeclarations(o.Content))
				}
				return sb.String()
			})
		}
	}
}
